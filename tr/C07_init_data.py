"""C07 translator 4/4: the one statement of Chemical._init_data that derives the entropy of fusion,
    self._Sfus = <expr>
-> Gallina `init_data_Sfus`.  Accepted in <expr>: `a if c else b` (nested), None, float literals,
+ - * /, the parameters `Hfus`, `Tm` of _init_data (what the caller passed, possibly None) and the
attributes `self._Hfus`, `self._Tm` provided they are assigned by an earlier top-level statement of
_init_data (the stored values: user value or database value).  Conditions: `x is None`,
`x is not None`, `not c`, `a or b`, `a and b`, and bare names (truthiness).  Anything else,
zero or several assignments to self._Sfus, is a TranslatorError."""
import ast, os
from C07_pysubset import Src, ExprTr, TranslatorError, strip_docstring, header
from C07_init_energies import find_method

REL = 'thermosteam/_chemical.py'


def run(repo, out_dir):
    src = Src(repo, REL)
    fn = find_method(src, 'Chemical', '_init_data')
    params = [a.arg for a in fn.args.args]
    for need in ('self', 'Hfus', 'Tm'):
        if need not in params:
            src.err(fn, f'_init_data has no parameter {need}')
    body = strip_docstring(src, fn.body)
    stored = {}        # attribute -> index of the (first) top-level statement assigning it
    sfus = []
    for k, st in enumerate(body):
        for x in ast.walk(st):
            if isinstance(x, ast.Attribute) and isinstance(x.ctx, ast.Store) and isinstance(x.value, ast.Name) and x.value.id == 'self':
                if x.attr == '_Sfus':
                    if not (isinstance(st, ast.Assign) and len(st.targets) == 1 and st.targets[0] is x):
                        src.err(st, 'self._Sfus is assigned inside a compound statement or a chained assignment')
                    sfus.append((k, st))
                else:
                    stored.setdefault(x.attr, k)
    if len(sfus) != 1:
        src.err(fn, f'expected exactly one assignment to self._Sfus in _init_data, found {len(sfus)}')
    k0, st = sfus[0]
    # a parameter that is re-bound before the statement no longer denotes the caller's argument
    rebound = set()
    for st2 in body[:k0]:
        for x in ast.walk(st2):
            if isinstance(x, ast.Name) and isinstance(x.ctx, ast.Store):
                rebound.add(x.id)

    def var(n):
        if isinstance(n, ast.Name) and n.id in ('Hfus', 'Tm'):
            if n.id in rebound:
                src.err(n, f'parameter {n.id} is re-bound before self._Sfus is computed')
            return n.id
        if isinstance(n, ast.Attribute) and isinstance(n.value, ast.Name) and n.value.id == 'self' and n.attr in ('_Hfus', '_Tm'):
            if stored.get(n.attr, 10 ** 9) >= k0:
                src.err(n, f'self.{n.attr} is read before it is assigned')
            return 'self' + n.attr
        return None

    def name(n):
        v = var(n)
        if v is None:
            src.err(n, f'{src.seg(n)!r} is not Hfus, Tm, self._Hfus or self._Tm')
        return f'(pv {v})'

    class Tr(ExprTr):
        def tr(self, n):
            if isinstance(n, ast.Attribute):
                return name(n)
            if isinstance(n, ast.IfExp):
                return f'(if {cond(n.test)} then {self.tr(n.body)} else {self.tr(n.orelse)})'
            return super().tr(n)

    def cond(n):
        if isinstance(n, ast.BoolOp):
            op = 'orb' if isinstance(n.op, ast.Or) else 'andb'
            parts = [cond(x) for x in n.values]
            t = parts[-1]
            for x in reversed(parts[:-1]):
                t = f'({op} {x} {t})'
            return t
        if isinstance(n, ast.UnaryOp) and isinstance(n.op, ast.Not):
            return f'(negb {cond(n.operand)})'
        if isinstance(n, ast.Compare) and len(n.ops) == 1 and isinstance(n.comparators[0], ast.Constant) \
                and n.comparators[0].value is None and isinstance(n.ops[0], (ast.Is, ast.IsNot)):
            v = var(n.left)
            if v is None:
                src.err(n, 'comparison operand is outside the subset')
            return f'(is_none {v})' if isinstance(n.ops[0], ast.Is) else f'(negb (is_none {v}))'
        v = var(n)
        if v is not None:
            return f'(truthy O {v})'
        src.err(n, 'condition is outside the subset')

    term = Tr(src, name, lambda n: None, None, ()).tr(st.value)
    out = header('tr/C07_init_data.py', [src], [f'Chemical._init_data: self._Sfus (line {st.lineno})'])
    out += 'From V Require Import Common.Num C07.Model.\n\n'
    out += (f'(* {REL}:{st.lineno}  {src.seg(st).strip()} *)\n'
            'Definition init_data_Sfus {A : Type} (E : env A) (Hfus Tm : option A) (self_Hfus self_Tm : option A) : pyv A :=\n'
            f'  let O := eO E in\n  {term}.\n')
    import vf
    vf.write_if_changed(os.path.join(out_dir, 'Gen_InitData.v'), out)
    return {'file': 'coq/C07/Gen_InitData.v', 'source': REL, 'sha256': src.sha, 'statement_line': st.lineno,
            'statement': src.seg(st).strip()}
