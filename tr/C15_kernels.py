"""C15 translator: python ast -> Gallina for the LLE/SLE kernels.  Fail closed: any node outside the
subset raises TranslatorError naming file, line and node type.

Generated (coq/C15/Gen_kernels.v):
  inner_loop                 <- lle.py      psuedo_equilibrium_inner_loop          (whole function)
  compute_phase_fraction_2N  <- binary_phase_fraction.py compute_phase_fraction_2N (whole function)
  use_cache_test             <- lle.py      LLE.__call__, the assignment `use_cache = (...)` (expression)
  update_solubility          <- sle.py      SLE._update_solubility                 (whole method)

Kinds: S scalar (Q), V vector (list Q), N nat, B bool, I fancy index (sel), G activity-coefficient oracle,
L opaque list object, X ignored.  Division and shape-sensitive vector operations are emitted as binds in
the `res` monad (Base.v: qdivc, vdivc, vdivsc, sdivvc, vop2, set_tail, set_head)."""
import ast, os, hashlib
from fractions import Fraction


class TranslatorError(Exception):
    pass


def qlit(x):
    f = Fraction(x)
    return f'({f.numerator} # {f.denominator})' if f >= 0 else f'(-{-f.numerator} # {f.denominator})'


class Fn:
    """Translate one function body."""

    def __init__(self, path, node, kinds, attrs=None, calls=None, pure=False):
        self.path = path
        self.node = node
        self.kinds = dict(kinds)            # python name -> kind
        self.attrs = attrs or {}            # self.<attr> -> (gallina name, kind)
        self.calls = calls or {}
        self.lines = []                     # emitted binds / lets
        self.tmp = 0
        self.pure = pure                    # boolean-expression mode: no binds allowed
        self.ver = {}                       # python name -> current gallina name

    # -- errors
    def bad(self, node, why=''):
        raise TranslatorError(f'{self.path}:{getattr(node, "lineno", "?")}: unsupported {type(node).__name__} {why}'.strip())

    def fresh(self):
        self.tmp += 1
        return f't{self.tmp}_'

    def emit_bind(self, node, expr):
        if self.pure:
            self.bad(node, '(checked operation inside a boolean expression)')
        t = self.fresh()
        self.lines.append(f'do {t} <- {expr};')
        return t

    def name_of(self, pyname):
        return self.ver.get(pyname, pyname)

    def assign(self, pyname, expr, kind, monadic=False):
        g = pyname if pyname not in ('x', 'y', 'z', 'K', 'phi') or True else pyname
        # shadowing lets are fine in Gallina
        if monadic:
            self.lines.append(f'do {g} <- {expr};')
        else:
            self.lines.append(f'let {g} := {expr} in')
        self.kinds[pyname] = kind

    # -- expressions: returns (gallina, kind)
    def expr(self, e):
        if isinstance(e, ast.Constant):
            if isinstance(e.value, bool) or not isinstance(e.value, (int, float)):
                self.bad(e, repr(e.value))
            return qlit(e.value), 'S'
        if isinstance(e, ast.Name):
            if e.id not in self.kinds:
                self.bad(e, f'(unknown name {e.id})')
            return e.id, self.kinds[e.id]
        if isinstance(e, ast.Attribute):
            if isinstance(e.value, ast.Name) and e.value.id == 'self' and e.attr in self.attrs:
                return self.attrs[e.attr]
            self.bad(e, f'(attribute {ast.unparse(e)})')
        if isinstance(e, ast.UnaryOp) and isinstance(e.op, ast.USub):
            a, k = self.expr(e.operand)
            if k == 'S':
                return f'(- {a})', 'S'
            if k == 'V':
                return f'(map Qopp {a})', 'V'
            self.bad(e)
        if isinstance(e, ast.BinOp):
            return self.binop(e)
        if isinstance(e, ast.Compare):
            return self.compare(e)
        if isinstance(e, ast.BoolOp):
            parts = [self.expr(v) for v in e.values]
            if any(k != 'B' for _, k in parts):
                self.bad(e, '(non-boolean operand)')
            op = ' && ' if isinstance(e.op, ast.And) else ' || '
            return '(' + op.join(p for p, _ in parts) + ')', 'B'
        if isinstance(e, ast.Subscript):
            return self.subscript(e)
        if isinstance(e, ast.Call):
            return self.call(e)
        self.bad(e)

    def binop(self, e):
        a, ka = self.expr(e.left)
        b, kb = self.expr(e.right)
        ops = {ast.Add: ('+', 'Qplus'), ast.Sub: ('-', 'Qminus'), ast.Mult: ('*', 'Qmult')}
        if type(e.op) in ops:
            sym, fn = ops[type(e.op)]
            if (ka, kb) == ('S', 'S'):
                return f'({a} {sym} {b})', 'S'
            if (ka, kb) == ('V', 'S'):
                return f'(map (fun e_ => e_ {sym} {b}) {a})', 'V'
            if (ka, kb) == ('S', 'V'):
                return f'(map (fun e_ => {a} {sym} e_) {b})', 'V'
            if (ka, kb) == ('V', 'V'):
                if self.pure:
                    return f'(map2 {fn} {a} {b})', 'V'
                return self.emit_bind(e, f'vop2 {fn} {a} {b}'), 'V'
            self.bad(e, f'(kinds {ka},{kb})')
        if isinstance(e.op, ast.Div):
            if (ka, kb) == ('S', 'S'):
                return self.emit_bind(e, f'qdivc {a} {b}'), 'S'
            if (ka, kb) == ('V', 'S'):
                return self.emit_bind(e, f'vdivsc {a} {b}'), 'V'
            if (ka, kb) == ('S', 'V'):
                return self.emit_bind(e, f'sdivvc {a} {b}'), 'V'
            if (ka, kb) == ('V', 'V'):
                return self.emit_bind(e, f'vdivc {a} {b}'), 'V'
            self.bad(e, f'(kinds {ka},{kb})')
        self.bad(e, f'(operator {type(e.op).__name__})')

    def compare(self, e):
        if len(e.ops) != 1:
            self.bad(e, '(chained comparison)')
        a, ka = self.expr(e.left)
        b, kb = self.expr(e.comparators[0])
        op = e.ops[0]
        if (ka, kb) == ('L', 'L') and isinstance(op, ast.Eq):
            return f'(same_{a}_{b})', 'B'
        def cmp(x, y):
            if isinstance(op, ast.Lt): return f'qltb {x} {y}'
            if isinstance(op, ast.LtE): return f'qleb {x} {y}'
            if isinstance(op, ast.Gt): return f'qltb {y} {x}'
            if isinstance(op, ast.GtE): return f'qleb {y} {x}'
            self.bad(e, f'(comparison {type(op).__name__})')
        if (ka, kb) == ('S', 'S'):
            return f'({cmp(a, b)})', 'B'
        if (ka, kb) == ('V', 'S'):
            return f'(fun e_ => {cmp("e_", b)}) @@ {a}', 'VB'     # boolean mask, only consumed by .all()
        self.bad(e, f'(kinds {ka},{kb})')

    def subscript(self, e):
        a, ka = self.expr(e.value)
        if ka != 'V':
            self.bad(e, '(subscript of a non-vector)')
        s = e.slice
        if isinstance(s, ast.Slice):
            if s.step is not None:
                self.bad(e, '(slice step)')
            if s.lower is None and s.upper is not None:
                n, kn = self.expr(s.upper)
                if kn != 'N': self.bad(e, '(slice bound)')
                return f'(firstn {n} {a})', 'V'
            if s.upper is None and s.lower is not None:
                n, kn = self.expr(s.lower)
                if kn != 'N': self.bad(e, '(slice bound)')
                return f'(skipn {n} {a})', 'V'
            self.bad(e, '(slice form)')
        i, ki = self.expr(s)
        if ki == 'N':
            return f'(nthq {a} {i})', 'S'
        if ki == 'I':
            return f'(sel_pick {a} {i})', 'V'
        self.bad(e, f'(index kind {ki})')

    def call(self, e):
        f = e.func
        if e.keywords:
            self.bad(e, '(keyword arguments)')
        # method calls
        if isinstance(f, ast.Attribute) and not (isinstance(f.value, ast.Name) and f.value.id == 'np'):
            if f.attr == 'all' and not e.args:
                m, km = self.expr(f.value)
                if km != 'VB': self.bad(e, '(.all() of a non-mask)')
                pred, vec = m.split(' @@ ', 1)
                return f'(forallb {pred} {vec})', 'B'
            a, ka = self.expr(f.value)
            if f.attr == 'sum' and not e.args and ka == 'V':
                return f'(qsum {a})', 'S'
            if f.attr == 'copy' and not e.args and ka == 'V':
                return a, 'V'
            self.bad(e, f'(method {f.attr})')
        name = ast.unparse(f)
        if name in ('np.exp', 'np.log'):
            if len(e.args) != 1: self.bad(e)
            a, ka = self.expr(e.args[0])
            g = 'fexp' if name == 'np.exp' else 'fln'
            if ka == 'V': return f'(map {g} {a})', 'V'
            if ka == 'S': return f'({g} {a})', 'S'
            self.bad(e)
        if name in ('abs', 'np.abs'):
            if len(e.args) != 1: self.bad(e)
            a, ka = self.expr(e.args[0])
            if ka == 'V': return f'(map Qabs {a})', 'V'
            if ka == 'S': return f'(Qabs {a})', 'S'
            self.bad(e)
        if isinstance(f, ast.Name) and self.kinds.get(f.id) == 'G':
            # f_gamma(x, T, *gamma_args): the oracle at fixed T and parameters
            if len(e.args) != 3 or not isinstance(e.args[2], ast.Starred):
                self.bad(e, '(activity-coefficient call shape)')
            a, ka = self.expr(e.args[0])
            if ka != 'V' or self.expr(e.args[1])[1] != 'X':
                self.bad(e, '(activity-coefficient call arguments)')
            return f'({f.id} {a})', 'V'
        self.bad(e, f'(call of {name})')

    # -- statements
    def stmt_assign(self, st):
        if isinstance(st, ast.AugAssign):
            tgt = st.target
            if not isinstance(tgt, ast.Name): self.bad(st)
            fake = ast.BinOp(left=ast.Name(id=tgt.id, ctx=ast.Load()), op=st.op, right=st.value)
            ast.copy_location(fake, st); ast.fix_missing_locations(fake)
            g, k = self.expr(fake)
            self.assign(tgt.id, g, k)
            return
        g, k = self.expr(st.value)
        # python evaluates the value once and assigns to the targets left to right
        if len(st.targets) > 1:
            t = self.fresh()
            self.lines.append(f'let {t} := {g} in')
            g = t
        for tgt in st.targets:
            if isinstance(tgt, ast.Name):
                self.assign(tgt.id, g, k)
            elif isinstance(tgt, ast.Subscript) and isinstance(tgt.value, ast.Name):
                arr = tgt.value.id
                if self.kinds.get(arr) != 'V': self.bad(st, '(store into a non-vector)')
                s = tgt.slice
                if isinstance(s, ast.Slice):
                    if s.step is not None: self.bad(st)
                    if k != 'V': self.bad(st, '(slice store of a non-vector)')
                    if s.lower is not None and s.upper is None:
                        n, kn = self.expr(s.lower)
                        if kn != 'N': self.bad(st)
                        self.assign(arr, f'set_tail {n} {arr} {g}', 'V', monadic=True)
                    elif s.upper is not None and s.lower is None:
                        n, kn = self.expr(s.upper)
                        if kn != 'N': self.bad(st)
                        self.assign(arr, f'set_head {n} {arr} {g}', 'V', monadic=True)
                    else:
                        self.bad(st, '(slice store form)')
                else:
                    i, ki = self.expr(s)
                    if ki != 'N' or k != 'S': self.bad(st, '(element store)')
                    self.assign(arr, f'upd {arr} {i} {g}', 'V')
            elif isinstance(tgt, ast.Tuple):
                self.bad(st, '(tuple target)')
            else:
                self.bad(st)

    def block(self, stmts, final):
        """Emit statements; `final` = text returned at the end of a block that falls through."""
        out_start = len(self.lines)
        for n, st in enumerate(stmts):
            if isinstance(st, ast.Expr) and isinstance(st.value, ast.Constant) and isinstance(st.value.value, str):
                continue
            if isinstance(st, (ast.Assign, ast.AugAssign)):
                # tuple unpacking of a vector into scalars:  z1, z2 = zs
                if isinstance(st, ast.Assign) and len(st.targets) == 1 and isinstance(st.targets[0], ast.Tuple):
                    names = st.targets[0].elts
                    if not all(isinstance(x, ast.Name) for x in names): self.bad(st)
                    g, k = self.expr(st.value)
                    if k != 'V': self.bad(st, '(unpacking a non-vector)')
                    pat = '[' + '; '.join(x.id for x in names) + ']'
                    for x in names: self.kinds[x.id] = 'S'
                    rest = self.sub_block(stmts[n + 1:], final)
                    self.lines.append(f'match {g} with {pat} => {rest} | _ => Err EValue end')
                    return
                self.stmt_assign(st)
                continue
            if isinstance(st, ast.Return):
                if n != len(stmts) - 1: self.bad(st, '(return before the end of a block)')
                g, k = self.expr(st.value)
                self.lines.append(f'Ok {g}')
                return
            if isinstance(st, ast.If):
                if n != len(stmts) - 1: self.bad(st, '(if that is not the last statement)')
                c, kc = self.expr(st.test)
                if kc != 'B': self.bad(st, '(non-boolean test)')
                saved = dict(self.kinds)
                a = self.sub_block(st.body, final)
                self.kinds = dict(saved)
                b = self.sub_block(st.orelse, final) if st.orelse else f'Ok {final}'
                self.kinds = saved
                self.lines.append(f'if {c} then ({a}) else ({b})')
                return
            self.bad(st)
        if final is None:
            raise TranslatorError(f'{self.path}: function {self.node.name} falls through without a return')
        self.lines.append(f'Ok {final}')

    def sub_block(self, stmts, final):
        saved = self.lines
        self.lines = []
        self.block(stmts, final)
        txt = '\n    '.join(self.lines)
        self.lines = saved
        return txt

    def body(self, final=None):
        self.block(self.node.body, final)
        return '\n  '.join(self.lines)


def find_function(tree, qual):
    parts = qual.split('.')
    nodes = tree.body
    found = None
    for p in parts:
        found = None
        for nd in nodes:
            if isinstance(nd, (ast.FunctionDef, ast.ClassDef)) and nd.name == p:
                found = nd
                break
        if found is None:
            return None
        nodes = found.body
    return found


ALLOWED_DECORATORS = {'njit(cache=True)', 'njit', 'property', 'functor'}


def load(repo, rel, qual):
    path = os.path.join(repo, rel)
    src = open(path).read()
    tree = ast.parse(src)
    fn = find_function(tree, qual)
    if fn is None or not isinstance(fn, ast.FunctionDef):
        raise TranslatorError(f'{rel}: function {qual} not found')
    for d in fn.decorator_list:
        if ast.unparse(d) not in ALLOWED_DECORATORS:
            raise TranslatorError(f'{rel}:{d.lineno}: decorator {ast.unparse(d)} not allowed')
    return path, fn, ast.get_source_segment(src, fn)


def params(fn):
    a = fn.args
    if a.vararg or a.kwarg or a.kwonlyargs or a.defaults and fn.name not in ():
        pass
    return [x.arg for x in a.args]


def translate(repo, out_path):
    pieces = []
    sources = []

    # 1. psuedo_equilibrium_inner_loop
    rel = 'thermosteam/equilibrium/lle.py'
    path, fn, seg = load(repo, rel, 'psuedo_equilibrium_inner_loop')
    if params(fn) != ['logKgammay', 'z', 'T', 'n', 'f_gamma', 'gamma_args', 'phi']:
        raise TranslatorError(f'{rel}:{fn.lineno}: unexpected signature {params(fn)}')
    t = Fn(rel, fn, {'logKgammay': 'V', 'z': 'V', 'T': 'X', 'n': 'N', 'f_gamma': 'G', 'gamma_args': 'X', 'phi': 'S'})
    body = t.body()
    pieces.append('(* lle.py: psuedo_equilibrium_inner_loop (lines %d-%d) *)\n'
                  'Definition inner_loop (fexp fln : Q -> Q) (f_gamma : vec -> vec) (logKgammay z : vec) (n : nat) (phi : Q) : res vec :=\n  %s.\n'
                  % (fn.lineno, fn.end_lineno, body))
    sources.append((rel, 'psuedo_equilibrium_inner_loop', seg))

    # 2. compute_phase_fraction_2N
    rel2 = 'thermosteam/equilibrium/binary_phase_fraction.py'
    path, fn, seg = load(repo, rel2, 'compute_phase_fraction_2N')
    if params(fn) != ['zs', 'Ks']:
        raise TranslatorError(f'{rel2}:{fn.lineno}: unexpected signature {params(fn)}')
    t = Fn(rel2, fn, {'zs': 'V', 'Ks': 'V'})
    body = t.body()
    pieces.append('(* binary_phase_fraction.py: compute_phase_fraction_2N (lines %d-%d) *)\n'
                  'Definition compute_phase_fraction_2N (zs Ks : vec) : res Q :=\n  %s.\n' % (fn.lineno, fn.end_lineno, body))
    sources.append((rel2, 'compute_phase_fraction_2N', seg))

    # 3. the cache decision of LLE.__call__
    path, fn, seg = load(repo, rel, 'LLE.__call__')
    target = None
    for nd in ast.walk(fn):
        if isinstance(nd, ast.Assign) and len(nd.targets) == 1 and isinstance(nd.targets[0], ast.Name) \
                and nd.targets[0].id == 'use_cache':
            if target is not None:
                raise TranslatorError(f'{rel}:{nd.lineno}: more than one assignment to use_cache')
            target = nd
    if target is None:
        raise TranslatorError(f'{rel}: LLE.__call__ has no assignment to use_cache')
    t = Fn(rel, fn, {'use_cache': 'B', 'T': 'S', 'z_mol': 'V', 'lle_chemicals': 'L'},
           attrs={'_T': ('sT', 'S'), '_z_mol': ('sz', 'V'), '_lle_chemicals': ('chems', 'L'),
                  'temperature_cache_tolerance': ('tolT', 'S'), 'composition_cache_tolerance': ('tolz', 'S')},
           pure=True)
    g, k = t.expr(target.value)
    if k != 'B':
        raise TranslatorError(f'{rel}:{target.lineno}: use_cache is not a boolean expression')
    pieces.append('(* lle.py: LLE.__call__, `use_cache = ...` (line %d); same_chems_lle_chemicals stands for\n'
                  '   `self._lle_chemicals == lle_chemicals` *)\n'
                  'Definition use_cache_expr (use_cache same_chems_lle_chemicals : bool) (T sT tolT : Q) (sz z_mol : vec) (tolz : Q) : bool :=\n  %s.\n'
                  % (target.lineno, g))
    sources.append((rel, 'LLE.__call__ use_cache', ast.get_source_segment(open(os.path.join(repo, rel)).read(), target)))

    # 4. SLE._update_solubility
    rel3 = 'thermosteam/equilibrium/sle.py'
    path, fn, seg = load(repo, rel3, 'SLE._update_solubility')
    if params(fn) != ['self', 'x']:
        raise TranslatorError(f'{rel3}:{fn.lineno}: unexpected signature {params(fn)}')
    t = Fn(rel3, fn, {'x': 'S'},
           attrs={'_solute_index': ('solute_index0', 'N'), '_liquid_mol': ('liquid_mol0', 'V'),
                  '_solid_mol': ('solid_mol0', 'V'), '_index': ('index0', 'I'), '_mol_solute': ('mol_solute0', 'S')})
    body = t.body(final='(liquid_mol, solid_mol)')
    for need in ('liquid_mol', 'solid_mol'):
        if t.kinds.get(need) != 'V':
            raise TranslatorError(f'{rel3}:{fn.lineno}: _update_solubility no longer binds {need}')
    pieces.append('(* sle.py: SLE._update_solubility (lines %d-%d); returns the two arrays it mutates *)\n'
                  'Definition update_solubility (solute_index0 : nat) (index0 : sel) (mol_solute0 : Q) (liquid_mol0 solid_mol0 : vec) (x : Q) : res (vec * vec) :=\n  %s.\n'
                  % (fn.lineno, fn.end_lineno, body))
    sources.append((rel3, 'SLE._update_solubility', seg))

    # 5. the cache key of GroupActivityCoefficients.__new__ (thermo.Gamma(chemicals) as used by LLE and SLE)
    rel4 = 'thermosteam/equilibrium/activity_coefficients.py'
    path, fn, seg = load(repo, rel4, 'GroupActivityCoefficients.__new__')
    if params(fn) != ['cls', 'chemicals']:
        raise TranslatorError(f'{rel4}:{fn.lineno}: unexpected signature {params(fn)}')
    def bad(node, why):
        raise TranslatorError(f'{rel4}:{getattr(node, "lineno", fn.lineno)}: GroupActivityCoefficients.__new__: {why}')
    def is_cached(e):
        return isinstance(e, ast.Attribute) and e.attr == '_cached' and isinstance(e.value, ast.Name) and e.value.id in ('cls', 'self')
    kinds = {}                                   # name -> 'T' (ordered tuple of the argument) | 'S' (set of the argument)
    lookup = store = order = None
    for st in fn.body:
        if isinstance(st, ast.Assign) and len(st.targets) == 1 and isinstance(st.targets[0], ast.Name) \
                and isinstance(st.value, ast.Call) and isinstance(st.value.func, ast.Name) and len(st.value.args) == 1 \
                and isinstance(st.value.args[0], ast.Name) and not st.value.keywords:
            fname, arg = st.value.func.id, st.value.args[0].id
            src = 'T' if arg == 'chemicals' and 'chemicals' not in kinds else kinds.get(arg)
            if fname in ('tuple', 'list') and src == 'T': kinds[st.targets[0].id] = 'T'
            elif fname in ('frozenset', 'set') and src in ('T', 'S'): kinds[st.targets[0].id] = 'S'
            elif st.targets[0].id in ('chemicals',) or is_cached(st.value): bad(st, f'unsupported key construction {ast.unparse(st)}')
        if isinstance(st, ast.If) and isinstance(st.test, ast.Compare) and len(st.test.ops) == 1 and isinstance(st.test.ops[0], ast.In) \
                and is_cached(st.test.comparators[0]):
            if lookup is not None: bad(st, 'more than one cache lookup')
            k = st.test.left
            ret = st.body[0] if st.body else None
            if not (isinstance(k, ast.Name) and isinstance(ret, ast.Return) and isinstance(ret.value, ast.Subscript)
                    and is_cached(ret.value.value) and isinstance(ret.value.slice, ast.Name) and ret.value.slice.id == k.id):
                bad(st, f'unsupported cache lookup {ast.unparse(st.test)}')
            lookup = k.id
        if isinstance(st, ast.Assign) and len(st.targets) == 1 and isinstance(st.targets[0], ast.Subscript) and is_cached(st.targets[0].value):
            if not (isinstance(st.targets[0].slice, ast.Name) and isinstance(st.value, ast.Name) and st.value.id == 'self'):
                bad(st, f'unsupported cache store {ast.unparse(st)}')
            store = st.targets[0].slice.id
        if isinstance(st, ast.Assign) and len(st.targets) == 1 and ast.unparse(st.targets[0]) == 'self._chemicals':
            if not isinstance(st.value, ast.Name): bad(st, 'unsupported _chemicals assignment')
            order = st.value.id
    if lookup is None or store is None or order is None:
        bad(fn, 'cache lookup / store / _chemicals assignment not found')
    if lookup != store: bad(fn, f'lookup key {lookup} and store key {store} differ')
    if kinds.get(order) != 'T': bad(fn, f'_chemicals is not the ordered tuple of the argument')
    if kinds.get(lookup) == 'T':
        keydef = 'list_eqb Nat.eqb a b'
    elif kinds.get(lookup) == 'S':
        keydef = 'forallb (fun x_ => existsb (Nat.eqb x_) b) a && forallb (fun x_ => existsb (Nat.eqb x_) a) b'
    else:
        bad(fn, f'cache key {lookup} of unknown construction')
    pieces.append('(* activity_coefficients.py: GroupActivityCoefficients.__new__ (lines %d-%d): equality of the class-level cache key\n'
                  '   (%s of the chemicals); the object found is returned as it is, built for the order of its first request *)\n'
                  'Definition gamma_key_eqb (a b : list nat) : bool :=\n  %s.\n'
                  % (fn.lineno, fn.end_lineno, 'tuple' if kinds[lookup] == 'T' else 'frozenset', keydef))
    sources.append((rel4, 'GroupActivityCoefficients.__new__', seg))

    h = hashlib.sha256('\n'.join(s for _, _, s in sources).encode()).hexdigest()
    text = ('(* GENERATED by tr/C15_kernels.py -- do not edit.  Source sha256 %s\n   functions: %s *)\n'
            'From V Require Export C15.Base.\nOpen Scope Q_scope.\n\n' % (h, ', '.join(f'{r}:{n}' for r, n, _ in sources))
            + '\n'.join(pieces))
    os.makedirs(os.path.dirname(out_path), exist_ok=True)
    try:
        old = open(out_path).read()
    except FileNotFoundError:
        old = None
    if old != text:
        with open(out_path, 'w') as f:
            f.write(text)
    return [{'file': 'coq/C15/Gen_kernels.v', 'sha256_of_source': h, 'functions': [f'{r}:{n}' for r, n, _ in sources]}]


if __name__ == '__main__':
    import sys
    repo = os.environ.get('VERIF_REPO', '/repo')
    out = os.path.join(os.path.dirname(os.path.dirname(os.path.abspath(__file__))), 'coq', 'C15', 'Gen_kernels.v')
    print(translate(repo, out))
