"""C07 translator 7/7: is calling a model handle (Chemical.Cn.l(T), Chemical.Hvap(T), ...) free of state kept between calls?

thermosteam/thermo/t_dependent_property.py replaces thermo's memoising `TDependentProperty.__call__`.  The translator
accepts `TDependentProperty.__call__ = TDependentProperty.T_dependent_property` and
`TDependentProperty.__call__ = <f>` where `def f(self, T[, P=None]): return self.T_dependent_property(T)`; both evaluate
the handle's CURRENT method at T on every call -> `true`.  Any other definition of __call__ (a cache of the last
temperature, ...) -> `false`: thermosteam's `method` setter (_set_method) only assigns `self._method`, it clears nothing.
No assignment at all (thermo's own memoising __call__ stays) -> `false`."""
import ast, os
from C07_pysubset import Src, TranslatorError, strip_docstring, header

REL = 'thermosteam/thermo/t_dependent_property.py'


def run(repo, out_dir):
    src = Src(repo, REL)
    assigns = [st for st in src.tree.body if isinstance(st, ast.Assign) and len(st.targets) == 1
               and src.seg(st.targets[0]).replace(' ', '') == 'TDependentProperty.__call__']
    if len(assigns) > 1:
        src.err(assigns[1], 'TDependentProperty.__call__ is assigned twice')
    stateless, how = False, 'thermo\'s own __call__ (memoises the last temperature)'
    if assigns:
        v = assigns[0].value
        if src.seg(v).replace(' ', '') == 'TDependentProperty.T_dependent_property':
            stateless, how = True, src.seg(assigns[0]).strip()
        elif isinstance(v, ast.Name):
            fns = [x for x in src.tree.body if isinstance(x, ast.FunctionDef) and x.name == v.id and x.lineno < assigns[0].lineno]
            if not fns:
                src.err(assigns[0], f'{v.id} is not a module-level function defined above')
            body = strip_docstring(src, fns[-1].body)
            stateless = (len(body) == 1 and isinstance(body[0], ast.Return)
                         and src.seg(body[0].value).replace(' ', '') == 'self.T_dependent_property(T)')
            how = f'def {v.id} at line {fns[-1].lineno}: ' + ('delegates to T_dependent_property' if stateless else 'keeps state between calls')
        else:
            src.err(assigns[0], 'TDependentProperty.__call__ is assigned something outside the subset')
    setter = [x for x in src.tree.body if isinstance(x, ast.FunctionDef) and x.name == '_set_method']
    if len(setter) != 1:
        raise TranslatorError(f'{REL}: _set_method not found')
    out = header('tr/C07_handles.py', [src], ['TDependentProperty.__call__'])
    out += (f'(* {REL}: {how} *)\n'
            f'Definition handle_call_stateless : bool := {"true" if stateless else "false"}.\n')
    import vf
    vf.write_if_changed(os.path.join(out_dir, 'Gen_Handles.v'), out)
    return {'file': 'coq/C07/Gen_Handles.v', 'source': REL, 'sha256': src.sha, 'handle_call_stateless': stateless, 'how': how}
