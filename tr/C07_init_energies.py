"""C07 translator 2/3: the wiring in Chemical._init_energies (thermosteam/_chemical.py) -> Gallina.

The function is specialised (partially evaluated) for every discrete configuration
  (Cn is a PhaseHandle | chemical is phase-locked at s/l/g | neither) x phase_ref in {s, l, g}
and each specialisation is translated by a small symbolic interpreter:

  statements   Assign (chained targets, tuple literals), If/elif/else, Try with a bare `except:`, Pass
  conditions   names (Python truthiness), and/or/not, ==/!=/is/is not against literals,
               isinstance(Cn, PhaseHandle), any((...)), bool(handle)
  values       None/str/bool literals, names, self.P_ref/T_ref/H_ref/_Tc/_locked_state, Cn.s/.l/.g,
               tuples, `a if c else b`, arithmetic, handle.T_dependent_property_integral[_over_T](a, b),
               Hvap(Tb), <Functor>.functor(args...), <Builder>(sdata, ldata, gdata, Tc)

A condition on data (`if Tm and Tb:`) becomes a Gallina `if`; both branches are translated and the
variables they assign are joined.  Every computation that can raise is sequenced in the `res`
monad in program order.  Things the translator cannot evaluate (the equation-of-state / excess
region) become OPAQUE values; an opaque value (or a functor built with the wrong number of
positional arguments) that can reach `self._H` / `self._S` is a TranslatorError.  Positional
arguments of functors are matched against the signatures parsed from free_energy.py: number of values and,
because thermosteam names the wiring variables after the parameters, their names (= order)."""
import ast, os, copy
from C07_pysubset import Src, ExprTr, TranslatorError, qlit, module_imports, strip_docstring, header, INTEGRALS
from C07_free_energy import is_handle_param

REL = 'thermosteam/_chemical.py'
PARAMS = ['self', 'Cn', 'Hvap', 'Psat', 'Hfus', 'Sfus', 'Tm', 'Tb', 'eos', 'phase_ref', 'S0']
PH = {'s': 'Ps', 'l': 'Pl', 'g': 'Pg'}


class V:
    """symbolic value. kind: num|bool|handle|callable|eh|conc|tuple|opaque|cnobj"""
    def __init__(self, kind, term=None, items=None, why=None):
        self.kind, self.term, self.items, self.why = kind, term, items, why

    def same(self, o):
        if self is o:
            return True
        if self.kind != o.kind:
            return False
        if self.kind == 'tuple':
            return len(self.items) == len(o.items) and all(a.same(b) for a, b in zip(self.items, o.items))
        if self.kind == 'opaque':
            return False
        return self.term == o.term

GTYPE = {'num': 'option A', 'bool': 'bool', 'handle': 'phase', 'callable': 'option (A -> option A)', 'eh': 'ehandle A'}


class Interp:
    def __init__(self, src, fe, cfg, notes):
        self.src, self.fe, self.cfg, self.notes = src, fe, cfg, notes
        self.counter = {}
        self.imports = None
        self.guards = []          # stack of sets of Python names known to be truthy (hence not None) on the current path

    # ------------------------------------------------------------------ naming
    def fresh(self, pyname):
        base = 'v_' + pyname.replace('self.', 'self').replace('.', '_')
        k = self.counter.get(base, 0)
        self.counter[base] = k + 1
        return base if k == 0 else f'{base}_{k}'

    # ------------------------------------------------------------------ environment
    def initial_env(self):
        kind, sp, pr = self.cfg
        env = {
            'Cn': V('cnobj'),
            'Hvap': V('callable', '(d_Hvap d)'),
            'Psat': V('opaque', why='Psat handle'),
            'eos': V('opaque', why='equation of state'),
            'phase_ref': V('conc', pr),
        }
        for n in ('Hfus', 'Sfus', 'Tm', 'Tb', 'S0'):
            env[n] = V('num', f'(d_{n} d)')
        return env

    def self_attr(self, node):
        a = node.attr
        if a in ('P_ref', 'T_ref', 'H_ref'):
            return V('num', f'(d_{a} d)')
        if a == '_Tc':
            return V('opaque', why='critical temperature (passed through to the PhaseHandle only)')
        if a == '_locked_state':
            return V('conc', self.cfg[1])
        self.src.err(node, f'read of self.{a} is outside the subset')

    # ------------------------------------------------------------------ conditions
    def truth(self, v, node):
        if v.kind == 'conc':
            return ('conc', bool(v.term))
        if v.kind == 'num':
            return ('sym', f'(truthy O {v.term})')
        if v.kind == 'bool':
            return ('sym', v.term)
        if v.kind == 'callable':
            return ('sym', f'(truthy_fn {v.term})')
        if v.kind == 'handle':
            return ('sym', f'(d_hasCn d {v.term})')
        if v.kind == 'opaque':
            return ('opaque', v.why)
        self.src.err(node, f'truth value of a {v.kind} is outside the subset')

    def cond(self, n, env):
        if isinstance(n, ast.BoolOp):
            parts = [self.cond(x, env) for x in n.values]
            is_and = isinstance(n.op, ast.And)
            absorbing = not is_and
            if any(k == 'conc' and b == absorbing for k, b in parts):
                return ('conc', absorbing)      # conditions are pure, so later operands do not matter
            parts = [p for p in parts if p[0] != 'conc']
            if not parts:
                return ('conc', is_and)
            if any(k == 'opaque' for k, _ in parts):
                return ('opaque', next(w for k, w in parts if k == 'opaque'))
            t = parts[-1][1]
            for _, x in reversed(parts[:-1]):
                t = f'({"andb" if is_and else "orb"} {x} {t})'
            return ('sym', t)
        if isinstance(n, ast.UnaryOp) and isinstance(n.op, ast.Not):
            k, x = self.cond(n.operand, env)
            if k == 'conc':
                return ('conc', not x)
            if k == 'sym':
                return ('sym', f'(negb {x})')
            return (k, x)
        if isinstance(n, ast.Compare):
            if len(n.ops) != 1:
                self.src.err(n, 'chained comparison is outside the subset')
            a = self.value(n.left, env, pure=True)
            b = self.value(n.comparators[0], env, pure=True)
            op = n.ops[0]
            if a.kind == 'opaque' or b.kind == 'opaque':
                return ('opaque', a.why or b.why)
            if a.kind == 'num' and b.kind == 'num' and isinstance(op, (ast.Lt, ast.LtE, ast.Gt, ast.GtE)):
                # numbers: None < x raises TypeError, so both operands must be guarded by a truthiness test on this path
                for side in (n.left, n.comparators[0]):
                    if not (isinstance(side, ast.Name) and any(side.id in g for g in self.guards)):
                        self.src.err(n, f'{self.src.seg(side)!r} may be None where it is compared (no truthiness test on the path)')
                x, y = a.term, b.term
                if isinstance(op, ast.Lt): return ('sym', f'(py_lt O {x} {y})')
                if isinstance(op, ast.Gt): return ('sym', f'(py_lt O {y} {x})')
                if isinstance(op, ast.LtE): return ('sym', f'(py_le O {x} {y})')
                return ('sym', f'(py_le O {y} {x})')
            if a.kind == 'conc' and b.kind == 'conc':
                if isinstance(op, (ast.Eq, ast.Is)):
                    return ('conc', a.term == b.term)
                if isinstance(op, (ast.NotEq, ast.IsNot)):
                    return ('conc', a.term != b.term)
            self.src.err(n, 'comparison is outside the subset (==, !=, is, is not between configuration values and literals; <, <=, >, >= between guarded numbers)')
        if isinstance(n, ast.Call) and isinstance(n.func, ast.Name) and not n.keywords:
            if n.func.id == 'isinstance' and len(n.args) == 2:
                a = self.value(n.args[0], env, pure=True)
                if a.kind == 'cnobj' and isinstance(n.args[1], ast.Name) and n.args[1].id == 'PhaseHandle':
                    return ('conc', self.cfg[0] == 'handle')
                if a.kind == 'opaque':
                    return ('opaque', a.why)
                self.src.err(n, 'isinstance test is outside the subset')
            if n.func.id == 'any' and len(n.args) == 1 and isinstance(n.args[0], (ast.Tuple, ast.List)):
                fake = ast.BoolOp(op=ast.Or(), values=list(n.args[0].elts))
                ast.copy_location(fake, n)
                return self.cond(fake, env)
            if n.func.id == 'bool' and len(n.args) == 1:
                return self.cond(n.args[0], env)
        if isinstance(n, (ast.Name, ast.Attribute, ast.Constant)):
            return self.truth(self.value(n, env, pure=True), n)
        self.src.err(n, 'condition is outside the subset')

    # ------------------------------------------------------------------ values
    def expr_tr(self, env):
        src = self.src

        def name(n):
            v = self.lookup(n, env)
            if v.kind == 'num':
                return f'(pv {v.term})'
            if v.kind == 'conc' and v.term is None:
                return 'pnone'
            if v.kind == 'opaque':
                raise _Opaque(v.why)
            src.err(n, f'{n.id} is a {v.kind}, not a number')

        def handle(n):
            if isinstance(n, ast.Name):
                v = self.lookup(n, env)
                if v.kind == 'handle':
                    return v.term
                if v.kind == 'cnobj' and self.cfg[0] == 'locked':
                    return PH[self.cfg[1]]
                if v.kind == 'opaque':
                    raise _Opaque(v.why)
            return None

        def call(n):
            if isinstance(n.func, ast.Name) and n.func.id in env and env[n.func.id].kind == 'callable':
                if len(n.args) != 1:
                    src.err(n, 'property handle is called with one argument')
                return f'(call_fn {env[n.func.id].term} {tr.tr(n.args[0])})'
            return None
        tr = ExprTr(src, name, handle, call, ())
        return tr

    def lookup(self, n, env):
        if n.id not in env:
            self.src.err(n, f'name {n.id!r} may be unbound here')
        return env[n.id]

    def opaque_safe(self, n, env):
        """an expression that may be treated as opaque: no mention of self, every name opaque or literal"""
        for x in ast.walk(n):
            if isinstance(x, ast.Name):
                if x.id == 'self':
                    return False
            elif isinstance(x, (ast.Lambda, ast.Await, ast.Yield, ast.YieldFrom, ast.NamedExpr)):
                return False
        roots = [x for x in ast.walk(n) if isinstance(x, ast.Call)]
        for c in roots:
            f = c.func
            while isinstance(f, ast.Attribute):
                f = f.value
            if not (isinstance(f, ast.Name) and f.id in env and env[f.id].kind == 'opaque'):
                return False
        return True

    def value(self, n, env, pure=False):
        """returns a V, or ('m', term) for a computation of type pyv A that must be sequenced"""
        src = self.src
        if isinstance(n, ast.Constant):
            if n.value is None or isinstance(n.value, (str, bool)):
                return V('conc', n.value)
            if isinstance(n.value, (int, float)):
                return V('num', f'(Some (oofQ O {qlit(n.value)}))')
            src.err(n, 'literal is outside the subset')
        if isinstance(n, ast.Name):
            return self.lookup(n, env)
        if isinstance(n, ast.Attribute):
            if isinstance(n.value, ast.Name) and n.value.id == 'self':
                return self.self_attr(n)
            base = self.value(n.value, env, pure=True)
            if base.kind == 'cnobj' and n.attr in PH:
                if self.cfg[0] != 'handle':
                    src.err(n, 'Cn.s/.l/.g read although Cn is not a PhaseHandle in this configuration')
                return V('handle', PH[n.attr])
            if base.kind == 'opaque':
                return V('opaque', why=base.why)
            src.err(n, f'attribute {n.attr} of a {base.kind} is outside the subset')
        if isinstance(n, ast.Tuple):
            t = V('tuple', items=[self.value(e, env, pure=True) for e in n.elts])
            t.nodes = list(n.elts)
            return t
        if isinstance(n, ast.Call) and not n.keywords:
            f = n.func
            if isinstance(f, ast.Name) and f.id == 'bool' and len(n.args) == 1:
                a = self.value(n.args[0], env, pure=True)
                if a.kind == 'handle':
                    return V('bool', f'(d_hasCn d {a.term})')
                if a.kind == 'cnobj' and self.cfg[0] == 'locked':
                    return V('bool', f'(d_hasCn d {PH[self.cfg[1]]})')
                src.err(n, 'bool() of this value is outside the subset')
            if isinstance(f, ast.Attribute) and f.attr == 'functor' and isinstance(f.value, ast.Name):
                return self.functor_call(n, f.value.id, [self.value(a, env, pure=True) for a in n.args], n.args)
            if isinstance(f, ast.Name) and f.id in self.fe['builders'] and f.id not in env:
                return self.builder_call(n, f.id, [self.value(a, env, pure=True) for a in n.args], env)
        if self.opaque_safe(n, env) and any(isinstance(x, ast.Name) and x.id in env and env[x.id].kind == 'opaque'
                                            for x in ast.walk(n)):
            return V('opaque', why=f'expression over opaque values at line {n.lineno}')
        if pure:
            src.err(n, 'expression is outside the subset in this position')
        # computations
        if isinstance(n, ast.IfExp):
            k, c = self.cond(n.test, env)
            if k == 'conc':
                return self.value(n.body if c else n.orelse, env)
            if k == 'opaque':
                return V('opaque', why=c)
            tr = self.expr_tr(env)
            try:
                return ('m', f'(if {c} then {tr.tr(n.body)} else {tr.tr(n.orelse)})')
            except _Opaque as o:
                return V('opaque', why=str(o))
        try:
            return ('m', self.expr_tr(env).tr(n))
        except _Opaque as o:
            return V('opaque', why=str(o))

    # ------------------------------------------------------------------ functor construction
    def check_imported(self, node, name):
        imp = self.imports.get(name)
        if imp is None or imp[0] != '.free_energy' or imp[1] != name:
            self.src.err(node, f'{name} is not imported from .free_energy')

    def closure(self, node, fname, args, argnodes):
        """Gallina tpfun for functor `fname` with positional data `args`; V('opaque') when it cannot be built"""
        if fname in self.fe['skipped']:
            return V('opaque', why=f'excess functor {fname}')
        meta = self.fe['functors'].get(fname)
        if meta is None:
            self.src.err(node, f'{fname} is not a functor translated from free_energy.py')
        params = meta['params']
        if len(args) != len(params):
            msg = (f'{REL}:{node.lineno}: {fname}.functor receives {len(args)} positional values for its '
                   f'{len(params)} parameters {tuple(params)} (zip() in Functor.__init__/from_args would silently '
                   f'rebind or drop them)')
            self.notes.add(msg)
            return V('opaque', why=msg)
        terms = []
        for p, a, an in zip(params, args, argnodes):
            if isinstance(an, ast.Name) and an.id != p:
                # order check: thermosteam names the wiring variables after the functor parameters
                msg = (f'{REL}:{node.lineno}: {fname} parameter {p!r} receives the variable {an.id!r} '
                       f'(positional order does not match the signature {tuple(params)})')
                self.notes.add(msg)
                return V('opaque', why=msg)
            if a.kind == 'opaque':
                return V('opaque', why=a.why)
            if is_handle_param(p):
                if a.kind == 'handle':
                    terms.append(a.term)
                elif a.kind == 'cnobj' and self.cfg[0] == 'locked':
                    terms.append(PH[self.cfg[1]])
                elif a.kind == 'cnobj':
                    return V('opaque', why=f'{REL}:{node.lineno}: the whole PhaseHandle is passed as {p} of {fname}')
                else:
                    self.src.err(node, f'{fname}: parameter {p} must receive a heat-capacity handle, got a {a.kind}')
            else:
                if a.kind == 'num':
                    terms.append(a.term)
                elif a.kind == 'conc' and a.term is None:
                    terms.append('None')
                else:
                    self.src.err(node, f'{fname}: parameter {p} must receive a number or None, got a {a.kind}')
        tp = 'T P' if meta['kind'] == 'TP' else 'T'
        return V('eh', f'(fun T P : option A => {fname} E {tp} {" ".join(terms)})')

    def functor_call(self, node, fname, args, argnodes):
        self.check_imported(node, fname)
        c = self.closure(node, fname, args, argnodes)
        if c.kind == 'opaque':
            return c
        return V('eh', f'(ESingle {c.term})')

    def builder_call(self, node, bname, args, env):
        self.check_imported(node, bname)
        b = self.fe['builders'][bname]
        if len(args) != 4:
            self.src.err(node, f'{bname} takes (sdata, ldata, gdata, Tc)')
        if b['excess']:
            return V('opaque', why=f'excess builder {bname}')
        cl = []
        for fname, a in zip(b['slg'], args[:3]):
            if a.kind == 'opaque':
                return a
            if a.kind != 'tuple':
                self.src.err(node, f'{bname}: phase data must be a tuple literal')
            c = self.closure(node, fname, a.items, getattr(a, 'nodes', [None] * len(a.items)))
            if c.kind == 'opaque':
                return c
            cl.append(c.term)
        return V('eh', f'(EPhases {cl[0]} {cl[1]} {cl[2]})')

    # ------------------------------------------------------------------ statements
    def assigned(self, stmts):
        out = []
        for st in stmts:
            if isinstance(st, ast.Assign):
                for t in st.targets:
                    out.append(self.target_key(t))
            elif isinstance(st, ast.If):
                out += self.assigned(st.body) + self.assigned(st.orelse)
            elif isinstance(st, ast.Try):
                if st.finalbody or st.orelse:
                    self.src.err(st, 'try/else/finally is outside the subset')
                out += self.assigned(st.body)
                for h in st.handlers:
                    out += self.assigned(h.body)
            elif isinstance(st, ast.Pass):
                pass
            else:
                self.src.err(st, 'statement is outside the subset')
        return out

    def target_key(self, t):
        if isinstance(t, ast.Name):
            if t.id in ('self', 'd', 'E', 'O', 'I', 'J'):
                self.src.err(t, f'assignment to {t.id}')
            return t.id
        if isinstance(t, ast.Attribute) and isinstance(t.value, ast.Name) and t.value.id == 'self':
            return 'self.' + t.attr
        self.src.err(t, 'assignment target is outside the subset')

    def block(self, stmts, env):
        """returns (lines, nclose); env is updated in place"""
        lines, nclose = [], 0
        for st in stmts:
            l, c = self.stmt(st, env)
            lines += l
            nclose += c
        return lines, nclose

    def bind_value(self, key, val, env, lines):
        """val: V or ('m', term).  returns number of parentheses opened"""
        if isinstance(val, tuple):
            x = self.fresh(key)
            lines.append(f'bind {val[1]} (fun {x} : option A =>')
            env[key] = V('num', x)
            return 1
        if val.kind == 'eh':
            x = self.fresh(key)
            lines.append(f'let {x} : ehandle A := {val.term} in')
            env[key] = V('eh', x)
            return 0
        env[key] = val
        return 0

    def stmt(self, st, env):
        src = self.src
        if isinstance(st, ast.Pass):
            return [], 0
        if isinstance(st, ast.Assign):
            keys = [self.target_key(t) for t in st.targets]
            watched = [k for k in keys if not k.startswith('self.') or k in ('self._H', 'self._S')]
            if not watched:
                for k in keys:
                    env[k] = V('opaque', why=f'{k} is not modelled')
                # the value must still be free of effects on the modelled state
                if not (self.opaque_safe(st.value, env) or self.effect_free(st.value, env)):
                    src.err(st, 'value stored in an unmodelled attribute is outside the subset')
                return [], 0
            val = self.value(st.value, env)
            for g in self.guards:
                g.difference_update(keys)      # a re-bound name is no longer known to be truthy
            lines = []
            n = self.bind_value(keys[0], val, env, lines)
            for k in keys[1:]:
                env[k] = env[keys[0]]
            return lines, n
        if isinstance(st, ast.If):
            k, c = self.cond(st.test, env)
            if k == 'conc':
                return self.block(st.body if c else st.orelse, env)
            if k == 'opaque':
                for key in self.assigned([st]):
                    env[key] = V('opaque', why=f'assigned under a condition the translator cannot evaluate ({c}; line {st.lineno})')
                return [], 0
            return self.join(st, f'if {c} then', 'else', st.body, st.orelse, env, catch=False, guard=self.conjuncts(st.test))
        if isinstance(st, ast.Try):
            if st.finalbody or st.orelse or len(st.handlers) != 1 or st.handlers[0].type is not None:
                src.err(st, 'only `try: ... except: ...` with a bare except is in the subset')
            body_keys = set(self.assigned(st.body))
            handler_keys = set(self.assigned(st.handlers[0].body))
            if not body_keys <= handler_keys:
                src.err(st, f'except-handler does not re-assign {sorted(body_keys - handler_keys)}')
            return self.join(st, 'catch', '', st.body, st.handlers[0].body, env, catch=True)
        src.err(st, 'statement is outside the subset')

    def effect_free(self, n, env):
        """constructor calls of functors/builders imported from .free_energy over names and literals"""
        if not all(isinstance(x, (ast.Name, ast.Constant, ast.Tuple, ast.Load, ast.Attribute, ast.Call)) for x in ast.walk(n)):
            return False
        if any(isinstance(x, ast.Name) and x.id == 'self' for x in ast.walk(n)):
            return False
        for c in ast.walk(n):
            if isinstance(c, ast.Call):
                f = c.func
                while isinstance(f, ast.Attribute):
                    f = f.value
                if not isinstance(f, ast.Name):
                    return False
                imp = self.imports.get(f.id)
                if not ((imp is not None and imp[0] == '.free_energy') or (f.id in env and env[f.id].kind == 'opaque')):
                    return False
        return True

    def conjuncts(self, test):
        """names that are truthy whenever `test` is"""
        if isinstance(test, ast.Name):
            return {test.id}
        if isinstance(test, ast.BoolOp) and isinstance(test.op, ast.And):
            out = set()
            for v in test.values: out |= self.conjuncts(v)
            return out
        return set()

    def join(self, st, head, mid, body1, body2, env, catch, guard=()):
        e1, e2 = dict(env), dict(env)
        self.guards.append(set(guard))
        l1, c1 = self.block(body1, e1)
        self.guards.pop()
        l2, c2 = self.block(body2, e2)
        keys = []
        for k in list(dict.fromkeys(list(e1) + list(e2))):
            a, b = e1.get(k), e2.get(k)
            if a is not None and b is not None and a.same(b):
                env[k] = a
                continue
            keys.append(k)
        carried, t1, t2, kinds = [], [], [], []
        for k in keys:
            a, b = e1.get(k), e2.get(k)
            if a is None or b is None:
                env[k] = V('opaque', why=f'{k} is bound on one path only (statement at line {st.lineno})')
                continue
            if a.kind == 'opaque' or b.kind == 'opaque':
                env[k] = V('opaque', why=(a.why if a.kind == 'opaque' else b.why))
                continue
            a2, b2 = self.lift(a, b), self.lift(b, a)
            if a2 is None or b2 is None or a2.kind != b2.kind:
                env[k] = V('opaque', why=f'{k} has different kinds of value on the two paths (line {st.lineno})')
                continue
            carried.append(k); t1.append(a2.term); t2.append(b2.term); kinds.append(a2.kind)
        def fin(lines, nclose, terms):
            res = 'Ok tt' if not terms else ('Ok (' + ', '.join(terms) + ')' if len(terms) > 1 else f'Ok {terms[0]}')
            return '(' + '\n'.join(lines + [res]) + ')' * nclose + ')'
        b1, b2 = fin(l1, c1, t1), fin(l2, c2, t2)
        if not carried and not l1 and not l2:
            return [], 0
        new = [self.fresh(k) for k in carried]
        if catch:
            first = f'bind (catch {b1} {b2})'
        else:
            first = f'bind ({head} {b1} {mid} {b2})'
        if not carried:
            lines = [first + ' (fun _ : unit =>']
        elif len(carried) == 1:
            lines = [first + f' (fun {new[0]} : {GTYPE[kinds[0]]} =>']
        else:
            ty = ' * '.join(GTYPE[k] for k in kinds)
            lines = [first + f' (fun r_{st.lineno} : {ty} => let \'({", ".join(new)}) := r_{st.lineno} in']
        for k, x, kd in zip(carried, new, kinds):
            env[k] = V(kd, x)
        return lines, 1

    def lift(self, a, other):
        """lift configuration constants to Gallina values of the kind of `other`"""
        if a.kind in GTYPE:
            return a
        if a.kind == 'conc':
            if a.term is None and other.kind in ('num', 'conc'):
                return V('num', '(@None A)')
            if a.term is None and other.kind == 'eh':
                return V('eh', 'ENone')
            if isinstance(a.term, bool) and other.kind in ('bool', 'conc'):
                return V('bool', 'true' if a.term else 'false')
        return None


class _Opaque(Exception):
    pass


def find_method(src, cls, name):
    for st in src.tree.body:
        if isinstance(st, ast.ClassDef) and st.name == cls:
            found = [x for x in st.body if isinstance(x, ast.FunctionDef) and x.name == name]
            if len(found) != 1:
                raise TranslatorError(f'{src.rel}: class {cls} has {len(found)} definitions of {name}')
            return found[0]
    raise TranslatorError(f'{src.rel}: class {cls} not found')


CONFIGS = ([('handle', None, pr) for pr in 'slg'] +
           [('locked', sp, pr) for sp in 'slg' for pr in 'slg'] +
           [('plain', None, pr) for pr in 'slg'])


def cfg_name(cfg):
    k, sp, pr = cfg
    return f'init_energies_{k}_{sp + "_" if sp else ""}{pr}'


def run(repo, out_dir, fe):
    src = Src(repo, REL)
    fn = find_method(src, 'Chemical', '_init_energies')
    a = fn.args
    if [x.arg for x in a.args] != PARAMS or a.vararg or a.kwarg or a.kwonlyargs or a.defaults:
        src.err(fn, f'signature of _init_energies changed (expected {PARAMS})')
    if fn.decorator_list:
        src.err(fn, 'decorated _init_energies')
    body = strip_docstring(src, fn.body)
    imports = module_imports(src)
    notes = set()
    texts = []
    for cfg in CONFIGS:
        it = Interp(src, fe, cfg, notes)
        it.imports = imports
        env = it.initial_env()
        lines, nclose = it.block(body, env)
        outs = []
        for key in ('self._H', 'self._S'):
            v = env.get(key)
            if v is None:
                raise TranslatorError(f'{REL}:{fn.lineno}: {key} is not assigned in configuration {cfg}')
            if v.kind == 'opaque':
                raise TranslatorError(f'{REL}:{fn.lineno}: {key} cannot be translated in configuration {cfg}: {v.why}')
            if v.kind == 'conc' and v.term is None:
                outs.append('ENone')
            elif v.kind == 'eh':
                outs.append(v.term)
            else:
                raise TranslatorError(f'{REL}:{fn.lineno}: {key} ends as a {v.kind} in configuration {cfg}')
        term = '\n  '.join(lines + [f'Ok ({outs[0]}, {outs[1]})']) + ')' * nclose
        texts.append(f'(* configuration: Cn is {cfg[0]}, locked state {cfg[1]!r}, phase_ref {cfg[2]!r} *)\n'
                     f'Definition {cfg_name(cfg)} {{A : Type}} (E : env A) (d : chemdata A) : res (ehandle A * ehandle A) :=\n'
                     f'  let O := eO E in let I := eI E in let J := eJ E in\n  {term}.\n')
    disp = ['Definition init_energies {A : Type} (E : env A) (d : chemdata A) (k : cnkind) (phase_ref : phase)',
            '  : res (ehandle A * ehandle A) :=', '  match k, phase_ref with']
    tag = {'handle': 'CnHandle', 'plain': 'CnPlain'}
    for cfg in CONFIGS:
        k, sp, pr = cfg
        pat = tag[k] if k != 'locked' else f'CnLocked {PH[sp]}'
        disp.append(f'  | {pat}, {PH[pr]} => {cfg_name(cfg)} E d')
    disp.append('  end.')
    out = header('tr/C07_init_energies.py', [src], [f'Chemical._init_energies (line {fn.lineno}) in {len(CONFIGS)} configurations'])
    out += 'From V Require Import Common.Num C07.Model C07.Gen_FreeEnergy.\n\n'
    for n in sorted(notes):
        out += f'(* note: {n} *)\n'
    out += '\n' + '\n'.join(texts) + '\n' + '\n'.join(disp) + '\n'
    import vf
    vf.write_if_changed(os.path.join(out_dir, 'Gen_InitEnergies.v'), out)
    return {'file': 'coq/C07/Gen_InitEnergies.v', 'source': REL, 'sha256': src.sha, 'function_line': fn.lineno,
            'configurations': [cfg_name(c) for c in CONFIGS], 'notes': sorted(notes)}
