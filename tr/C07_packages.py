"""C07 translator 6/6: how a property package pairs its mixture models with its chemicals.

The ideal mixture models address the pure-component functors POSITIONALLY (models[i] for index i of the
flow vector), so `package.mixture` must have been built from `package.chemicals` in that order.  From
thermosteam/_thermo.py and thermosteam/mixture/mixture.py the translator extracts, fail closed:

  create_mixture_model    `for chemical in chemicals: ... handles.append(<handle of chemical>)` and
                          `return Model(handles, var)`                       (order of the models = order of `chemicals`)
  IdealMixture.from_chemicals  every H/S/Cn model is `create_mixture_model(chemicals, <var>, <Model>)` over the one
                          `chemicals` sequence (the tuple of a CompiledChemicals, or the list of Chemical objects)
  Thermo.__init__ / IdealThermo.__init__   a mixture that is not passed in is `<Mixture>.from_chemicals(chemicals)`
  Thermo.subset / IdealThermo.subset      the value stored as new.mixture: `self.mixture.from_chemicals(<the value stored
                          as new.chemicals>)` on every path -> `true`; anything else (the parent's mixture, a cached
                          one, a conditional) -> `false`
  Thermo.ideal            stores self.chemicals and self.mixture together  (IdealThermo.ideal returns self)
and writes Gen_Packages.v."""
import ast, os
from C07_pysubset import Src, TranslatorError, strip_docstring, header
from C07_init_energies import find_method

REL_T = 'thermosteam/_thermo.py'
REL_M = 'thermosteam/mixture/mixture.py'


def stored(src, fn, obj, attr):
    """the expressions e of every `setattr(obj, 'attr', e)` in fn"""
    out = []
    for x in ast.walk(fn):
        if isinstance(x, ast.Call) and isinstance(x.func, ast.Name) and x.func.id == 'setattr' and len(x.args) == 3 \
                and isinstance(x.args[0], ast.Name) and x.args[0].id == obj \
                and isinstance(x.args[1], ast.Constant) and x.args[1].value == attr:
            out.append(x.args[2])
    return out


def is_from_chemicals(n, arg):
    return (isinstance(n, ast.Call) and isinstance(n.func, ast.Attribute) and n.func.attr == 'from_chemicals'
            and isinstance(n.func.value, ast.Attribute) and n.func.value.attr == 'mixture'
            and isinstance(n.func.value.value, ast.Name) and n.func.value.value.id == 'self'
            and len(n.args) == 1 and not n.keywords and isinstance(n.args[0], ast.Name) and n.args[0].id == arg)


def subset_rebuilds(src, cls):
    fn = find_method(src, cls, 'subset')
    ch = stored(src, fn, 'new', 'chemicals')
    mx = stored(src, fn, 'new', 'mixture')
    if len(ch) != 1 or len(mx) != 1 or not isinstance(ch[0], ast.Name):
        src.err(fn, f'{cls}.subset: expected one setattr(new, \'chemicals\', <name>) and one setattr(new, \'mixture\', ...)')
    var = ch[0].id
    # the early exit for the very same Chemicals object returns the package itself
    body = strip_docstring(src, fn.body)
    rets = [x for x in ast.walk(fn) if isinstance(x, ast.Return)]
    for r in rets:
        if not (isinstance(r.value, ast.Name) and r.value.id in ('new', 'self')):
            src.err(r, f'{cls}.subset returns something other than new / self')
    e = mx[0]
    if is_from_chemicals(e, var):
        return fn, True
    if isinstance(e, ast.Name):
        defs = [x.value for x in ast.walk(fn) if isinstance(x, ast.Assign) and any(isinstance(t, ast.Name) and t.id == e.id for t in x.targets)]
        if defs and all(is_from_chemicals(d, var) for d in defs):
            return fn, True
    return fn, False


def run(repo, out_dir):
    st = Src(repo, REL_T)
    sm = Src(repo, REL_M)
    lines, info = [], {}
    # create_mixture_model
    fns = [x for x in sm.tree.body if isinstance(x, ast.FunctionDef) and x.name == 'create_mixture_model']
    if len(fns) != 1 or [a.arg for a in fns[0].args.args] != ['chemicals', 'var', 'Model']:
        raise TranslatorError(f'{REL_M}: create_mixture_model(chemicals, var, Model) not found')
    fn = fns[0]
    loops = [x for x in fn.body if isinstance(x, ast.For)]
    ok = (len(loops) == 1 and isinstance(loops[0].target, ast.Name) and isinstance(loops[0].iter, ast.Name)
          and loops[0].iter.id == 'chemicals' and not loops[0].orelse)
    if ok:
        lp = loops[0]
        v = lp.target.id
        appends = [x for x in ast.walk(lp) if isinstance(x, ast.Call) and isinstance(x.func, ast.Attribute) and x.func.attr == 'append']
        first = lp.body[0]
        ok = (len(appends) == 1 and isinstance(lp.body[-1], ast.Expr) and lp.body[-1].value is appends[0]
              and isinstance(first, ast.Assign) and ast.dump(first.value) ==
              f"Call(func=Name(id='getfield', ctx=Load()), args=[Name(id='{v}', ctx=Load()), Name(id='var', ctx=Load())], keywords=[])"
              and not any(isinstance(x, (ast.Continue, ast.Break)) for x in ast.walk(lp)))
        ret = fn.body[-1]
        ok = ok and isinstance(ret, ast.Return) and ast.dump(ret.value) == \
            "Call(func=Name(id='Model', ctx=Load()), args=[Name(id='handles', ctx=Load()), Name(id='var', ctx=Load())], keywords=[])"
    if not ok:
        sm.err(fn, 'create_mixture_model is outside the subset (one handle per chemical, appended in the order of `chemicals`)')
    # IdealMixture.from_chemicals
    fc = find_method(sm, 'IdealMixture', 'from_chemicals')
    found = {}
    for x in ast.walk(fc):
        if isinstance(x, ast.Assign) and isinstance(x.value, ast.Call) and isinstance(x.value.func, ast.Name) \
                and x.value.func.id == 'create_mixture_model' and len(x.targets) == 1 and isinstance(x.targets[0], ast.Name):
            a = x.value.args
            if len(a) != 3 or not (isinstance(a[0], ast.Name) and a[0].id == 'chemicals') or not isinstance(a[1], ast.Constant):
                sm.err(x, 'create_mixture_model is not called on `chemicals`')
            found[x.targets[0].id] = (a[1].value, sm.seg(a[2]))
    want = {'Cn': ('Cn', 'IdealTMixtureModel'), 'H': ('H', 'IdealTPMixtureModel'), 'S': ('S', 'IdealEntropyModel')}
    for k, w in want.items():
        if found.get(k) != w:
            sm.err(fc, f'IdealMixture.from_chemicals: model {k} is {found.get(k)}, expected create_mixture_model(chemicals, {w[0]!r}, {w[1]})')
    rebinds = [x for x in ast.walk(fc) if isinstance(x, ast.Assign) and any(isinstance(t, ast.Name) and t.id == 'chemicals' for t in x.targets)]
    for x in rebinds:
        seg = sm.seg(x.value)
        if seg != 'chemicals.tuple' and not seg.startswith('[(i if isa(i, Chemical)'):
            sm.err(x, 'IdealMixture.from_chemicals re-orders or filters `chemicals`')
    lines.append(f'(* {REL_M}:{fn.lineno} create_mixture_model and :{fc.lineno} IdealMixture.from_chemicals: one model per chemical, in order *)\n'
                 'Definition mixture_models_of (chemicals : list nat) : list nat := chemicals.')
    info['from_chemicals'] = 'models in the order of chemicals'
    # __init__
    for cls in ('Thermo', 'IdealThermo'):
        fn = find_method(st, cls, '__init__')
        a = [x for x in ast.walk(fn) if isinstance(x, ast.Assign) and any(isinstance(t, ast.Name) and t.id == 'mixture' for t in x.targets)]
        if len(a) != 1 or not st.seg(a[0].value).endswith('Mixture.from_chemicals(chemicals)'):
            st.err(fn, f'{cls}.__init__: default mixture is not <Mixture>.from_chemicals(chemicals)')
    # subset
    for cls in ('Thermo', 'IdealThermo'):
        fn, v = subset_rebuilds(st, cls)
        lines.append(f'(* {REL_T}:{fn.lineno} {cls}.subset: new.mixture = self.mixture.from_chemicals(<new.chemicals>) on every path? *)\n'
                     f'Definition {cls}_subset_rebuilds_mixture : bool := {"true" if v else "false"}.')
        info[cls + '.subset'] = v
    # ideal
    fn = find_method(st, 'Thermo', 'ideal')
    ch, mx = stored(st, fn, 'ideal', 'chemicals'), stored(st, fn, 'ideal', 'mixture')
    v = (len(ch) == 1 and len(mx) == 1 and st.seg(ch[0]) == 'self.chemicals' and st.seg(mx[0]) == 'self.mixture')
    lines.append(f'(* {REL_T}:{fn.lineno} Thermo.ideal: ideal.chemicals = self.chemicals and ideal.mixture = self.mixture *)\n'
                 f'Definition ideal_shares_chemicals_and_mixture : bool := {"true" if v else "false"}.')
    info['Thermo.ideal'] = v
    out = header('tr/C07_packages.py', [st, sm], ['Thermo/IdealThermo: __init__, subset, ideal; IdealMixture.from_chemicals; create_mixture_model'])
    out += 'From Coq Require Import List Bool.\nImport ListNotations.\n\n' + '\n\n'.join(lines) + '\n'
    import vf
    vf.write_if_changed(os.path.join(out_dir, 'Gen_Packages.v'), out)
    return {'file': 'coq/C07/Gen_Packages.v', 'sources': [REL_T, REL_M], 'sha256': [st.sha, sm.sha], 'sites': info}
