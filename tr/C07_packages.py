"""C07 translator 6/6: how a property package pairs its mixture models with its chemicals.

The ideal mixture models address the pure-component functors POSITIONALLY (models[i] for index i of the
flow vector), so `package.mixture` must have been built from `package.chemicals` in that order.  From
thermosteam/_thermo.py and thermosteam/mixture/mixture.py the translator extracts, fail closed:

  create_mixture_model    `for chemical in chemicals: ... handles.append(<handle of chemical>)` and
                          `return Model(handles, var)`                       (order of the models = order of `chemicals`)
  IdealMixture.from_chemicals  every H/S/Cn model is `create_mixture_model(chemicals, <var>, <Model>)` over the one
                          `chemicals` sequence (the tuple of a CompiledChemicals, or the list of Chemical objects)
  Thermo.__init__ / IdealThermo.__init__   a mixture that is not passed in is `<Mixture>.from_chemicals(chemicals)`
  Thermo.subset / IdealThermo.subset      the value stored as new.mixture: `self.mixture.from_chemicals(<the value stored
                          as new.chemicals>)` on every path -> `true`; anything else (the parent's mixture, a cached
                          one, a conditional) -> `false`
  Thermo.ideal            stores self.chemicals and self.mixture together  (IdealThermo.ideal returns self)
and writes Gen_Packages.v."""
import ast, os
from C07_pysubset import Src, TranslatorError, strip_docstring, header
from C07_init_energies import find_method

REL_T = 'thermosteam/_thermo.py'
REL_M = 'thermosteam/mixture/mixture.py'


def stored(src, fn, obj, attr):
    """the expressions e of every `setattr(obj, 'attr', e)` in fn"""
    out = []
    for x in ast.walk(fn):
        if isinstance(x, ast.Call) and isinstance(x.func, ast.Name) and x.func.id == 'setattr' and len(x.args) == 3 \
                and isinstance(x.args[0], ast.Name) and x.args[0].id == obj \
                and isinstance(x.args[1], ast.Constant) and x.args[1].value == attr:
            out.append(x.args[2])
    return out


def is_from_chemicals(n, arg):
    return (isinstance(n, ast.Call) and isinstance(n.func, ast.Attribute) and n.func.attr == 'from_chemicals'
            and isinstance(n.func.value, ast.Attribute) and n.func.value.attr == 'mixture'
            and isinstance(n.func.value.value, ast.Name) and n.func.value.value.id == 'self'
            and len(n.args) == 1 and not n.keywords and isinstance(n.args[0], ast.Name) and n.args[0].id == arg)


def subset_rebuilds(src, cls):
    fn = find_method(src, cls, 'subset')
    ch = stored(src, fn, 'new', 'chemicals')
    mx = stored(src, fn, 'new', 'mixture')
    if len(ch) != 1 or len(mx) != 1 or not isinstance(ch[0], ast.Name):
        src.err(fn, f'{cls}.subset: expected one setattr(new, \'chemicals\', <name>) and one setattr(new, \'mixture\', ...)')
    var = ch[0].id
    # the early exit for the very same Chemicals object returns the package itself
    body = strip_docstring(src, fn.body)
    rets = [x for x in ast.walk(fn) if isinstance(x, ast.Return)]
    for r in rets:
        if not (isinstance(r.value, ast.Name) and r.value.id in ('new', 'self')):
            src.err(r, f'{cls}.subset returns something other than new / self')
    e = mx[0]
    if is_from_chemicals(e, var):
        return fn, True
    if isinstance(e, ast.Name):
        defs = [x.value for x in ast.walk(fn) if isinstance(x, ast.Assign) and any(isinstance(t, ast.Name) and t.id == e.id for t in x.targets)]
        if defs and all(is_from_chemicals(d, var) for d in defs):
            return fn, True
    return fn, False


LIVE_CALL = ("[Assign(targets=[Name(id='var', ctx=Store())], value=Attribute(value=Name(id='self', ctx=Load()), attr='var', ctx=Load())), "
             "Assign(targets=[Name(id='obj', ctx=Store())], value=Call(func=Name(id='getattr', ctx=Load()), args=[Attribute(value=Name(id='self', ctx=Load()), attr='chemical', ctx=Load()), Name(id='var', ctx=Load())], keywords=[])), "
             "If(test=Call(func=Name(id='isinstance', ctx=Load()), args=[Name(id='obj', ctx=Load()), Name(id='PhaseHandle', ctx=Load())], keywords=[]), "
             "body=[Return(value=Call(func=Name(id='obj', ctx=Load()), args=[Name(id='phase', ctx=Load()), Name(id='T', ctx=Load()), Name(id='P', ctx=Load())], keywords=[]))], "
             "orelse=[If(test=Compare(left=Name(id='var', ctx=Load()), ops=[Eq()], comparators=[Constant(value='Cn')]), "
             "body=[Return(value=Call(func=Name(id='obj', ctx=Load()), args=[Name(id='T', ctx=Load())], keywords=[]))], "
             "orelse=[Return(value=Call(func=Name(id='obj', ctx=Load()), args=[Name(id='T', ctx=Load()), Name(id='P', ctx=Load())], keywords=[]))])])]")


def translate_create(sm, fn):
    """create_mixture_model: one model per chemical in the order of `chemicals`, either CAPTURED when the mixture is built
    (the chemical's handle object itself / a Mock handle around it) -> False, or LIVE (a handle holding (chemical, var) whose
    __call__ fetches getattr(chemical, var) and dispatches like PhaseHandle / MockPhaseTHandle / MockPhaseTPHandle) -> True"""
    body = strip_docstring(sm, fn.body)
    # live form: return Model([<Handle>(chemical, var) for chemical in chemicals], var)
    if len(body) == 1 and isinstance(body[0], ast.Return):
        r = body[0].value
        ok = (isinstance(r, ast.Call) and isinstance(r.func, ast.Name) and r.func.id == 'Model' and len(r.args) == 2 and not r.keywords
              and isinstance(r.args[1], ast.Name) and r.args[1].id == 'var' and isinstance(r.args[0], ast.ListComp)
              and len(r.args[0].generators) == 1 and not r.args[0].generators[0].ifs
              and ast.dump(r.args[0].generators[0].iter) == "Name(id='chemicals', ctx=Load())"
              and isinstance(r.args[0].generators[0].target, ast.Name))
        if ok:
            v = r.args[0].generators[0].target.id
            e = r.args[0].elt
            ok = (isinstance(e, ast.Call) and isinstance(e.func, ast.Name) and not e.keywords
                  and [ast.dump(a) for a in e.args] == [f"Name(id='{v}', ctx=Load())", "Name(id='var', ctx=Load())"])
        if not ok:
            sm.err(fn, 'create_mixture_model is outside the subset')
        cls = [x for x in sm.tree.body if isinstance(x, ast.ClassDef) and x.name == e.func.id]
        if len(cls) != 1:
            sm.err(fn, f'handle class {e.func.id} not found')
        init = [x for x in cls[0].body if isinstance(x, ast.FunctionDef) and x.name == '__init__']
        call = [x for x in cls[0].body if isinstance(x, ast.FunctionDef) and x.name == '__call__']
        if len(init) != 1 or len(call) != 1 or [a.arg for a in init[0].args.args] != ['self', 'chemical', 'var'] \
                or [sm.seg(x).replace(' ', '') for x in init[0].body] != ['self.chemical=chemical', 'self.var=var']:
            sm.err(cls[0], 'handle class must store (chemical, var)')
        a = call[0].args
        if [x.arg for x in a.args] != ['self', 'phase', 'T', 'P'] or len(a.defaults) != 1 or not (isinstance(a.defaults[0], ast.Constant) and a.defaults[0].value is None):
            sm.err(call[0], 'handle __call__ must be (self, phase, T, P=None)')
        got = '[' + ', '.join(ast.dump(x) for x in strip_docstring(sm, call[0].body)) + ']'
        if got != LIVE_CALL:
            sm.err(call[0], 'handle __call__ is not the dispatch obj = getattr(self.chemical, var); PhaseHandle -> obj(phase, T, P); Cn -> obj(T); else obj(T, P)')
        return True
    loops = [x for x in fn.body if isinstance(x, ast.For)]
    ok = (len(loops) == 1 and isinstance(loops[0].target, ast.Name) and isinstance(loops[0].iter, ast.Name)
          and loops[0].iter.id == 'chemicals' and not loops[0].orelse)
    if ok:
        lp = loops[0]
        v = lp.target.id
        appends = [x for x in ast.walk(lp) if isinstance(x, ast.Call) and isinstance(x.func, ast.Attribute) and x.func.attr == 'append']
        first = lp.body[0]
        ok = (len(appends) == 1 and isinstance(lp.body[-1], ast.Expr) and lp.body[-1].value is appends[0]
              and isinstance(first, ast.Assign) and ast.dump(first.value) ==
              f"Call(func=Name(id='getfield', ctx=Load()), args=[Name(id='{v}', ctx=Load()), Name(id='var', ctx=Load())], keywords=[])"
              and not any(isinstance(x, (ast.Continue, ast.Break)) for x in ast.walk(lp)))
        ret = fn.body[-1]
        ok = ok and isinstance(ret, ast.Return) and ast.dump(ret.value) == \
            "Call(func=Name(id='Model', ctx=Load()), args=[Name(id='handles', ctx=Load()), Name(id='var', ctx=Load())], keywords=[])"
    if not ok:
        sm.err(fn, 'create_mixture_model is outside the subset (one handle per chemical, appended in the order of `chemicals`)')
    return False


def run(repo, out_dir):
    st = Src(repo, REL_T)
    sm = Src(repo, REL_M)
    lines, info = [], {}
    # create_mixture_model
    fns = [x for x in sm.tree.body if isinstance(x, ast.FunctionDef) and x.name == 'create_mixture_model']
    if len(fns) != 1 or [a.arg for a in fns[0].args.args] != ['chemicals', 'var', 'Model']:
        raise TranslatorError(f'{REL_M}: create_mixture_model(chemicals, var, Model) not found')
    fn = fns[0]
    live = translate_create(sm, fn)
    # IdealMixture.from_chemicals
    fc = find_method(sm, 'IdealMixture', 'from_chemicals')
    found = {}
    for x in ast.walk(fc):
        if isinstance(x, ast.Assign) and isinstance(x.value, ast.Call) and isinstance(x.value.func, ast.Name) \
                and x.value.func.id == 'create_mixture_model' and len(x.targets) == 1 and isinstance(x.targets[0], ast.Name):
            a = x.value.args
            if len(a) != 3 or not (isinstance(a[0], ast.Name) and a[0].id == 'chemicals') or not isinstance(a[1], ast.Constant):
                sm.err(x, 'create_mixture_model is not called on `chemicals`')
            found[x.targets[0].id] = (a[1].value, sm.seg(a[2]))
    want = {'Cn': ('Cn', 'IdealTMixtureModel'), 'H': ('H', 'IdealTPMixtureModel'), 'S': ('S', 'IdealEntropyModel')}
    for k, w in want.items():
        if found.get(k) != w:
            sm.err(fc, f'IdealMixture.from_chemicals: model {k} is {found.get(k)}, expected create_mixture_model(chemicals, {w[0]!r}, {w[1]})')
    rebinds = [x for x in ast.walk(fc) if isinstance(x, ast.Assign) and any(isinstance(t, ast.Name) and t.id == 'chemicals' for t in x.targets)]
    for x in rebinds:
        seg = sm.seg(x.value)
        if seg != 'chemicals.tuple' and not seg.startswith('[(i if isa(i, Chemical)'):
            sm.err(x, 'IdealMixture.from_chemicals re-orders or filters `chemicals`')
    lines.append(f'(* {REL_M}:{fn.lineno} create_mixture_model and :{fc.lineno} IdealMixture.from_chemicals: one model per chemical, in order *)\n'
                 'Definition mixture_models_of (chemicals : list nat) : list nat := chemicals.\n'
                 '(* do the models fetch the chemical\'s CURRENT handle when called (true), or keep the object found when the mixture was built? *)\n'
                 f'Definition mixture_models_live : bool := {"true" if live else "false"}.')
    info['from_chemicals'] = 'models in the order of chemicals; ' + ('live look-up' if live else 'handle objects captured at build time')
    # __init__
    for cls in ('Thermo', 'IdealThermo'):
        fn = find_method(st, cls, '__init__')
        a = [x for x in ast.walk(fn) if isinstance(x, ast.Assign) and any(isinstance(t, ast.Name) and t.id == 'mixture' for t in x.targets)]
        if len(a) != 1 or not st.seg(a[0].value).endswith('Mixture.from_chemicals(chemicals)'):
            st.err(fn, f'{cls}.__init__: default mixture is not <Mixture>.from_chemicals(chemicals)')
    # subset
    for cls in ('Thermo', 'IdealThermo'):
        fn, v = subset_rebuilds(st, cls)
        lines.append(f'(* {REL_T}:{fn.lineno} {cls}.subset: new.mixture = self.mixture.from_chemicals(<new.chemicals>) on every path? *)\n'
                     f'Definition {cls}_subset_rebuilds_mixture : bool := {"true" if v else "false"}.')
        info[cls + '.subset'] = v
    # ideal
    fn = find_method(st, 'Thermo', 'ideal')
    ch, mx = stored(st, fn, 'ideal', 'chemicals'), stored(st, fn, 'ideal', 'mixture')
    v = (len(ch) == 1 and len(mx) == 1 and st.seg(ch[0]) == 'self.chemicals' and st.seg(mx[0]) == 'self.mixture')
    lines.append(f'(* {REL_T}:{fn.lineno} Thermo.ideal: ideal.chemicals = self.chemicals and ideal.mixture = self.mixture *)\n'
                 f'Definition ideal_shares_chemicals_and_mixture : bool := {"true" if v else "false"}.')
    info['Thermo.ideal'] = v
    out = header('tr/C07_packages.py', [st, sm], ['Thermo/IdealThermo: __init__, subset, ideal; IdealMixture.from_chemicals; create_mixture_model'])
    out += 'From Coq Require Import List Bool.\nImport ListNotations.\n\n' + '\n\n'.join(lines) + '\n'
    import vf
    vf.write_if_changed(os.path.join(out_dir, 'Gen_Packages.v'), out)
    return {'file': 'coq/C07/Gen_Packages.v', 'sources': [REL_T, REL_M], 'sha256': [st.sha, sm.sha], 'sites': info}
