"""C07 translator 3/8: the five `__call__` bodies of thermosteam/mixture/ideal_mixture_model.py.

The body of `__call__(self, [phase,] mol, T[, P[=None]])` is run by a small symbolic interpreter; what matters is the
meaning, not the spelling.  Accepted (anything else is a TranslatorError naming file, line and node):

  normalisation   `mol` (or a new name) becomes the SparseVector of the argument by
                     if mol.__class__ is not SparseVector: mol = SparseVector(mol)        (also the inverted if / else form),
                     x = SparseVector(mol),
                     x = <helper>(mol) / x = self.<helper>(mol)   where the helper, a function of this module or a method
                     of the class, returns its argument when `arg.__class__ is SparseVector` and SparseVector(arg) otherwise
                     on every path (checked by enumerating its paths);
                  the model's `mol` is dct.items() of that SparseVector
  aliases         x = self.models;  x = <sparse>.sum();  x = sum(...);  plain renamings  x = y
  helpers         a call of a module-level function / same-class method whose body is a single `return <expr>` is inlined
                  (its arguments must be names)
  the fold        sum([<expr> for a, b in <sparse>.dct.items()])                  or, equivalently,
                     acc = []
                     for a, b in <sparse>.dct.items():
                         t = <expr> ...                (temporaries: evaluated once, in this order -> bind)
                         acc.append(<expr>)
                     ... sum(acc)
                  (same list, same order, same `sum`).  A filter (comprehension `if`, `continue`, conditional append) changes
                  the summands and is rejected for these five classes; `+=` accumulation is a different summation and is rejected
  summands        numbers in scope, + - * /, log, <models>[<index>](<parameters of __call__>)

`IdealHvapModel` (heat of vaporisation; not part of C07) is listed, not translated; any other class with a `__call__`
must translate.  Module-level helper functions are accepted (used ones are inlined, unused ones are listed)."""
import ast, os, copy
from C07_pysubset import Src, ExprTr, TranslatorError, module_imports, strip_docstring, header

REL = 'thermosteam/mixture/ideal_mixture_model.py'
EXPECTED = ['IdealTPMixtureModel', 'IdealEntropyModel', 'IdealTMixtureModel',
            'SinglePhaseIdealTMixtureModel', 'SinglePhaseIdealTPMixtureModel']
NOT_C07 = {'IdealHvapModel'}
INIT = "[Assign(targets=[Attribute(value=Name(id='self', ctx=Load()), attr='models', ctx=Store())], value=Call(func=Name(id='tuple', ctx=Load()), args=[Name(id='models', ctx=Load())], keywords=[])), Assign(targets=[Attribute(value=Name(id='self', ctx=Load()), attr='var', ctx=Store())], value=Name(id='var', ctx=Load()))]"
PTYPE = {'phase': 'phase', 'mol': 'list (nat * A)', 'T': 'option A', 'P': 'option A'}


def is_sparse_test(src, test):
    """`x.__class__ is SparseVector` -> (x, True); `... is not ...` -> (x, False); also `not (...)`"""
    if isinstance(test, ast.UnaryOp) and isinstance(test.op, ast.Not):
        r = is_sparse_test(src, test.operand)
        return None if r is None else (r[0], not r[1])
    if isinstance(test, ast.Compare) and len(test.ops) == 1 and isinstance(test.ops[0], (ast.Is, ast.IsNot)) \
            and isinstance(test.left, ast.Attribute) and test.left.attr == '__class__' and isinstance(test.left.value, ast.Name) \
            and isinstance(test.comparators[0], ast.Name) and test.comparators[0].id == 'SparseVector':
        return test.left.value.id, isinstance(test.ops[0], ast.Is)
    if isinstance(test, ast.Call) and isinstance(test.func, ast.Name) and test.func.id == 'isinstance':
        return None     # isinstance also accepts subclasses: a different test
    return None


def normaliser_paths(src, stmts, env, out):
    """enumerate the paths of a statement list over the abstract values RAW (the argument, class unknown), RAWS (the
    argument, known to be a SparseVector), RAWN (known not to be one), SPARSE (a SparseVector with the argument's entries).
    `out` collects ('return', value) and, for fall-through, ('end', env)."""
    if not stmts:
        out.append(('end', env)); return
    st, rest = stmts[0], stmts[1:]

    def val(n, e):
        if isinstance(n, ast.Name) and n.id in e:
            return e[n.id]
        if isinstance(n, ast.Call) and isinstance(n.func, ast.Name) and n.func.id == 'SparseVector' and len(n.args) == 1 and not n.keywords:
            v = val(n.args[0], e)
            if v in ('RAW', 'RAWS', 'RAWN', 'SPARSE'):
                return 'SPARSE'
        if isinstance(n, ast.IfExp):
            r = is_sparse_test(src, n.test)
            if r is not None and e.get(r[0]) in ('RAW', 'RAWS', 'RAWN'):
                var, pos = r
                vals = set()
                for known, branch in ((True, n.body if pos else n.orelse), (False, n.orelse if pos else n.body)):
                    if e[var] == 'RAWS' and not known or e[var] == 'RAWN' and known: continue
                    vals.add(val(branch, dict(e, **{var: 'RAWS' if known else 'RAWN'})))
                vals = {'SPARSE' if v == 'RAWS' else v for v in vals}
                if len(vals) == 1: return vals.pop()
        src.err(n, 'expression of the SparseVector normalisation is outside the subset')

    if isinstance(st, ast.Pass) or (isinstance(st, ast.Expr) and isinstance(st.value, ast.Constant) and isinstance(st.value.value, str)):
        return normaliser_paths(src, rest, env, out)
    if isinstance(st, ast.Return) and st.value is not None:
        out.append(('return', val(st.value, env))); return
    if isinstance(st, ast.Assign) and len(st.targets) == 1 and isinstance(st.targets[0], ast.Name):
        return normaliser_paths(src, rest, dict(env, **{st.targets[0].id: val(st.value, env)}), out)
    if isinstance(st, ast.If):
        r = is_sparse_test(src, st.test)
        if r is None or env.get(r[0]) not in ('RAW', 'RAWS', 'RAWN'):
            src.err(st.test, 'condition of the SparseVector normalisation is outside the subset')
        var, pos = r
        for known in (True, False):
            if env[var] == 'RAWS' and not known or env[var] == 'RAWN' and known: continue
            branch = (st.body if pos else st.orelse) if known else (st.orelse if pos else st.body)
            normaliser_paths(src, list(branch) + rest, dict(env, **{var: 'RAWS' if known else 'RAWN'}), out)
        return
    src.err(st, 'statement of the SparseVector normalisation is outside the subset')


def sparse_on_all_paths(src, results, what):
    vals = set()
    for kind, v in results:
        vals.add(v)
    return vals and vals <= {'SPARSE', 'RAWS'}      # a SparseVector holding the argument's entries (possibly the argument itself)


class CallTr:
    def __init__(self, src, cls, fn, imports, functions, methods):
        self.src, self.cls, self.fn, self.imports = src, cls, fn, imports
        self.functions, self.methods = functions, methods
        self.used_helpers = set()
        self.mtype = None
        self.lines, self.nclose = [], 0
        self.counter = {}

    def fresh(self, name):
        k = self.counter.get(name, 0); self.counter[name] = k + 1
        return f'v_{name}' if k == 0 else f'v_{name}_{k}'

    # ---------------------------------------------------------------- helpers
    def helper(self, call):
        """(FunctionDef, parameter names without self, argument nodes) of a call of a module function or same-class method"""
        f = call.func
        if call.keywords: return None
        if isinstance(f, ast.Name) and f.id in self.functions:
            fn = self.functions[f.id]; params = [a.arg for a in fn.args.args]
        elif isinstance(f, ast.Attribute) and isinstance(f.value, ast.Name) and f.value.id == 'self' and f.attr in self.methods \
                and not f.attr.startswith('__'):
            fn = self.methods[f.attr]; params = [a.arg for a in fn.args.args][1:]
        else:
            return None
        a = fn.args
        if a.vararg or a.kwarg or a.kwonlyargs or a.defaults or fn.decorator_list or len(params) != len(call.args):
            self.src.err(call, f'helper {fn.name} has a signature outside the subset')
        self.used_helpers.add(fn.name)
        return fn, params, call.args

    def is_normaliser_call(self, call, env):
        h = self.helper(call) if isinstance(call, ast.Call) else None
        if h is None: return None
        fn, params, args = h
        if len(args) != 1 or not isinstance(args[0], ast.Name): return None
        v = env.get(args[0].id)
        if v is None or v[0] not in ('raw', 'sparse'): return None
        out = []
        normaliser_paths(self.src, strip_docstring(self.src, fn.body), {params[0]: 'RAW' if v[0] == 'raw' else 'RAWS'}, out)
        if any(k == 'end' for k, _ in out):
            self.src.err(fn, f'helper {fn.name} may fall through without returning')
        if not sparse_on_all_paths(self.src, out, fn.name):
            self.src.err(call, f'helper {fn.name} does not return the SparseVector of its argument on every path')
        return True

    def inline_expr(self, n):
        """replace calls of single-`return` helpers by their body (arguments must be names)"""
        src = self.src

        class T(ast.NodeTransformer):
            def visit_Call(s, node):
                node = s.generic_visit(node)
                h = self.helper(node)
                if h is None: return node
                fn, params, args = h
                body = strip_docstring(src, fn.body)
                if len(body) != 1 or not isinstance(body[0], ast.Return) or body[0].value is None:
                    src.err(node, f'helper {fn.name} is not a single `return <expr>` and is not a SparseVector normalisation here')
                if not all(isinstance(a, ast.Name) for a in args):
                    src.err(node, f'arguments of helper {fn.name} must be names')
                m = {p: a for p, a in zip(params, args)}
                locals_ = {x.id for x in ast.walk(body[0].value) if isinstance(x, ast.Name)} - set(m)

                class S(ast.NodeTransformer):
                    def visit_Name(s2, nm):
                        return ast.copy_location(copy.deepcopy(m[nm.id]), nm) if nm.id in m else nm
                new = S().visit(copy.deepcopy(body[0].value))
                return ast.copy_location(s.visit(new), node)
        return T().visit(copy.deepcopy(n))

    # ---------------------------------------------------------------- values
    def is_sparse_name(self, n, env):
        return isinstance(n, ast.Name) and env.get(n.id, (None,))[0] == 'sparse'

    def is_items(self, n, env):
        return (isinstance(n, ast.Call) and not n.args and not n.keywords and isinstance(n.func, ast.Attribute) and n.func.attr == 'items'
                and isinstance(n.func.value, ast.Attribute) and n.func.value.attr == 'dct' and self.is_sparse_name(n.func.value.value, env))

    def loop_vars(self, target):
        if not (isinstance(target, ast.Tuple) and len(target.elts) == 2 and all(isinstance(e, ast.Name) for e in target.elts)):
            self.src.err(target, 'loop target must be `index, value`')
        return target.elts[0].id, target.elts[1].id

    def summand(self, node, env, ivar, jvar, temps):
        src = self.src
        node = self.inline_expr(node)

        def name(n):
            if n.id == jvar: return '(pv (Some j))'
            if n.id in temps: return f'(pv {temps[n.id]})'
            v = env.get(n.id)
            if v is not None and v[0] == 'num': return f'(pv {v[1]})'
            src.err(n, f'name {n.id!r} is not a number in scope')

        def call(n):
            f = n.func
            if isinstance(f, ast.Subscript):
                if not (isinstance(f.value, ast.Name) and env.get(f.value.id, (None,))[0] == 'models'):
                    src.err(n, 'only <self.models>[<index>](...) is in the subset')
                if not (isinstance(f.slice, ast.Name) and f.slice.id == ivar):
                    src.err(n, 'the model must be selected by the loop index')
                args = []
                for x in n.args:
                    if not (isinstance(x, ast.Name) and env.get(x.id, (None,))[0] == 'param'):
                        src.err(x, 'model arguments must be parameters of __call__')
                    args.append(env[x.id][1])
                ty = ' -> '.join([PTYPE[x] for x in args] + ['pyv A'])
                if self.mtype is None: self.mtype = ty
                if self.mtype != ty:
                    src.err(n, 'models are called with two different signatures')
                return f'(bind (subscript models i) (fun f => f {" ".join(args)}))'
            return None

        def pname(n):       # parameters T, P are numbers too
            v = env.get(n.id)
            if v is not None and v[0] == 'param' and PTYPE[v[1]] == 'option A': return f'(pv {v[1]})'
            return name(n)
        logs = [k for k, v in self.imports.items() if v == ('math', 'log')]
        return ExprTr(src, pname, lambda n: None, call, logs).tr(node)

    def fold_of_comprehension(self, lc, env):
        if len(lc.generators) != 1: self.src.err(lc, 'one generator expected')
        g = lc.generators[0]
        if g.is_async or not self.is_items(g.iter, env):
            self.src.err(lc, 'the comprehension must run over <SparseVector>.dct.items()')
        if g.ifs:
            self.src.err(g.ifs[0], 'a filter changes the summands of the mixture model')
        ivar, jvar = self.loop_vars(g.target)
        return f'(fun (i : nat) (j : A) => {self.summand(lc.elt, env, ivar, jvar, {})})'

    def fold_of_loop(self, st, env):
        """for a, b in sv.dct.items(): temporaries ...; acc.append(expr)  ->  (accumulator name, element function)"""
        src = self.src
        if st.orelse or not self.is_items(st.iter, env):
            src.err(st, 'the loop must run over <SparseVector>.dct.items() (no else)')
        ivar, jvar = self.loop_vars(st.target)
        temps, binds = {}, []
        body = list(st.body)
        if not body: src.err(st, 'empty loop')
        for s_ in body[:-1]:
            if isinstance(s_, ast.Assign) and len(s_.targets) == 1 and isinstance(s_.targets[0], ast.Name):
                t = s_.targets[0].id
                if t in (ivar, jvar) or t in env:
                    src.err(s_, f'{t} is re-bound inside the loop')
                term = self.summand(s_.value, env, ivar, jvar, temps)
                x = self.fresh(t)
                binds.append(f'bind {term} (fun {x} : option A => ')
                temps[t] = x
            else:
                src.err(s_, 'statement inside the loop is outside the subset (temporaries, then one append; a filter or `+=` changes the fold)')
        last = body[-1]
        ok = (isinstance(last, ast.Expr) and isinstance(last.value, ast.Call) and isinstance(last.value.func, ast.Attribute)
              and last.value.func.attr == 'append' and isinstance(last.value.func.value, ast.Name)
              and len(last.value.args) == 1 and not last.value.keywords)
        if not ok:
            src.err(last, 'the loop must end with <acc>.append(<expr>)')
        acc = last.value.func.value.id
        if env.get(acc, (None,))[0] != 'emptylist':
            src.err(last, f'{acc} is not a list that was empty before the loop')
        term = self.summand(last.value.args[0], env, ivar, jvar, temps)
        return acc, '(fun (i : nat) (j : A) => ' + ''.join(binds) + term + ')' * len(binds) + ')'

    def sum_value(self, n, env):
        """sum(<list>) -> Gallina term of type pyv A, or None"""
        if not (isinstance(n, ast.Call) and isinstance(n.func, ast.Name) and n.func.id == 'sum' and len(n.args) == 1 and not n.keywords):
            return None
        a = n.args[0]
        if isinstance(a, ast.ListComp):
            f = self.fold_of_comprehension(a, env)
        elif isinstance(a, ast.Name) and env.get(a.id, (None,))[0] == 'list':
            f = env[a.id][1]
        elif isinstance(a, ast.GeneratorExp):
            self.src.err(a, 'sum over a generator is summed like a list, but is outside the subset')
        else:
            self.src.err(a, 'sum() must be applied to the list of summands')
        return f'(py_sum O (items_map {f} mol))'

    # ---------------------------------------------------------------- statements
    def run(self):
        src, fn = self.src, self.fn
        a = fn.args
        if a.vararg or a.kwarg or a.kwonlyargs or a.posonlyargs:
            src.err(fn, 'only plain parameters are in the subset')
        names = [x.arg for x in a.args]
        if names[0] != 'self' or any(n not in PTYPE for n in names[1:]) or 'mol' not in names or 'T' not in names:
            src.err(fn, f'parameters {names} are outside the subset (self, [phase,] mol, T[, P])')
        for dflt in a.defaults:
            if not (isinstance(dflt, ast.Constant) and dflt.value is None):
                src.err(fn, 'only `=None` defaults are in the subset')
        if a.defaults and (len(a.defaults) != 1 or names[-1] != 'P'):
            src.err(fn, 'only P may have a default')
        params = names[1:]
        env = {p: ('param', p) for p in params if p != 'mol'}
        env['mol'] = ('raw',)
        result = None
        body = strip_docstring(src, fn.body)
        for k, st in enumerate(body):
            if result is not None:
                src.err(st, 'statement after the return')
            # normalisation by an if statement
            if isinstance(st, ast.If):
                out = []
                r = is_sparse_test(src, st.test)
                if r is None or env.get(r[0], (None,))[0] != 'raw':
                    src.err(st, '`if` is outside the subset (only the SparseVector normalisation of the argument)')
                normaliser_paths(src, [st], {r[0]: 'RAW'}, out)
                if any(kd == 'return' for kd, _ in out):
                    src.err(st, 'the normalisation must not return')
                ends = [e for kd, e in out]
                changed = {n for e in ends for n in e if n != r[0]}
                if changed or not all(e[r[0]] in ('SPARSE', 'RAWS') for e in ends):
                    src.err(st, f'{r[0]} is not the SparseVector of the argument on every path')
                env[r[0]] = ('sparse',)
                continue
            if isinstance(st, ast.Assign) and len(st.targets) == 1 and isinstance(st.targets[0], ast.Name):
                t, v = st.targets[0].id, st.value
                if t in env and env[t][0] == 'param':
                    src.err(st, f'parameter {t} is re-bound')
                if isinstance(v, ast.Call) and self.is_normaliser_call(v, env):
                    env[t] = ('sparse',)
                elif isinstance(v, ast.Call) and isinstance(v.func, ast.Name) and v.func.id == 'SparseVector' and len(v.args) == 1 \
                        and not v.keywords and isinstance(v.args[0], ast.Name) and env.get(v.args[0].id, (None,))[0] in ('raw', 'sparse'):
                    env[t] = ('sparse',)
                elif ast.dump(v) == "Attribute(value=Name(id='self', ctx=Load()), attr='models', ctx=Load())":
                    env[t] = ('models',)
                elif isinstance(v, ast.Name) and v.id in env and env[v.id][0] in ('sparse', 'models', 'num', 'list', 'result'):
                    env[t] = env[v.id]
                elif isinstance(v, ast.Call) and not v.args and not v.keywords and isinstance(v.func, ast.Attribute) and v.func.attr == 'sum' \
                        and self.is_sparse_name(v.func.value, env):
                    x = self.fresh(t)
                    self.lines.append(f'bind (sv_sum O mol) (fun {x} : option A =>'); self.nclose += 1
                    env[t] = ('num', x)
                elif isinstance(v, ast.List) and not v.elts:
                    env[t] = ('emptylist',)
                elif self.sum_value(v, env) is not None:
                    x = self.fresh(t)
                    self.lines.append(f'bind {self.sum_value(v, env)} (fun {x} : option A =>'); self.nclose += 1
                    env[t] = ('result', x)
                else:
                    # any other expression that is the SparseVector of the argument on every path (e.g. `x if <test> else SparseVector(x)`)
                    absenv = {k_: ('RAW' if v_[0] == 'raw' else 'SPARSE') for k_, v_ in env.items() if v_[0] in ('raw', 'sparse')}
                    out = []
                    try:
                        r_ = ast.Return(value=v); ast.copy_location(r_, st)
                        normaliser_paths(src, [r_], absenv, out)
                        ok_ = sparse_on_all_paths(src, out, t)
                    except TranslatorError:
                        ok_ = False
                    if not ok_:
                        src.err(st, 'assignment is outside the subset')
                    env[t] = ('sparse',)
                continue
            if isinstance(st, ast.For):
                acc, f = self.fold_of_loop(st, env)
                env[acc] = ('list', f)
                continue
            if isinstance(st, ast.Return) and st.value is not None:
                sv = self.sum_value(st.value, env)
                if sv is not None:
                    result = sv
                elif isinstance(st.value, ast.Name) and env.get(st.value.id, (None,))[0] == 'result':
                    result = f'(pv {env[st.value.id][1]})'
                else:
                    src.err(st, 'return value must be the sum of the summands')
                continue
            src.err(st, 'statement is outside the subset')
        if result is None:
            src.err(fn, '__call__ does not return')
        if self.mtype is None:
            src.err(fn, 'the summand never calls the pure-component models')
        binders = ' '.join(f'({p} : {PTYPE[p]})' for p in params)
        text = (f'(* {REL}:{fn.lineno}  {self.cls}.__call__({", ".join(names)}) *)\n'
                f'Definition {self.cls}_call {{A : Type}} (E : env A) (models : list ({self.mtype})) {binders} : pyv A :=\n'
                f'  let O := eO E in\n  ' + '\n  '.join(self.lines) + ('\n  ' if self.lines else '') + result + ')' * self.nclose + '.\n')
        return text, {'class': self.cls, 'line': fn.lineno, 'params': params, 'model_type': self.mtype,
                      'helpers_inlined': sorted(self.used_helpers)}


def run(repo, out_dir):
    src = Src(repo, REL)
    imports = module_imports(src)
    if imports.get('SparseVector') != ('..base', 'SparseVector'):
        raise TranslatorError(f'{REL}: SparseVector is not imported from ..base')
    functions = {}
    for st in src.tree.body:
        if isinstance(st, ast.FunctionDef):
            if st.name in functions: src.err(st, f'function {st.name} defined twice')
            functions[st.name] = st
    texts, metas, skipped, used = [], [], [], set()
    for st in src.tree.body:
        if isinstance(st, (ast.Import, ast.ImportFrom, ast.FunctionDef)):
            continue
        if isinstance(st, ast.Expr) and isinstance(st.value, ast.Constant) and isinstance(st.value.value, str):
            continue
        if isinstance(st, ast.Assign) and len(st.targets) == 1 and isinstance(st.targets[0], ast.Name) and st.targets[0].id == '__all__':
            continue
        if not isinstance(st, ast.ClassDef):
            src.err(st, 'module-level statement is outside the subset')
        if st.bases or st.keywords or st.decorator_list:
            src.err(st, 'base classes / decorators are outside the subset')
        calls = [x for x in st.body if isinstance(x, ast.FunctionDef) and x.name == '__call__']
        if st.name in NOT_C07:
            skipped.append(st.name)
            continue
        if len(calls) != 1:
            src.err(st, f'class {st.name} has {len(calls)} __call__ methods')
        methods = {}
        for x in st.body:
            if isinstance(x, ast.FunctionDef):
                if x.decorator_list:
                    src.err(x, 'decorated method')
                if x.name == '__init__' and ('[' + ', '.join(ast.dump(y) for y in x.body) + ']').replace(' ', '') != INIT.replace(' ', ''):
                    src.err(x, '__init__ must be `self.models = tuple(models); self.var = var`')
                if x.name.startswith('__') and x.name not in ('__init__', '__call__', '__repr__'):
                    src.err(x, f'method {x.name} is outside the subset')
                methods[x.name] = x
            elif isinstance(x, ast.Assign):
                if len(x.targets) != 1 or not isinstance(x.targets[0], ast.Name):
                    src.err(x, 'class-level assignment is outside the subset')
                t = x.targets[0].id
                if t == '__init__' and ast.dump(x.value) != "Attribute(value=Name(id='IdealTPMixtureModel', ctx=Load()), attr='__init__', ctx=Load())":
                    src.err(x, '__init__ alias is outside the subset')
                if t not in ('__slots__', '__init__', '__repr__'):
                    src.err(x, f'class attribute {t} is outside the subset')
            elif isinstance(x, ast.Expr) and isinstance(x.value, ast.Constant) and isinstance(x.value.value, str):
                pass
            else:
                src.err(x, 'class-body statement is outside the subset')
        if not any((isinstance(x, ast.FunctionDef) and x.name == '__init__') or
                   (isinstance(x, ast.Assign) and x.targets[0].id == '__init__') for x in st.body):
            src.err(st, f'class {st.name} has no __init__')
        tr = CallTr(src, st.name, calls[0], imports, functions, methods)
        text, meta = tr.run()
        used |= tr.used_helpers
        texts.append(text)
        metas.append(meta)
    found = [m['class'] for m in metas]
    if sorted(found) != sorted(EXPECTED):
        raise TranslatorError(f'{REL}: mixture model classes are {found}, expected {EXPECTED}')
    out = header('tr/C07_mixture_models.py', [src], [f + '.__call__' for f in found])
    out += 'From V Require Import Common.Num C07.Model.\n\n' + '\n'.join(texts)
    import vf
    vf.write_if_changed(os.path.join(out_dir, 'Gen_MixtureModels.v'), out)
    return {'file': 'coq/C07/Gen_MixtureModels.v', 'source': REL, 'sha256': src.sha, 'translated': metas,
            'not_translated': skipped, 'helpers_inlined': sorted(used),
            'helpers_unused': sorted(set(functions) - used)}
