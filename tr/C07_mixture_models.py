"""C07 translator 3/3: the five `__call__` bodies of thermosteam/mixture/ideal_mixture_model.py.

Accepted body of `__call__(self, [phase,] mol, T[, P[=None]])`:
    if mol.__class__ is not SparseVector: mol = SparseVector(mol)      (normalisation; the model's `mol`
                                                                         is already dct.items() of the SparseVector)
    total_mol = mol.sum()                                               (optional)
    models = self.models
    return sum([<expr over j, total_mol, T, P, models[i](<params>), log> for i, j in mol.dct.items()])
Anything else is a TranslatorError.  `IdealHvapModel` (heat of vaporisation; not part of C07) is listed,
not translated; any other class with a `__call__` must translate."""
import ast, os
from C07_pysubset import Src, ExprTr, TranslatorError, module_imports, strip_docstring, header

REL = 'thermosteam/mixture/ideal_mixture_model.py'
EXPECTED = ['IdealTPMixtureModel', 'IdealEntropyModel', 'IdealTMixtureModel',
            'SinglePhaseIdealTMixtureModel', 'SinglePhaseIdealTPMixtureModel']
NOT_C07 = {'IdealHvapModel'}
NORMALISE = "If(test=Compare(left=Attribute(value=Name(id='mol', ctx=Load()), attr='__class__', ctx=Load()), ops=[IsNot()], comparators=[Name(id='SparseVector', ctx=Load())]), body=[Assign(targets=[Name(id='mol', ctx=Store())], value=Call(func=Name(id='SparseVector', ctx=Load()), args=[Name(id='mol', ctx=Load())], keywords=[]))], orelse=[])"
INIT = "[Assign(targets=[Attribute(value=Name(id='self', ctx=Load()), attr='models', ctx=Store())], value=Call(func=Name(id='tuple', ctx=Load()), args=[Name(id='models', ctx=Load())], keywords=[])), Assign(targets=[Attribute(value=Name(id='self', ctx=Load()), attr='var', ctx=Store())], value=Name(id='var', ctx=Load()))]"
PTYPE = {'phase': 'phase', 'mol': 'list (nat * A)', 'T': 'option A', 'P': 'option A'}


def translate_call(src, cls, fn, imports):
    a = fn.args
    if a.vararg or a.kwarg or a.kwonlyargs or a.posonlyargs:
        src.err(fn, 'only plain parameters are in the subset')
    names = [x.arg for x in a.args]
    if names[0] != 'self' or any(n not in PTYPE for n in names[1:]) or 'mol' not in names or 'T' not in names:
        src.err(fn, f'parameters {names} are outside the subset (self, [phase,] mol, T[, P])')
    for dflt in a.defaults:
        if not (isinstance(dflt, ast.Constant) and dflt.value is None):
            src.err(fn, 'only `=None` defaults are in the subset')
    if a.defaults and (len(a.defaults) != 1 or names[-1] != 'P'):
        src.err(fn, 'only P may have a default')
    params = names[1:]
    body = strip_docstring(src, fn.body)
    if not body or ast.dump(body[0]) != NORMALISE:
        src.err(body[0] if body else fn, 'first statement must be the SparseVector normalisation of mol')
    body = body[1:]
    lines, nclose = [], 0
    have_models = False
    scalars = {p for p in params if PTYPE[p] == 'option A'}
    plain = set()       # Gallina variables of type A
    mtype = {}
    while body and isinstance(body[0], ast.Assign):
        st = body.pop(0)
        if len(st.targets) != 1 or not isinstance(st.targets[0], ast.Name):
            src.err(st, 'assignment target is outside the subset')
        t, v = st.targets[0].id, st.value
        if t == 'models' and ast.dump(v) == "Attribute(value=Name(id='self', ctx=Load()), attr='models', ctx=Load())":
            have_models = True
        elif t == 'total_mol' and ast.dump(v) == "Call(func=Attribute(value=Name(id='mol', ctx=Load()), attr='sum', ctx=Load()), args=[], keywords=[])":
            lines.append('bind (sv_sum O mol) (fun total_mol : option A =>')
            nclose += 1
            scalars.add('total_mol')
        else:
            src.err(st, 'assignment is outside the subset (models = self.models | total_mol = mol.sum())')
    if len(body) != 1 or not isinstance(body[0], ast.Return):
        src.err(body[0] if body else fn, 'expected a single final `return sum([...])`')
    r = body[0].value
    ok = (isinstance(r, ast.Call) and isinstance(r.func, ast.Name) and r.func.id == 'sum' and len(r.args) == 1
          and not r.keywords and isinstance(r.args[0], ast.ListComp) and len(r.args[0].generators) == 1)
    if not ok:
        src.err(body[0], 'return value must be sum([<expr> for i, j in mol.dct.items()])')
    g = r.args[0].generators[0]
    if g.ifs or g.is_async or ast.dump(g.target) != "Tuple(elts=[Name(id='i', ctx=Store()), Name(id='j', ctx=Store())], ctx=Store())" \
            or ast.dump(g.iter) != "Call(func=Attribute(value=Attribute(value=Name(id='mol', ctx=Load()), attr='dct', ctx=Load()), attr='items', ctx=Load()), args=[], keywords=[])":
        src.err(r, 'comprehension must be `for i, j in mol.dct.items()` without a filter')

    def name(n):
        if n.id in scalars:
            return f'(pv {n.id})'
        if n.id == 'j':
            return '(pv (Some j))'
        src.err(n, f'name {n.id!r} is not a number in scope')

    def call(n):
        f = n.func
        if isinstance(f, ast.Subscript):
            if not have_models:
                src.err(n, '`models` is not bound to self.models')
            if ast.dump(f.value) != "Name(id='models', ctx=Load())" or ast.dump(f.slice) != "Name(id='i', ctx=Load())":
                src.err(n, 'only models[i](...) is in the subset')
            args = []
            for x in n.args:
                if not (isinstance(x, ast.Name) and x.id in params and x.id != 'mol'):
                    src.err(x, 'model arguments must be parameters of __call__')
                args.append(x.id)
            ty = ' -> '.join([PTYPE[x] for x in args] + ['pyv A'])
            if mtype.setdefault('t', ty) != ty:
                src.err(n, 'models are called with two different signatures')
            return f'(bind (subscript models i) (fun f => f {" ".join(args)}))'
        return None

    logs = [k for k, v in imports.items() if v == ('math', 'log')]
    term = ExprTr(src, name, lambda n: None, call, logs).tr(r.args[0].elt)
    if 't' not in mtype:
        src.err(r, 'the summand never calls models[i]')
    binders = ' '.join(f'({p} : {PTYPE[p]})' for p in params)
    text = (f'(* {REL}:{fn.lineno}  {cls}.__call__({", ".join(names)}) *)\n'
            f'Definition {cls}_call {{A : Type}} (E : env A) (models : list ({mtype["t"]})) {binders} : pyv A :=\n'
            f'  let O := eO E in\n  ' + '\n  '.join(lines) +
            ('\n  ' if lines else '') + f'(py_sum O (items_map (fun (i : nat) (j : A) => {term}) mol))' + ')' * nclose + '.\n')
    return text, {'class': cls, 'line': fn.lineno, 'params': params, 'model_type': mtype['t']}


def run(repo, out_dir):
    src = Src(repo, REL)
    imports = module_imports(src)
    if imports.get('SparseVector') != ('..base', 'SparseVector'):
        raise TranslatorError(f'{REL}: SparseVector is not imported from ..base')
    texts, metas, skipped = [], [], []
    for st in src.tree.body:
        if isinstance(st, (ast.Import, ast.ImportFrom)):
            continue
        if isinstance(st, ast.Expr) and isinstance(st.value, ast.Constant) and isinstance(st.value.value, str):
            continue
        if isinstance(st, ast.Assign) and len(st.targets) == 1 and isinstance(st.targets[0], ast.Name) and st.targets[0].id == '__all__':
            continue
        if not isinstance(st, ast.ClassDef):
            src.err(st, 'module-level statement is outside the subset')
        if st.bases or st.keywords or st.decorator_list:
            src.err(st, 'base classes / decorators are outside the subset')
        calls = [x for x in st.body if isinstance(x, ast.FunctionDef) and x.name == '__call__']
        if st.name in NOT_C07:
            skipped.append(st.name)
            continue
        if len(calls) != 1:
            src.err(st, f'class {st.name} has {len(calls)} __call__ methods')
        for x in st.body:
            if isinstance(x, ast.FunctionDef):
                if x.decorator_list:
                    src.err(x, 'decorated method')
                if x.name == '__init__' and ('[' + ', '.join(ast.dump(y) for y in x.body) + ']').replace(' ', '') != INIT.replace(' ', ''):
                    src.err(x, '__init__ must be `self.models = tuple(models); self.var = var`')
                if x.name not in ('__init__', '__call__', '__repr__'):
                    src.err(x, f'method {x.name} is outside the subset')
            elif isinstance(x, ast.Assign):
                if len(x.targets) != 1 or not isinstance(x.targets[0], ast.Name):
                    src.err(x, 'class-level assignment is outside the subset')
                t = x.targets[0].id
                if t == '__init__' and ast.dump(x.value) != "Attribute(value=Name(id='IdealTPMixtureModel', ctx=Load()), attr='__init__', ctx=Load())":
                    src.err(x, '__init__ alias is outside the subset')
                if t not in ('__slots__', '__init__', '__repr__'):
                    src.err(x, f'class attribute {t} is outside the subset')
            elif isinstance(x, ast.Expr) and isinstance(x.value, ast.Constant) and isinstance(x.value.value, str):
                pass
            else:
                src.err(x, 'class-body statement is outside the subset')
        if not any((isinstance(x, ast.FunctionDef) and x.name == '__init__') or
                   (isinstance(x, ast.Assign) and x.targets[0].id == '__init__') for x in st.body):
            src.err(st, f'class {st.name} has no __init__')
        text, meta = translate_call(src, st.name, calls[0], imports)
        texts.append(text)
        metas.append(meta)
    found = [m['class'] for m in metas]
    if sorted(found) != sorted(EXPECTED):
        raise TranslatorError(f'{REL}: mixture model classes are {found}, expected {EXPECTED}')
    out = header('tr/C07_mixture_models.py', [src], [f + '.__call__' for f in found])
    out += 'From V Require Import Common.Num C07.Model.\n\n' + '\n'.join(texts)
    import vf
    vf.write_if_changed(os.path.join(out_dir, 'Gen_MixtureModels.v'), out)
    return {'file': 'coq/C07/Gen_MixtureModels.v', 'source': REL, 'sha256': src.sha, 'translated': metas,
            'not_translated': skipped}
