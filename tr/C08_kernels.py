"""C08 translator: python ast -> Gallina for the residual kernels of BubblePoint / DewPoint and for the
lines of solve_Ty / solve_Py / solve_Tx / solve_Px that prepare the composition arguments.

Writes coq/C08/Gen_kernels.v.  coq/C08/Proofs.v proves `g_<name> = <hand-written model function>` by
reflexivity, so an edit of these functions in /repo either regenerates a convertible term or breaks the build.
Fails closed: any statement / expression outside the small subset below raises TranslatorError naming
file, line and node.

Behaviour-preserving tidy-ups regenerate a convertible term (the agreement lemma is conversion: delta/zeta/beta):
  * local temporaries and renamed locals are let-bindings, which conversion sees through;
  * renamed parameters are matched by position;
  * a call `self._helper(args)` to a method of the same class in the same file is inlined when the helper's body is itself
    in the subset (assignments / masks, one final `return <expr>`, no guard, no buffer write, no recursion): parameters are
    substituted by the translated arguments, the helper's locals get a suffix so that they cannot capture;
  * the composition arguments of solve_* are taken by position from the `args = (...)` tuple handed to the root finder, so the
    locals holding them may be renamed or computed through temporaries."""
import ast, hashlib, os, sys

sys.path.insert(0, os.path.join(os.path.dirname(os.path.abspath(__file__)), '..', 'lib'))
from vf import TranslatorError, REPO, COQ, q, write_if_changed

VEC, SCA = 'vec', 'sca'

class Tr:
    def __init__(self, path, env, cls_node=None, stack=(), suffix=''):
        self.path = path
        self.env = dict(env)          # name -> (type, coq text)
        self.cls_node = cls_node      # ast.ClassDef whose methods may be inlined
        self.stack = tuple(stack)     # methods being inlined (no recursion)
        self.suffix = suffix          # appended to let-bound locals of an inlined method

    def inline(self, e, name):
        """self.<name>(args) with <name> a method of the same class whose body is in the subset -> its body, inlined"""
        fn = None
        for m in (self.cls_node.body if self.cls_node is not None else ()):
            if isinstance(m, ast.FunctionDef) and m.name == name:
                fn = m
        if fn is None:
            self.err(e, 'call')
        if name in self.stack:
            self.err(e, 'recursive helper')
        a = fn.args
        if e.keywords or a.vararg or a.kwarg or a.kwonlyargs or a.posonlyargs or any(isinstance(x, ast.Starred) for x in e.args):
            self.err(e, 'helper call with keywords / star arguments')
        ps = [x.arg for x in a.args]
        if not ps or ps[0] != 'self' or len(ps) - 1 != len(e.args):
            self.err(e, 'helper call arity')
        if fn.decorator_list:
            self.err(e, 'decorated helper')
        sub = Tr(self.path, {}, self.cls_node, self.stack + (name,), f'{self.suffix}_{name.strip("_")}')
        for p_, arg in zip(ps[1:], e.args):
            sub.env[p_] = self.expr(arg)
        box = []
        def fin(tr, s):
            if s.value is None:
                tr.err(s, 'helper returns nothing')
            t, txt = tr.expr(s.value)
            box.append(t)
            return txt
        text = sub.body(fn.body, fin)
        return box[0], f'({text})'

    def err(self, node, what):
        raise TranslatorError(f'{self.path}:{getattr(node, "lineno", "?")}: outside the translated subset: {what} '
                              f'({type(node).__name__}: {ast.unparse(node)[:80]})')

    # ---- expressions: returns (type, text)
    def expr(self, e):
        if isinstance(e, ast.Name):
            if e.id not in self.env:
                self.err(e, 'unknown name')
            return self.env[e.id]
        if isinstance(e, ast.Constant) and isinstance(e.value, (int, float)) and not isinstance(e.value, bool):
            if e.value in (0, 1):
                return SCA, str(int(e.value))
            return SCA, q(float(e.value))
        if isinstance(e, ast.BinOp):
            (ta, a), (tb, b) = self.expr(e.left), self.expr(e.right)
            if isinstance(e.op, ast.Mult):
                if ta == VEC and tb == VEC: return VEC, f'(vmul {a} {b})'
                if ta == VEC and tb == SCA: return VEC, f'(map (fun a => a * {b}) {a})'
                if ta == SCA and tb == VEC: return VEC, f'(vmul {self.ones_like(e, a)} {b})'
                return SCA, f'({a} * {b})'
            if isinstance(e.op, ast.Div):
                if ta == VEC and tb == VEC: return VEC, f'(map2 Qdiv {a} {b})'
                if ta == VEC and tb == SCA: return VEC, f'(vdivs {a} {b})'
                if ta == SCA and tb == SCA: return SCA, f'({a} / {b})'
                self.err(e, 'scalar / vector')
            if isinstance(e.op, ast.Sub) and ta == SCA and tb == SCA: return SCA, f'({a} - {b})'
            if isinstance(e.op, ast.Add) and ta == SCA and tb == SCA: return SCA, f'({a} + {b})'
            self.err(e, 'operator')
        if isinstance(e, ast.Call):
            f = e.func
            src = ast.unparse(f)
            args = e.args
            if src.endswith('.sum') and not args and isinstance(f, ast.Attribute):
                t, a = self.expr(f.value)
                if t != VEC: self.err(e, '.sum() of a scalar')
                return SCA, f'(qsum {a})'
            if src == 'self.gamma' and len(args) == 2:
                return VEC, f'(gam k {self.arg(args[0], VEC)} {self.arg(args[1], SCA)})'
            if src == 'self.phi' and len(args) == 3:
                return VEC, f'(phi k {self.arg(args[0], VEC)} {self.arg(args[1], SCA)} {self.arg(args[2], SCA)})'
            if src == 'self.pcf' and len(args) == 3:
                return VEC, f'(pcf k {self.arg(args[0], SCA)} {self.arg(args[1], SCA)} {self.arg(args[2], VEC)})'
            if src == 'solve_y' and len(args) == 5 and ast.unparse(args[1]) == 'self.phi':
                # solve_y(y_phi, self.phi, T, P, y_guess): the guess is not used by solve_y
                return VEC, f'(solve_y k S {self.arg(args[0], VEC)} {self.arg(args[2], SCA)} {self.arg(args[3], SCA)})'
            if src == 'self._solve_x' and len(args) == 4:
                # _solve_x(x_gamma, T, P, x) -> solve_x(x, x_gamma, T, P, gamma.f, gamma.args)
                return VEC, f'(solve_x k S {self.arg(args[3], VEC)} {self.arg(args[0], VEC)} {self.arg(args[1], SCA)})'
            if src == 'np.array' and len(args) == 1 and isinstance(args[0], ast.ListComp):
                lc = args[0]
                if (len(lc.generators) == 1 and ast.unparse(lc.generators[0].iter) == 'self.Psats'
                        and not lc.generators[0].ifs and isinstance(lc.elt, ast.Call)
                        and ast.unparse(lc.elt.func) == ast.unparse(lc.generators[0].target) and len(lc.elt.args) == 1):
                    for kw in e.keywords:
                        if kw.arg != 'dtype': self.err(e, 'np.array keyword')
                    return VEC, f'(psats_at k {self.arg(lc.elt.args[0], SCA)})'
            if isinstance(f, ast.Attribute) and isinstance(f.value, ast.Name) and f.value.id == 'self':
                return self.inline(e, f.attr)
            self.err(e, 'call')
        self.err(e, 'expression')

    def ones_like(self, node, a):
        self.err(node, 'scalar * vector (write vector * scalar)')

    def arg(self, e, typ):
        t, a = self.expr(e)
        if t != typ: self.err(e, f'expected {typ}')
        return a

    # ---- statement lists ending in return; `final` maps the return expression to Gallina
    def body(self, stmts, final):
        if not stmts:
            raise TranslatorError(f'{self.path}: function body ends without return')
        s, rest = stmts[0], stmts[1:]
        if isinstance(s, ast.Expr) and isinstance(s.value, ast.Constant) and isinstance(s.value.value, str):
            return self.body(rest, final)
        if isinstance(s, ast.If) and not s.orelse and len(s.body) == 1 and isinstance(s.body[0], ast.Raise):
            if self.stack: self.err(s, 'guard inside an inlined helper')
            c = s.test
            if (isinstance(c, ast.Compare) and len(c.ops) == 1 and isinstance(c.ops[0], ast.LtE)
                    and isinstance(c.comparators[0], ast.Constant) and c.comparators[0].value == 0):
                exc = s.body[0].exc
                if isinstance(exc, ast.Call) and ast.unparse(exc.func) == 'InfeasibleRegion':
                    return f'if qleb {self.arg(c.left, SCA)} 0 then Err EInfeasible else\n  {self.body(rest, final)}'
            self.err(s, 'guard')
        if isinstance(s, ast.Assign) and len(s.targets) == 1:
            tg = s.targets[0]
            sfx = self.suffix
            if isinstance(tg, ast.Name):
                t, a = self.expr(s.value)
                v = tg.id
                self.env[v] = (t, v + sfx)
                return f'let {v}{sfx} := {a} in\n  {self.body(rest, final)}'
            # buf[:] = expr
            if (isinstance(tg, ast.Subscript) and isinstance(tg.value, ast.Name) and isinstance(tg.slice, ast.Slice)
                    and tg.slice.lower is None and tg.slice.upper is None and tg.slice.step is None):
                if self.stack: self.err(s, 'buffer write inside an inlined helper')
                t, a = self.expr(s.value)
                if t != VEC: self.err(s, 'buffer write of a scalar')
                v = tg.value.id
                if v not in self.env: self.err(s, 'write to an unknown buffer')
                self.env[v] = (VEC, v + "'")
                return f"let {v}' := {a} in\n  {self.body(rest, final)}"
            # Psats[Psats < 1e-16] = 1e-16
            if (isinstance(tg, ast.Subscript) and isinstance(tg.value, ast.Name) and isinstance(tg.slice, ast.Compare)
                    and len(tg.slice.ops) == 1 and isinstance(tg.slice.ops[0], ast.Lt)
                    and ast.unparse(tg.slice.left) == tg.value.id and isinstance(tg.slice.comparators[0], ast.Constant)
                    and isinstance(s.value, ast.Constant) and s.value.value == tg.slice.comparators[0].value):
                v = tg.value.id
                if self.env.get(v, (None,))[0] != VEC: self.err(s, 'mask on a non-vector')
                m = q(float(s.value.value))
                old = self.env[v][1]
                self.env[v] = (VEC, v + sfx + '_c')
                return f'let {v}{sfx}_c := clamp_lo {m} {old} in\n  {self.body(rest, final)}'
            self.err(s, 'assignment target')
        if isinstance(s, ast.Return):
            if rest: self.err(rest[0], 'statement after return')
            return final(self, s)
        self.err(s, 'statement')

def find_method(tree, cls, name, path):
    for n in tree.body:
        if isinstance(n, ast.ClassDef) and n.name == cls:
            for m in n.body:
                if isinstance(m, ast.FunctionDef) and m.name == name:
                    return m
    raise TranslatorError(f'{path}: method {cls}.{name} not found')

def params(fn):
    return [a.arg for a in fn.args.args]

def ret_resid(tr, s):
    """return 1 - buf.sum()   ->   Ok (1 - qsum buf', buf')"""
    e = s.value
    if (isinstance(e, ast.BinOp) and isinstance(e.op, ast.Sub) and isinstance(e.left, ast.Constant) and e.left.value in (1, 1.0)
            and isinstance(e.right, ast.Call) and ast.unparse(e.right.func).endswith('.sum') and not e.right.args):
        t, b = tr.expr(e.right.func.value)
        if t == VEC and b.endswith("'"):
            return f'Ok (1 - qsum {b}, {b})'
    tr.err(s, 'return of a residual kernel must be 1 - <written buffer>.sum()')

def ret_pair(tr, s):
    e = s.value
    if isinstance(e, ast.Tuple) and len(e.elts) == 2:
        return f'({tr.arg(e.elts[0], SCA)}, {tr.arg(e.elts[1], VEC)})'
    tr.err(s, 'return of a pair expected')

def find_class(tree, cls, path):
    for n in tree.body:
        if isinstance(n, ast.ClassDef) and n.name == cls:
            return n
    raise TranslatorError(f'{path}: class {cls} not found')

def kernel(tree, path, cls, name, gname, sig, coq_params, final=ret_resid, pre=''):
    fn = find_method(tree, cls, name, path)
    ps = params(fn)
    a = fn.args
    if not ps or ps[0] != 'self' or len(ps) - 1 != len(sig) or a.vararg or a.kwarg or a.kwonlyargs or a.defaults:
        raise TranslatorError(f'{path}:{fn.lineno}: signature of {cls}.{name} changed: {ps}')
    # parameters are matched by position (a renamed parameter is the same parameter); the Gallina binder keeps its name
    tr = Tr(path, {src: (t, coq) for src, (coq, t) in zip(ps[1:], sig)}, find_class(tree, cls, path))
    body = tr.body(fn.body, final)
    return f'Definition {gname} {coq_params} :=\n  {pre}{body}.\n'

def prep(tree, path, cls, name, branch_test, arity, positions, gname, coq_params, env):
    """The composition arguments handed to the root finder in the branch `elif <branch_test>:` of the method: the elements
    `positions` of the one tuple literal `args = (...)` of that branch, translated in the environment built from the
    simple assignments that precede it (temporaries; assignments outside the subset are skipped and fail closed only if a
    composition argument depends on them)."""
    fn = find_method(tree, cls, name, path)
    found = None
    for n in ast.walk(fn):
        if isinstance(n, ast.If) and ast.unparse(n.test) == branch_test:
            found = n
            break
    if found is None:
        raise TranslatorError(f'{path}:{fn.lineno}: branch `{branch_test}` of {cls}.{name} not found')
    tr = Tr(path, env, find_class(tree, cls, path))
    lets = []
    tuples = []
    for s in found.body:
        if isinstance(s, ast.Assign) and len(s.targets) == 1 and isinstance(s.targets[0], ast.Name):
            v = s.targets[0].id
            if isinstance(s.value, ast.Tuple):
                tuples.append(s)
                break                      # what follows the argument tuple is the solver call
            try:
                t, a = tr.expr(s.value)
            except TranslatorError:
                tr.env.pop(v, None)        # not in the subset: the name becomes unknown
                continue
            tr.env[v] = (t, v)
            lets.append(f'let {v} := {a} in')
        elif isinstance(s, (ast.If, ast.Try, ast.For, ast.While, ast.With)):
            stored = {x.id for x in ast.walk(s) if isinstance(x, ast.Name) and isinstance(x.ctx, ast.Store)}
            for v in stored:
                if v in tr.env and v not in env:
                    tr.env.pop(v)          # conditionally re-assigned local: unknown from here on
        elif isinstance(s, ast.Assign):
            for tg in s.targets:
                for x in ast.walk(tg):
                    if isinstance(x, ast.Name) and x.id in tr.env and x.id not in env:
                        tr.env.pop(x.id)
    if len(tuples) != 1 or len(tuples[0].value.elts) != arity:
        raise TranslatorError(f'{path}:{found.lineno}: {cls}.{name}: the argument tuple of the root finder '
                              f'(a {arity}-tuple literal assigned to a name) was not found')
    elts = tuples[0].value.elts
    res = [tr.arg(elts[i], VEC) for i in positions]
    result = res[0] if len(res) == 1 else '(' + ', '.join(res) + ')'
    return f'Definition {gname} {coq_params} :=\n  ' + '\n  '.join(lets) + f'\n  {result}.\n'

def generate(repo=None):
    repo = repo or REPO
    out = []
    info = []
    digest = hashlib.sha256()
    trees = {}
    for mod in ('bubble_point', 'dew_point'):
        path = os.path.join(repo, 'thermosteam', 'equilibrium', mod + '.py')
        src = open(path).read()
        digest.update(src.encode())
        trees[mod] = (ast.parse(src), path)
    bt, bp = trees['bubble_point']
    dt, dp = trees['dew_point']
    K = '(k : pkg) (S : solvers)'
    out.append(kernel(bt, bp, 'BubblePoint', '_T_error', 'g_bubble_T_error',
                      [('T', SCA), ('P', SCA), ('z_over_P', VEC), ('z_norm', VEC), ('y', VEC)],
                      f'{K} (P : Q) (z_over_P z_norm : vec) : resid', pre='fun y T =>\n  '))
    out.append(kernel(bt, bp, 'BubblePoint', '_P_error', 'g_bubble_P_error',
                      [('P', SCA), ('T', SCA), ('z_Psat_gamma', VEC), ('Psats', VEC), ('y', VEC)],
                      f'{K} (T : Q) (z_Psat_gamma Psats : vec) : resid', pre='fun y P =>\n  '))
    out.append(kernel(bt, bp, 'BubblePoint', '_T_error_ideal', 'g_bubble_T_error_ideal',
                      [('T', SCA), ('z_over_P', VEC), ('y', VEC)],
                      '(k : pkg) (z_over_P : vec) : resid', pre='fun y T =>\n  '))
    out.append(kernel(bt, bp, 'BubblePoint', '_Py_ideal', 'g_Py_ideal', [('z_Psat_gamma_pcf', VEC)],
                      '(z_Psat_gamma_pcf : vec) : Q * vec', final=ret_pair))
    out.append(kernel(dt, dp, 'DewPoint', '_T_error', 'g_dew_T_error',
                      [('T', SCA), ('P', SCA), ('z_norm', VEC), ('zP', VEC), ('x', VEC)],
                      f'{K} (P : Q) (z_norm zP : vec) : resid', pre='fun x T =>\n  '))
    out.append(kernel(dt, dp, 'DewPoint', '_T_error_ideal', 'g_dew_T_error_ideal',
                      [('T', SCA), ('zP', VEC), ('x', VEC)], '(k : pkg) (zP : vec) : resid', pre='fun x T =>\n  '))
    out.append(kernel(dt, dp, 'DewPoint', '_P_error', 'g_dew_P_error',
                      [('P', SCA), ('T', SCA), ('z_norm', VEC), ('z_over_Psats', VEC), ('Psats', VEC), ('x', VEC)],
                      f'{K} (T : Q) (z_norm z_over_Psats Psats : vec) : resid', pre='fun x P =>\n  '))
    zenv = {'z': (VEC, 'z'), 'P': (SCA, 'P'), 'T': (SCA, 'T')}
    # args = (P, z_over_P, z_norm, y) / (T, z_Psat_gamma, Psats, y) / (P, z_norm, zP, x) / (T, z_norm, z_over_Psats, Psats, x)
    out.append(prep(bt, bp, 'BubblePoint', 'solve_Ty', 'liquid_conversion is None', 4, (1, 2),
                    'g_Ty_prep', '(z : vec) (P : Q) : vec * vec', zenv))
    out.append(prep(bt, bp, 'BubblePoint', 'solve_Py', 'liquid_conversion is None', 4, (1,),
                    'g_Py_prep', '(k : pkg) (z : vec) (T : Q) : vec', zenv))
    out.append(prep(dt, dp, 'DewPoint', 'solve_Tx', 'gas_conversion is None', 4, (1, 2),
                    'g_Tx_prep', '(z : vec) (P : Q) : vec * vec', zenv))
    out.append(prep(dt, dp, 'DewPoint', 'solve_Px', 'gas_conversion is None', 5, (1, 2),
                    'g_Px_prep', '(k : pkg) (z : vec) (T : Q) : vec * vec', zenv))
    names = ['BubblePoint._T_error', '_P_error', '_T_error_ideal', '_Py_ideal', 'DewPoint._T_error', '_T_error_ideal', '_P_error',
             'solve_Ty/solve_Py/solve_Tx/solve_Px composition arguments']
    text = ('(* GENERATED by tr/C08_kernels.py from thermosteam/equilibrium/{bubble_point,dew_point}.py -- do not edit.\n'
            f'   sha256 of the two sources: {digest.hexdigest()}\n'
            f'   functions: {", ".join(names)} *)\n'
            'From V Require Import Common.Num C08.Model.\nOpen Scope Q_scope.\n\n' + '\n'.join(out))
    path = os.path.join(COQ, 'C08', 'Gen_kernels.v')
    write_if_changed(path, text)
    return [{'file': 'coq/C08/Gen_kernels.v', 'sha256_sources': digest.hexdigest(), 'functions': names}]

if __name__ == '__main__':
    print(generate(sys.argv[1] if len(sys.argv) > 1 else None))
