"""C04 translator: python ast -> Gallina for the flash kernels
    thermosteam/equilibrium/binary_phase_fraction.py : compute_phase_fraction_2N
    thermosteam/equilibrium/vle.py                   : xy, xVlogK_iter_2n, xVlogK_iter   (non-reactive calls)
Writes coq/C04/Gen_kernels.v.  coq/C04/Proofs.v proves `g_<name> = <hand-written model function>` by reflexivity,
so an edit of these functions in /repo either regenerates a convertible term or breaks the build.

Subset (everything else raises TranslatorError naming file, line and node -- fail closed):
  statements   name = e;  a, b = zs (fixed-length unpack of a vector);  x, y = xy(x, Ks);  a[a < c] = v;  a /= a.sum();
               Ks[:] = e;  xVlogK = xVlogK.copy();  xVlogK[:n] = e;  xVlogK[n] = V = e;  xVlogK[n+1:] = e;
               `if V < 0.: V = 0. / elif V > 1.: V = 1.`;  the block `if gas_conversion or liquid_conversion:` (skipped: the
               model is the non-reactive call, both are None);  return e
  expressions  names, float/int literals (exact rational of the double), + - * / between scalars and vectors (elementwise,
               broadcasting a scalar), unary minus, v.sum(), np.exp / np.log (the parameters E / L), f_gamma(x, T, *gamma_args),
               f_phi(y, T, P), xVlogK[:n] / [n] / [n+1:], binary.compute_phase_fraction_2N(z, Ks) (may raise),
               binary.solve_phase_fraction_Rashford_Rice(z, Ks, V, z_light, z_heavy) (solver: the parameter rrsolve)
Every division becomes a guard (np.seterr(divide='raise', invalid='raise') / ZeroDivisionError) in front of the statement."""
import ast, hashlib, os, sys

sys.path.insert(0, os.path.join(os.path.dirname(os.path.abspath(__file__)), '..', 'lib'))
from vf import TranslatorError, REPO, COQ, q, write_if_changed

SCA, VEC, ST = 'sca', 'vec', 'state'

def lit(x):
    x = float(x)
    if x == int(x) and abs(x) < 1000:
        return str(int(x))
    return q(x)

class Tr:
    def __init__(self, path, env, state=None):
        self.path = path
        self.env = dict(env)       # python name -> (type, gallina text)
        self.state = state         # name of the xVlogK parameter, if any
        self.comp = None           # current (x, V, lnK) components of the state
        self.guards = []

    def err(self, node, what):
        raise TranslatorError(f'{self.path}:{getattr(node, "lineno", "?")}: outside the translated subset: {what} '
                              f'({type(node).__name__}: {ast.unparse(node)[:90]})')

    # ---------------------------------------------------------------- expressions -> (type, text)
    def expr(self, e):
        if isinstance(e, ast.Name):
            if e.id not in self.env: self.err(e, 'unknown name')
            return self.env[e.id]
        if isinstance(e, ast.Constant) and isinstance(e.value, (int, float)) and not isinstance(e.value, bool):
            return SCA, lit(e.value)
        if isinstance(e, ast.UnaryOp) and isinstance(e.op, ast.USub):
            t, a = self.expr(e.operand)
            if t == SCA: return SCA, f'(- {a})'
            self.err(e, 'unary minus of a vector')
        if isinstance(e, ast.BinOp):
            (ta, a), (tb, b) = self.expr(e.left), self.expr(e.right)
            op = {ast.Add: '+', ast.Sub: '-', ast.Mult: '*', ast.Div: '/'}.get(type(e.op))
            if op is None: self.err(e, 'operator')
            if op == '/':
                self.guards.append((tb, b))
            if ta == SCA and tb == SCA: return SCA, f'({a} {op} {b})'
            if ta == VEC and tb == VEC:
                f = {'+': 'vadd', '-': 'vsub', '*': 'vmul', '/': 'map2 Qdiv'}[op]
                return VEC, f'({f} {a} {b})'
            if ta == VEC and tb == SCA: return VEC, f'(map (fun a_ => a_ {op} {b}) {a})'
            if ta == SCA and tb == VEC: return VEC, f'(map (fun a_ => {a} {op} a_) {b})'
            self.err(e, 'operand types')
        if isinstance(e, ast.Subscript) and isinstance(e.value, ast.Name) and e.value.id == self.state:
            k = self.slice_kind(e)
            return (VEC, SCA, VEC)[k], self.comp[k]
        if isinstance(e, ast.Call):
            src = ast.unparse(e.func)
            args = e.args
            if src.endswith('.sum') and not args and isinstance(e.func, ast.Attribute):
                t, a = self.expr(e.func.value)
                if t != VEC: self.err(e, '.sum() of a scalar')
                return SCA, f'(qsum {a})'
            if src == 'np.exp' and len(args) == 1: return VEC, f'(map E {self.arg(args[0], VEC)})'
            if src == 'np.log' and len(args) == 1: return VEC, f'(map L {self.arg(args[0], VEC)})'
            if src == 'f_gamma' and len(args) == 3 and isinstance(args[2], ast.Starred) and ast.unparse(args[2].value) == 'gamma_args':
                return VEC, f'(f_gamma {self.arg(args[0], VEC)} {self.arg(args[1], SCA)})'
            if src == 'f_phi' and len(args) == 3:
                return VEC, f'(f_phi {self.arg(args[0], VEC)} {self.arg(args[1], SCA)} {self.arg(args[2], SCA)})'
            if src == 'binary.solve_phase_fraction_Rashford_Rice' and len(args) == 5:
                ts = [VEC, VEC, SCA, SCA, SCA]
                return SCA, '(rrsolve ' + ' '.join(self.arg(a, t) for a, t in zip(args, ts)) + ')'
            self.err(e, 'call')
        self.err(e, 'expression')

    def arg(self, e, typ):
        t, a = self.expr(e)
        if t != typ: self.err(e, f'expected {typ}')
        return a

    def slice_kind(self, e):
        s = ast.unparse(e.slice).replace(' ', '')
        if s == ':n': return 0
        if s == 'n': return 1
        if s == 'n+1:': return 2
        self.err(e, 'slice of the state vector')

    def guarded(self, text):
        """prefix the guards collected while translating the current statement"""
        out = ''
        for t, d in self.guards:
            out += f'guard_{"v" if t == VEC else "s"} {d} (\n  '
        n = len(self.guards)
        self.guards = []
        return out, ')' * n

    def fresh(self, v):
        """a new Gallina name for (a new value of) the python variable v"""
        k = self.count.get(v, 0); self.count[v] = k + 1
        return v if k == 0 else f'{v}_{k}'
    count = None

    # ---------------------------------------------------------------- statements
    def let(self, v, t, a, rest):
        pre, post = self.guarded('')
        name = self.fresh(v)
        self.env[v] = (t, name)
        return f'{pre}let {name} := {a} in\n  {self.body(rest)}{post}'

    def body(self, stmts):
        if not stmts:
            raise TranslatorError(f'{self.path}: function body ends without return')
        s, rest = stmts[0], stmts[1:]
        if isinstance(s, ast.Expr) and isinstance(s.value, ast.Constant) and isinstance(s.value.value, str):
            return self.body(rest)
        if isinstance(s, ast.Return):
            if rest: self.err(rest[0], 'statement after return')
            e = s.value
            if isinstance(e, ast.Name) and e.id == self.state:
                return f'Ok (mkwn {self.comp[0]} {self.comp[1]} {self.comp[2]})'
            if isinstance(e, ast.Tuple) and len(e.elts) == 2:
                return f'Ok ({self.arg(e.elts[0], VEC)}, {self.arg(e.elts[1], VEC)})'
            t, a = self.expr(e)
            if t != SCA: self.err(s, 'return of a vector')
            pre, post = self.guarded('')
            return f'{pre}Ok {a}{post}'
        if isinstance(s, ast.If):
            test = ast.unparse(s.test)
            if test == 'gas_conversion or liquid_conversion' and not s.orelse:
                return self.body(rest)                 # reactive flash: outside the model (both are None)
            # if V < 0.: V = 0. / elif V > 1.: V = 1.
            def clamp_arm(node, op, bound):
                return (isinstance(node.test, ast.Compare) and len(node.test.ops) == 1 and isinstance(node.test.ops[0], op)
                        and isinstance(node.test.left, ast.Name) and isinstance(node.test.comparators[0], ast.Constant)
                        and float(node.test.comparators[0].value) == bound and len(node.body) == 1
                        and isinstance(node.body[0], ast.Assign) and len(node.body[0].targets) == 1
                        and isinstance(node.body[0].targets[0], ast.Name) and node.body[0].targets[0].id == node.test.left.id
                        and isinstance(node.body[0].value, ast.Constant) and float(node.body[0].value.value) == bound)
            if (clamp_arm(s, ast.Lt, 0.) and len(s.orelse) == 1 and isinstance(s.orelse[0], ast.If)
                    and clamp_arm(s.orelse[0], ast.Gt, 1.) and not s.orelse[0].orelse
                    and s.orelse[0].test.left.id == s.test.left.id):
                v = s.test.left.id
                t, a = self.expr(s.test.left)
                if t != SCA: self.err(s, 'clamp of a vector')
                return self.let(v, SCA, f'if qltb {a} 0 then 0 else if qltb 1 {a} then 1 else {a}', rest)
            self.err(s, 'if statement')
        if isinstance(s, ast.AugAssign) and isinstance(s.op, ast.Div) and isinstance(s.target, ast.Name):
            # x /= x.sum()
            v = s.target.id
            t, a = self.expr(s.target)
            d = self.arg(s.value, SCA)
            if t != VEC: self.err(s, 'in-place division of a scalar')
            self.guards.append((SCA, d))
            return self.let(v, VEC, f'vdivs {a} {d}', rest)
        if isinstance(s, ast.Assign):
            tg = s.targets
            # xVlogK = xVlogK.copy()
            if (len(tg) == 1 and isinstance(tg[0], ast.Name) and tg[0].id == self.state
                    and ast.unparse(s.value) == f'{self.state}.copy()'):
                return self.body(rest)
            # z1, z2 = zs
            if len(tg) == 1 and isinstance(tg[0], ast.Tuple) and isinstance(s.value, ast.Name):
                names = [n.id for n in tg[0].elts if isinstance(n, ast.Name)]
                if len(names) != 2 or len(tg[0].elts) != 2: self.err(s, 'unpacking of other than two names')
                a = self.arg(s.value, VEC)
                for n in names: self.env[n] = (SCA, n)
                return f'unpack2 {a} (fun {names[0]} {names[1]} =>\n  {self.body(rest)})'
            # x, y = xy(x, Ks)
            if (len(tg) == 1 and isinstance(tg[0], ast.Tuple) and isinstance(s.value, ast.Call)
                    and ast.unparse(s.value.func) == 'xy' and len(s.value.args) == 2 and len(tg[0].elts) == 2
                    and all(isinstance(n, ast.Name) for n in tg[0].elts)):
                a, b = self.arg(s.value.args[0], VEC), self.arg(s.value.args[1], VEC)
                n0, n1 = tg[0].elts[0].id, tg[0].elts[1].id
                f0, f1 = self.fresh(n0), self.fresh(n1)
                self.env[n0] = (VEC, f0); self.env[n1] = (VEC, f1)
                return f'bind (g_xy {a} {b}) (fun xy_ =>\n  let {f0} := fst xy_ in\n  let {f1} := snd xy_ in\n  {self.body(rest)})'
            # a[a < c] = v
            if (len(tg) == 1 and isinstance(tg[0], ast.Subscript) and isinstance(tg[0].value, ast.Name)
                    and isinstance(tg[0].slice, ast.Compare) and len(tg[0].slice.ops) == 1 and isinstance(tg[0].slice.ops[0], ast.Lt)
                    and ast.unparse(tg[0].slice.left) == tg[0].value.id and isinstance(tg[0].slice.comparators[0], ast.Constant)
                    and isinstance(s.value, ast.Constant)):
                v = tg[0].value.id
                t, a = self.expr(tg[0].value)
                if t != VEC: self.err(s, 'mask on a scalar')
                return self.let(v, VEC, f'mask_lt {lit(tg[0].slice.comparators[0].value)} {lit(s.value.value)} {a}', rest)
            # Ks[:] = e
            if (len(tg) == 1 and isinstance(tg[0], ast.Subscript) and isinstance(tg[0].value, ast.Name) and tg[0].value.id != self.state
                    and isinstance(tg[0].slice, ast.Slice) and tg[0].slice.lower is None and tg[0].slice.upper is None):
                return self.let(tg[0].value.id, VEC, self.arg(s.value, VEC), rest)
            # writes into the state vector; `xVlogK[n] = V = e`
            if isinstance(tg[0], ast.Subscript) and isinstance(tg[0].value, ast.Name) and tg[0].value.id == self.state:
                k = self.slice_kind(tg[0])
                extra = tg[1:]
                if any(not isinstance(n, ast.Name) for n in extra) or len(extra) > 1: self.err(s, 'chained assignment')
                val = s.value
                if isinstance(val, ast.Call) and ast.unparse(val.func) == 'binary.compute_phase_fraction_2N' and len(val.args) == 2:
                    if k != 1 or not extra: self.err(s, 'phase fraction must be stored as xVlogK[n] = V = ...')
                    a, b = self.arg(val.args[0], VEC), self.arg(val.args[1], VEC)
                    name = self.fresh(extra[0].id)
                    self.env[extra[0].id] = (SCA, name)
                    self.comp[1] = name
                    return f'bind (g_compute_phase_fraction_2N {a} {b}) (fun {name} =>\n  {self.body(rest)})'
                t, a = self.expr(val)
                if t != (VEC, SCA, VEC)[k]: self.err(s, 'type of the value written into the state vector')
                v = extra[0].id if extra else ('x_new', 'V_new', 'lnK_new')[k]
                pre, post = self.guarded('')
                name = self.fresh(v)
                if extra: self.env[v] = (t, name)
                self.comp[k] = name
                return f'{pre}let {name} := {a} in\n  {self.body(rest)}{post}'
            # name = e
            if len(tg) == 1 and isinstance(tg[0], ast.Name):
                t, a = self.expr(s.value)
                return self.let(tg[0].id, t, a, rest)
            self.err(s, 'assignment target')
        self.err(s, 'statement')

def find_function(tree, name, path):
    for n in tree.body:
        if isinstance(n, ast.FunctionDef) and n.name == name:
            for d in n.decorator_list:
                if ast.unparse(d).split('(')[0] not in ('njit',):
                    raise TranslatorError(f'{path}:{n.lineno}: decorator {ast.unparse(d)} of {name}')
            return n
    raise TranslatorError(f'{path}: function {name} not found')

def function(tree, path, name, sig, coq_sig, env, state=None):
    fn = find_function(tree, name, path)
    got = [a.arg for a in fn.args.args]
    if got != sig:
        raise TranslatorError(f'{path}:{fn.lineno}: signature of {name} changed: {got}')
    tr = Tr(path, env, state)
    tr.count = {}
    for v, (t, txt) in env.items():
        tr.count[v] = 1
    if state:
        tr.comp = [f'(nx {state})', f'(nV {state})', f'(nl {state})']
    return f'Definition g_{name} {coq_sig} :=\n  {tr.body(fn.body)}.\n'

def generate(repo=None):
    repo = repo or REPO
    digest = hashlib.sha256()
    trees = {}
    for mod in ('binary_phase_fraction', 'vle'):
        path = os.path.join(repo, 'thermosteam', 'equilibrium', mod + '.py')
        src = open(path).read()
        digest.update(src.encode())
        trees[mod] = (ast.parse(src), path)
    bt, bp = trees['binary_phase_fraction']
    vt, vp = trees['vle']
    out = []
    out.append(function(bt, bp, 'compute_phase_fraction_2N', ['zs', 'Ks'], '(zs Ks : vec) : res Q',
                        {'zs': (VEC, 'zs'), 'Ks': (VEC, 'Ks')}))
    out.append(function(vt, vp, 'xy', ['x', 'Ks'], '(x Ks : vec) : res (vec * vec)', {'x': (VEC, 'x'), 'Ks': (VEC, 'Ks')}))
    K = '(E L : Q -> Q) (f_gamma : vec -> Q -> vec) (f_phi : vec -> Q -> Q -> vec)'
    env = {'pcf_Psat_over_P': (VEC, 'pcf_Psat_over_P'), 'T': (SCA, 'T'), 'P': (SCA, 'P'), 'z': (VEC, 'z')}
    out.append(function(vt, vp, 'xVlogK_iter_2n',
                        ['xVlogK', 'pcf_Psat_over_P', 'T', 'P', 'z', 'f_gamma', 'gamma_args', 'f_phi', 'n', 'gas_conversion', 'liquid_conversion'],
                        f'{K} (xVlogK : wn) (pcf_Psat_over_P : vec) (T P : Q) (z : vec) : res wn', env, state='xVlogK'))
    env2 = dict(env, z_light=(SCA, 'z_light'), z_heavy=(SCA, 'z_heavy'))
    out.append(function(vt, vp, 'xVlogK_iter',
                        ['xVlogK', 'pcf_Psat_over_P', 'T', 'P', 'z', 'z_light', 'z_heavy', 'f_gamma', 'gamma_args', 'f_phi', 'n',
                         'gas_conversion', 'liquid_conversion'],
                        f'{K} (rrsolve : vec -> vec -> Q -> Q -> Q -> Q) (xVlogK : wn) (pcf_Psat_over_P : vec) (T P : Q) '
                        '(z : vec) (z_light z_heavy : Q) : res wn', env2, state='xVlogK'))
    names = ['binary_phase_fraction.compute_phase_fraction_2N', 'vle.xy', 'vle.xVlogK_iter_2n', 'vle.xVlogK_iter']
    text = ('(* GENERATED by tr/C04_kernels.py from thermosteam/equilibrium/{binary_phase_fraction,vle}.py -- do not edit.\n'
            f'   sha256 of the two sources: {digest.hexdigest()}\n'
            f'   functions: {", ".join(names)} *)\n'
            'From V Require Import Common.Num C04.KBase.\nOpen Scope Q_scope.\n\n' + '\n'.join(out))
    write_if_changed(os.path.join(COQ, 'C04', 'Gen_kernels.v'), text)
    return [{'file': 'coq/C04/Gen_kernels.v', 'sha256_sources': digest.hexdigest(), 'functions': names}]

if __name__ == '__main__':
    print(generate(sys.argv[1] if len(sys.argv) > 1 else None))
