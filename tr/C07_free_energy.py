"""C07 translator 1/3: every @functor body of thermosteam/free_energy.py -> Gallina.

Accepted module-level statements: docstring, imports, undecorated helper functions (ignored,
listed), `@functor(var=...) def F(T[, P], data...): [docstring] return <expr>`, and
`Name = PhaseTPFunctorBuilder('V', A.functor, B.functor, C.functor)`.
Functors whose name starts with `Excess_` (departure functions of an equation of state: an
oracle, and outside C07 because `include_excess_energies` is False by default) are listed, not
translated.  Anything else is a TranslatorError."""
import ast, os
from C07_pysubset import Src, ExprTr, TranslatorError, qlit, module_imports, strip_docstring, header

REL = 'thermosteam/free_energy.py'
REL_CONST = 'thermosteam/constants.py'
RESERVED = {'A', 'E', 'O', 'I', 'J', 'Rgas', 'd', 'num', 'pv'}


def gas_constant(repo):
    src = Src(repo, REL_CONST)
    val = None
    for st in src.tree.body:
        if isinstance(st, ast.Assign) and any(isinstance(t, ast.Name) and t.id == 'R' for t in st.targets):
            if len(st.targets) != 1 or not isinstance(st.value, ast.Constant) or not isinstance(st.value.value, float):
                src.err(st, 'R is not bound to a float literal')
            if val is not None:
                src.err(st, 'R is bound twice')
            val = st.value.value
    if val is None:
        raise TranslatorError(f'{REL_CONST}: no module-level `R = <float>`')
    return src, val


def functor_decorator(src, fn):
    """returns the `var` of @functor(var=...) or None when the function is not decorated."""
    if not fn.decorator_list:
        return None
    if len(fn.decorator_list) != 1:
        src.err(fn, 'more than one decorator')
    d = fn.decorator_list[0]
    if isinstance(d, ast.Name) and d.id == 'functor':
        return ''
    if isinstance(d, ast.Call) and isinstance(d.func, ast.Name) and d.func.id == 'functor' and not d.args:
        var = ''
        for k in d.keywords:
            if k.arg == 'var' and isinstance(k.value, ast.Constant) and isinstance(k.value.value, str):
                var = k.value.value
            elif k.arg == 'units':
                pass
            else:
                src.err(d, f'functor keyword {k.arg!r} is outside the subset')
        return var
    src.err(d, 'decorator is not `functor`')


def signature(src, fn):
    a = fn.args
    if a.vararg or a.kwarg or a.kwonlyargs or a.defaults or a.posonlyargs or a.kw_defaults:
        src.err(fn, 'only plain positional parameters are in the subset')
    names = [x.arg for x in a.args]
    if len(set(names)) != len(names):
        src.err(fn, 'duplicate parameter')
    # base/functor.py functor_matching_params: TPFunctor (T, P) is tried before TFunctor (T,)
    if names[:2] == ['T', 'P']:
        kind, data = 'TP', names[2:]
    elif names[:1] == ['T']:
        kind, data = 'T', names[1:]
    else:
        src.err(fn, 'signature matches no registered abstract functor (must start with T or T, P)')
    for p in data:
        if p in RESERVED or p in ('T', 'P'):
            src.err(fn, f'parameter name {p!r} clashes with a name of the generated file')
    return kind, data


def is_handle_param(p):
    return p == 'Cn' or p.startswith('Cn_')


def translate_functor(src, fn, imports):
    kind, data = signature(src, fn)
    body = strip_docstring(src, fn.body)
    if len(body) != 1 or not isinstance(body[0], ast.Return) or body[0].value is None:
        src.err(body[0] if body else fn, 'functor body must be a single `return <expr>`')
    scalars = (['T', 'P'] if kind == 'TP' else ['T']) + [p for p in data if not is_handle_param(p)]
    handles = [p for p in data if is_handle_param(p)]
    used = set()

    def name(n):
        if n.id in scalars:
            used.add(n.id)
            return f'(pv {n.id})'
        if n.id == 'R':
            if imports.get('R') != ('.constants', 'R'):
                src.err(n, 'R is not `from .constants import R`')
            return '(pv (Some Rgas))'
        src.err(n, f'name {n.id!r} is not a scalar parameter of the functor')

    def handle(n):
        if isinstance(n, ast.Name) and n.id in handles:
            used.add(n.id)
            return n.id
        return None

    logs = [k for k, v in imports.items() if v == ('math', 'log')]
    term = ExprTr(src, name, handle, None, logs).tr(body[0].value)
    unused = [p for p in data if p not in used]
    binders = []
    binders.append('(T P : option A)' if kind == 'TP' else '(T : option A)')
    for p in data:
        binders.append(f'({p} : phase)' if is_handle_param(p) else f'({p} : option A)')
    text = (f'(* {REL}:{fn.lineno} *)\n'
            f'Definition {fn.name} {{A : Type}} (E : env A) {" ".join(binders)} : pyv A :=\n'
            f'  let O := eO E in let I := eI E in let J := eJ E in let Rgas := eR E in\n'
            f'  {term}.\n')
    return {'name': fn.name, 'kind': kind, 'params': data, 'line': fn.lineno, 'unused': unused}, text


def translate_builder(src, st, functors):
    """Name = PhaseTPFunctorBuilder('V', A.functor, B.functor, C.functor)"""
    v = st.value
    if not (len(st.targets) == 1 and isinstance(st.targets[0], ast.Name)):
        src.err(st, 'builder assignment must have one plain target')
    if not (isinstance(v, ast.Call) and isinstance(v.func, ast.Name) and v.func.id == 'PhaseTPFunctorBuilder'
            and len(v.args) == 4 and not v.keywords):
        src.err(st, 'module-level assignment is not `Name = PhaseTPFunctorBuilder(var, s, l, g)`')
    if not (isinstance(v.args[0], ast.Constant) and isinstance(v.args[0].value, str)):
        src.err(st, 'builder var must be a string literal')
    names = []
    for a in v.args[1:]:
        if not (isinstance(a, ast.Attribute) and a.attr == 'functor' and isinstance(a.value, ast.Name)):
            src.err(a, 'builder argument must be `<Function>.functor`')
        names.append(a.value.id)
    return st.targets[0].id, {'var': v.args[0].value, 'slg': names, 'line': st.lineno}


def run(repo, out_dir):
    src = Src(repo, REL)
    csrc, rval = gas_constant(repo)
    imports = module_imports(src)
    if imports.get('functor') != ('.base', 'functor'):
        raise TranslatorError(f'{REL}: `functor` is not imported from .base')
    if imports.get('PhaseTPFunctorBuilder') != ('.base', 'PhaseTPFunctorBuilder'):
        raise TranslatorError(f'{REL}: `PhaseTPFunctorBuilder` is not imported from .base')
    functors, builders, skipped, helpers, texts = {}, {}, [], [], []
    for k, st in enumerate(src.tree.body):
        if isinstance(st, (ast.Import, ast.ImportFrom)):
            continue
        if isinstance(st, ast.Expr) and isinstance(st.value, ast.Constant) and isinstance(st.value.value, str):
            continue
        if isinstance(st, ast.FunctionDef):
            var = functor_decorator(src, st)
            if var is None:
                helpers.append(st.name)
                continue
            if st.name in functors or st.name in skipped:
                src.err(st, f'functor {st.name} defined twice')
            if st.name.startswith('Excess_'):
                skipped.append(st.name)
                continue
            meta, text = translate_functor(src, st, imports)
            meta['var'] = var
            functors[st.name] = meta
            texts.append(text)
            continue
        if isinstance(st, ast.Assign):
            name, b = translate_builder(src, st, functors)
            if name in builders:
                src.err(st, f'builder {name} bound twice')
            builders[name] = b
            continue
        src.err(st, 'module-level statement is outside the subset')
    for name, b in builders.items():
        excess = [f for f in b['slg'] if f in skipped]
        if excess and len(excess) != 3:
            raise TranslatorError(f'{REL}:{b["line"]}: builder {name} mixes excess and non-excess functors')
        b['excess'] = bool(excess)
        for f in b['slg']:
            if f not in functors and f not in skipped:
                raise TranslatorError(f'{REL}:{b["line"]}: builder {name} refers to unknown functor {f}')
    out = header('tr/C07_free_energy.py', [src, csrc], sorted(functors))
    out += 'From V Require Import Common.Num C07.Model.\n\n'
    out += f'(* {REL_CONST}: R = {rval!r} *)\nDefinition Rgas_value : Q := {qlit(rval)}.\n\n'
    out += '\n'.join(texts)
    path = os.path.join(out_dir, 'Gen_FreeEnergy.v')
    import vf
    vf.write_if_changed(path, out)
    info = {'file': 'coq/C07/Gen_FreeEnergy.v', 'source': REL, 'sha256': src.sha,
            'functors': sorted(functors), 'not_translated_excess': sorted(skipped), 'helpers_ignored': helpers,
            'builders': sorted(builders), 'R': rval}
    return {'functors': functors, 'builders': builders, 'skipped': skipped, 'src': src, 'R': rval}, info
