"""C13 translator: the generic pickling of slotted classes (thermosteam/utils/pickle.py `cucumber`) and the slot
protocol of the property-package classes (thermosteam/_thermo.py `Thermo`, `IdealThermo`) -> coq/C13/Gen_pickle.v.

Read from the source on every run:
 * utils/pickle.py: get_state / new_from_state / __reduce__ / cucumber and utils/misc.py getfields / setfields must be
   (up to formatting) the functions the hand-written interpreter coq/C13/ModelPickle.v implements
   (recipe = obj._pickle_recipe if present, else the concatenated __slots__ of the mro; values read with getattr;
   the new object gets exactly zip(slots, values) through object.__setattr__) -- anything else leaves the subset;
 * for Thermo and IdealThermo: the decorators (cucumber, read_only), the bases, `__slots__`, `_pickle_recipe` (or its
   absence), the ordered slot writes of `__init__`, and the body of `ideal()` (the read of the cache slot, the branch, the
   ordered slot writes of the branch); `__enter__` (reads the default package, then assigns a slot through the
   read-only __setattr__).
The tables are data for the interpreter; the theorems of Props.v are proved about these generated tables."""
import ast, os, hashlib

PICKLE = 'thermosteam/utils/pickle.py'
MISC = 'thermosteam/utils/misc.py'
THERMO = 'thermosteam/_thermo.py'
RO = 'thermosteam/utils/decorators/read_only.py'

EXPECT = {
    (PICKLE, 'get_state'): '''
def get_state(obj):
    cls = obj.__class__
    slots = obj._pickle_recipe if hasattr(obj, '_pickle_recipe') else sum([i.__slots__ for i in cls.mro()[:-1]], ())
    return (cls, slots, getfields(obj, slots))
''',
    (PICKLE, 'new_from_state'): '''
def new_from_state(cls, slots, values):
    obj = object.__new__(cls)
    setfields(obj, slots, values, object.__setattr__)
    return obj
''',
    (PICKLE, '__reduce__'): '''
def __reduce__(self):
    return new_from_state, get_state(self)
''',
    (PICKLE, 'cucumber'): '''
def cucumber(cls):
    cls.__reduce__ = __reduce__
    return cls
''',
    (MISC, 'getfields'): '''
def getfields(obj, fields, getfield=getattr):
    return [getfield(obj, i) for i in fields]
''',
    (MISC, 'setfields'): '''
def setfields(obj, names, fields, setfield=setattr):
    for i,j in zip(names, fields): setfield(obj, i, j)
''',
    (RO, 'deny'): '''
def deny(self, *args, **kwargs):
    raise TypeError(f"'{type(self).__name__}' object is read-only")
''',
    (RO, 'read_only'): '''
def read_only(cls=None, methods=()):
    if not cls and methods:
        return lambda cls: read_only(cls, methods)
    else:
        for i in methods: setattr(cls, i, deny)
        cls.__delattr__ = deny
        cls.__setattr__ = deny
        return cls
''',
    (THERMO, 'Thermo.__enter__'): '''
def __enter__(self):
    self._original_thermo = tmo.settings.get_thermo()
    tmo.settings.set_thermo(self)
    return self
''',
    (THERMO, 'IdealThermo.ideal'): '''
def ideal(self):
    return self
''',
}


def _err(msg):
    import vf
    raise vf.TranslatorError(msg)


def _strip_doc(fn):
    body = fn.body
    if body and isinstance(body[0], ast.Expr) and isinstance(body[0].value, ast.Constant) and isinstance(body[0].value.value, str):
        import copy
        fn = copy.copy(fn); fn.body = body[1:] or [ast.Pass()]
    return fn


def _dump(fn):
    return ast.dump(_strip_doc(fn), annotate_fields=True, include_attributes=False)


def _find(tree, dotted):
    parts = dotted.split('.')
    body = tree.body
    node = None
    for k, p in enumerate(parts):
        want = ast.ClassDef if k < len(parts) - 1 else (ast.FunctionDef, ast.ClassDef)
        hits = [x for x in body if isinstance(x, want) and x.name == p]
        if len(hits) != 1:
            return None
        node = hits[0]; body = node.body
    return node


def _str_tuple(node, what):
    if not isinstance(node, (ast.Tuple, ast.List)) or not all(isinstance(e, ast.Constant) and isinstance(e.value, str) for e in node.elts):
        _err(f'{THERMO}: {what} is not a literal tuple of strings (line {node.lineno})')
    return [e.value for e in node.elts]


def _class_table(cls):
    """(slots, recipe or None) from the class body"""
    slots, recipe = None, None
    for st in cls.body:
        if isinstance(st, (ast.Assign, ast.AnnAssign)):
            targets = st.targets if isinstance(st, ast.Assign) else [st.target]
            for t in targets:
                if isinstance(t, ast.Name) and t.id == '__slots__':
                    if slots is not None: _err(f'{THERMO}: {cls.name}.__slots__ assigned twice')
                    slots = _str_tuple(st.value, f'{cls.name}.__slots__')
                if isinstance(t, ast.Name) and t.id == '_pickle_recipe':
                    if recipe is not None: _err(f'{THERMO}: {cls.name}._pickle_recipe assigned twice')
                    recipe = _str_tuple(st.value, f'{cls.name}._pickle_recipe')
        if isinstance(st, ast.FunctionDef) and st.name in ('__reduce__', '__reduce_ex__', '__getstate__', '__setstate__', '__getnewargs__',
                                                           '__getnewargs_ex__', '__getattr__', '__getattribute__', '__copy__', '__deepcopy__'):
            _err(f'{THERMO}: {cls.name} defines {st.name}: pickling no longer goes through utils/pickle.py alone')
    if slots is None:
        _err(f'{THERMO}: {cls.name} has no __slots__')
    if cls.bases or cls.keywords:
        _err(f'{THERMO}: {cls.name} has base classes; the mro is assumed to be [{cls.name}, object]')
    decs = [ast.unparse(d) for d in cls.decorator_list]
    if decs != ['cucumber', 'read_only']:
        _err(f'{THERMO}: decorators of {cls.name} are {decs}, expected [cucumber, read_only]')
    return slots, recipe


def _setattr_calls(stmts, alias='setattr'):
    """ordered (target name, slot, value node) of `setattr(<name>, '<slot>', <value>)` statements where setattr is bound to
    object.__setattr__ in the same block"""
    out = []
    bound = False
    for st in stmts:
        if isinstance(st, ast.Assign) and len(st.targets) == 1 and isinstance(st.targets[0], ast.Name) and st.targets[0].id == alias:
            if ast.unparse(st.value) != 'object.__setattr__':
                _err(f'{THERMO}: line {st.lineno}: {alias} is bound to {ast.unparse(st.value)}')
            bound = True
        elif isinstance(st, ast.Expr) and isinstance(st.value, ast.Call) and isinstance(st.value.func, ast.Name) and st.value.func.id == alias:
            c = st.value
            if not bound or len(c.args) != 3 or c.keywords or not isinstance(c.args[0], ast.Name) \
               or not (isinstance(c.args[1], ast.Constant) and isinstance(c.args[1].value, str)):
                _err(f'{THERMO}: line {st.lineno}: slot write outside the subset: {ast.unparse(st)}')
            out.append((c.args[0].id, c.args[1].value, c.args[2], st.lineno))
    return out


def _coq_str(s):
    if '"' in s: _err(f'slot name with a quote: {s!r}')
    return '"' + s + '"'


def _coq_list(xs):
    return '[' + '; '.join(xs) + ']'


def run(repo, out_dir):
    srcs, trees, shas = {}, {}, {}
    for rel in (PICKLE, MISC, THERMO, RO):
        p = os.path.join(repo, rel)
        try:
            text = open(p, encoding='utf-8').read()
        except OSError as e:
            _err(f'{rel}: cannot read ({e})')
        srcs[rel] = text; trees[rel] = ast.parse(text); shas[rel] = hashlib.sha256(text.encode()).hexdigest()
    # 1. fixed-shape functions
    for (rel, name), exp in EXPECT.items():
        node = _find(trees[rel], name)
        if node is None:
            _err(f'{rel}: {name} not found (or defined more than once)')
        want = _dump(ast.parse(exp.strip()).body[0])
        if _dump(node) != want:
            _err(f'{rel}: {name} (line {node.lineno}) is not the function the pickling interpreter of coq/C13/ModelPickle.v implements')
    # module-level rebinding of the pickling functions
    for st in trees[PICKLE].body:
        if isinstance(st, ast.Assign) and ast.unparse(st.targets[0]) != '__all__':
            _err(f'{PICKLE}: module-level assignment at line {st.lineno} is outside the subset')
    imp = [ast.unparse(st) for st in trees[PICKLE].body if isinstance(st, ast.ImportFrom)]
    if 'from .misc import getfields, setfields' not in imp:
        _err(f'{PICKLE}: getfields / setfields are not imported from .misc')
    # 2. class tables
    T = _find(trees[THERMO], 'Thermo'); I = _find(trees[THERMO], 'IdealThermo')
    if T is None or I is None:
        _err(f'{THERMO}: class Thermo / IdealThermo not found')
    t_slots, t_recipe = _class_table(T)
    i_slots, i_recipe = _class_table(I)
    if not any(isinstance(st, ast.Assign) and ast.unparse(st) == '__enter__ = Thermo.__enter__' for st in I.body):
        _err(f'{THERMO}: IdealThermo.__enter__ is not Thermo.__enter__')
    # 3. Thermo.__init__: ordered slot writes; values: one of the constructor-derived names (index) or None
    init = _find(trees[THERMO], 'Thermo.__init__')
    names = ['chemicals', 'mixture', 'Gamma', 'Phi', 'PCF']
    init_sets = []
    for tgt, slot, val, ln in _setattr_calls(init.body):
        if tgt != 'self': _err(f'{THERMO}: line {ln}: Thermo.__init__ writes a slot of {tgt}')
        if isinstance(val, ast.Constant) and val.value is None: init_sets.append((slot, None))
        elif isinstance(val, ast.Name) and val.id in names: init_sets.append((slot, names.index(val.id)))
        else: _err(f'{THERMO}: line {ln}: value {ast.unparse(val)} written by Thermo.__init__ is outside the subset')
    for st in ast.walk(init):
        if isinstance(st, ast.Assign) and any(isinstance(t, ast.Attribute) and isinstance(t.value, ast.Name) and t.value.id == 'self' for t in st.targets):
            _err(f'{THERMO}: line {st.lineno}: Thermo.__init__ assigns an attribute of self directly')
    # 4. Thermo.ideal(): `ideal = self.<cache>; if not ideal: ideal = IdealThermo.__new__(IdealThermo); <writes>; return ideal`
    ide = _strip_doc(_find(trees[THERMO], 'Thermo.ideal'))
    b = ide.body
    ok = (len(b) == 3 and isinstance(b[0], ast.Assign) and ast.unparse(b[0].targets[0]) == 'ideal'
          and isinstance(b[0].value, ast.Attribute) and ast.unparse(b[0].value.value) == 'self'
          and isinstance(b[1], ast.If) and ast.unparse(b[1].test) == 'not ideal' and not b[1].orelse
          and ast.unparse(b[2]) == 'return ideal'
          and b[1].body and ast.unparse(b[1].body[0]) == 'ideal = IdealThermo.__new__(IdealThermo)')
    if not ok:
        _err(f'{THERMO}: Thermo.ideal (line {ide.lineno}) is outside the subset (read cache slot; if not ideal: build, write slots; return ideal)')
    cache_slot = b[0].value.attr
    for st in b[1].body[1:]:
        if not (isinstance(st, ast.Expr) or (isinstance(st, ast.Assign) and ast.unparse(st.targets[0]) == 'setattr')):
            _err(f'{THERMO}: line {st.lineno}: statement of Thermo.ideal outside the subset')
    ideal_sets = []
    for tgt, slot, val, ln in _setattr_calls(b[1].body[1:]):
        if tgt not in ('self', 'ideal'): _err(f'{THERMO}: line {ln}: Thermo.ideal writes a slot of {tgt}')
        if isinstance(val, ast.Constant) and val.value is None: v = 'inr false'
        elif isinstance(val, ast.Name) and val.id == 'ideal': v = 'inr true'
        elif isinstance(val, ast.Attribute) and ast.unparse(val.value) == 'self': v = f'inl {_coq_str(val.attr)}'
        else: _err(f'{THERMO}: line {ln}: value {ast.unparse(val)} written by Thermo.ideal is outside the subset')
        ideal_sets.append(f'({"true" if tgt == "self" else "false"}, {_coq_str(slot)}, {v})')
    # 5. emit
    opt = lambda r: 'None' if r is None else f'(Some {_coq_list([_coq_str(s) for s in r])})'
    out = ('(* GENERATED by tr/C13_pickle.py from ' + ', '.join(f'{r} sha256={shas[r][:16]}' for r in (PICKLE, MISC, THERMO, RO)) + ' -- do not edit *)\n'
           'From Coq Require Import String List.\nImport ListNotations.\nLocal Open Scope string_scope.\n\n'
           '(* __slots__ of every class of the mro but object, in mro order *)\n'
           f'Definition thermo_mro_slots : list (list string) := [{_coq_list([_coq_str(s) for s in t_slots])}].\n'
           f'Definition thermo_recipe : option (list string) := {opt(t_recipe)}.\n'
           f'Definition ideal_mro_slots : list (list string) := [{_coq_list([_coq_str(s) for s in i_slots])}].\n'
           f'Definition ideal_recipe : option (list string) := {opt(i_recipe)}.\n'
           '(* ordered slot writes of Thermo.__init__: Some k = k-th of (chemicals, mixture, Gamma, Phi, PCF) as resolved by the constructor, None = None *)\n'
           'Definition thermo_init_sets : list (string * option nat) := '
           + _coq_list([f'({_coq_str(s)}, {"None" if v is None else f"Some {v}"})' for s, v in init_sets]) + '.\n'
           '(* Thermo.ideal(): the slot read first; then, when it is falsy, the ordered writes (on self?, slot, inl slot-of-self | inr true = the new object | inr false = None) *)\n'
           f'Definition thermo_ideal_cache : string := {_coq_str(cache_slot)}.\n'
           'Definition thermo_ideal_sets : list (bool * string * (string + bool)) := ' + _coq_list(ideal_sets) + '.\n')
    import vf
    vf.write_if_changed(os.path.join(out_dir, 'Gen_pickle.v'), out)
    return {'file': 'coq/C13/Gen_pickle.v', 'source': [PICKLE, MISC, THERMO, RO], 'sha256': {r: shas[r] for r in shas},
            'thermo_slots': t_slots, 'thermo_recipe': t_recipe, 'ideal_slots': i_slots, 'ideal_recipe': i_recipe,
            'init_sets': init_sets, 'ideal_cache': cache_slot, 'ideal_sets': ideal_sets}
