"""Shared front end of the C07 translators (Python `ast` -> Gallina text).

Fail closed: every node that is not explicitly accepted raises vf.TranslatorError naming
file, line and node type.  Expressions are translated into terms of type `pyv A`
(= res (option A)) built from the combinators of coq/C07/Model.v, in Python's left-to-right
evaluation order."""
import ast, hashlib, os
from fractions import Fraction
import vf
from vf import TranslatorError


class Src:
    def __init__(self, repo, rel):
        self.rel = rel
        self.path = os.path.join(repo, rel)
        try:
            self.text = open(self.path).read()
        except OSError as e:
            raise TranslatorError(f'{rel}: cannot read source: {e}')
        self.sha = hashlib.sha256(self.text.encode()).hexdigest()
        try:
            self.tree = ast.parse(self.text)
        except SyntaxError as e:
            raise TranslatorError(f'{rel}:{e.lineno}: SyntaxError: {e.msg}')

    def err(self, node, msg):
        raise TranslatorError(f'{self.rel}:{getattr(node, "lineno", "?")}: {type(node).__name__}: {msg}')

    def seg(self, node):
        return ast.get_source_segment(self.text, node) or ''


def qlit(x):
    """Gallina Q literal of the exact value of a Python int/float literal."""
    f = Fraction(x)
    n, d = f.numerator, f.denominator
    return f'({n} # {d})' if n >= 0 else f'(-{-n} # {d})'


def module_imports(src):
    """{local name: (module, original name)} for `from m import a [as b]` at module level."""
    out = {}
    for st in src.tree.body:
        if isinstance(st, ast.ImportFrom):
            for a in st.names:
                out[a.asname or a.name] = ('.' * st.level + (st.module or ''), a.name)
    return out


def strip_docstring(src, body):
    if body and isinstance(body[0], ast.Expr) and isinstance(body[0].value, ast.Constant) \
            and isinstance(body[0].value.value, str):
        return body[1:]
    return body


INTEGRALS = {'T_dependent_property_integral': 'I', 'T_dependent_property_integral_over_T': 'J'}
BINOPS = {ast.Add: 'radd', ast.Sub: 'rsub', ast.Mult: 'rmul', ast.Div: 'rdiv'}


class ExprTr:
    """Expression translator.  Subclasses / callers supply:
       name(node)    -> Gallina term of type `pyv A` for a Name (or raise)
       handle(node)  -> Gallina term of type `phase` if the expression denotes a Cn handle, else None
       call(node)    -> Gallina term for an accepted special call, or None
       log_names     -> names bound to math.log in the module"""
    def __init__(self, src, name, handle, call=None, log_names=()):
        self.src, self.name, self.handle, self.call = src, name, handle, call
        self.log_names = set(log_names)

    def tr(self, n):
        src = self.src
        if isinstance(n, ast.Constant):
            if n.value is None:
                return 'pnone'
            if isinstance(n.value, bool) or not isinstance(n.value, (int, float)):
                src.err(n, f'constant {n.value!r} is outside the subset')
            return f'(num O {qlit(n.value)})'
        if isinstance(n, ast.Name):
            return self.name(n)
        if isinstance(n, ast.BinOp):
            op = BINOPS.get(type(n.op))
            if op is None:
                src.err(n, f'operator {type(n.op).__name__} is outside the subset')
            return f'({op} O {self.tr(n.left)} {self.tr(n.right)})'
        if isinstance(n, ast.UnaryOp):
            if isinstance(n.op, ast.USub):
                return f'(rneg O {self.tr(n.operand)})'
            src.err(n, f'unary operator {type(n.op).__name__} is outside the subset')
        if isinstance(n, ast.Call):
            if n.keywords:
                src.err(n, 'keyword arguments are outside the subset')
            if self.call is not None:
                t = self.call(n)
                if t is not None:
                    return t
            f = n.func
            if isinstance(f, ast.Name) and f.id in self.log_names:
                if len(n.args) != 1:
                    src.err(n, 'log takes one argument')
                return f'(rln O {self.tr(n.args[0])})'
            if isinstance(f, ast.Attribute) and f.attr in INTEGRALS:
                h = self.handle(f.value)
                if h is None:
                    src.err(n, f'{self.src.seg(f.value)} is not a heat-capacity handle')
                if len(n.args) != 2:
                    src.err(n, f'{f.attr} takes two arguments')
                return f'(integ {INTEGRALS[f.attr]} {h} {self.tr(n.args[0])} {self.tr(n.args[1])})'
            src.err(n, f'call of {self.src.seg(f)!r} is outside the subset')
        src.err(n, 'expression is outside the subset')


def header(title, sources, found):
    lines = [f'(* GENERATED on every run by {title}; do not edit, not committed.']
    for s in sources:
        lines.append(f'   source {s.rel} sha256={s.sha}')
    lines.append('   translated: ' + ', '.join(found) + ' *)')
    return '\n'.join(lines) + '\n'
