"""C07 translator 5/5: WHEN the free-energy wiring is (re)built.

For every method of Chemical that changes an input of _init_energies, the translator extracts from
thermosteam/_chemical.py whether, and under which guard, the method rebuilds the H/S functors from the
chemical's OWN current fields, and emits Gen_Rewire.v:

  reset_free_energies   must call  self._init_energies(self._Cn, self._Hvap, ..., self._phase_ref, self._S0)
  copy                  new._init_energies(new.Cn, new.Hvap, ..., new.phase_ref, new.S0) after the slot-copy loop
  copy_models_from      final statement `if <guard over names>: self.reset_free_energies()`;
                        guard subset: {'_A','_B'}.intersection(names), '_A' in names, and/or/not
  at_state              final statement `if <parameter>: self.reset_free_energies()`
  phase_ref / Tm / Tb setters   final statement `self.reset_free_energies()`
  Hfus / Sfus setters   body `reset_energy_constant(self, '<name>', float(<name>))`

A call that is absent gives `false` (the invariant theorem then fails and the search looks for an input);
a call of an unrecognised shape, or one that passes anything but the chemical's own fields, is a
TranslatorError."""
import ast, os
from C07_pysubset import Src, TranslatorError, strip_docstring, header
from C07_init_energies import find_method, PARAMS

REL = 'thermosteam/_chemical.py'
MNAME = {'_Cn': 'MCn', '_Hvap': 'MHvap'}


def is_call(st, owner, meth):
    return (isinstance(st, ast.Expr) and isinstance(st.value, ast.Call) and isinstance(st.value.func, ast.Attribute)
            and st.value.func.attr == meth and isinstance(st.value.func.value, ast.Name) and st.value.func.value.id == owner)


def own_args(src, call, owner):
    """the arguments are exactly owner.<field> for the parameters of _init_energies, in order"""
    if call.keywords or len(call.args) != len(PARAMS) - 1:
        src.err(call, f'_init_energies is called with {len(call.args)} arguments')
    for a, p in zip(call.args, PARAMS[1:]):
        ok = (isinstance(a, ast.Attribute) and isinstance(a.value, ast.Name) and a.value.id == owner
              and a.attr in (p, '_' + p))
        if not ok:
            src.err(a, f'argument for {p} of _init_energies is {src.seg(a)!r}, not {owner}.{p} / {owner}._{p}')
    return True


def calls_anywhere(node, meth):
    return [x for x in ast.walk(node) if isinstance(x, ast.Call) and isinstance(x.func, ast.Attribute) and x.func.attr == meth]


def find_setter(src, prop):
    for st in src.tree.body:
        if isinstance(st, ast.ClassDef) and st.name == 'Chemical':
            for x in st.body:
                if isinstance(x, ast.FunctionDef) and x.name == prop and any(
                        isinstance(d, ast.Attribute) and d.attr == 'setter' and isinstance(d.value, ast.Name) and d.value.id == prop
                        for d in x.decorator_list):
                    return x
    raise TranslatorError(f'{REL}: Chemical.{prop} has no setter')


def guard(src, n, names_var):
    if isinstance(n, ast.BoolOp):
        op = 'orb' if isinstance(n.op, ast.Or) else 'andb'
        parts = [guard(src, x, names_var) for x in n.values]
        t = parts[-1]
        for x in reversed(parts[:-1]):
            t = f'({op} {x} {t})'
        return t
    if isinstance(n, ast.UnaryOp) and isinstance(n.op, ast.Not):
        return f'(negb {guard(src, n.operand, names_var)})'

    def mname(c):
        if not (isinstance(c, ast.Constant) and isinstance(c.value, str) and c.value.startswith('_')):
            src.err(c, 'model name in the guard must be a string literal such as \'_Cn\'')
        return MNAME.get(c.value, 'MOther')
    if isinstance(n, ast.Compare) and len(n.ops) == 1 and isinstance(n.ops[0], ast.In) \
            and isinstance(n.comparators[0], ast.Name) and n.comparators[0].id == names_var:
        return f'(mname_mem {mname(n.left)} names)'
    if isinstance(n, ast.Call) and isinstance(n.func, ast.Attribute) and n.func.attr == 'intersection' \
            and isinstance(n.func.value, ast.Set) and len(n.args) == 1 and isinstance(n.args[0], ast.Name) \
            and n.args[0].id == names_var and not n.keywords:
        elts = '; '.join(mname(c) for c in n.func.value.elts)
        return f'(existsb (fun n => mname_mem n [{elts}]) names)'
    src.err(n, 'guard of reset_free_energies is outside the subset')


def final_reset(src, fn, what):
    """how the method ends: ('always'|'never'|('if', test))"""
    body = strip_docstring(src, fn.body)
    n_calls = len(calls_anywhere(fn, 'reset_free_energies'))
    if n_calls == 0:
        return 'never'
    last = body[-1]
    if n_calls == 1 and is_call(last, 'self', 'reset_free_energies') and not last.value.args and not last.value.keywords:
        return 'always'
    if n_calls == 1 and isinstance(last, ast.If) and not last.orelse and len(last.body) == 1 \
            and is_call(last.body[0], 'self', 'reset_free_energies'):
        return ('if', last.test)
    src.err(fn, f'{what}: reset_free_energies is called, but not as the final statement (or under a final `if`)')


def run(repo, out_dir):
    src = Src(repo, REL)
    info = {}
    lines = []

    # reset_free_energies
    fn = find_method(src, 'Chemical', 'reset_free_energies')
    calls = calls_anywhere(fn, '_init_energies')
    body = strip_docstring(src, fn.body)
    for st in body:
        ok = (isinstance(st, ast.If) and 'eos' in src.seg(st.test)) or \
             (isinstance(st, ast.Assign) and isinstance(st.targets[0], ast.Attribute) and isinstance(st.targets[0].value, ast.Name)
              and st.targets[0].value.id == 'TDependentProperty') or is_call(st, 'self', '_init_energies')
        if not ok:
            src.err(st, 'statement of reset_free_energies is outside the subset')
    top = [st for st in body if is_call(st, 'self', '_init_energies')]
    if len(calls) == 0:
        v = 'false'
    elif len(calls) == 1 and len(top) == 1:
        own_args(src, top[0].value, 'self')
        v = 'true'
    else:
        src.err(fn, 'reset_free_energies calls _init_energies more than once or under a condition')
    lines.append(f'(* {REL}:{fn.lineno} reset_free_energies: self._init_energies(self._Cn, ..., self._S0) *)\n'
                 f'Definition reset_rebuilds_from_own : bool := {v}.')
    info['reset_free_energies'] = v

    # copy
    fn = find_method(src, 'Chemical', 'copy')
    body = strip_docstring(src, fn.body)
    calls = calls_anywhere(fn, '_init_energies')
    loop = [k for k, st in enumerate(body) if isinstance(st, ast.For) and '__slots__' in src.seg(st.iter) and 'copy_maybe' in src.seg(st)]
    if len(loop) != 1:
        src.err(fn, 'copy: expected one `for field in self.__slots__: ... copy_maybe(...)` loop')
    if len(calls) == 0:
        v = 'false'
    else:
        top = [k for k, st in enumerate(body) if is_call(st, 'new', '_init_energies')]
        if len(calls) != 1 or len(top) != 1 or top[0] < loop[0]:
            src.err(fn, 'copy: _init_energies must be called once, at top level, after the slot-copy loop')
        own_args(src, body[top[0]].value, 'new')
        for st in body[top[0] + 1:]:
            for x in ast.walk(st):
                if isinstance(x, ast.Attribute) and isinstance(x.ctx, ast.Store) and x.attr in ('_H', '_S', '_Cn', '_Hvap'):
                    src.err(x, 'copy: wiring input or functor assigned after _init_energies')
        v = 'true'
    lines.append(f'(* {REL}:{fn.lineno} copy: new._init_energies(new.Cn, ..., new.S0) after the slots were copied with copy_maybe *)\n'
                 f'Definition copy_rebuilds_from_own : bool := {v}.')
    info['copy'] = v

    # copy_models_from
    fn = find_method(src, 'Chemical', 'copy_models_from')
    r = final_reset(src, fn, 'copy_models_from')
    if r == 'always': g = 'true'
    elif r == 'never': g = 'false'
    else: g = guard(src, r[1], 'names')
    lines.append(f'(* {REL}:{fn.lineno} copy_models_from: {src.seg(strip_docstring(src, fn.body)[-1]).strip() if r != "never" else "no reset"} *)\n'
                 f'Definition copy_models_rebuilds (names : list mname) : bool := {g}.')
    info['copy_models_from'] = g

    # at_state
    fn = find_method(src, 'Chemical', 'at_state')
    params = [a.arg for a in fn.args.args]
    r = final_reset(src, fn, 'at_state')
    if r == 'always': g = 'true'
    elif r == 'never': g = 'false'
    else:
        if not (isinstance(r[1], ast.Name) and r[1].id == 'reset_free_energies' and 'reset_free_energies' in params):
            src.err(r[1], 'at_state: guard must be the parameter reset_free_energies')
        g = 'flag'
    if not any(isinstance(x, ast.Call) and isinstance(x.func, ast.Name) and x.func.id == 'lock_phase' for x in ast.walk(fn)):
        src.err(fn, 'at_state no longer calls lock_phase')
    lines.append(f'(* {REL}:{fn.lineno} at_state(phase, copy=False, reset_free_energies=True) *)\n'
                 f'Definition at_state_rebuilds (flag : bool) : bool := {g}.')
    info['at_state'] = g
    # the copy=True branch: new = self.copy(...); new.at_state(phase[, reset_free_energies=<bool>]); return new
    body = strip_docstring(src, fn.body)
    default = None
    for a, d in zip(fn.args.args[-len(fn.args.defaults):], fn.args.defaults):
        if a.arg == 'reset_free_energies':
            if not (isinstance(d, ast.Constant) and isinstance(d.value, bool)):
                src.err(d, 'default of reset_free_energies must be a bool literal')
            default = d.value
    br = [st for st in body if isinstance(st, ast.If) and isinstance(st.test, ast.Name) and st.test.id == 'copy']
    if len(br) != 1 or br[0].orelse or body.index(br[0]) != 0:
        src.err(fn, 'at_state: expected `if copy:` as the first statement')
    b = br[0].body
    ok = (len(b) == 3 and isinstance(b[0], ast.Assign) and len(b[0].targets) == 1 and isinstance(b[0].targets[0], ast.Name)
          and b[0].targets[0].id == 'new' and isinstance(b[0].value, ast.Call) and isinstance(b[0].value.func, ast.Attribute)
          and b[0].value.func.attr == 'copy' and isinstance(b[0].value.func.value, ast.Name) and b[0].value.func.value.id == 'self'
          and is_call(b[1], 'new', 'at_state') and isinstance(b[2], ast.Return) and isinstance(b[2].value, ast.Name) and b[2].value.id == 'new')
    if not ok:
        src.err(br[0], 'at_state: the copy branch must be `new = self.copy(...); new.at_state(phase, ...); return new`')
    call = b[1].value
    if len(call.args) < 1 or not (isinstance(call.args[0], ast.Name) and call.args[0].id == 'phase'):
        src.err(call, 'at_state: the copy is not locked at the requested phase')
    inner = default
    extra = list(call.args[1:])
    kws = {k.arg: k.value for k in call.keywords}
    if len(extra) > 2 or (set(kws) - {'copy', 'reset_free_energies'}):
        src.err(call, 'at_state: arguments of the inner call are outside the subset')
    cp = extra[0] if extra else kws.get('copy')
    if cp is not None and not (isinstance(cp, ast.Constant) and cp.value is False):
        src.err(call, 'at_state: the inner call copies again')
    fl = extra[1] if len(extra) > 1 else kws.get('reset_free_energies')
    if fl is not None:
        if isinstance(fl, ast.Constant) and isinstance(fl.value, bool): inner = fl.value
        elif isinstance(fl, ast.Name) and fl.id == 'reset_free_energies': inner = 'flag'
        else: src.err(fl, 'at_state: reset_free_energies of the inner call must be a bool literal or the parameter')
    if inner is None:
        src.err(fn, 'at_state: reset_free_energies has no default')
    iv = inner if inner == 'flag' else ('true' if inner else 'false')
    lines.append(f'(* {REL}:{br[0].lineno} at_state(phase, copy=True): {src.seg(b[1]).strip()} *)\n'
                 f'Definition at_state_copy_inner_flag (flag : bool) : bool := {iv}.\n'
                 f'Definition at_state_default_flag : bool := {"true" if default else "false"}.')
    info['at_state(copy=True)'] = iv

    # setters that rebuild
    for prop in ('phase_ref', 'Tm', 'Tb'):
        fn = find_setter(src, prop)
        r = final_reset(src, fn, prop + ' setter')
        if r not in ('always', 'never'):
            src.err(fn, f'{prop} setter: conditional reset is outside the subset')
        v = 'true' if r == 'always' else 'false'
        lines.append(f'(* {REL}:{fn.lineno} {prop} setter *)\nDefinition {prop}_setter_rebuilds : bool := {v}.')
        info[prop + '.setter'] = v
    # does the Tm setter / the Hfus setter also refresh the derived entropy of fusion (Sfus = Hfus / Tm, as _init_data derives it)?
    for prop in ('Tm', 'Hfus'):
        fn = find_setter(src, prop)
        touches = any((isinstance(x, ast.Attribute) and x.attr == '_Sfus' and isinstance(x.ctx, ast.Store)) or
                      (isinstance(x, ast.Constant) and x.value in ('Sfus', '_Sfus')) for x in ast.walk(fn))
        if touches:
            src.err(fn, f'{prop} setter now touches Sfus: the model of the setter (InstQ.set_{prop}) must be extended')
        lines.append(f'(* {REL}:{fn.lineno} {prop} setter: Sfus is left as it was *)\nDefinition {prop}_setter_refreshes_Sfus : bool := false.')
        info[prop + '.setter refreshes Sfus'] = False
    # reset_energy_constant(chemical, var, value): either writes value into chemical._<var> and into every current H/S
    # functor that has a datum <var> (no new objects), or stores it and rebuilds the functors from the chemical's fields
    helper = [x for x in src.tree.body if isinstance(x, ast.FunctionDef) and x.name == 'reset_energy_constant']
    if len(helper) != 1 or [a.arg for a in helper[0].args.args] != ['chemical', 'var', 'value']:
        raise TranslatorError(f'{REL}: reset_energy_constant(chemical, var, value) not found')
    hb = strip_docstring(src, helper[0].body)
    text = ' '.join(src.seg(x).strip() for x in hb)
    norm = ' '.join(text.split())
    PATCH = ("getfield = getattr hasfield = hasattr setfield = object.__setattr__ setfield(chemical, '_'+var, value) isa = isinstance "
             "for handle in _energy_handles: handle = getfield(chemical, handle, None) if handle is None: continue "
             "if isa(handle, PhaseHandle): for phase, obj in handle: if hasfield(obj, var): setfield(obj, var, value) "
             "elif hasfield(handle, var): setfield(handle, var, value)")
    stores = [x for x in hb if isinstance(x, ast.Expr) and isinstance(x.value, ast.Call) and isinstance(x.value.func, ast.Name)
              and x.value.func.id in ('setattr', 'setfield') and src.seg(x.value).replace(' ', '') in
              ("setattr(chemical,'_'+var,value)", "setfield(chemical,'_'+var,value)")]
    resets = [x for x in ast.walk(helper[0]) if isinstance(x, ast.Call) and isinstance(x.func, ast.Attribute)
              and x.func.attr == 'reset_free_energies' and isinstance(x.func.value, ast.Name) and x.func.value.id == 'chemical']
    if norm == PATCH:
        helper_mode = 'patch'
    elif len(hb) == 2 and len(stores) == 1 and hb[0] is stores[0] and len(resets) == 1 and (
            src.seg(hb[1]).strip() == 'chemical.reset_free_energies()' or
            (isinstance(hb[1], ast.If) and not hb[1].orelse and len(hb[1].body) == 1
             and src.seg(hb[1].body[0]).strip() == 'chemical.reset_free_energies()'
             and ' '.join(src.seg(hb[1].test).split()) in ("getattr(chemical, '_H', None) is not None", "chemical._H is not None"))):
        helper_mode = 'rebuild'      # a chemical without functors (H is None) has nothing to rebuild
    else:
        src.err(helper[0], 'reset_energy_constant is neither the in-place patch of the current functors nor store + reset_free_energies')
    info['reset_energy_constant'] = helper_mode
    lines.append(f'(* {REL}:{helper[0].lineno} reset_energy_constant: {helper_mode} *)\n'
                 f'Definition energy_constant_creates_new_functors : bool := {"true" if helper_mode == "rebuild" else "false"}.')
    # setters that go through reset_energy_constant
    for prop in ('Hfus', 'Sfus', 'S0'):
        fn = find_setter(src, prop)
        body = strip_docstring(src, fn.body)
        want = f"Expr(value=Call(func=Name(id='reset_energy_constant', ctx=Load()), args=[Name(id='self', ctx=Load()), Constant(value='{prop}'), Call(func=Name(id='float', ctx=Load()), args=[Name(id='{prop}', ctx=Load())], keywords=[])], keywords=[]))"
        v = 'true' if len(body) == 1 and ast.dump(body[0]) == want else 'false'
        lines.append(f'(* {REL}:{fn.lineno} {prop} setter: reset_energy_constant(self, {prop!r}, float({prop})) *)\n'
                     f'Definition {prop}_setter_patches : bool := {v}.')
        info[prop + '.setter'] = v

    # pickling: Chemical.__reduce__ -> (unpickle_chemical, (get_chemical_data(self),))
    red = find_method(src, 'Chemical', '__reduce__')
    rb = strip_docstring(src, red.body)
    if len(rb) != 1 or ' '.join(src.seg(rb[0]).split()) != 'return unpickle_chemical, (get_chemical_data(self),)':
        src.err(red, 'Chemical.__reduce__ is outside the subset')
    gd = [x for x in src.tree.body if isinstance(x, ast.FunctionDef) and x.name == 'get_chemical_data']
    up = [x for x in src.tree.body if isinstance(x, ast.FunctionDef) and x.name == 'unpickle_chemical']
    if len(gd) != 1 or len(up) != 1:
        raise TranslatorError(f'{REL}: get_chemical_data / unpickle_chemical not found')
    ret = [x for x in ast.walk(gd[0]) if isinstance(x, ast.Return)]
    if len(ret) != 1 or not isinstance(ret[0].value, ast.DictComp) or len(ret[0].value.generators) != 1 \
            or src.seg(ret[0].value.generators[0].iter).replace(' ', '') != 'chemical.__slots__':
        src.err(gd[0], 'get_chemical_data is outside the subset ({slot: value for slot in chemical.__slots__ [if ...]})')
    gen = ret[0].value.generators[0]
    if not gen.ifs:
        all_slots = True
    elif len(gen.ifs) == 1 and ' '.join(src.seg(gen.ifs[0]).split()) == f'{src.seg(gen.target)} not in _energy_handles':
        all_slots = False           # the H / S / H_excess / S_excess functors are left out of the pickle
    else:
        src.err(gen.ifs[0], 'filter of get_chemical_data is outside the subset')
    ub = strip_docstring(src, up[0].body)
    rebuilds = [x for x in ast.walk(up[0]) if isinstance(x, ast.Call) and isinstance(x.func, ast.Attribute)
                and x.func.attr in ('reset_free_energies', '_init_energies')]
    core = [x for x in ub if not (is_call(x, 'chemical', 'reset_free_energies'))]
    want = ['chemical = object.__new__(Chemical)', 'setfield = setattr',
            'for field, value in chemical_data.items(): setfield(chemical, field, value)', 'return chemical']
    if [' '.join(src.seg(x).split()) for x in core] != want or len(rebuilds) != len(ub) - len(core) or len(rebuilds) > 1:
        src.err(up[0], 'unpickle_chemical is outside the subset (set every pickled slot [, chemical.reset_free_energies()], return chemical)')
    if rebuilds and ub.index([x for x in ub if is_call(x, 'chemical', 'reset_free_energies')][0]) != len(ub) - 2:
        src.err(up[0], 'unpickle_chemical must rebuild after all slots are set')
    if not all_slots and not rebuilds:
        src.err(up[0], 'the functors are neither pickled nor rebuilt: an unpickled chemical would have no H / S')
    lines.append(f'(* {REL}:{gd[0].lineno} get_chemical_data ({"all slots" if all_slots else "without the energy functors"}), '
                 f':{up[0].lineno} unpickle_chemical ({"rebuilds the functors" if rebuilds else "keeps the pickled functor objects"}) *)\n'
                 f'Definition unpickle_rebuilds_functors : bool := {"true" if rebuilds else "false"}.')
    info['unpickle_chemical'] = 'rebuilds' if rebuilds else 'keeps pickled functors'

    # the constructor Chemical.__new__: ORDER of the statements that change an input of _init_energies (Hvap= / Cn= user
    # models, default(), set_method(method)) relative to the statement(s) that build the functors
    fn = find_method(src, 'Chemical', '__new__')
    body = strip_docstring(src, fn.body)
    def seg1(x): return ' '.join(src.seg(x).split())
    def has_call(node, attr, owner_attr=None):
        for x in ast.walk(node):
            if isinstance(x, ast.Call) and isinstance(x.func, ast.Attribute) and x.func.attr == attr:
                o = x.func.value
                if owner_attr is None:
                    if isinstance(o, ast.Name) and o.id == 'self': return True
                elif isinstance(o, ast.Attribute) and o.attr == owner_attr and isinstance(o.value, ast.Name) and o.value.id == 'self':
                    return True
        return False
    start = [k for k, st in enumerate(body) if isinstance(st, ast.If) and isinstance(st.test, ast.Name) and st.test.id == 'search_db']
    if len(start) != 1:
        src.err(fn, '__new__: expected one `if search_db: self = cls.new(...) else: self = cls.blank(...)`')
    st0 = body[start[0]]
    steps = []
    for br in (st0.body, st0.orelse):
        asg = [x for x in br if isinstance(x, ast.Assign) and len(x.targets) == 1 and isinstance(x.targets[0], ast.Name) and x.targets[0].id == 'self']
        if len(asg) != 1 or br[-1] is not asg[0] or not (isinstance(asg[0].value, ast.Call) and isinstance(asg[0].value.func, ast.Attribute)
                and asg[0].value.func.attr in ('new', 'blank') and isinstance(asg[0].value.func.value, ast.Name) and asg[0].value.func.value.id == 'cls'):
            src.err(st0, '__new__: each branch of `if search_db` must end with self = cls.new(...) / cls.blank(...)')
        fe = [k.value for k in asg[0].value.keywords if k.arg == 'free_energies']
        if not (len(fe) == 1 and isinstance(fe[0], ast.Constant) and fe[0].value is False):
            src.err(asg[0], '__new__: the inner constructor call does not pass free_energies=False (it would build the functors early): extend the constructor model')
    for st in body[:start[0]]:
        if has_call(st, 'reset_free_energies') or has_call(st, '_init_energies') or has_call(st, 'set_method'):
            src.err(st, '__new__: wiring call before the object exists')
    tail = body[start[0] + 1:]
    if not (tail and isinstance(tail[-1], ast.Return) and isinstance(tail[-1].value, ast.Name) and tail[-1].value.id == 'self'):
        src.err(fn, '__new__: must end with `return self`')
    for st in tail[:-1]:
        t = seg1(st)
        if has_call(st, '_init_energies') or any(isinstance(x, ast.Attribute) and isinstance(x.ctx, ast.Store) and x.attr in ('_H', '_S', '_Cn', '_Hvap', '_Tm', '_Tb', '_Hfus', '_Sfus', '_S0', '_phase_ref')
                                                  for x in ast.walk(st)):
            src.err(st, '__new__: direct wiring / assignment of a wiring input is outside the subset')
        if has_call(st, 'reset_free_energies'):
            if t != 'self.reset_free_energies()': src.err(st, '__new__: reset_free_energies must be an unconditional top-level statement')
            steps.append('KReset')
        elif has_call(st, 'set_method'):
            if t != 'if method: self.set_method(method)': src.err(st, '__new__: set_method call is outside the subset')
            steps.append('KSetMethod')
        elif has_call(st, 'default'):
            if t != 'if default: self.default()': src.err(st, '__new__: default() call is outside the subset')
            steps.append('KDefault')
        elif has_call(st, 'add_method', '_Hvap'):
            if t != 'if Hvap: self._Hvap.add_method(Hvap)': src.err(st, '__new__: Hvap user model is outside the subset')
            steps.append('KAddHvap')
        elif has_call(st, 'add_method', '_Cn'):
            if not (isinstance(st, ast.If) and isinstance(st.test, ast.Name) and st.test.id == 'phase'):
                src.err(st, '__new__: Cn / Cp user models must be under `if phase:`')
            steps.append('KAddCnIfPhase')
        elif any(has_call(st, m) for m in ('copy_models_from', 'at_state', 'reset', 'copy')):
            src.err(st, '__new__: call that changes the wiring or its inputs is outside the subset')
    info['__new__'] = steps
    lines.append(f'(* {REL}:{fn.lineno} Chemical.__new__ after self = cls.new / cls.blank(..., free_energies=False): the statements that change an\n'
                 f'   input of _init_energies or build the functors, in source order *)\n'
                 f'Inductive ctor_step : Type := KAddHvap | KAddCnIfPhase | KDefault | KSetMethod | KReset.\n'
                 f'Definition ctor_tail : list ctor_step := [{"; ".join(steps)}].')

    out = header('tr/C07_rewire.py', [src], ['call sites of _init_energies / reset_free_energies in Chemical'])
    out += 'From Coq Require Import List Bool.\nFrom V Require Import C07.Model.\nImport ListNotations.\n\n' + '\n\n'.join(lines) + '\n'
    import vf
    vf.write_if_changed(os.path.join(out_dir, 'Gen_Rewire.v'), out)
    return {'file': 'coq/C07/Gen_Rewire.v', 'source': REL, 'sha256': src.sha, 'sites': info}
