"""C16 translator: python ast -> Gallina over the carrier record KOps (coq/C16/Ops.v).

Translates, from thermosteam/equilibrium/activity_coefficients.py,
  * the straight-line NumPy kernels loggammacs_UNIFAC, loggammacs_modified_UNIFAC,
    group_activity_coefficients, psi_UNIFAC, psi_modified_UNIFAC  (expression translator
    with rank inference and NumPy broadcasting), and
  * the gather-evaluate-scatter wrappers gamma_UNIFAC / gamma_modified_UNIFAC by matching a
    fixed statement skeleton with holes (direction of the gather assignment, the test on
    xsum, the two kernel names, position of the scatter loop) and instantiating the
    hand-written `wrapper` of coq/C16/Wrapper.v with what was found in the holes.
Fails closed (raises TranslatorError naming file, line and node) on anything else.
Output: coq/C16/Gen_kernels.v and coq/C16/Gen_wrappers.v with the SHA-256 of the source text.
"""
import ast, hashlib, os, sys
from fractions import Fraction

try:
    from vf import TranslatorError, VERIF, REPO
except Exception:                                     # stand-alone use
    class TranslatorError(Exception):
        pass
    VERIF = os.path.dirname(os.path.dirname(os.path.abspath(__file__)))
    REPO = os.environ.get('VERIF_REPO', '/repo')

SRC = 'thermosteam/equilibrium/activity_coefficients.py'
ALLOWED_DECORATORS = {'njit'}

# parameter ranks of the translated kernels (0 scalar, 1 vector, 2 matrix, 3 rank-3 array)
KERNELS = {
    'loggammacs_UNIFAC': {'qs': 1, 'rs': 1, 'x': 1},
    'loggammacs_modified_UNIFAC': {'qs': 1, 'rs': 1, 'x': 1},
    'group_activity_coefficients': {'x': 1, 'chemgroups': 2, 'loggammacs': 1, 'Qs': 1, 'psis': 2,
                                    'cQfs': 2, 'gpsis': 2},
    'psi_UNIFAC': {'T': 0, 'a': 2},
    'psi_modified_UNIFAC': {'T': 0, 'abc': 3},
}
RANK_TYPE = {0: 'A', 1: 'list A', 2: 'list (list A)', 3: 'list (list (list A))'}
BINOPS = {ast.Add: 'kadd', ast.Sub: 'ksub', ast.Mult: 'kmul', ast.Div: 'kdiv'}
RESERVED = {'fix', 'let', 'in', 'at', 'as', 'if', 'then', 'else', 'fun', 'forall', 'exists', 'end', 'match',
            'with', 'return', 'using', 'where', 'cofix', 'for', 'Type', 'Prop', 'Set'}


def fail(node, why, fn=''):
    raise TranslatorError(f'{SRC}:{getattr(node, "lineno", "?")} in {fn}: {why} ({type(node).__name__})')


def qlit(v):
    f = Fraction(v)     # exact value of the double
    n, d = f.numerator, f.denominator
    return f'(kq K ({n} # {d}))' if n >= 0 else f'(kq K (-{-n} # {d}))'


class Kernel:
    def __init__(self, fn):
        self.fn = fn
        self.name = fn.name
        self.env = dict(KERNELS[fn.name])
        self.version = {}

    def ident(self, name):
        v = self.version.get(name, 0)
        base = name + '_' if name in RESERVED else name
        return base if v == 0 else f'{base}_{v}'

    def fresh(self, name):
        if name in self.env or name in self.version:
            self.version[name] = self.version.get(name, 0) + 1
        else:
            self.version[name] = 0
        return self.ident(name)

    # ---- expressions: returns (gallina, rank)
    def expr(self, e):
        f = self.name
        if isinstance(e, ast.Name):
            if e.id not in self.env:
                fail(e, f'unknown name {e.id}', f)
            return self.ident(e.id), self.env[e.id]
        if isinstance(e, ast.Constant):
            if isinstance(e.value, bool) or not isinstance(e.value, (int, float)):
                fail(e, 'constant is not a number', f)
            return qlit(float(e.value)), 0
        if isinstance(e, ast.UnaryOp):
            if not isinstance(e.op, ast.USub):
                fail(e, 'unary operator', f)
            a, r = self.expr(e.operand)
            return f'(umap{r} (kneg K) {a})', r
        if isinstance(e, ast.BinOp):
            if isinstance(e.op, ast.Pow):
                if not (isinstance(e.right, ast.Constant) and e.right.value == 0.75):
                    fail(e, 'power other than **0.75', f)
                a, r = self.expr(e.left)
                return f'(umap{r} (kpow34 K) {a})', r
            if isinstance(e.op, ast.MatMult):
                a, ra = self.expr(e.left)
                b, rb = self.expr(e.right)
                if (ra, rb) == (2, 1):
                    return f'(matvec K {a} {b})', 1
                if (ra, rb) == (2, 2):
                    return f'(matmul K {a} {b})', 2
                fail(e, f'@ of ranks {ra},{rb}', f)
            if type(e.op) not in BINOPS:
                fail(e, 'binary operator', f)
            a, ra = self.expr(e.left)
            b, rb = self.expr(e.right)
            if ra == 3 or rb == 3:
                fail(e, 'arithmetic on rank-3 arrays', f)
            return f'(bc_{ra}{rb} ({BINOPS[type(e.op)]} K) {a} {b})', max(ra, rb)
        if isinstance(e, ast.Call):
            return self.call(e)
        fail(e, 'expression outside the subset', f)

    def call(self, e):
        f = self.name
        if e.keywords:
            fail(e, 'keyword arguments', f)
        fn = e.func
        if isinstance(fn, ast.Attribute) and isinstance(fn.value, ast.Name) and fn.value.id == 'np':
            if fn.attr in ('log', 'exp') and len(e.args) == 1:
                a, r = self.expr(e.args[0])
                return f'(umap{r} ({"kln" if fn.attr == "log" else "kexp"} K) {a})', r
            if fn.attr == 'dot' and len(e.args) == 2:
                a, ra = self.expr(e.args[0])
                b, rb = self.expr(e.args[1])
                if (ra, rb) != (1, 1):
                    fail(e, f'np.dot of ranks {ra},{rb}', f)
                return f'(vdot K {a} {b})', 0
            if fn.attr == 'where' and len(e.args) == 3:
                c, s, el = e.args
                if not (isinstance(c, ast.Compare) and len(c.ops) == 1 and isinstance(c.ops[0], ast.Eq)):
                    fail(e, 'np.where condition is not `a == c`', f)
                a, ra = self.expr(c.left)
                k, rk = self.expr(c.comparators[0])
                sv, rs = self.expr(s)
                b, rb = self.expr(el)
                if rk != 0 or rs != 0 or ra != rb or ra not in (1, 2):
                    fail(e, f'np.where of ranks {ra},{rk},{rs},{rb}', f)
                return f'(where_eq_{ra} K {a} {k} {sv} {b})', ra
            fail(e, f'call np.{fn.attr}', f)
        if isinstance(fn, ast.Attribute):
            a, r = self.expr(fn.value)
            if fn.attr == 'transpose' and not e.args and r == 2:
                return f'(transpose {a})', 2
            if fn.attr == 'sum':
                if not e.args and r == 1:
                    return f'(ksum K {a})', 0
                if len(e.args) == 1 and isinstance(e.args[0], ast.Constant):
                    ax = e.args[0].value
                    if ax == 1 and r == 2:
                        return f'(sum_axis1 K {a})', 1
                    if ax == 2 and r == 3:
                        return f'(sum_axis2 K {a})', 2
                fail(e, f'.sum on rank {r}', f)
            fail(e, f'method .{fn.attr}', f)
        fail(e, 'call outside the allow-list', f)

    # ---- statements
    def body(self):
        f = self.name
        stmts = list(self.fn.body)
        if stmts and isinstance(stmts[0], ast.Expr) and isinstance(getattr(stmts[0], 'value', None), ast.Constant) \
                and isinstance(stmts[0].value.value, str):
            stmts = stmts[1:]
        lets = []
        for s in stmts[:-1]:
            if isinstance(s, ast.Assign):
                if len(s.targets) != 1:
                    fail(s, 'multiple assignment targets', f)
                t = s.targets[0]
                if not isinstance(t, ast.Name):
                    fail(s, 'assignment target is not a name', f)
                v, r = self.expr(s.value)
                nm = self.fresh(t.id)
                self.env[t.id] = r
                lets.append((nm, v))
            elif isinstance(s, ast.AugAssign):
                t = s.target
                if isinstance(t, ast.Name):
                    if type(s.op) not in BINOPS:
                        fail(s, 'augmented operator', f)
                    a, ra = self.expr(t)
                    b, rb = self.expr(s.value)
                    if rb > ra or ra == 3:
                        fail(s, f'augmented assignment of ranks {ra},{rb}', f)
                    nm = self.fresh(t.id)
                    lets.append((nm, f'(bc_{ra}{rb} ({BINOPS[type(s.op)]} K) {a} {b})'))
                elif isinstance(t, ast.Subscript):
                    # abc[:, :, k] op= scalar   on a rank-3 array
                    if not (isinstance(t.value, ast.Name) and self.env.get(t.value.id) == 3):
                        fail(s, 'sliced augmented assignment on something that is not a rank-3 array', f)
                    sl = t.slice
                    ok = (isinstance(sl, ast.Tuple) and len(sl.elts) == 3
                          and all(isinstance(x, ast.Slice) and x.lower is None and x.upper is None and x.step is None
                                  for x in sl.elts[:2])
                          and isinstance(sl.elts[2], ast.Constant) and isinstance(sl.elts[2].value, int)
                          and sl.elts[2].value >= 0)
                    if not ok or type(s.op) not in BINOPS:
                        fail(s, 'slice is not [:, :, k]', f)
                    b, rb = self.expr(s.value)
                    if rb != 0:
                        fail(s, 'sliced augmented assignment with a non-scalar', f)
                    a = self.ident(t.value.id)
                    nm = self.fresh(t.value.id)
                    lets.append((nm, f'(slice3_update {a} {sl.elts[2].value}%nat (fun u_ => {BINOPS[type(s.op)]} K u_ {b}))'))
                else:
                    fail(s, 'augmented assignment target', f)
            else:
                fail(s, 'statement outside the subset', f)
        last = stmts[-1]
        if not isinstance(last, ast.Return) or last.value is None:
            fail(last, 'function does not end in `return e`', f)
        rv, rr = self.expr(last.value)
        return lets, rv, rr

    def emit(self):
        for d in self.fn.decorator_list:
            nm = d.func.id if isinstance(d, ast.Call) and isinstance(d.func, ast.Name) else getattr(d, 'id', None)
            if nm not in ALLOWED_DECORATORS:
                fail(d, 'decorator outside the allow-list', self.name)
        a = self.fn.args
        if a.vararg or a.kwarg or a.kwonlyargs or a.defaults or a.posonlyargs:
            fail(self.fn, 'parameter list outside the subset', self.name)
        params = [p.arg for p in a.args]
        if params != list(KERNELS[self.name]):
            fail(self.fn, f'parameters {params} differ from the declared {list(KERNELS[self.name])}', self.name)
        ranks = dict(KERNELS[self.name])
        lets, rv, rr = self.body()
        sig = ' '.join(f'({p + "_" if p in RESERVED else p} : {RANK_TYPE[ranks[p]]})' for p in params)
        out = [f'Definition {self.name} {sig} : {RANK_TYPE[rr]} :=']
        for nm, v in lets:
            out.append(f'  let {nm} := {v} in')
        out.append(f'  {rv}.')
        if self.name.startswith('psi_'):
            # what the kernel leaves in the array argument it is given (in-place augmented assignments)
            arr = params[1]
            out.append('')
            out.append(f'Definition {self.name}_effect {sig} : {RANK_TYPE[ranks[arr]]} :=')
            out.append('  let K_ := K in   (* keeps K a parameter also when no operation is applied *)')
            for nm, v in lets:
                out.append(f'  let {nm} := {v} in')
            out.append(f'  {self.ident(arr)}.')
        return '\n'.join(out)


# ------------------------------------------------------------------ wrappers (skeleton with holes)
def dump(n):
    return ast.dump(n, annotate_fields=False)


def parse_stmt(src):
    return ast.parse(src).body[0]


def same(node, src):
    return dump(node) == dump(parse_stmt(src))


# ---- normal form of the imperative wrappers --------------------------------------------------------------------
# The wrappers are compared with the 32 instances of the skeleton AFTER both sides went through the same
# meaning-preserving normalisation, so that harmless rewrites do not make the translator fail:
#   N1 docstrings dropped;
#   N2 calls of module-level helper functions of this file (njit or not) that are written in the same statement
#      subset are inlined (parameters replaced by the argument names, helper locals made fresh, a returned local takes
#      the name of the assignment target);
#   N3 a guard clause `if C: return E` followed by statements ending in `return E` becomes `if not C: ...; return E`
#      (the comparison is flipped only for integer operands: `.size` values and int literals);
#   N4 `for i in range(N): ... A[i] ...` with N = A.size and A never written becomes `for i, j in enumerate(A): ... j ...`;
#   N5 a second binding of `A.size` (A never written) is replaced by the first;
#   N6 a temporary bound to a call of one of the pure kernels and used exactly once, in the next simple statement whose
#      other operands are plain names, is substituted;
#   N7 loop variables are scoped per loop, locals are renamed in order of first binding, parameters by position.
# Anything outside the statement subset, or a helper that writes to one of its parameters' names, is left alone and then
# simply fails to match (fail closed).
WRAPPER_PARAMS = ['x', 'T', 'interactions', 'group_psis', 'group_mask', 'qs', 'rs', 'Qs', 'chemgroups',
                  'chem_Qfractions', 'index']
PURE_CALLS = {'loggammacs_UNIFAC', 'loggammacs_modified_UNIFAC'}
NOT_HELPERS = set(KERNELS) | {'gamma_UNIFAC', 'gamma_modified_UNIFAC', 'fill_group_psis', 'chemgroup_array',
                              'get_interaction', 'get_chemgroups'}


def strip_doc(body):
    b = list(body)
    if b and isinstance(b[0], ast.Expr) and isinstance(getattr(b[0], 'value', None), ast.Constant) \
            and isinstance(b[0].value.value, str):
        b = b[1:]
    return b


class Rename(ast.NodeTransformer):
    def __init__(self, m): self.m = m
    def visit_Name(self, n):
        if n.id in self.m:
            return ast.copy_location(ast.Name(id=self.m[n.id], ctx=n.ctx), n)
        return n
    def visit_arg(self, n):
        if n.arg in self.m:
            n.arg = self.m[n.arg]
        return n


def stored_names(nodes):
    out = []
    for st in nodes:
        for n in ast.walk(st):
            if isinstance(n, ast.Name) and isinstance(n.ctx, ast.Store) and n.id not in out:
                out.append(n.id)
    return out


def written_bases(nodes):
    """names that are rebound, augmented-assigned, or written through a subscript"""
    w = set()
    for st in nodes:
        for n in ast.walk(st):
            if isinstance(n, ast.Name) and isinstance(n.ctx, ast.Store): w.add(n.id)
            if isinstance(n, ast.Subscript) and isinstance(n.ctx, ast.Store) and isinstance(n.value, ast.Name): w.add(n.value.id)
            if isinstance(n, ast.AugAssign):
                t = n.target
                if isinstance(t, ast.Name): w.add(t.id)
                if isinstance(t, ast.Subscript) and isinstance(t.value, ast.Name): w.add(t.value.id)
    return w


def simple_helper(fn):
    """a helper that can be inlined: plain positional parameters, allowed decorators, no write to a parameter NAME,
    `return` only as the last statement"""
    a = fn.args
    if a.vararg or a.kwarg or a.kwonlyargs or a.defaults or a.posonlyargs: return False
    for d in fn.decorator_list:
        nm = d.func.id if isinstance(d, ast.Call) and isinstance(d.func, ast.Name) else getattr(d, 'id', None)
        if nm not in ALLOWED_DECORATORS: return False
    body = strip_doc(fn.body)
    if not body: return False
    params = {p.arg for p in a.args}
    if params & set(stored_names(body)): return False
    for st in body[:-1]:
        if any(isinstance(n, (ast.Return, ast.Yield, ast.YieldFrom, ast.Global, ast.Nonlocal, ast.FunctionDef, ast.Lambda))
               for n in ast.walk(st)):
            return False
    last = body[-1]
    if any(isinstance(n, ast.Return) for st in ([last] if not isinstance(last, ast.Return) else []) for n in ast.walk(st)):
        return False
    return True


class Normaliser:
    def __init__(self, helpers):
        self.helpers = helpers
        self.k = 0

    def fresh(self, base):
        self.k += 1
        return f'h{self.k}_{base}'

    # N2
    def inline_stmt(self, st, depth):
        call, target = None, None
        if isinstance(st, ast.Expr) and isinstance(st.value, ast.Call):
            call = st.value
        elif isinstance(st, ast.Assign) and len(st.targets) == 1 and isinstance(st.targets[0], ast.Name) \
                and isinstance(st.value, ast.Call):
            call, target = st.value, st.targets[0].id
        if call is None or not isinstance(call.func, ast.Name) or call.func.id not in self.helpers or call.keywords \
                or depth > 3:
            return None
        fn = self.helpers[call.func.id]
        if not simple_helper(fn) or len(call.args) != len(fn.args.args) or not all(isinstance(a, ast.Name) for a in call.args):
            return None
        import copy
        body = copy.deepcopy(strip_doc(fn.body))
        params = [p.arg for p in fn.args.args]
        ret = body[-1] if isinstance(body[-1], ast.Return) else None
        stmts = body[:-1] if ret is not None else body
        m = {p: a.id for p, a in zip(params, call.args)}
        locs = [n for n in stored_names(body) if n not in params]
        if ret is not None and target is not None and isinstance(ret.value, ast.Name) and ret.value.id in locs \
                and target not in m.values():
            m[ret.value.id] = target          # the returned local IS the target
            tail = []
        elif ret is not None and target is not None and ret.value is not None:
            tail = 'assign'
        elif target is None:
            tail = []
        else:
            return None
        for l in locs:
            if l not in m: m[l] = self.fresh(l)
        stmts = [Rename(m).visit(x) for x in stmts]
        if tail == 'assign':
            stmts.append(ast.Assign(targets=[ast.Name(id=target, ctx=ast.Store())], value=Rename(m).visit(ret.value)))
        return self.block(stmts, depth + 1)

    def block(self, stmts, depth=0):
        out = []
        for st in stmts:
            if isinstance(st, ast.Expr) and isinstance(getattr(st, 'value', None), ast.Constant) and isinstance(st.value.value, str):
                continue
            inl = self.inline_stmt(st, depth)
            if inl is not None:
                out += inl
                continue
            if isinstance(st, ast.If):
                st.body = self.block(st.body, depth); st.orelse = self.block(st.orelse, depth)
            elif isinstance(st, ast.For):
                st.body = self.block(st.body, depth); st.orelse = self.block(st.orelse, depth)
            out.append(st)
        return out


def int_valued(e, sizes):
    return (isinstance(e, ast.Constant) and isinstance(e.value, int) and not isinstance(e.value, bool)) or \
           (isinstance(e, ast.Name) and e.id in sizes)


def negate(test, sizes):
    flip = {ast.Lt: ast.GtE, ast.GtE: ast.Lt, ast.LtE: ast.Gt, ast.Gt: ast.LtE, ast.Eq: ast.NotEq, ast.NotEq: ast.Eq}
    if isinstance(test, ast.Compare) and len(test.ops) == 1 and type(test.ops[0]) in flip \
            and int_valued(test.left, sizes) and int_valued(test.comparators[0], sizes):
        return ast.Compare(left=test.left, ops=[flip[type(test.ops[0])]()], comparators=test.comparators)
    return ast.UnaryOp(op=ast.Not(), operand=test)


def size_bindings(body, written):
    """name -> base for single assignments `name = base.size` with base never written"""
    counts, sizes = {}, {}
    for st in body:
        for n in ast.walk(st):
            if isinstance(n, ast.Name) and isinstance(n.ctx, ast.Store): counts[n.id] = counts.get(n.id, 0) + 1
    def scan(stmts):
        for st in stmts:
            if isinstance(st, ast.Assign) and len(st.targets) == 1 and isinstance(st.targets[0], ast.Name) \
                    and isinstance(st.value, ast.Attribute) and st.value.attr == 'size' and isinstance(st.value.value, ast.Name) \
                    and st.value.value.id not in written and counts.get(st.targets[0].id) == 1:
                sizes[st.targets[0].id] = st.value.value.id
            for f in ('body', 'orelse'):
                if hasattr(st, f): scan(getattr(st, f))
    scan(body)
    return sizes


def guard_clauses(stmts, sizes):
    out = list(stmts)
    for f in ('body', 'orelse'):
        for st in out:
            if hasattr(st, f): setattr(st, f, guard_clauses(getattr(st, f), sizes))
    for i, st in enumerate(out):
        if isinstance(st, ast.If) and not st.orelse and len(st.body) == 1 and isinstance(st.body[0], ast.Return) \
                and i + 1 < len(out) and isinstance(out[-1], ast.Return) and st.body[0].value is not None \
                and out[-1].value is not None and dump(st.body[0].value) == dump(out[-1].value):
            rest = guard_clauses(out[i + 1:-1], sizes)
            if any(isinstance(n, ast.Return) for r in rest for n in ast.walk(r)):
                return out
            return out[:i] + [ast.If(test=negate(st.test, sizes), body=rest, orelse=[]), out[-1]]
    return out


class SubscriptToName(ast.NodeTransformer):
    def __init__(self, base, idx, new): self.base, self.idx, self.new = base, idx, new
    def visit_Subscript(self, n):
        if isinstance(n.value, ast.Name) and n.value.id == self.base and isinstance(n.slice, ast.Name) \
                and n.slice.id == self.idx and isinstance(n.ctx, ast.Load):
            return ast.Name(id=self.new, ctx=ast.Load())
        return self.generic_visit(n)


def range_loops(stmts, sizes, norm):
    out = []
    for st in stmts:
        for f in ('body', 'orelse'):
            if hasattr(st, f): setattr(st, f, range_loops(getattr(st, f), sizes, norm))
        if isinstance(st, ast.For) and isinstance(st.target, ast.Name) and isinstance(st.iter, ast.Call) \
                and isinstance(st.iter.func, ast.Name) and st.iter.func.id == 'range' and len(st.iter.args) == 1 \
                and isinstance(st.iter.args[0], ast.Name) and st.iter.args[0].id in sizes and not st.orelse:
            base, i = sizes[st.iter.args[0].id], st.target.id
            uses = [n for b in st.body for n in ast.walk(b) if isinstance(n, ast.Name) and n.id == base]
            j = norm.fresh('j')
            newbody = [SubscriptToName(base, i, j).visit(b) for b in st.body]
            left = [n for b in newbody for n in ast.walk(b) if isinstance(n, ast.Name) and n.id == base]
            if uses and not left and i not in stored_names(st.body):
                st = ast.For(target=ast.Tuple(elts=[ast.Name(id=i, ctx=ast.Store()), ast.Name(id=j, ctx=ast.Store())], ctx=ast.Store()),
                             iter=ast.Call(func=ast.Name(id='enumerate', ctx=ast.Load()), args=[ast.Name(id=base, ctx=ast.Load())], keywords=[]),
                             body=newbody, orelse=[])
        out.append(st)
    return out


def merge_sizes(stmts, sizes):
    """N5: later `b = A.size` replaced by the earlier `a = A.size`"""
    first, m = {}, {}
    def scan(ss):
        out = []
        for st in ss:
            if isinstance(st, ast.Assign) and len(st.targets) == 1 and isinstance(st.targets[0], ast.Name) \
                    and st.targets[0].id in sizes:
                base = sizes[st.targets[0].id]
                if base in first:
                    m[st.targets[0].id] = first[base]
                    continue
                first[base] = st.targets[0].id
            for f in ('body', 'orelse'):
                if hasattr(st, f): setattr(st, f, scan(getattr(st, f)))
            out.append(st)
        return out
    out = scan(stmts)
    return [Rename(m).visit(st) for st in out] if m else out


def plain(e):
    return isinstance(e, (ast.Name, ast.Constant))


def temporaries(stmts, all_stmts):
    """N6"""
    out = list(stmts)
    for f in ('body', 'orelse'):
        for st in out:
            if hasattr(st, f): setattr(st, f, temporaries(getattr(st, f), all_stmts))
    i = 0
    while i + 1 < len(out):
        st, nx = out[i], out[i + 1]
        if isinstance(st, ast.Assign) and len(st.targets) == 1 and isinstance(st.targets[0], ast.Name) \
                and isinstance(st.value, ast.Call) and isinstance(st.value.func, ast.Name) and st.value.func.id in PURE_CALLS \
                and all(plain(a) for a in st.value.args) and not st.value.keywords:
            t = st.targets[0].id
            loads = [n for s in all_stmts for n in ast.walk(s) if isinstance(n, ast.Name) and n.id == t and isinstance(n.ctx, ast.Load)]
            stores = [n for s in all_stmts for n in ast.walk(s) if isinstance(n, ast.Name) and n.id == t and isinstance(n.ctx, ast.Store)]
            if len(loads) == 1 and len(stores) == 1 and isinstance(nx, ast.Assign) and isinstance(nx.value, ast.Call) \
                    and isinstance(nx.value.func, ast.Name) and not nx.value.keywords and all(plain(a) for a in nx.value.args) \
                    and any(isinstance(a, ast.Name) and a.id == t for a in nx.value.args):
                nx.value.args = [st.value if (isinstance(a, ast.Name) and a.id == t) else a for a in nx.value.args]
                del out[i]
                continue
        i += 1
    return out


def scope_loops(stmts, counter, outside_loads):
    for st in stmts:
        if isinstance(st, ast.For):
            targets = [n.id for n in ast.walk(st.target) if isinstance(n, ast.Name)]
            if not any(t in outside_loads for t in targets):
                counter[0] += 1
                m = {t: f'L{counter[0]}_{k}' for k, t in enumerate(targets)}
                Rename(m).visit(st)
        for f in ('body', 'orelse'):
            if hasattr(st, f): scope_loops(getattr(st, f), counter, outside_loads)


def loads_outside_loops(stmts, inside=False):
    out = set()
    for st in stmts:
        if isinstance(st, ast.For):
            out |= {n.id for n in ast.walk(st.iter) if isinstance(n, ast.Name)} if not inside else set()
            out |= loads_outside_loops(st.body, True)
        elif isinstance(st, ast.If):
            if not inside:
                out |= {n.id for n in ast.walk(st.test) if isinstance(n, ast.Name) and isinstance(n.ctx, ast.Load)}
            out |= loads_outside_loops(st.body, inside) | loads_outside_loops(st.orelse, inside)
        elif not inside:
            out |= {n.id for n in ast.walk(st) if isinstance(n, ast.Name) and isinstance(n.ctx, ast.Load)}
    return out


def alpha(fn_params, stmts):
    m = {p: f'p{k}' for k, p in enumerate(fn_params)}
    order = []
    class V(ast.NodeVisitor):
        def visit_Name(self, n):
            if isinstance(n.ctx, ast.Store) and n.id not in m and n.id not in order: order.append(n.id)
    for st in stmts: V().visit(st)
    for k, n in enumerate(order): m[n] = f'v{k}'
    return [Rename(m).visit(st) for st in stmts]


def normal_form(fn, helpers):
    import copy
    fn = copy.deepcopy(fn)
    norm = Normaliser(helpers)
    body = norm.block(strip_doc(fn.body))                              # N1, N2
    written = written_bases(body)
    sizes = size_bindings(body, written)
    body = guard_clauses(body, sizes)                                  # N3
    body = range_loops(body, sizes, norm)                              # N4
    body = merge_sizes(body, sizes)                                    # N5
    body = temporaries(body, body)                                     # N6
    scope_loops(body, [0], loads_outside_loops(body))                  # N7
    body = alpha([p.arg for p in fn.args.args], body)
    mod = ast.Module(body=body, type_ignores=[])
    ast.fix_missing_locations(mod)
    return [dump(s) for s in body]


SKELETON = """def {name}(x, T, interactions, group_psis, group_mask, qs, rs, Qs, chemgroups, chem_Qfractions, index):
    N_chemicals = index.size
    gamma = np.ones(x.size)
    if N_chemicals > 1:
        interactions = interactions.copy()
        x_sub = np.ones(N_chemicals)
        for i, j in enumerate(index): {gather}
        xsum = x_sub.sum()
        if {cond}:
            x_sub /= xsum
            psis = {psi}(T, interactions)
            fill_group_psis(group_psis, psis, group_mask)
            gamma_sub = group_activity_coefficients(x_sub, chemgroups, {lgc}(qs, rs, x_sub), Qs, psis, chem_Qfractions, group_psis)
{inside}{after}    return gamma
"""
SCATTER = ("{ind}for i, j in enumerate(index):\n{ind}    value = gamma_sub[i]\n{ind}    if np.isnan(value): continue\n"
           "{ind}    gamma[j] = value\n")


def wrapper_holes(fn, helpers=None):
    """Match gamma_UNIFAC / gamma_modified_UNIFAC (in normal form) against the 32 instances of the skeleton (in the same
    normal form); return the holes of the instance that matches."""
    f = fn.name
    if len(fn.args.args) != len(WRAPPER_PARAMS) or fn.args.vararg or fn.args.kwarg or fn.args.kwonlyargs or fn.args.defaults:
        fail(fn, f'parameters {[p.arg for p in fn.args.args]}', f)
    for d in fn.decorator_list:
        nm = d.func.id if isinstance(d, ast.Call) and isinstance(d.func, ast.Name) else getattr(d, 'id', None)
        if nm not in ALLOWED_DECORATORS:
            fail(d, 'decorator outside the allow-list', f)
    actual = normal_form(fn, helpers or {})
    for gdir, gather in (('GatherIntoSub', 'x_sub[i] = x[j]'), ('WriteIntoX', 'x[j] = x_sub[i]')):
        for cond in ('xsum', 'xsum != 0'):
            for psi in ('psi_UNIFAC', 'psi_modified_UNIFAC'):
                for lgc in ('loggammacs_UNIFAC', 'loggammacs_modified_UNIFAC'):
                    for scatter in ('ScatterInside', 'ScatterAfter'):
                        src = SKELETON.format(name=f, gather=gather, cond=cond, psi=psi, lgc=lgc,
                                              inside=SCATTER.format(ind=' ' * 12) if scatter == 'ScatterInside' else '',
                                              after=SCATTER.format(ind=' ' * 8) if scatter == 'ScatterAfter' else '')
                        cand = ast.parse(src).body[0]
                        if normal_form(cand, {}) == actual:
                            return gdir, scatter, psi, lgc
    fail(fn, 'body (after inlining helpers, guard clauses, loop forms, temporaries and renaming) matches no instance of the '
             'gather / evaluate / scatter skeleton', f)


def fill_group_psis_ok(fn):
    src = ('def fill_group_psis(group_psis, psis, group_mask):\n    M = psis.shape[0]\n    N = psis.shape[1]\n'
           '    for i in range(M):\n        for j in range(N):\n            if group_mask[i, j]: \n'
           '                group_psis[i, j] = psis[i, j]\n            else:\n                group_psis[i, j] = 0.\n')
    ref = ast.parse(src).body[0]
    if dump(fn.args) != dump(ref.args) or [dump(s) for s in fn.body] != [dump(s) for s in ref.body]:
        fail(fn, 'fill_group_psis differs from the transcribed loop nest', 'fill_group_psis')


def class_checks(tree):
    """GroupActivityCoefficients: __slots__, args and __call__ must be the transcribed text (Model.v: the only
    per-object state is the group_psis buffer; __call__ = np.asarray + self.f(x, T, *self.args)); the f properties
    of the three classes must return the two wrappers."""
    classes = {n.name: n for n in tree.body if isinstance(n, ast.ClassDef)}
    for c in ('GroupActivityCoefficients', 'UNIFACActivityCoefficients', 'DortmundActivityCoefficients',
              'NISTActivityCoefficients', 'IdealActivityCoefficients'):
        if c not in classes:
            raise TranslatorError(f'{SRC}: class {c} not found')
    def members(cls):
        out = {}
        for n in cls.body:
            if isinstance(n, ast.FunctionDef): out[n.name] = n
            elif isinstance(n, ast.Assign) and len(n.targets) == 1 and isinstance(n.targets[0], ast.Name):
                out[n.targets[0].id] = n
        return out
    def body_wo_doc(fn):
        b = list(fn.body)
        if b and isinstance(b[0], ast.Expr) and isinstance(getattr(b[0], 'value', None), ast.Constant) \
                and isinstance(b[0].value.value, str):
            b = b[1:]
        return [dump(x) for x in b]
    def expect_body(cls, name, src, params):
        m = members(classes[cls])
        if name not in m or not isinstance(m[name], ast.FunctionDef):
            fail(classes[cls], f'{cls}.{name} missing', cls)
        fn = m[name]
        if [a.arg for a in fn.args.args] != params:
            fail(fn, f'{cls}.{name} parameters', cls)
        if body_wo_doc(fn) != [dump(x) for x in ast.parse(src).body]:
            fail(fn, f'{cls}.{name} differs from the transcribed text', cls)
    g = members(classes['GroupActivityCoefficients'])
    slots = ("__slots__ = ('_rs', '_qs', '_Qs','_chemgroups', '_group_psis',  '_chem_Qfractions', '_group_mask', "
             "'_interactions', '_chemicals', '_index')")
    if '__slots__' not in g or dump(g['__slots__']) != dump(parse_stmt(slots)):
        fail(classes['GroupActivityCoefficients'], '__slots__ differs (per-object state the model does not have)',
             'GroupActivityCoefficients')
    expect_body('GroupActivityCoefficients', '__call__', 'x = np.asarray(x, float)\nreturn self.f(x, T, *self.args)',
                ['self', 'x', 'T'])
    expect_body('GroupActivityCoefficients', 'args',
                'return (self._interactions, self._group_psis, self._group_mask, self._qs, self._rs, self._Qs, '
                'self._chemgroups, self._chem_Qfractions, self._index)', ['self'])
    # assignments to self.<slot> in __new__: exactly the declared slots
    newf = g.get('__new__')
    if not isinstance(newf, ast.FunctionDef):
        fail(classes['GroupActivityCoefficients'], '__new__ missing', 'GroupActivityCoefficients')
    assigned = set()
    for n in ast.walk(newf):
        if isinstance(n, ast.Attribute) and isinstance(n.ctx, ast.Store) and isinstance(n.value, ast.Name) and n.value.id == 'self':
            assigned.add(n.attr)
    allowed = {'_rs', '_qs', '_Qs', '_chemgroups', '_group_psis', '_chem_Qfractions', '_group_mask', '_interactions',
               '_chemicals', '_index'}
    if assigned != allowed:
        fail(newf, f'__new__ assigns {sorted(assigned ^ allowed)} outside the modelled attributes', 'GroupActivityCoefficients')
    expect_body('UNIFACActivityCoefficients', 'f', 'return gamma_UNIFAC', ['self'])
    expect_body('DortmundActivityCoefficients', 'f', 'return gamma_modified_UNIFAC', ['self'])
    n = members(classes['NISTActivityCoefficients'])
    if 'f' not in n or dump(n['f']) != dump(parse_stmt('f = DortmundActivityCoefficients.f')):
        fail(classes['NISTActivityCoefficients'], 'NISTActivityCoefficients.f', 'NISTActivityCoefficients')
    for cls in ('UNIFACActivityCoefficients', 'DortmundActivityCoefficients', 'NISTActivityCoefficients'):
        if '__call__' in members(classes[cls]) or 'args' in members(classes[cls]):
            fail(classes[cls], f'{cls} overrides __call__/args', cls)
    expect_body('IdealActivityCoefficients', '__call__', 'return np.ones(len(xs))', ['self', 'xs', 'T'])
    for cls, psi, lgc in (('UNIFACActivityCoefficients', 'psi_UNIFAC', 'loggammacs_UNIFAC'),
                          ('DortmundActivityCoefficients', 'psi_modified_UNIFAC', 'loggammacs_modified_UNIFAC'),
                          ('NISTActivityCoefficients', 'psi_modified_UNIFAC', 'loggammacs_modified_UNIFAC')):
        expect_body(cls, 'psi', f'return {psi}', ['self'])
        expect_body(cls, 'loggammacs', f'return {lgc}', ['self'])
        if 'activity_coefficients' in members(classes[cls]):
            fail(classes[cls], f'{cls} overrides activity_coefficients', cls)
    # the object form: skeleton with one hole (is the cached interaction table copied before psi gets it?)
    m = g.get('activity_coefficients')
    if not isinstance(m, ast.FunctionDef) or [a.arg for a in m.args.args] != ['self', 'x', 'T']:
        fail(classes['GroupActivityCoefficients'], 'activity_coefficients missing or other parameters', 'GroupActivityCoefficients')
    b = [x for x in m.body if not (isinstance(x, ast.Expr) and isinstance(getattr(x, 'value', None), ast.Constant)
                                   and isinstance(x.value.value, str))]
    if len(b) != 3:
        fail(m, 'activity_coefficients: skeleton has 3 statements', 'GroupActivityCoefficients')
    if same(b[0], 'psis = self.psi(T, self._interactions.copy())'):
        ic = 'InterCopied'
    elif same(b[0], 'psis = self.psi(T, self._interactions)'):
        ic = 'InterShared'
    else:
        fail(b[0], 'activity_coefficients: psis line', 'GroupActivityCoefficients')
    if not same(b[1], 'self._group_psis[self._group_mask] =  psis[self._group_mask]'):
        fail(b[1], 'activity_coefficients: masked assignment', 'GroupActivityCoefficients')
    if not same(b[2], 'return group_activity_coefficients(x, self._chemgroups, self.loggammacs(self._qs, self._rs, x), '
                      'self._Qs, psis, self._chem_Qfractions, self._group_psis)'):
        fail(b[2], 'activity_coefficients: return', 'GroupActivityCoefficients')
    return ic


def translate(repo=None):
    repo = repo or os.environ.get('VERIF_REPO', REPO)
    path = os.path.join(repo, SRC)
    text = open(path).read()
    sha = hashlib.sha256(text.encode()).hexdigest()
    tree = ast.parse(text)
    fns = {n.name: n for n in tree.body if isinstance(n, ast.FunctionDef)}
    missing = [k for k in list(KERNELS) + ['gamma_UNIFAC', 'gamma_modified_UNIFAC', 'fill_group_psis'] if k not in fns]
    if missing:
        raise TranslatorError(f'{SRC}: functions not found: {missing}')
    out = [f'(* GENERATED by tr/C16_kernels.py from {SRC}', f'   sha256 {sha}',
           f'   functions: {", ".join(KERNELS)} *)',
           'From V Require Export C16.Ops.', 'Section Gen.', 'Context {A : Type} (K : KOps A).', '']
    for name in KERNELS:
        out.append(Kernel(fns[name]).emit())
        out.append('')
    out.append('End Gen.')
    kern = '\n'.join(out) + '\n'
    fill_group_psis_ok(fns['fill_group_psis'])
    ic = class_checks(tree)
    w = [f'(* GENERATED by tr/C16_kernels.py from {SRC}', f'   sha256 {sha}',
         '   gamma_UNIFAC, gamma_modified_UNIFAC: normal form (helpers inlined, guard clauses, loop forms, temporaries,',
         '   names) equal to an instance of the statement skeleton, holes below;',
         '   fill_group_psis: loop nest identical to the one transcribed in Wrapper.v;',
         '   GroupActivityCoefficients.__slots__/__new__ attribute set/args/__call__ and the f properties: identical to',
         '   the text transcribed in Model.v (no per-object state besides the group_psis buffer);',
         '   activity_coefficients: skeleton matched, hole = whether the cached interactions are copied;',
         '   psi / loggammacs properties of the three classes return the kernels used below *)',
         'From V Require Export C16.Gen_kernels C16.Wrapper.', 'Section GenW.', 'Context {A : Type} (K : KOps A).', '']
    info = {}
    helpers = {k: v for k, v in fns.items() if k not in NOT_HELPERS}
    for name in ('gamma_UNIFAC', 'gamma_modified_UNIFAC'):
        gdir, scatter, psi, lgc = wrapper_holes(fns[name], helpers)
        info[name] = [gdir, scatter, psi, lgc]
        w.append(f'Definition {name} := wrapper K {gdir} {scatter} ({psi} K) ({lgc} K) '
                 f'(group_activity_coefficients K).')
        w.append('')
    info['activity_coefficients'] = [ic]
    w.append(f'Definition activity_coefficients_UNIFAC := act_method {ic} (psi_UNIFAC K) (psi_UNIFAC_effect K) '
             f'(loggammacs_UNIFAC K) (group_activity_coefficients K).')
    w.append('')
    w.append(f'Definition activity_coefficients_modified := act_method {ic} (psi_modified_UNIFAC K) '
             f'(psi_modified_UNIFAC_effect K) (loggammacs_modified_UNIFAC K) (group_activity_coefficients K).')
    w.append('')
    w.append('End GenW.')
    wrap = '\n'.join(w) + '\n'
    d = os.path.join(VERIF, 'coq', 'C16')
    for fn_, txt in (('Gen_kernels.v', kern), ('Gen_wrappers.v', wrap)):
        p = os.path.join(d, fn_)
        try:
            if open(p).read() == txt:
                continue
        except FileNotFoundError:
            pass
        with open(p, 'w') as fh:
            fh.write(txt)
    return [{'file': 'coq/C16/Gen_kernels.v', 'sha256_of_source': sha, 'functions': list(KERNELS)},
            {'file': 'coq/C16/Gen_wrappers.v', 'sha256_of_source': sha, 'holes': info}]


if __name__ == '__main__':
    for r in translate():
        print(r)
