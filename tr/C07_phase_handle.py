"""C07 translator 8/8: which per-phase model a phase LABEL selects in thermosteam/base/phase_handle.py.

Phases are labelled 's', 'l', 'g' and, for a second liquid / solid phase of multi-phase streams, 'L', 'S'.
`Chemical.Cn` is a PhaseTHandle, `Chemical.H / S / V / ...` are PhaseTPHandles (or, for a phase-locked chemical, one
model wrapped in a MockPhaseT[P]Handle by the mixture).  For each of the five labels the `__call__` body is evaluated
symbolically (the label is a constant; `self.force_gas_critical_phase` is False, the class default, which is checked):

    statements   if / elif / else, `phase = <str>`, return
    conditions   phase == <str>, phase != <str>, phase in (<str>, ...), and / or / not, self.force_gas_critical_phase
    returns      getattr(self, phase)(<args>), self.<attr>(<args>), `a if c else b`;  <args> must be (T) resp. (T, P)
    attributes   the slots s / l / g, and properties whose body is `return self.<slot>`

and Gen_PhaseHandle.v gets, per class, `label -> option phase` (None: AttributeError).  The Mock handles must be
`return self.model(T)` / `return self.model(T, P)`.  Anything else is a TranslatorError."""
import ast, os
from C07_pysubset import Src, TranslatorError, strip_docstring, header

REL = 'thermosteam/base/phase_handle.py'
LABELS = ['s', 'l', 'g', 'S', 'L']
PH = {'s': 'Ps', 'l': 'Pl', 'g': 'Pg'}


class _Ret(Exception):
    def __init__(self, v): self.v = v


def find_class(src, name):
    c = [x for x in src.tree.body if isinstance(x, ast.ClassDef) and x.name == name]
    if len(c) != 1:
        raise TranslatorError(f'{REL}: class {name} not found')
    return c[0]


def attr_map(src):
    """attribute name -> slot, for PhaseHandle: slots and alias properties"""
    cls = find_class(src, 'PhaseHandle')
    out = {'s': 's', 'l': 'l', 'g': 'g'}
    slots = [x for x in cls.body if isinstance(x, ast.Assign) and src.seg(x.targets[0]) == '__slots__']
    if len(slots) != 1 or not all(repr(k) in src.seg(slots[0].value) for k in 'slg'):
        src.err(cls, 'PhaseHandle.__slots__ no longer holds s, l, g')
    for x in cls.body:
        if isinstance(x, ast.FunctionDef) and any(isinstance(d, ast.Name) and d.id == 'property' for d in x.decorator_list):
            b = strip_docstring(src, x.body)
            if len(b) == 1 and isinstance(b[0], ast.Return) and isinstance(b[0].value, ast.Attribute) \
                    and isinstance(b[0].value.value, ast.Name) and b[0].value.value.id == 'self' and b[0].value.attr in 'slg':
                out[x.name] = b[0].value.attr
            else:
                src.err(x, f'property {x.name} of PhaseHandle is outside the subset (return self.<s|l|g>)')
    return out


def dispatch(src, cls, nargs, attrs):
    fn = [x for x in cls.body if isinstance(x, ast.FunctionDef) and x.name == '__call__']
    if len(fn) != 1 or [a.arg for a in fn[0].args.args] != ['self', 'phase', 'T', 'P']:
        src.err(cls, f'{cls.name}.__call__(self, phase, T, P=None) not found')
    fn = fn[0]
    flag = [x for x in cls.body if isinstance(x, ast.Assign) and src.seg(x.targets[0]) == 'force_gas_critical_phase']
    if len(flag) != 1 or not (isinstance(flag[0].value, ast.Constant) and flag[0].value.value is False):
        src.err(cls, f'{cls.name}.force_gas_critical_phase is not False by default')
    want_args = ['T'] if nargs == 1 else ['T', 'P']

    def cond(n, env):
        if isinstance(n, ast.BoolOp):
            vals = []
            for v in n.values:
                b = cond(v, env)
                if isinstance(n.op, ast.And) and not b: return False
                if isinstance(n.op, ast.Or) and b: return True
                vals.append(b)
            return isinstance(n.op, ast.And)
        if isinstance(n, ast.UnaryOp) and isinstance(n.op, ast.Not):
            return not cond(n.operand, env)
        if isinstance(n, ast.Attribute) and src.seg(n) == 'self.force_gas_critical_phase':
            return False
        if isinstance(n, ast.Compare) and len(n.ops) == 1 and isinstance(n.left, ast.Name) and n.left.id == 'phase':
            r = n.comparators[0]
            if isinstance(r, ast.Constant) and isinstance(r.value, str):
                if isinstance(n.ops[0], ast.Eq): return env['phase'] == r.value
                if isinstance(n.ops[0], ast.NotEq): return env['phase'] != r.value
            if isinstance(r, (ast.Tuple, ast.List, ast.Set)) and all(isinstance(e, ast.Constant) and isinstance(e.value, str) for e in r.elts):
                if isinstance(n.ops[0], ast.In): return env['phase'] in [e.value for e in r.elts]
                if isinstance(n.ops[0], ast.NotIn): return env['phase'] not in [e.value for e in r.elts]
        src.err(n, 'condition of the phase dispatch is outside the subset')

    def value(n, env):
        if isinstance(n, ast.IfExp):
            return value(n.body if cond(n.test, env) else n.orelse, env)
        if isinstance(n, ast.Call) and not n.keywords and [src.seg(a) for a in n.args] == want_args:
            f = n.func
            if isinstance(f, ast.Call) and isinstance(f.func, ast.Name) and f.func.id == 'getattr' and len(f.args) == 2 \
                    and src.seg(f.args[0]) == 'self' and src.seg(f.args[1]) == 'phase':
                return attrs.get(env['phase'])      # None: AttributeError
            if isinstance(f, ast.Attribute) and isinstance(f.value, ast.Name) and f.value.id == 'self':
                if f.attr not in attrs:
                    src.err(f, f'self.{f.attr} is not a phase model')
                return attrs[f.attr]
        src.err(n, f'return value of the phase dispatch is outside the subset (a per-phase model applied to {tuple(want_args)})')

    def run(stmts, env):
        for st in stmts:
            if isinstance(st, ast.If):
                run(st.body if cond(st.test, env) else st.orelse, env)
            elif isinstance(st, ast.Assign) and len(st.targets) == 1 and isinstance(st.targets[0], ast.Name) and st.targets[0].id == 'phase' \
                    and isinstance(st.value, ast.Constant) and isinstance(st.value.value, str):
                env['phase'] = st.value.value
            elif isinstance(st, ast.Return) and st.value is not None:
                raise _Ret(value(st.value, env))
            else:
                src.err(st, 'statement of the phase dispatch is outside the subset')

    table = {}
    for lab in LABELS:
        try:
            run(strip_docstring(src, fn.body), {'phase': lab})
            src.err(fn, f'{cls.name}.__call__ does not return for phase {lab!r}')
        except _Ret as r:
            table[lab] = r.v
    return fn, table


def run(repo, out_dir):
    src = Src(repo, REL)
    attrs = attr_map(src)
    lines, info = [], {}
    for cname, nargs in (('PhaseTHandle', 1), ('PhaseTPHandle', 2)):
        fn, table = dispatch(src, find_class(src, cname), nargs, attrs)
        arms = ' | '.join(f'L{"" if k.islower() else "u"}{k.lower()} => {"Some " + PH[v] if v else "None"}' for k, v in table.items())
        lines.append(f'(* {REL}:{fn.lineno} {cname}.__call__(phase, T, P=None) *)\n'
                     f'Definition {cname}_dispatch (l : label) : option phase := match l with {arms} end.')
        info[cname] = table
    for cname, args in (('MockPhaseTHandle', 'T'), ('MockPhaseTPHandle', 'T, P')):
        cls = find_class(src, cname)
        fn = [x for x in cls.body if isinstance(x, ast.FunctionDef) and x.name == '__call__']
        b = strip_docstring(src, fn[0].body) if len(fn) == 1 else []
        if len(b) != 1 or not isinstance(b[0], ast.Return) or ' '.join(src.seg(b[0].value).split()) != f'self.model({args})':
            src.err(cls, f'{cname}.__call__ must be `return self.model({args})`')
    out = header('tr/C07_phase_handle.py', [src], ['PhaseTHandle.__call__', 'PhaseTPHandle.__call__', 'PhaseHandle.S / .L', 'Mock handles'])
    out += 'From V Require Import C07.Model.\n\n' + '\n\n'.join(lines) + '\n'
    import vf
    vf.write_if_changed(os.path.join(out_dir, 'Gen_PhaseHandle.v'), out)
    return {'file': 'coq/C07/Gen_PhaseHandle.v', 'source': REL, 'sha256': src.sha, 'dispatch': info}
