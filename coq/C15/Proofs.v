(* C15 -- lemmas about the model of Model.v / Gen_kernels.v *)
From V Require Import Common.NumFacts C15.Model.
Open Scope Q_scope.

(* ------------------------------------------------------------------ booleans and Q *)
Lemma qltb_true a b : qltb a b = true <-> a < b.
Proof.
  unfold qltb. rewrite negb_true_iff. split; intros H.
  - destruct (Qlt_le_dec a b) as [L|L]; auto. apply Qle_bool_iff in L. congruence.
  - destruct (Qle_bool b a) eqn:E; auto. apply Qle_bool_iff in E. lra.
Qed.
Lemma qltb_false a b : qltb a b = false <-> b <= a.
Proof.
  unfold qltb. rewrite negb_false_iff. apply Qle_bool_iff.
Qed.
Lemma qleb_true a b : qleb a b = true <-> a <= b.
Proof. unfold qleb. apply Qle_bool_iff. Qed.
Lemma qleb_false a b : qleb a b = false <-> b < a.
Proof.
  unfold qleb. split; intros H.
  - destruct (Qlt_le_dec b a) as [L|L]; auto. apply Qle_bool_iff in L. congruence.
  - destruct (Qle_bool a b) eqn:E; auto. apply Qle_bool_iff in E. lra.
Qed.
Lemma nonzerob_true x : nonzerob x = true <-> ~ x == 0.
Proof. unfold nonzerob. rewrite negb_true_iff. apply qzerob_false. Qed.
Lemma nonzerob_false x : nonzerob x = false <-> x == 0.
Proof. unfold nonzerob. rewrite negb_false_iff. apply qzerob_true. Qed.

(* ------------------------------------------------------------------ reduced vectors *)
Lemma vr_length v : length (vr v) = length v.
Proof. apply map_length. Qed.
Lemma nthq_vr v i : nthq (vr v) i == nthq v i.
Proof.
  unfold vr, nthq. revert i; induction v as [|x v IH]; intros [|i]; simpl; try reflexivity.
  - apply Qred_correct.
  - apply IH.
Qed.
Lemma rsum_correct v : rsum v == qsum v.
Proof. apply Qred_correct. Qed.

Lemma nthq_map_default (f : Q -> Q) v i : (i < length v)%nat -> nthq (map f v) i = f (nthq v i).
Proof.
  unfold nthq. revert i; induction v as [|x v IH]; intros [|i] H; simpl in *; try lia; auto.
  apply IH. lia.
Qed.

Lemma nthq_map2 (f : Q -> Q -> Q) a b i :
  (i < length a)%nat -> (i < length b)%nat -> nthq (map2 f a b) i = f (nthq a i) (nthq b i).
Proof.
  unfold nthq. revert b i; induction a as [|x a IH]; intros [|y b] [|i] Ha Hb; simpl in *; try lia; auto.
  apply IH; lia.
Qed.
Lemma map2_length_min {A B C} (f : A -> B -> C) a b : length (map2 f a b) = Nat.min (length a) (length b).
Proof. revert b; induction a as [|x a IH]; intros [|y b]; simpl; auto. Qed.

Lemma forallb_nth (p : Q -> bool) v : forallb p v = true -> forall i, (i < length v)%nat -> p (nthq v i) = true.
Proof.
  unfold nthq. induction v as [|x v IH]; simpl; intros H i Hi; [lia|].
  apply andb_true_iff in H as [H1 H2]. destruct i; auto. apply IH; auto. lia.
Qed.

(* ------------------------------------------------------------------ the cache decision (generated expression) *)
(* written against the generated [use_cache_expr]: this proof is what breaks when the source compares signed differences *)
Lemma use_cache_expr_sound u same T sT tT sz z tz :
  use_cache_expr u same T sT tT sz z tz = true ->
  u = true /\ same = true /\ Qabs (T - sT) < tT /\
  forall i, (i < length sz)%nat -> (i < length z)%nat -> Qabs (nthq sz i - nthq z i) < tz.
Proof.
  unfold use_cache_expr. intros H.
  repeat (apply andb_true_iff in H; destruct H as [H ?]).
  repeat split; auto.
  - apply qltb_true; assumption.
  - intros i Hs Hz.
    match goal with F : forallb _ _ = true |- _ => pose proof (forallb_nth _ _ F i) as P end.
    rewrite map_length, map2_length_min in P.
    assert (Hi : (i < Nat.min (length sz) (length z))%nat) by lia.
    specialize (P Hi). apply qltb_true in P.
    rewrite nthq_map_default in P by (rewrite map2_length_min; lia).
    rewrite nthq_map2 in P by lia. exact P.
Qed.

(* the current normalised feed of a call *)
Definition call_data (E : env) (s : strm) (a : args) : strm * list nat * vec * Q * vec :=
  let '(s1, index, mol) := liquid_data E (set_TP s a) in
  (s1, index, mol, rsum mol, vr (vdivs mol (rsum mol))).

Lemma chems_same_true c index : chems_same c index = true -> exists l, c = Some l /\ length l = length index.
Proof.
  unfold chems_same. destruct c as [l|]; [|discriminate]. intros H. exists l. split; auto.
  unfold idx_eqb in H. revert index H. induction l as [|x l IH]; intros [|y index] H; simpl in *; try discriminate; auto.
  apply andb_true_iff in H as [_ H]. f_equal. apply IH; auto.
Qed.

Lemma idx_eqb_eq a b : idx_eqb a b = true -> a = b.
Proof.
  unfold idx_eqb. revert b; induction a as [|x a IH]; intros [|y b] H; simpl in *; try discriminate; auto.
  apply andb_true_iff in H as [H1 H2]. apply Nat.eqb_eq in H1. f_equal; auto.
Qed.

Lemma finish_trace E st s1 index F z a ml mL st' s' r :
  finish E st s1 index F z a ml mL = (st', s', r) -> exists v, r = Ok v.
Proof.
  unfold finish. destruct (swap_top E index (atop a) ml mL) as [l L].
  destruct (stored_K_phi l L) as [K' phi'].
  destruct (aupdate a); intros H; inversion H; eauto.
Qed.

Theorem use_cache_sound_lemma : forall E o st s a st' s' t s1 index mol F z,
  lle_call E o st s a = (st', s', t) ->
  call_data E s a = (s1, index, mol, F, z) ->
  t_used_cache t = true ->
  ause_cache a = true /\ schems st = Some index /\
  Qabs (aT a - sT st) < tolT st /\
  (forall i, (i < length (sz st))%nat -> (i < length z)%nat -> Qabs (nthq (sz st) i - nthq z i) < tolz st) /\
  t_solver_in t = None.
Proof.
  intros E o st s a st' s' t s1 index mol F z HC HD HU.
  unfold call_data in HD. unfold lle_call in HC.
  destruct (liquid_data E (set_TP s a)) as [[s1' index'] mol'] eqn:LD.
  inversion HD; subst s1' index' F z. clear HD. rename mol' into mol0. subst mol0.
  destruct (nonzerob (rsum mol) && Nat.ltb 1 (length index)) eqn:MB.
  - destruct (use_cache_expr (ause_cache a) (chems_same (schems st) index) (aT a) (sT st) (tolT st) (sz st)
                (vr (vdivs mol (rsum mol))) (tolz st)) eqn:UC.
    + apply use_cache_expr_sound in UC as (U1 & U2 & U3 & U4).
      assert (SC : schems st = Some index).
      { unfold chems_same in U2. destruct (schems st) as [l|]; [|discriminate]. apply idx_eqb_eq in U2. congruence. }
      assert (TS : t_solver_in t = None).
      { destruct (sK st) as [K|]; [|inversion HC; reflexivity].
        destruct (phase_fraction (o_rr o) (vr (vdivs mol (rsum mol))) K) as [phi|e]; [|inversion HC; reflexivity].
        destruct (cached_split (Qred phi) K (vr (vdivs mol (rsum mol)))) as [[ml mL]|e]; [|inversion HC; reflexivity].
        destruct (finish E (with_phi st (Some (Qred phi))) s1 index (rsum mol) (vr (vdivs mol (rsum mol))) a ml mL) as [[st2 s2] r].
        inversion HC; reflexivity. }
      repeat split; auto.
    + exfalso.
      match type of HC with context [finish ?e ?x ?y ?i ?f ?zz ?aa ?l ?L] =>
        destruct (finish e x y i f zz aa l L) as [[st2 s2] r] end.
      inversion HC; subst t. simpl in HU. discriminate.
  - exfalso. destruct (negb (aupdate a)).
    + match type of HC with context [if ?c then _ else _] => destruct c end; inversion HC; subst t; simpl in HU; discriminate.
    + inversion HC; subst t; simpl in HU; discriminate.
Qed.

(* conversely: when the solver runs, it receives the CURRENT normalised feed and temperature *)
Theorem solver_sees_current_lemma : forall E o st s a st' s' t s1 index mol F z sin,
  lle_call E o st s a = (st', s', t) ->
  call_data E s a = (s1, index, mol, F, z) ->
  t_solver_in t = Some sin ->
  iz sin = z /\ iT sin = aT a /\ iidx sin = index /\ t_used_cache t = false.
Proof.
  intros E o st s a st' s' t s1 index mol F z sin HC HD HS.
  unfold call_data in HD. unfold lle_call in HC.
  destruct (liquid_data E (set_TP s a)) as [[s1' index'] mol'] eqn:LD.
  inversion HD; subst s1' index' F z. clear HD. subst mol'.
  destruct (nonzerob (rsum mol) && Nat.ltb 1 (length index)) eqn:MB.
  - destruct (use_cache_expr (ause_cache a) (chems_same (schems st) index) (aT a) (sT st) (tolT st) (sz st)
                (vr (vdivs mol (rsum mol))) (tolz st)) eqn:UC.
    + exfalso.
      destruct (sK st) as [K|]; [|inversion HC; subst t; discriminate].
      destruct (phase_fraction (o_rr o) (vr (vdivs mol (rsum mol))) K) as [phi|e]; [|inversion HC; subst t; discriminate].
      destruct (cached_split (Qred phi) K (vr (vdivs mol (rsum mol)))) as [[ml mL]|e]; [|inversion HC; subst t; discriminate].
      destruct (finish E (with_phi st (Some (Qred phi))) s1 index (rsum mol) (vr (vdivs mol (rsum mol))) a ml mL) as [[st2 s2] r].
      inversion HC; subst t; discriminate.
    + match type of HC with context [finish ?e ?x ?y ?i ?f ?zz ?aa ?l ?L] =>
        destruct (finish e x y i f zz aa l L) as [[st2 s2] r] end.
      inversion HC; subst t. simpl in HS. inversion HS; subst sin. simpl. auto.
  - exfalso. destruct (negb (aupdate a)).
    + match type of HC with context [if ?c then _ else _] => destruct c end; inversion HC; subst t; discriminate.
    + inversion HC; subst t; discriminate.
Qed.

(* ------------------------------------------------------------------ checked vector operations *)
Lemma existsb_qzerob_false b : existsb qzerob b = false -> forall i, (i < length b)%nat -> ~ nthq b i == 0.
Proof.
  unfold nthq. induction b as [|x b IH]; simpl; intros H i Hi; [lia|].
  apply orb_false_iff in H as [H1 H2]. destruct i.
  - apply qzerob_false; assumption.
  - apply IH; auto. lia.
Qed.

Lemma vdivc_ok a b y : vdivc a b = Ok y ->
  length a = length b /\ y = map2 Qdiv a b /\ forall i, (i < length b)%nat -> ~ nthq b i == 0.
Proof.
  unfold vdivc. destruct (Nat.eqb (length a) (length b)) eqn:L; simpl; [|discriminate].
  destruct (existsb qzerob b) eqn:Z; [discriminate|]. intros H; inversion H.
  apply Nat.eqb_eq in L. repeat split; auto. apply existsb_qzerob_false; assumption.
Qed.

Lemma vop2_ok f a b y : vop2 f a b = Ok y -> length a = length b /\ y = map2 f a b.
Proof.
  unfold vop2. destruct (Nat.eqb (length a) (length b)) eqn:L; [|discriminate].
  intros H; inversion H. apply Nat.eqb_eq in L. auto.
Qed.

Lemma vdivsc_ok a s y : vdivsc a s = Ok y -> y = map (fun e_ => e_ / s) a /\ (a <> [] -> ~ s == 0).
Proof.
  unfold vdivsc. destruct (qzerob s) eqn:Z.
  - destruct a; [|discriminate]. intros H; inversion H. split; auto; congruence.
  - intros H; inversion H. split; auto. intros _. apply qzerob_false; assumption.
Qed.

Ltac binds H :=
  repeat match type of H with
         | bind ?r _ = Ok _ => let E := fresh "E" in destruct r eqn:E; cbn [bind] in H; [|discriminate]
         end.

(* ------------------------------------------------------------------ the cached branch *)
Lemma cached_split_spec phi K z ml mL : cached_split phi K z = Ok (ml, mL) ->
  (1 <= phi -> ml = z /\ mL = vscale 0 z) /\
  (phi < 1 -> length K = length z /\
     forall i, (i < length z)%nat ->
       ~ phi * nthq K i + (1 - phi) == 0 /\
       nthq ml i == nthq z i * nthq K i / (phi * nthq K i + (1 - phi)) * phi /\
       nthq mL i == nthq z i - nthq ml i).
Proof.
  unfold cached_split. destruct (qleb 1 phi) eqn:P.
  - intros H; inversion H; subst. apply qleb_true in P. split; auto. intros; lra.
  - apply qleb_false in P. intros H. split; [intros; lra|]. intros _.
    binds H. inversion H; subst ml mL. clear H.
    match goal with E : vop2 Qmult z K = Ok ?a |- _ => apply vop2_ok in E as (LK0 & ZK); subst a end.
    match goal with E : vdivc _ _ = Ok ?y |- _ => apply vdivc_ok in E as (L & Y & NZ); rename y into v end.
    rewrite map2_length_min, map_length in L.
    assert (LK : length K = length z) by lia. split; auto.
    intros i Hi.
    assert (D : ~ phi * nthq K i + (1 - phi) == 0).
    { specialize (NZ i). rewrite map_length in NZ. rewrite nthq_map_default in NZ by lia. apply NZ. lia. }
    split; auto.
    assert (Yi : nthq v i == nthq z i * nthq K i / (phi * nthq K i + (1 - phi))).
    { subst v. rewrite nthq_map2.
      - rewrite nthq_map2 by lia. rewrite nthq_map_default by lia. reflexivity.
      - rewrite map2_length_min. lia.
      - rewrite map_length. lia. }
    assert (Lv : length v = length z).
    { subst v. rewrite map2_length_min. rewrite map2_length_min, map_length. lia. }
    split.
    + rewrite nthq_vr. rewrite nthq_map_default by lia. rewrite Yi. reflexivity.
    + rewrite nthq_vr. rewrite nthq_vsub by (rewrite vr_length, map_length; lia). reflexivity.
Qed.

Theorem cached_branch_lemma : forall E o st s a st' s' t s1 index mol F z v,
  lle_call E o st s a = (st', s', t) ->
  call_data E s a = (s1, index, mol, F, z) ->
  t_used_cache t = true -> t_ret t = Ok v ->
  exists K phi ml mL,
    sK st = Some K /\ phase_fraction (o_rr o) z K = Ok phi /\
    cached_split (Qred phi) K z = Ok (ml, mL) /\
    finish E (with_phi st (Some (Qred phi))) s1 index F z a ml mL = (st', s', Ok v).
Proof.
  intros E o st s a st' s' t s1 index mol F z v HC HD HU HR.
  unfold call_data in HD. unfold lle_call in HC.
  destruct (liquid_data E (set_TP s a)) as [[s1' index'] mol'] eqn:LD.
  inversion HD; subst s1' index' F z. clear HD. subst mol'.
  destruct (nonzerob (rsum mol) && Nat.ltb 1 (length index)) eqn:MB.
  - destruct (use_cache_expr (ause_cache a) (chems_same (schems st) index) (aT a) (sT st) (tolT st) (sz st)
                (vr (vdivs mol (rsum mol))) (tolz st)) eqn:UC.
    + destruct (sK st) as [K|]; [|inversion HC; subst t; discriminate].
      destruct (phase_fraction (o_rr o) (vr (vdivs mol (rsum mol))) K) as [phi|e] eqn:PF; [|inversion HC; subst t; discriminate].
      destruct (cached_split (Qred phi) K (vr (vdivs mol (rsum mol)))) as [[ml mL]|e] eqn:CS; [|inversion HC; subst t; discriminate].
      destruct (finish E (with_phi st (Some (Qred phi))) s1 index (rsum mol) (vr (vdivs mol (rsum mol))) a ml mL) as [[st2 s2] r] eqn:FN.
      inversion HC; subst st2 s2 t. simpl in HR. subst r.
      exists K, phi, ml, mL. auto.
    + exfalso.
      match type of HC with context [finish ?e ?x ?y ?i ?f ?zz ?aa ?l ?L] =>
        destruct (finish e x y i f zz aa l L) as [[st2 s2] r] end.
      inversion HC; subst t. discriminate.
  - exfalso. destruct (negb (aupdate a)).
    + match type of HC with context [if ?c then _ else _] => destruct c end; inversion HC; subst t; discriminate.
    + inversion HC; subst t; discriminate.
Qed.

(* ------------------------------------------------------------------ top_chemical labelling *)
Theorem top_label_lemma : forall E index top ml mL l' L',
  swap_top E index top ml mL = (l', L') ->
  ((l', L') = (ml, mL) \/ (l', L') = (mL, ml)) /\
  forall j t, top = Some j -> find_pos j index = Some t ->
    let MW := pick (mw E) index in
    let Ml' := qsum (vmul l' MW) in
    let ML' := qsum (vmul L' MW) in
    (~ Ml' == 0 -> ~ ML' == 0 -> nthq (vmul l' MW) t / Ml' <= nthq (vmul L' MW) t / ML') /\
    (ML' == 0 -> Ml' == 0).
Proof.
  intros E index top ml mL l' L' H. unfold swap_top in H.
  destruct top as [j|].
  2:{ inversion H; subst. split; auto. intros; discriminate. }
  destruct (find_pos j index) as [t|] eqn:FP.
  2:{ inversion H; subst. split; auto. intros j0 t0 J F0. inversion J; subst. congruence. }
  set (MW := pick (mw E) index) in *.
  destruct (nonzerob (qsum (vmul mL MW)) && nonzerob (qsum (vmul ml MW))) eqn:B.
  - apply andb_true_iff in B as [B1 B2]. apply nonzerob_true in B1, B2.
    destruct (qltb (nthq (vmul mL MW) t / qsum (vmul mL MW)) (nthq (vmul ml MW) t / qsum (vmul ml MW))) eqn:C;
      inversion H; subst l' L'; (split; [auto|]); intros j0 t0 J F0; inversion J; subst j0;
      rewrite FP in F0; inversion F0; subst t0; cbn zeta; fold MW.
    + apply qltb_true in C. split; [intros; lra | intros Z; contradiction].
    + apply qltb_false in C. split; [intros; lra | intros Z; contradiction].
  - destruct (nonzerob (qsum (vmul ml MW))) eqn:B2;
      inversion H; subst l' L'; (split; [auto|]); intros j0 t0 J F0; inversion J; subst j0;
      rewrite FP in F0; inversion F0; subst t0; cbn zeta; fold MW.
    + rewrite andb_true_r in B. apply nonzerob_false in B. apply nonzerob_true in B2.
      split; [intros N1; contradiction | intros Z; contradiction].
    + apply nonzerob_false in B2. split; [intros N1; contradiction | intros _; assumption].
Qed.

(* ------------------------------------------------------------------ the inner loop as written never changes its log K block *)
Lemma set_tail_ok n a e w : set_tail n a e = Ok w -> w = firstn n a ++ e.
Proof. unfold set_tail. destruct (Nat.eqb (length e) (length a - n)); [|discriminate]. intros H; inversion H; auto. Qed.

Lemma firstn_app_exact {A} (n : nat) (l e : list A) : (n <= length l)%nat -> firstn n (firstn n l ++ e) = firstn n l.
Proof.
  intros H. rewrite firstn_app. rewrite firstn_length. replace (n - Nat.min n (length l))%nat with O by lia.
  simpl. rewrite app_nil_r. rewrite firstn_firstn. f_equal. lia.
Qed.

Lemma skipn_app_exact {A} (n : nat) (l e : list A) : (n <= length l)%nat -> skipn n (firstn n l ++ e) = e.
Proof.
  intros H. rewrite skipn_app. rewrite firstn_length. replace (n - Nat.min n (length l))%nat with O by lia.
  simpl. rewrite skipn_all2; [reflexivity|]. rewrite firstn_length. lia.
Qed.

Theorem inner_loop_keeps_logK_lemma : forall fexp fln gamma v z n phi w,
  (n <= length v)%nat ->
  inner_loop fexp fln gamma v z n phi = Ok w ->
  firstn n w = firstn n v.
Proof.
  intros fexp fln gamma v z n phi w Hn H. unfold inner_loop in H.
  binds H. inversion H; subst w. clear H.
  repeat match goal with E : set_tail _ _ _ = Ok ?y |- _ => apply set_tail_ok in E; subst y end.
  rewrite firstn_app_exact by (rewrite app_length, firstn_length; lia).
  rewrite firstn_app_exact by assumption. reflexivity.
Qed.

Lemma inner_loop_inv fexp fln gamma v z n phi w :
  (n <= length v)%nat ->
  inner_loop fexp fln gamma v z n phi = Ok w ->
  exists x y, loop_x fexp v z n phi = Ok x /\ loop_y fexp gamma v z n phi = Ok y /\ skipn n w = gamma y.
Proof.
  intros Hn H. unfold inner_loop in H. binds H. inversion H; subst w. clear H.
  repeat match goal with E : set_tail _ _ _ = Ok ?y |- _ => apply set_tail_ok in E; subst y end.
  match goal with E1 : vdivc z _ = Ok ?a, E2 : vdivsc ?a _ = Ok ?x, E3 : vdivc (gamma ?x) _ = Ok ?k,
                  E4 : vop2 Qmult ?k ?x = Ok ?yr, E5 : vdivsc ?yr _ = Ok ?y |- _ =>
    exists x, y;
    assert (LX : loop_x fexp v z n phi = Ok x) by (unfold loop_x, x_of; rewrite E1; cbn [bind]; exact E2);
    split; [exact LX|]; split;
    [ unfold loop_y; rewrite LX; cbn [bind]; rewrite E3; cbn [bind]; rewrite E4; cbn [bind]; exact E5 | ]
  end.
  rewrite skipn_app_exact; [reflexivity|]. rewrite app_length, firstn_length. lia.
Qed.

Lemma nthq_skipn (l : vec) n i : nthq (skipn n l) i = nthq l (n + i).
Proof.
  unfold nthq. revert l; induction n as [|n IH]; intros l; simpl; auto.
  destruct l; simpl; auto. destruct i; reflexivity.
Qed.

(* what DOES hold at an exact fixed point of the inner loop as written: activities are proportional,
   with the factor c = sum_j (gamma_j(x)/gammay_j) x_j that the never-updated K block leaves free *)
Theorem inner_fix_proportional_lemma : forall fexp fln gamma v z n phi w x y,
  length z = n -> length v = (n + n)%nat ->
  (forall u, length (gamma u) = length u) ->
  inner_loop fexp fln gamma v z n phi = Ok w -> veq w v ->
  loop_x fexp v z n phi = Ok x -> loop_y fexp gamma v z n phi = Ok y ->
  exists c, forall i, (i < n)%nat -> nthq x i * nthq (gamma x) i == c * (nthq y i * nthq (gamma y) i).
Proof.
  intros fexp fln gamma v z n phi w x y Lz Lv Lg HI [_ FIX] HX HY.
  assert (Hn : (n <= length v)%nat) by lia.
  destruct (inner_loop_inv _ _ _ _ _ _ _ _ Hn HI) as (x' & y' & HX' & HY' & SK).
  rewrite HX in HX'. inversion HX'; subst x'. rewrite HY in HY'. inversion HY'; subst y'. clear HX' HY'.
  assert (GY : forall i, nthq (skipn n v) i == nthq (gamma y) i).
  { intros i. rewrite <- SK. rewrite !nthq_skipn. symmetry. apply FIX. }
  unfold loop_y in HY. rewrite HX in HY. cbn [bind] in HY. binds HY.
  match goal with E : vdivc (gamma x) _ = Ok ?k |- _ => apply vdivc_ok in E as (L1 & K2 & NZ); subst k end.
  match goal with E : vop2 Qmult _ x = Ok ?yr |- _ => apply vop2_ok in E as (L2 & YR); subst yr end.
  apply vdivsc_ok in HY as (Y & SNZ).
  set (yr := map2 Qmult (map2 Qdiv (gamma x) (skipn n v)) x) in *.
  exists (qsum yr). intros i Hi.
  assert (Lsk : length (skipn n v) = n) by (rewrite skipn_length; lia).
  assert (Lx : length x = n) by (rewrite Lg in L1; lia).
  assert (Lyr : length yr = n).
  { unfold yr. rewrite !map2_length_min. rewrite Lg. lia. }
  assert (S0 : ~ qsum yr == 0).
  { apply SNZ. intros Z. rewrite Z in Lyr. simpl in Lyr. lia. }
  assert (G0 : ~ nthq (skipn n v) i == 0) by (apply NZ; lia).
  assert (Yi : nthq y i == nthq (gamma x) i / nthq (skipn n v) i * nthq x i / qsum yr).
  { subst y. rewrite nthq_map_default by lia. unfold yr.
    rewrite nthq_map2 by (rewrite ?map2_length_min, ?Lg; lia).
    rewrite nthq_map2 by (rewrite ?Lg; lia). reflexivity. }
  rewrite Yi. rewrite <- (GY i). field. split; assumption.
Qed.

(* ------------------------------------------------------------------ refutation witness for the equal-activity statement *)
Definition fexpW (q : Q) : Q := q + 1.
Definition flnW (q : Q) : Q := q - 1.
Definition gammaW : vec -> vec := gamma_aff [0; 0] [[0; 4]; [4; 0]].      (* gamma(w) = (4 w2, 4 w1) *)
Definition vW : vec := [2; -(1 # 2); 1; 3].                               (* log K = ln (3, 1/2), gamma_y = (1, 3) *)
Definition zW : vec := [2 # 5; 3 # 5].
Definition getv (r : res vec) : vec := match r with Ok x => x | Err _ => [] end.
Definition wW := getv (inner_loop fexpW flnW gammaW vW zW 2 (1 # 2)).
Definition xW := getv (loop_x fexpW vW zW 2 (1 # 2)).
Definition yW := getv (loop_y fexpW gammaW vW zW 2 (1 # 2)).

Lemma witness_facts :
  (forall q, 0 < q -> fexpW (flnW q) == q) /\
  inner_loop fexpW flnW gammaW vW zW 2 (1 # 2) = Ok wW /\ veq wW vW /\
  rr_residual zW (map fexpW (firstn 2 vW)) (1 # 2) == 0 /\
  loop_x fexpW vW zW 2 (1 # 2) = Ok xW /\ loop_y fexpW gammaW vW zW 2 (1 # 2) = Ok yW /\
  ~ nthq xW 0 * nthq (gammaW xW) 0 == nthq yW 0 * nthq (gammaW yW) 0.
Proof.
  split. { intros q _. unfold fexpW, flnW. ring. }
  split. { vm_compute. reflexivity. }
  split. { split; [vm_compute; reflexivity|]. intros i.
           do 4 (destruct i as [|i]; [vm_compute; reflexivity|]). vm_compute. destruct i; reflexivity. }
  split. { vm_compute. reflexivity. }
  split. { vm_compute. reflexivity. }
  split. { vm_compute. reflexivity. }
  vm_compute. discriminate.
Qed.

(* ------------------------------------------------------------------ SLE._update_solubility (generated) *)
Lemma qdivc_ok a b r : qdivc a b = Ok r -> ~ b == 0 /\ r = a / b.
Proof. unfold qdivc. destruct (qzerob b) eqn:Z; [discriminate|]. intros H; inversion H. split; auto. apply qzerob_false; assumption. Qed.

Theorem sle_update_frame_lemma : forall si idx m l s x l' s',
  update_solubility si idx m l s x = Ok (l', s') ->
  length l' = length l /\ length s' = length s /\
  forall j, j <> si -> nthq l' j = nthq l j /\ nthq s' j = nthq s j.
Proof.
  intros si idx m l s x l' s' H. unfold update_solubility in H. binds H.
  repeat match type of H with (if ?c then _ else _) = _ => destruct c end;
    binds H; inversion H; subst l' s'; rewrite !upd_length; repeat split; auto;
    rewrite nth_upd_other by auto; reflexivity.
Qed.

Definition solvent_mol (idx : sel) (l : vec) (si : nat) : Q := qsum (sel_pick l idx) - nthq l si.

Theorem sle_bounds_lemma : forall si idx m l s x l' s',
  (si < length l)%nat -> (si < length s)%nat ->
  update_solubility si idx m l s x = Ok (l', s') ->
  let Fm := solvent_mol idx l si in
  ~ Fm + m == 0 /\
  (x < 0 -> nthq l' si == 0 /\ nthq s' si == m) /\
  (0 <= x -> m / (Fm + m) <= x -> nthq l' si == m /\ nthq s' si == 0) /\
  (0 <= x -> x < m / (Fm + m) -> ~ 1 - x == 0 /\ nthq l' si == Fm * x / (1 - x) /\ nthq s' si == m - nthq l' si) /\
  nthq l' si + nthq s' si == m /\
  (0 < m -> 0 <= Fm -> 0 <= nthq l' si <= m /\ (0 <= x -> nthq l' si <= x * (Fm + nthq l' si))).
Proof.
  intros si idx m l s x l' s' Hl Hs H Fm. unfold update_solubility in H. binds H.
  match goal with E : qdivc _ _ = Ok ?r |- _ => apply qdivc_ok in E as (D & R); subst r end.
  fold (solvent_mol idx l si) in *. fold Fm in D, H.
  split; [exact D|].
  destruct (qltb x (0 # 1)) eqn:C1.
  - apply qltb_true in C1. inversion H; subst l' s'. rewrite !nth_upd_same by assumption.
    assert (X0 : x < 0) by exact C1.
    split; [intros; split; reflexivity|]. split; [intros; lra|]. split; [intros; lra|].
    split; [lra|]. intros M F. split; [lra|]. intros; lra.
  - apply qltb_false in C1. assert (X0 : 0 <= x) by exact C1.
    destruct (qleb (m / (Fm + m)) x) eqn:C2.
    + apply qleb_true in C2. inversion H; subst l' s'. rewrite !nth_upd_same by assumption.
      split; [intros; lra|]. split; [intros; split; reflexivity|]. split; [intros; lra|].
      split; [lra|]. intros M F. split; [lra|]. intros _.
      assert (P : 0 < Fm + m) by lra.
      assert (m <= x * (Fm + m)); [|lra].
      apply Qle_shift_div_r in C2 || idtac.
      setoid_replace m with (m / (Fm + m) * (Fm + m)) at 1 by (field; lra).
      apply Qmult_le_compat_r; lra.
    + apply qleb_false in C2. binds H.
      match goal with E : qdivc _ _ = Ok ?r |- _ => apply qdivc_ok in E as (D1 & R); subst r end.
      inversion H; subst l' s'. rewrite !nth_upd_same by assumption.
      split; [intros; lra|]. split; [intros; lra|].
      split; [intros _ _; split; [exact D1|split; [reflexivity|reflexivity]]|].
      split; [lra|]. intros M F.
      assert (P : 0 < Fm + m) by lra.
      assert (XM : x * (Fm + m) < m).
      { setoid_replace m with (m / (Fm + m) * (Fm + m)) at 2 by (field; lra).
        apply Qmult_lt_compat_r; lra. }
      assert (X1 : 0 < 1 - x) by nra.
      assert (LQ : Fm * x / ((1 # 1) - x) * (1 - x) == Fm * x) by (field; lra).
      set (lq := Fm * x / ((1 # 1) - x)) in *.
      assert (L0 : 0 <= lq) by nra.
      assert (LM : lq <= m) by nra.
      split; [split; assumption|]. intros _. nra.
Qed.

(* ------------------------------------------------------------------ SLE.__call__ *)
Definition same_except (si : nat) (s s' : sstrm) : Prop :=
  length (q_l s') = length (q_l s) /\ length (q_s s') = length (q_s s) /\
  forall j, j <> si -> nthq (q_l s') j = nthq (q_l s) j /\ nthq (q_s s') j = nthq (q_s s) j.

Lemma same_except_refl si s T P : same_except si s (mksstrm (q_l s) (q_s s) T P).
Proof. unfold same_except; simpl; auto. Qed.

Lemma same_except_upd si s T P a b :
  same_except si s (sset_ls (mksstrm (q_l s) (q_s s) T P) (upd (q_l s) si a, upd (q_s s) si b)).
Proof.
  unfold same_except, sset_ls; simpl. rewrite !upd_length. repeat split; auto;
  rewrite nth_upd_other by auto; reflexivity.
Qed.

(* contract of the flx.aitken oracle: it touches the two arrays only by evaluating the map it is given *)
Definition aitken_frame (o : sle_oracle) : Prop :=
  forall (f : lsT -> Q -> lsT * res Q) (I : lsT -> Prop) ls0 x0,
    I ls0 -> (forall ls x, I ls -> I (fst (f ls x))) -> I (fst (oe_aitken o f ls0 x0)).

Definition ls_same_except (si : nat) (l0 s0 : vec) (ls : lsT) : Prop :=
  length (fst ls) = length l0 /\ length (snd ls) = length s0 /\
  forall j, j <> si -> nthq (fst ls) j = nthq l0 j /\ nthq (snd ls) j = nthq s0 j.

Lemma x_iter_frame o st si m u l0 s0 ls x :
  ls_same_except si l0 s0 ls -> ls_same_except si l0 s0 (fst (x_iter o st si m u ls x)).
Proof.
  intros (A & B & C). unfold x_iter.
  destruct (update_solubility si (e_index st) m (fst ls) (snd ls) x) as [[l' s']|e] eqn:U; [|simpl; unfold ls_same_except; auto].
  apply sle_update_frame_lemma in U as (L1 & L2 & FR).
  assert (R : ls_same_except si l0 s0 (l', s')).
  { unfold ls_same_except; simpl. repeat split; try congruence; destruct (FR j H) as [P Q]; destruct (C j H) as [P' Q']; congruence. }
  destruct (vdivsc _ _); [|exact R]. destruct (oe_gamma o _); [|exact R].
  destruct (e_sgi st); [|exact R]. destruct (Nat.ltb _ _); exact R.
Qed.

Lemma solve_x_frame V o st si m ls T :
  aitken_frame o -> ls_same_except si (fst ls) (snd ls) (fst (solve_x V o st si m ls T)).
Proof.
  intros AF. assert (R0 : ls_same_except si (fst ls) (snd ls) ls) by (unfold ls_same_except; auto).
  unfold solve_x. destruct (opt_nth (s_tm V) si); [|exact R0]. destruct (opt_nth (s_hfus V) si); [|exact R0].
  destruct (s_ideal V); [exact R0|].
  apply AF; [exact R0|]. intros ls1 x I1. apply x_iter_frame; assumption.
Qed.

Theorem sle_only_solute_moves_lemma : forall V o st s a st' s' r,
  aitken_frame o ->
  sle_call V o st s a = (st', s', r) ->
  match sa_solute a with
  | None => s' = s
  | Some si => same_except si s s'
  end.
Proof.
  intros V o st s a st' s' r AF H. unfold sle_call in H.
  destruct (sa_solute a) as [si|]; [|inversion H; reflexivity].
  destruct (sa_T a) as [T|], (sa_H a); try (inversion H; subst; unfold same_except; auto; fail).
  set (s0 := mksstrm (q_l s) (q_s s) T (match sa_P a with Some p => p | None => q_P s end)) in *.
  assert (R0 : same_except si s s0) by apply same_except_refl.
  destruct (sa_sol a) as [x|].
  - destruct (negb (e_setup st)); [inversion H; subst; exact R0|].
    destruct (update_solubility si SAll (nthq (q_s s0) si + nthq (q_l s0) si) (q_l s0) (q_s s0) x) as [[l' sd']|e] eqn:U;
      inversion H; subst; [|exact R0].
    apply sle_update_frame_lemma in U as (L1 & L2 & FR). unfold same_except, sset_ls; simpl. auto.
  - cbv zeta in H.
    destruct (qzerob (nthq (vadd (q_l s0) (q_s s0)) si)); [inversion H; subst; exact R0|].
    match type of H with (match ?rr with pair _ _ => _ end) = _ => destruct rr as [st1 [|]] end;
      [|inversion H; subst; exact R0].
    destruct (e_chemical st1) as [c|].
    + destruct (opt_nth (s_tm V) c) as [Tm|]; [|inversion H; subst; exact R0].
      destruct (qltb Tm T); inversion H; subst; apply same_except_upd.
    + pose proof (solve_x_frame V o st1 si (nthq (vadd (q_l s0) (q_s s0)) si) (q_l s0, q_s s0) T AF) as SF.
      destruct (solve_x V o st1 si (nthq (vadd (q_l s0) (q_s s0)) si) (q_l s0, q_s s0) T) as [ls1 [x|e]];
        simpl in SF; destruct SF as (A1 & A2 & A3).
      * destruct (update_solubility si (e_index st1) (nthq (vadd (q_l s0) (q_s s0)) si) (fst ls1) (snd ls1) x) as [[l' sd']|e] eqn:U;
          inversion H; subst.
        -- apply sle_update_frame_lemma in U as (L1 & L2 & FR). unfold same_except, sset_ls; simpl.
           repeat split; try congruence; destruct (FR j H0) as [P Q]; destruct (A3 j H0) as [P' Q']; simpl in *; congruence.
        -- unfold same_except, sset_ls; simpl. repeat split; auto; apply A3; assumption.
      * inversion H; subst. unfold same_except, sset_ls; simpl. repeat split; auto; apply A3; assumption.
Qed.

(* a pure solute on a fresh solver: liquid above the melting point, solid at or below it *)
Theorem sle_pure_lemma : forall V o act s si T P Tm st' s' r,
  let a := mksargs (Some si) (Some T) false P None in
  let mol := vadd (q_l s) (q_s s) in
  let nz := filter (fun i => nonzerob (nthq mol i)) (seq 0 (length mol)) in
  ~ nthq mol si == 0 ->
  length (filter (fun i => existsb (Nat.eqb i) nz) (s_lle_index V)) = 1%nat ->
  opt_nth (s_tm V) si = Some Tm ->
  sle_call V o (sst_init act) s a = (st', s', r) ->
  r = Ok tt /\
  (Tm < T -> q_l s' = upd (q_l s) si (nthq mol si) /\ q_s s' = upd (q_s s) si 0) /\
  (T <= Tm -> q_l s' = upd (q_l s) si 0 /\ q_s s' = upd (q_s s) si (nthq mol si)).
Proof.
  intros V o act s si T P Tm st' s' r a mol nz NZ N1 TM H.
  unfold sle_call in H. simpl in H. fold mol in H.
  apply qzerob_false in NZ. rewrite NZ in H. fold nz in H.
  unfold sle_setup in H. simpl in H. fold mol nz in H.
  rewrite N1 in H. simpl in H. rewrite TM in H.
  destruct (qltb Tm T) eqn:C; inversion H; subst; simpl.
  - apply qltb_true in C. split; auto. split; [auto|intros; lra].
  - apply qltb_false in C. split; auto. split; [intros; lra|auto].
Qed.

(* ------------------------------------------------------------------ homogeneity: the normalised feed is the same canonical vector *)
Lemma qsum_scale k v : qsum (map (Qmult k) v) == k * qsum v.
Proof. induction v as [|x v IH]; simpl; [ring|]. rewrite IH. ring. Qed.

Lemma map_ext_Qred (f g : Q -> Q) v : (forall x, f x == g x) -> map Qred (map f v) = map Qred (map g v).
Proof. intros H. induction v as [|x v IH]; simpl; auto. f_equal; auto. apply Qred_complete. apply H. Qed.

Theorem z_scale_invariant_lemma : forall k mol, ~ k == 0 -> ~ qsum mol == 0 ->
  vr (vdivs (map (Qmult k) mol) (rsum (map (Qmult k) mol))) = vr (vdivs mol (rsum mol)).
Proof.
  intros k mol K0 S0. unfold vr, vdivs.
  rewrite (map_map (Qmult k) (fun x => x / rsum (map (Qmult k) mol))).
  apply map_ext_Qred. intros x. unfold rsum. rewrite !Qred_correct. rewrite qsum_scale. field. split; assumption.
Qed.

(* ------------------------------------------------------------------ state invariant over histories *)
Definition st_wf (st : lle_st) : Prop :=
  forall idx, schems st = Some idx -> length (sz st) = length idx /\ exists K, sK st = Some K.

Lemma finish_wf E st s1 index F z a ml mL st' s' r :
  length z = length index ->
  finish E st s1 index F z a ml mL = (st', s', r) -> st_wf st'.
Proof.
  intros Lz H. unfold finish in H. destruct (swap_top E index (atop a) ml mL) as [l L].
  destruct (stored_K_phi l L) as [K' phi'].
  destruct (aupdate a); inversion H; subst; intros idx HI; simpl in *; inversion HI; subst; split; eauto.
Qed.

Lemma pick_length v idx : length (pick v idx) = length idx.
Proof. apply map_length. Qed.

Theorem lle_call_wf : forall E o st s a st' s' t,
  st_wf st -> lle_call E o st s a = (st', s', t) -> st_wf st'.
Proof.
  intros E o st s a st' s' t WF HC. unfold lle_call in HC.
  destruct (liquid_data E (set_TP s a)) as [[s1 index] mol] eqn:LD.
  assert (Lm : length mol = length index).
  { unfold liquid_data in LD. inversion LD. apply pick_length. }
  assert (Lz : length (vr (vdivs mol (rsum mol))) = length index).
  { rewrite vr_length. unfold vdivs. rewrite map_length. exact Lm. }
  destruct (nonzerob (rsum mol) && Nat.ltb 1 (length index)).
  - destruct (use_cache_expr _ _ _ _ _ _ _ _).
    + destruct (sK st) as [K|]; [|inversion HC; subst; exact WF].
      destruct (phase_fraction _ _ K) as [phi|e]; [|inversion HC; subst; exact WF].
      destruct (cached_split _ K _) as [[ml mL]|e].
      * match type of HC with context [finish ?e ?x ?y ?i ?f ?zz ?aa ?l ?L] =>
          destruct (finish e x y i f zz aa l L) as [[st2 s2] r] eqn:FN end.
        inversion HC; subst. eapply finish_wf; eauto.
      * inversion HC; subst. intros idx HI. simpl in HI. destruct (WF idx HI) as (A & K0 & B). simpl. eauto.
    + match type of HC with context [finish ?e ?x ?y ?i ?f ?zz ?aa ?l ?L] =>
        destruct (finish e x y i f zz aa l L) as [[st2 s2] r] eqn:FN end.
      inversion HC; subst. eapply finish_wf; eauto.
  - destruct (negb (aupdate a)).
    + match type of HC with context [if ?c then _ else _] => destruct c end; inversion HC; subst; exact WF.
    + inversion HC; subst; exact WF.
Qed.

Theorem lrun_wf : forall E ops st s,
  st_wf st -> st_wf (fst (fst (lrun E (st, s) ops))).
Proof.
  intros E ops. induction ops as [|op ops IH]; intros st s WF; simpl; auto.
  destruct op as [a o|l L|tT tz]; simpl.
  - destruct (lle_call E o st s a) as [[st1 s1] t] eqn:HC.
    specialize (IH st1 s1 (lle_call_wf _ _ _ _ _ _ _ _ WF HC)).
    destruct (lrun E (st1, s1) ops) as [[st2 s2] ts]. exact IH.
  - specialize (IH st (mkstrm l L (m_o s) (tcT s) (tcP s)) WF).
    destruct (lrun E (st, mkstrm l L (m_o s) (tcT s) (tcP s)) ops) as [[st2 s2] ts]. exact IH.
  - assert (W0 : st_wf (st_init tT tz)) by (intros idx HI; discriminate).
    specialize (IH (st_init tT tz) s W0).
    destruct (lrun E (st_init tT tz, s) ops) as [[st2 s2] ts]. exact IH.
Qed.

(* for every history: the pure-solute branch is taken only when exactly one chemical is in equilibrium in THIS call,
   and then for the solute of this call (after the repair pending_fixes/C15_2) *)
Theorem sle_setup_chemical_lemma : forall V st nz si st' ok c,
  sle_setup V st nz si = (st', ok) -> e_chemical st' = Some c ->
  c = si /\ length (filter (fun i => existsb (Nat.eqb i) nz) (s_lle_index V)) = 1%nat.
Proof.
  intros V st nz si st' ok c H HC. unfold sle_setup in H.
  destruct (opt_eqb idx_eqb (e_nonzero st) (Some nz)); [inversion H; subst; discriminate|].
  destruct (Nat.eqb (length (filter (fun i => existsb (Nat.eqb i) nz) (s_lle_index V))) 1) eqn:N.
  - inversion H; subst. simpl in HC. inversion HC. apply Nat.eqb_eq in N. auto.
  - destruct (find_pos si _); inversion H; subst; discriminate.
Qed.
