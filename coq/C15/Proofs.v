(* C15 -- lemmas about the model of Model.v / Gen_kernels.v *)
From V Require Import Common.NumFacts C15.Model.
Open Scope Q_scope.

(* ------------------------------------------------------------------ booleans and Q *)
Lemma qltb_true a b : qltb a b = true <-> a < b.
Proof.
  unfold qltb. rewrite negb_true_iff. split; intros H.
  - destruct (Qlt_le_dec a b) as [L|L]; auto. apply Qle_bool_iff in L. congruence.
  - destruct (Qle_bool b a) eqn:E; auto. apply Qle_bool_iff in E. lra.
Qed.
Lemma qltb_false a b : qltb a b = false <-> b <= a.
Proof.
  unfold qltb. rewrite negb_false_iff. apply Qle_bool_iff.
Qed.
Lemma qleb_true a b : qleb a b = true <-> a <= b.
Proof. unfold qleb. apply Qle_bool_iff. Qed.
Lemma qleb_false a b : qleb a b = false <-> b < a.
Proof.
  unfold qleb. split; intros H.
  - destruct (Qlt_le_dec b a) as [L|L]; auto. apply Qle_bool_iff in L. congruence.
  - destruct (Qle_bool a b) eqn:E; auto. apply Qle_bool_iff in E. lra.
Qed.
Lemma nonzerob_true x : nonzerob x = true <-> ~ x == 0.
Proof. unfold nonzerob. rewrite negb_true_iff. apply qzerob_false. Qed.
Lemma nonzerob_false x : nonzerob x = false <-> x == 0.
Proof. unfold nonzerob. rewrite negb_false_iff. apply qzerob_true. Qed.

(* ------------------------------------------------------------------ reduced vectors *)
Lemma vr_length v : length (vr v) = length v.
Proof. apply map_length. Qed.
Lemma nthq_vr v i : nthq (vr v) i == nthq v i.
Proof.
  unfold vr, nthq. revert i; induction v as [|x v IH]; intros [|i]; simpl; try reflexivity.
  - apply Qred_correct.
  - apply IH.
Qed.
Lemma rsum_correct v : rsum v == qsum v.
Proof. apply Qred_correct. Qed.

Lemma nthq_map_default (f : Q -> Q) v i : (i < length v)%nat -> nthq (map f v) i = f (nthq v i).
Proof.
  unfold nthq. revert i; induction v as [|x v IH]; intros [|i] H; simpl in *; try lia; auto.
  apply IH. lia.
Qed.

Lemma nthq_map2 (f : Q -> Q -> Q) a b i :
  (i < length a)%nat -> (i < length b)%nat -> nthq (map2 f a b) i = f (nthq a i) (nthq b i).
Proof.
  unfold nthq. revert b i; induction a as [|x a IH]; intros [|y b] [|i] Ha Hb; simpl in *; try lia; auto.
  apply IH; lia.
Qed.
Lemma map2_length_min {A B C} (f : A -> B -> C) a b : length (map2 f a b) = Nat.min (length a) (length b).
Proof. revert b; induction a as [|x a IH]; intros [|y b]; simpl; auto. Qed.

Lemma forallb_nth (p : Q -> bool) v : forallb p v = true -> forall i, (i < length v)%nat -> p (nthq v i) = true.
Proof.
  unfold nthq. induction v as [|x v IH]; simpl; intros H i Hi; [lia|].
  apply andb_true_iff in H as [H1 H2]. destruct i; auto. apply IH; auto. lia.
Qed.

(* ------------------------------------------------------------------ the cache decision (generated expression) *)
(* written against the generated [use_cache_expr]: this proof is what breaks when the source compares signed differences *)
Lemma use_cache_expr_sound u same T sT tT sz z tz :
  use_cache_expr u same T sT tT sz z tz = true ->
  u = true /\ same = true /\ Qabs (T - sT) < tT /\
  forall i, (i < length sz)%nat -> (i < length z)%nat -> Qabs (nthq sz i - nthq z i) < tz.
Proof.
  unfold use_cache_expr. intros H.
  repeat (apply andb_true_iff in H; destruct H as [H ?]).
  repeat split; auto.
  - apply qltb_true; assumption.
  - intros i Hs Hz.
    match goal with F : forallb _ _ = true |- _ => pose proof (forallb_nth _ _ F i) as P end.
    rewrite map_length, map2_length_min in P.
    assert (Hi : (i < Nat.min (length sz) (length z))%nat) by lia.
    specialize (P Hi). apply qltb_true in P.
    rewrite nthq_map_default in P by (rewrite map2_length_min; lia).
    rewrite nthq_map2 in P by lia. exact P.
Qed.

(* the current normalised feed of a call *)
Definition call_data (E : env) (s : strm) (a : args) : strm * list nat * vec * Q * vec :=
  let '(s1, index, mol) := liquid_data E (set_TP s a) in
  (s1, index, mol, rsum mol, vr (vdivs mol (rsum mol))).

Lemma chems_same_true c index : chems_same c index = true -> exists l, c = Some l /\ length l = length index.
Proof.
  unfold chems_same. destruct c as [l|]; [|discriminate]. intros H. exists l. split; auto.
  unfold idx_eqb in H. revert index H. induction l as [|x l IH]; intros [|y index] H; simpl in *; try discriminate; auto.
  apply andb_true_iff in H as [_ H]. f_equal. apply IH; auto.
Qed.

Lemma idx_eqb_eq a b : idx_eqb a b = true -> a = b.
Proof.
  unfold idx_eqb. revert b; induction a as [|x a IH]; intros [|y b] H; simpl in *; try discriminate; auto.
  apply andb_true_iff in H as [H1 H2]. apply Nat.eqb_eq in H1. f_equal; auto.
Qed.

Lemma finish_trace E st s1 index F z a ml mL st' s' r :
  finish E st s1 index F z a ml mL = (st', s', r) -> exists v, r = Ok v.
Proof.
  unfold finish. destruct (swap_top E index (atop a) ml mL) as [l L].
  destruct (stored_K_phi l L) as [K' phi'].
  destruct (aupdate a); intros H; inversion H; eauto.
Qed.

Theorem use_cache_sound_lemma : forall E o st s a st' s' t s1 index mol F z,
  lle_call E o st s a = (st', s', t) ->
  call_data E s a = (s1, index, mol, F, z) ->
  t_used_cache t = true ->
  ause_cache a = true /\ schems st = Some index /\
  Qabs (aT a - sT st) < tolT st /\
  (forall i, (i < length (sz st))%nat -> (i < length z)%nat -> Qabs (nthq (sz st) i - nthq z i) < tolz st) /\
  t_solver_in t = None.
Proof.
  intros E o st s a st' s' t s1 index mol F z HC HD HU.
  unfold call_data in HD. unfold lle_call in HC.
  destruct (liquid_data E (set_TP s a)) as [[s1' index'] mol'] eqn:LD.
  inversion HD; subst s1' index' F z. clear HD. rename mol' into mol0. subst mol0.
  destruct (nonzerob (rsum mol) && Nat.ltb 1 (length index)) eqn:MB.
  - destruct (use_cache_expr (ause_cache a) (chems_same (schems st) index) (aT a) (sT st) (tolT st) (sz st)
                (vr (vdivs mol (rsum mol))) (tolz st)) eqn:UC.
    + apply use_cache_expr_sound in UC as (U1 & U2 & U3 & U4).
      assert (SC : schems st = Some index).
      { unfold chems_same in U2. destruct (schems st) as [l|]; [|discriminate]. apply idx_eqb_eq in U2. congruence. }
      assert (TS : t_solver_in t = None).
      { destruct (sK st) as [K|]; [|inversion HC; reflexivity].
        destruct (phase_fraction (o_rr o) (vr (vdivs mol (rsum mol))) K) as [phi|e]; [|inversion HC; reflexivity].
        destruct (cached_split (Qred phi) K (vr (vdivs mol (rsum mol)))) as [[ml mL]|e]; [|inversion HC; reflexivity].
        destruct (finish E (with_phi st (Some (Qred phi))) s1 index (rsum mol) (vr (vdivs mol (rsum mol))) a ml mL) as [[st2 s2] r].
        inversion HC; reflexivity. }
      repeat split; auto.
    + exfalso.
      match type of HC with context [finish ?e ?x ?y ?i ?f ?zz ?aa ?l ?L] =>
        destruct (finish e x y i f zz aa l L) as [[st2 s2] r] end.
      inversion HC; subst t. simpl in HU. discriminate.
  - exfalso. destruct (negb (aupdate a)).
    + match type of HC with context [if ?c then _ else _] => destruct c end; inversion HC; subst t; simpl in HU; discriminate.
    + inversion HC; subst t; simpl in HU; discriminate.
Qed.

(* conversely: when the solver runs, it receives the CURRENT normalised feed and temperature *)
Theorem solver_sees_current_lemma : forall E o st s a st' s' t s1 index mol F z sin,
  lle_call E o st s a = (st', s', t) ->
  call_data E s a = (s1, index, mol, F, z) ->
  t_solver_in t = Some sin ->
  iz sin = z /\ iT sin = aT a /\ iidx sin = index /\ t_used_cache t = false.
Proof.
  intros E o st s a st' s' t s1 index mol F z sin HC HD HS.
  unfold call_data in HD. unfold lle_call in HC.
  destruct (liquid_data E (set_TP s a)) as [[s1' index'] mol'] eqn:LD.
  inversion HD; subst s1' index' F z. clear HD. subst mol'.
  destruct (nonzerob (rsum mol) && Nat.ltb 1 (length index)) eqn:MB.
  - destruct (use_cache_expr (ause_cache a) (chems_same (schems st) index) (aT a) (sT st) (tolT st) (sz st)
                (vr (vdivs mol (rsum mol))) (tolz st)) eqn:UC.
    + exfalso.
      destruct (sK st) as [K|]; [|inversion HC; subst t; discriminate].
      destruct (phase_fraction (o_rr o) (vr (vdivs mol (rsum mol))) K) as [phi|e]; [|inversion HC; subst t; discriminate].
      destruct (cached_split (Qred phi) K (vr (vdivs mol (rsum mol)))) as [[ml mL]|e]; [|inversion HC; subst t; discriminate].
      destruct (finish E (with_phi st (Some (Qred phi))) s1 index (rsum mol) (vr (vdivs mol (rsum mol))) a ml mL) as [[st2 s2] r].
      inversion HC; subst t; discriminate.
    + match type of HC with context [finish ?e ?x ?y ?i ?f ?zz ?aa ?l ?L] =>
        destruct (finish e x y i f zz aa l L) as [[st2 s2] r] end.
      inversion HC; subst t. simpl in HS. inversion HS; subst sin. simpl. auto.
  - exfalso. destruct (negb (aupdate a)).
    + match type of HC with context [if ?c then _ else _] => destruct c end; inversion HC; subst t; discriminate.
    + inversion HC; subst t; discriminate.
Qed.

(* ------------------------------------------------------------------ checked vector operations *)
Lemma existsb_qzerob_false b : existsb qzerob b = false -> forall i, (i < length b)%nat -> ~ nthq b i == 0.
Proof.
  unfold nthq. induction b as [|x b IH]; simpl; intros H i Hi; [lia|].
  apply orb_false_iff in H as [H1 H2]. destruct i.
  - apply qzerob_false; assumption.
  - apply IH; auto. lia.
Qed.

Lemma vdivc_ok a b y : vdivc a b = Ok y ->
  length a = length b /\ y = map2 Qdiv a b /\ forall i, (i < length b)%nat -> ~ nthq b i == 0.
Proof.
  unfold vdivc. destruct (Nat.eqb (length a) (length b)) eqn:L; simpl; [|discriminate].
  destruct (existsb qzerob b) eqn:Z; [discriminate|]. intros H; inversion H.
  apply Nat.eqb_eq in L. repeat split; auto. apply existsb_qzerob_false; assumption.
Qed.

Lemma vop2_ok f a b y : vop2 f a b = Ok y -> length a = length b /\ y = map2 f a b.
Proof.
  unfold vop2. destruct (Nat.eqb (length a) (length b)) eqn:L; [|discriminate].
  intros H; inversion H. apply Nat.eqb_eq in L. auto.
Qed.

Lemma vdivsc_ok a s y : vdivsc a s = Ok y -> y = map (fun e_ => e_ / s) a /\ (a <> [] -> ~ s == 0).
Proof.
  unfold vdivsc. destruct (qzerob s) eqn:Z.
  - destruct a; [|discriminate]. intros H; inversion H. split; auto; congruence.
  - intros H; inversion H. split; auto. intros _. apply qzerob_false; assumption.
Qed.

Ltac binds H :=
  repeat match type of H with
         | bind ?r _ = Ok _ => let E := fresh "E" in destruct r eqn:E; cbn [bind] in H; [|discriminate]
         end.

(* ------------------------------------------------------------------ the cached branch *)
Lemma cached_split_spec phi K z ml mL : cached_split phi K z = Ok (ml, mL) ->
  (1 <= phi -> ml = z /\ mL = vscale 0 z) /\
  (phi < 1 -> length K = length z /\
     forall i, (i < length z)%nat ->
       ~ phi * nthq K i + (1 - phi) == 0 /\
       nthq ml i == nthq z i * nthq K i / (phi * nthq K i + (1 - phi)) * phi /\
       nthq mL i == nthq z i - nthq ml i).
Proof.
  unfold cached_split. destruct (qleb 1 phi) eqn:P.
  - intros H; inversion H; subst. apply qleb_true in P. split; auto. intros; lra.
  - apply qleb_false in P. intros H. split; [intros; lra|]. intros _.
    binds H. inversion H; subst ml mL. clear H.
    match goal with E : vop2 Qmult z K = Ok ?a |- _ => apply vop2_ok in E as (LK0 & ZK); subst a end.
    match goal with E : vdivc _ _ = Ok ?y |- _ => apply vdivc_ok in E as (L & Y & NZ); rename y into v end.
    rewrite map2_length_min, map_length in L.
    assert (LK : length K = length z) by lia. split; auto.
    intros i Hi.
    assert (D : ~ phi * nthq K i + (1 - phi) == 0).
    { specialize (NZ i). rewrite map_length in NZ. rewrite nthq_map_default in NZ by lia. apply NZ. lia. }
    split; auto.
    assert (Yi : nthq v i == nthq z i * nthq K i / (phi * nthq K i + (1 - phi))).
    { subst v. rewrite nthq_map2.
      - rewrite nthq_map2 by lia. rewrite nthq_map_default by lia. reflexivity.
      - rewrite map2_length_min. lia.
      - rewrite map_length. lia. }
    assert (Lv : length v = length z).
    { subst v. rewrite map2_length_min. rewrite map2_length_min, map_length. lia. }
    split.
    + rewrite nthq_vr. rewrite nthq_map_default by lia. rewrite Yi. reflexivity.
    + rewrite nthq_vr. rewrite nthq_vsub by (rewrite vr_length, map_length; lia). reflexivity.
Qed.

Theorem cached_branch_lemma : forall E o st s a st' s' t s1 index mol F z v,
  lle_call E o st s a = (st', s', t) ->
  call_data E s a = (s1, index, mol, F, z) ->
  t_used_cache t = true -> t_ret t = Ok v ->
  exists K phi ml mL,
    sK st = Some K /\ phase_fraction (o_rr o) z K = Ok phi /\
    cached_split (Qred phi) K z = Ok (ml, mL) /\
    finish E (with_phi st (Some (Qred phi))) s1 index F z a ml mL = (st', s', Ok v).
Proof.
  intros E o st s a st' s' t s1 index mol F z v HC HD HU HR.
  unfold call_data in HD. unfold lle_call in HC.
  destruct (liquid_data E (set_TP s a)) as [[s1' index'] mol'] eqn:LD.
  inversion HD; subst s1' index' F z. clear HD. subst mol'.
  destruct (nonzerob (rsum mol) && Nat.ltb 1 (length index)) eqn:MB.
  - destruct (use_cache_expr (ause_cache a) (chems_same (schems st) index) (aT a) (sT st) (tolT st) (sz st)
                (vr (vdivs mol (rsum mol))) (tolz st)) eqn:UC.
    + destruct (sK st) as [K|]; [|inversion HC; subst t; discriminate].
      destruct (phase_fraction (o_rr o) (vr (vdivs mol (rsum mol))) K) as [phi|e] eqn:PF; [|inversion HC; subst t; discriminate].
      destruct (cached_split (Qred phi) K (vr (vdivs mol (rsum mol)))) as [[ml mL]|e] eqn:CS; [|inversion HC; subst t; discriminate].
      destruct (finish E (with_phi st (Some (Qred phi))) s1 index (rsum mol) (vr (vdivs mol (rsum mol))) a ml mL) as [[st2 s2] r] eqn:FN.
      inversion HC; subst st2 s2 t. simpl in HR. subst r.
      exists K, phi, ml, mL. auto.
    + exfalso.
      match type of HC with context [finish ?e ?x ?y ?i ?f ?zz ?aa ?l ?L] =>
        destruct (finish e x y i f zz aa l L) as [[st2 s2] r] end.
      inversion HC; subst t. discriminate.
  - exfalso. destruct (negb (aupdate a)).
    + match type of HC with context [if ?c then _ else _] => destruct c end; inversion HC; subst t; discriminate.
    + inversion HC; subst t; discriminate.
Qed.

(* ------------------------------------------------------------------ top_chemical labelling *)
Theorem top_label_lemma : forall E index top ml mL l' L',
  swap_top E index top ml mL = (l', L') ->
  ((l', L') = (ml, mL) \/ (l', L') = (mL, ml)) /\
  forall j t, top = Some j -> find_pos j index = Some t ->
    let MW := pick (mw E) index in
    let Ml' := qsum (vmul l' MW) in
    let ML' := qsum (vmul L' MW) in
    (~ Ml' == 0 -> ~ ML' == 0 -> nthq (vmul l' MW) t / Ml' <= nthq (vmul L' MW) t / ML') /\
    (ML' == 0 -> Ml' == 0).
Proof.
  intros E index top ml mL l' L' H. unfold swap_top in H.
  destruct top as [j|].
  2:{ inversion H; subst. split; auto. intros; discriminate. }
  destruct (find_pos j index) as [t|] eqn:FP.
  2:{ inversion H; subst. split; auto. intros j0 t0 J F0. inversion J; subst. congruence. }
  set (MW := pick (mw E) index) in *.
  destruct (nonzerob (qsum (vmul mL MW)) && nonzerob (qsum (vmul ml MW))) eqn:B.
  - apply andb_true_iff in B as [B1 B2]. apply nonzerob_true in B1, B2.
    destruct (qltb (nthq (vmul mL MW) t / qsum (vmul mL MW)) (nthq (vmul ml MW) t / qsum (vmul ml MW))) eqn:C;
      inversion H; subst l' L'; (split; [auto|]); intros j0 t0 J F0; inversion J; subst j0;
      rewrite FP in F0; inversion F0; subst t0; cbn zeta; fold MW.
    + apply qltb_true in C. split; [intros; lra | intros Z; contradiction].
    + apply qltb_false in C. split; [intros; lra | intros Z; contradiction].
  - destruct (nonzerob (qsum (vmul ml MW))) eqn:B2;
      inversion H; subst l' L'; (split; [auto|]); intros j0 t0 J F0; inversion J; subst j0;
      rewrite FP in F0; inversion F0; subst t0; cbn zeta; fold MW.
    + rewrite andb_true_r in B. apply nonzerob_false in B. apply nonzerob_true in B2.
      split; [intros N1; contradiction | intros Z; contradiction].
    + apply nonzerob_false in B2. split; [intros N1; contradiction | intros _; assumption].
Qed.

(* ------------------------------------------------------------------ the inner loop as written never changes its log K block *)
Lemma set_tail_ok n a e w : set_tail n a e = Ok w -> w = firstn n a ++ e.
Proof. unfold set_tail. destruct (Nat.eqb (length e) (length a - n)); [|discriminate]. intros H; inversion H; auto. Qed.

Lemma firstn_app_exact {A} (n : nat) (l e : list A) : (n <= length l)%nat -> firstn n (firstn n l ++ e) = firstn n l.
Proof.
  intros H. rewrite firstn_app. rewrite firstn_length. replace (n - Nat.min n (length l))%nat with O by lia.
  simpl. rewrite app_nil_r. rewrite firstn_firstn. f_equal. lia.
Qed.

Lemma skipn_app_exact {A} (n : nat) (l e : list A) : (n <= length l)%nat -> skipn n (firstn n l ++ e) = e.
Proof.
  intros H. rewrite skipn_app. rewrite firstn_length. replace (n - Nat.min n (length l))%nat with O by lia.
  simpl. rewrite skipn_all2; [reflexivity|]. rewrite firstn_length. lia.
Qed.

Theorem inner_loop_keeps_logK_lemma : forall fexp fln gamma v z n phi w,
  (n <= length v)%nat ->
  inner_loop fexp fln gamma v z n phi = Ok w ->
  firstn n w = firstn n v.
Proof.
  intros fexp fln gamma v z n phi w Hn H. unfold inner_loop in H.
  binds H. inversion H; subst w. clear H.
  repeat match goal with E : set_tail _ _ _ = Ok ?y |- _ => apply set_tail_ok in E; subst y end.
  rewrite firstn_app_exact by (rewrite app_length, firstn_length; lia).
  rewrite firstn_app_exact by assumption. reflexivity.
Qed.

Lemma inner_loop_inv fexp fln gamma v z n phi w :
  (n <= length v)%nat ->
  inner_loop fexp fln gamma v z n phi = Ok w ->
  exists x y, loop_x fexp v z n phi = Ok x /\ loop_y fexp gamma v z n phi = Ok y /\ skipn n w = gamma y.
Proof.
  intros Hn H. unfold inner_loop in H. binds H. inversion H; subst w. clear H.
  repeat match goal with E : set_tail _ _ _ = Ok ?y |- _ => apply set_tail_ok in E; subst y end.
  match goal with E1 : vdivc z _ = Ok ?a, E2 : vdivsc ?a _ = Ok ?x, E3 : vdivc (gamma ?x) _ = Ok ?k,
                  E4 : vop2 Qmult ?k ?x = Ok ?yr, E5 : vdivsc ?yr _ = Ok ?y |- _ =>
    exists x, y;
    assert (LX : loop_x fexp v z n phi = Ok x) by (unfold loop_x, x_of; rewrite E1; cbn [bind]; exact E2);
    split; [exact LX|]; split;
    [ unfold loop_y; rewrite LX; cbn [bind]; rewrite E3; cbn [bind]; rewrite E4; cbn [bind]; exact E5 | ]
  end.
  rewrite skipn_app_exact; [reflexivity|]. rewrite app_length, firstn_length. lia.
Qed.

Lemma nthq_skipn (l : vec) n i : nthq (skipn n l) i = nthq l (n + i).
Proof.
  unfold nthq. revert l; induction n as [|n IH]; intros l; simpl; auto.
  destruct l; simpl; auto. destruct i; reflexivity.
Qed.

(* what DOES hold at an exact fixed point of the inner loop as written: activities are proportional,
   with the factor c = sum_j (gamma_j(x)/gammay_j) x_j that the never-updated K block leaves free *)
Theorem inner_fix_proportional_lemma : forall fexp fln gamma v z n phi w x y,
  length z = n -> length v = (n + n)%nat ->
  (forall u, length (gamma u) = length u) ->
  inner_loop fexp fln gamma v z n phi = Ok w -> veq w v ->
  loop_x fexp v z n phi = Ok x -> loop_y fexp gamma v z n phi = Ok y ->
  exists c, forall i, (i < n)%nat -> nthq x i * nthq (gamma x) i == c * (nthq y i * nthq (gamma y) i).
Proof.
  intros fexp fln gamma v z n phi w x y Lz Lv Lg HI [_ FIX] HX HY.
  assert (Hn : (n <= length v)%nat) by lia.
  destruct (inner_loop_inv _ _ _ _ _ _ _ _ Hn HI) as (x' & y' & HX' & HY' & SK).
  rewrite HX in HX'. inversion HX'; subst x'. rewrite HY in HY'. inversion HY'; subst y'. clear HX' HY'.
  assert (GY : forall i, nthq (skipn n v) i == nthq (gamma y) i).
  { intros i. rewrite <- SK. rewrite !nthq_skipn. symmetry. apply FIX. }
  unfold loop_y in HY. rewrite HX in HY. cbn [bind] in HY. binds HY.
  match goal with E : vdivc (gamma x) _ = Ok ?k |- _ => apply vdivc_ok in E as (L1 & K2 & NZ); subst k end.
  match goal with E : vop2 Qmult _ x = Ok ?yr |- _ => apply vop2_ok in E as (L2 & YR); subst yr end.
  apply vdivsc_ok in HY as (Y & SNZ).
  set (yr := map2 Qmult (map2 Qdiv (gamma x) (skipn n v)) x) in *.
  exists (qsum yr). intros i Hi.
  assert (Lsk : length (skipn n v) = n) by (rewrite skipn_length; lia).
  assert (Lx : length x = n) by (rewrite Lg in L1; lia).
  assert (Lyr : length yr = n).
  { unfold yr. rewrite !map2_length_min. rewrite Lg. lia. }
  assert (S0 : ~ qsum yr == 0).
  { apply SNZ. intros Z. rewrite Z in Lyr. simpl in Lyr. lia. }
  assert (G0 : ~ nthq (skipn n v) i == 0) by (apply NZ; lia).
  assert (Yi : nthq y i == nthq (gamma x) i / nthq (skipn n v) i * nthq x i / qsum yr).
  { subst y. rewrite nthq_map_default by lia. unfold yr.
    rewrite nthq_map2 by (rewrite ?map2_length_min, ?Lg; lia).
    rewrite nthq_map2 by (rewrite ?Lg; lia). reflexivity. }
  rewrite Yi. rewrite <- (GY i). field. split; assumption.
Qed.

(* ------------------------------------------------------------------ refutation witness for the equal-activity statement *)
Definition fexpW (q : Q) : Q := q + 1.
Definition flnW (q : Q) : Q := q - 1.
Definition gammaW : vec -> vec := gamma_aff [0; 0] [[0; 4]; [4; 0]].      (* gamma(w) = (4 w2, 4 w1) *)
Definition vW : vec := [2; -(1 # 2); 1; 3].                               (* log K = ln (3, 1/2), gamma_y = (1, 3) *)
Definition zW : vec := [2 # 5; 3 # 5].
Definition getv (r : res vec) : vec := match r with Ok x => x | Err _ => [] end.
Definition wW := getv (inner_loop fexpW flnW gammaW vW zW 2 (1 # 2)).
Definition xW := getv (loop_x fexpW vW zW 2 (1 # 2)).
Definition yW := getv (loop_y fexpW gammaW vW zW 2 (1 # 2)).

Lemma witness_facts :
  (forall q, 0 < q -> fexpW (flnW q) == q) /\
  inner_loop fexpW flnW gammaW vW zW 2 (1 # 2) = Ok wW /\ veq wW vW /\
  rr_residual zW (map fexpW (firstn 2 vW)) (1 # 2) == 0 /\
  loop_x fexpW vW zW 2 (1 # 2) = Ok xW /\ loop_y fexpW gammaW vW zW 2 (1 # 2) = Ok yW /\
  ~ nthq xW 0 * nthq (gammaW xW) 0 == nthq yW 0 * nthq (gammaW yW) 0.
Proof.
  split. { intros q _. unfold fexpW, flnW. ring. }
  split. { vm_compute. reflexivity. }
  split. { split; [vm_compute; reflexivity|]. intros i.
           do 4 (destruct i as [|i]; [vm_compute; reflexivity|]). vm_compute. destruct i; reflexivity. }
  split. { vm_compute. reflexivity. }
  split. { vm_compute. reflexivity. }
  split. { vm_compute. reflexivity. }
  vm_compute. discriminate.
Qed.

(* ------------------------------------------------------------------ SLE._update_solubility (generated) *)
Lemma qdivc_ok a b r : qdivc a b = Ok r -> ~ b == 0 /\ r = a / b.
Proof. unfold qdivc. destruct (qzerob b) eqn:Z; [discriminate|]. intros H; inversion H. split; auto. apply qzerob_false; assumption. Qed.

Theorem sle_update_frame_lemma : forall si idx m l s x l' s',
  update_solubility si idx m l s x = Ok (l', s') ->
  length l' = length l /\ length s' = length s /\
  forall j, j <> si -> nthq l' j = nthq l j /\ nthq s' j = nthq s j.
Proof.
  intros si idx m l s x l' s' H. unfold update_solubility in H. binds H.
  repeat match type of H with (if ?c then _ else _) = _ => destruct c end;
    binds H; inversion H; subst l' s'; rewrite !upd_length; repeat split; auto;
    rewrite nth_upd_other by auto; reflexivity.
Qed.

Definition solvent_mol (idx : sel) (l : vec) (si : nat) : Q := qsum (sel_pick l idx) - nthq l si.

Theorem sle_bounds_lemma : forall si idx m l s x l' s',
  (si < length l)%nat -> (si < length s)%nat ->
  update_solubility si idx m l s x = Ok (l', s') ->
  let Fm := solvent_mol idx l si in
  ~ Fm + m == 0 /\
  (x < 0 -> nthq l' si == 0 /\ nthq s' si == m) /\
  (0 <= x -> m / (Fm + m) <= x -> nthq l' si == m /\ nthq s' si == 0) /\
  (0 <= x -> x < m / (Fm + m) -> ~ 1 - x == 0 /\ nthq l' si == Fm * x / (1 - x) /\ nthq s' si == m - nthq l' si) /\
  nthq l' si + nthq s' si == m /\
  (0 < m -> 0 <= Fm -> 0 <= nthq l' si <= m /\ (0 <= x -> nthq l' si <= x * (Fm + nthq l' si))).
Proof.
  intros si idx m l s x l' s' Hl Hs H Fm. unfold update_solubility in H. binds H.
  match goal with E : qdivc _ _ = Ok ?r |- _ => apply qdivc_ok in E as (D & R); subst r end.
  fold (solvent_mol idx l si) in *. fold Fm in D, H.
  split; [exact D|].
  destruct (qltb x (0 # 1)) eqn:C1.
  - apply qltb_true in C1. inversion H; subst l' s'. rewrite !nth_upd_same by assumption.
    assert (X0 : x < 0) by exact C1.
    split; [intros; split; reflexivity|]. split; [intros; lra|]. split; [intros; lra|].
    split; [lra|]. intros M F. split; [lra|]. intros; lra.
  - apply qltb_false in C1. assert (X0 : 0 <= x) by exact C1.
    destruct (qleb (m / (Fm + m)) x) eqn:C2.
    + apply qleb_true in C2. inversion H; subst l' s'. rewrite !nth_upd_same by assumption.
      split; [intros; lra|]. split; [intros; split; reflexivity|]. split; [intros; lra|].
      split; [lra|]. intros M F. split; [lra|]. intros _.
      assert (P : 0 < Fm + m) by lra.
      assert (m <= x * (Fm + m)); [|lra].
      apply Qle_shift_div_r in C2 || idtac.
      setoid_replace m with (m / (Fm + m) * (Fm + m)) at 1 by (field; lra).
      apply Qmult_le_compat_r; lra.
    + apply qleb_false in C2. binds H.
      match goal with E : qdivc _ _ = Ok ?r |- _ => apply qdivc_ok in E as (D1 & R); subst r end.
      inversion H; subst l' s'. rewrite !nth_upd_same by assumption.
      split; [intros; lra|]. split; [intros; lra|].
      split; [intros _ _; split; [exact D1|split; [reflexivity|reflexivity]]|].
      split; [lra|]. intros M F.
      assert (P : 0 < Fm + m) by lra.
      assert (XM : x * (Fm + m) < m).
      { setoid_replace m with (m / (Fm + m) * (Fm + m)) at 2 by (field; lra).
        apply Qmult_lt_compat_r; lra. }
      assert (X1 : 0 < 1 - x) by nra.
      assert (LQ : Fm * x / ((1 # 1) - x) * (1 - x) == Fm * x) by (field; lra).
      set (lq := Fm * x / ((1 # 1) - x)) in *.
      assert (L0 : 0 <= lq) by nra.
      assert (LM : lq <= m) by nra.
      split; [split; assumption|]. intros _. nra.
Qed.

(* ------------------------------------------------------------------ SLE.__call__ *)
Definition same_except (si : nat) (s s' : sstrm) : Prop :=
  length (q_l s') = length (q_l s) /\ length (q_s s') = length (q_s s) /\
  forall j, j <> si -> nthq (q_l s') j = nthq (q_l s) j /\ nthq (q_s s') j = nthq (q_s s) j.

Lemma same_except_refl si s T P : same_except si s (mksstrm (q_l s) (q_s s) T P).
Proof. unfold same_except; simpl; auto. Qed.

Lemma same_except_upd si s T P a b :
  same_except si s (sset_ls (mksstrm (q_l s) (q_s s) T P) (upd (q_l s) si a, upd (q_s s) si b)).
Proof.
  unfold same_except, sset_ls; simpl. rewrite !upd_length. repeat split; auto;
  rewrite nth_upd_other by auto; reflexivity.
Qed.

(* contract of the flx.aitken oracle: it touches the two arrays only by evaluating the map it is given *)
Definition aitken_frame (o : sle_oracle) : Prop :=
  forall (f : lsT -> Q -> lsT * res Q) (I : lsT -> Prop) ls0 x0,
    I ls0 -> (forall ls x, I ls -> I (fst (f ls x))) -> I (fst (oe_aitken o f ls0 x0)).

Definition ls_same_except (si : nat) (l0 s0 : vec) (ls : lsT) : Prop :=
  length (fst ls) = length l0 /\ length (snd ls) = length s0 /\
  forall j, j <> si -> nthq (fst ls) j = nthq l0 j /\ nthq (snd ls) j = nthq s0 j.

Lemma x_iter_frame o st si m u l0 s0 ls x :
  ls_same_except si l0 s0 ls -> ls_same_except si l0 s0 (fst (x_iter o st si m u ls x)).
Proof.
  intros (A & B & C). unfold x_iter.
  destruct (update_solubility si (e_index st) m (fst ls) (snd ls) x) as [[l' s']|e] eqn:U; [|simpl; unfold ls_same_except; auto].
  apply sle_update_frame_lemma in U as (L1 & L2 & FR).
  assert (R : ls_same_except si l0 s0 (l', s')).
  { unfold ls_same_except; simpl. repeat split; try congruence; destruct (FR j H) as [P Q]; destruct (C j H) as [P' Q']; congruence. }
  destruct (vdivsc _ _); [|exact R]. destruct (oe_gamma o _); [|exact R].
  destruct (e_sgi st); [|exact R]. destruct (Nat.ltb _ _); exact R.
Qed.

Lemma solve_x_frame V o st si m ls T :
  aitken_frame o -> ls_same_except si (fst ls) (snd ls) (fst (solve_x V o st si m ls T)).
Proof.
  intros AF. assert (R0 : ls_same_except si (fst ls) (snd ls) ls) by (unfold ls_same_except; auto).
  unfold solve_x. destruct (opt_nth (s_tm V) si); [|exact R0]. destruct (opt_nth (s_hfus V) si); [|exact R0].
  destruct (s_ideal V); [exact R0|].
  apply AF; [exact R0|]. intros ls1 x I1. apply x_iter_frame; assumption.
Qed.

Theorem sle_only_solute_moves_lemma : forall V o st s a st' s' r,
  aitken_frame o ->
  sle_call V o st s a = (st', s', r) ->
  match sa_solute a with
  | None => s' = s
  | Some si => same_except si s s'
  end.
Proof.
  intros V o st s a st' s' r AF H. unfold sle_call in H.
  destruct (sa_solute a) as [si|]; [|inversion H; reflexivity].
  destruct (sa_T a) as [T|], (sa_H a); try (inversion H; subst; unfold same_except; auto; fail).
  set (s0 := mksstrm (q_l s) (q_s s) T (match sa_P a with Some p => p | None => q_P s end)) in *.
  assert (R0 : same_except si s s0) by apply same_except_refl.
  destruct (sa_sol a) as [x|].
    destruct (update_solubility si SAll (nthq (q_s s0) si + nthq (q_l s0) si) (q_l s0) (q_s s0) x) as [[l' sd']|e] eqn:U;
      inversion H; subst; [|exact R0].
    apply sle_update_frame_lemma in U as (L1 & L2 & FR). unfold same_except, sset_ls; simpl. auto.
  - cbv zeta in H.
    destruct (qzerob (nthq (vadd (q_l s0) (q_s s0)) si)); [inversion H; subst; exact R0|].
    match type of H with (match ?rr with pair _ _ => _ end) = _ => destruct rr as [st1 [|]] end;
      [|inversion H; subst; exact R0].
    destruct (e_chemical st1) as [c|].
    + destruct (opt_nth (s_tm V) c) as [Tm|]; [|inversion H; subst; exact R0].
      destruct (qltb Tm T); inversion H; subst; apply same_except_upd.
    + pose proof (solve_x_frame V o st1 si (nthq (vadd (q_l s0) (q_s s0)) si) (q_l s0, q_s s0) T AF) as SF.
      destruct (solve_x V o st1 si (nthq (vadd (q_l s0) (q_s s0)) si) (q_l s0, q_s s0) T) as [ls1 [x|e]];
        simpl in SF; destruct SF as (A1 & A2 & A3).
      * destruct (update_solubility si (e_index st1) (nthq (vadd (q_l s0) (q_s s0)) si) (fst ls1) (snd ls1) x) as [[l' sd']|e] eqn:U;
          inversion H; subst.
        -- apply sle_update_frame_lemma in U as (L1 & L2 & FR). unfold same_except, sset_ls; simpl.
           repeat split; try congruence; destruct (FR j H0) as [P Q]; destruct (A3 j H0) as [P' Q']; simpl in *; congruence.
        -- unfold same_except, sset_ls; simpl. repeat split; auto; apply A3; assumption.
      * inversion H; subst. unfold same_except, sset_ls; simpl. repeat split; auto; apply A3; assumption.
Qed.

(* a pure solute on a fresh solver: liquid above the melting point, solid at or below it *)
Theorem sle_pure_lemma : forall V o act s si T P Tm st' s' r,
  let a := mksargs (Some si) (Some T) false P None in
  let mol := vadd (q_l s) (q_s s) in
  let nz := filter (fun i => nonzerob (nthq mol i)) (seq 0 (length mol)) in
  ~ nthq mol si == 0 ->
  length (filter (fun i => existsb (Nat.eqb i) nz) (s_lle_index V)) = 1%nat ->
  opt_nth (s_tm V) si = Some Tm ->
  sle_call V o (sst_init act) s a = (st', s', r) ->
  r = Ok tt /\
  (Tm < T -> q_l s' = upd (q_l s) si (nthq mol si) /\ q_s s' = upd (q_s s) si 0) /\
  (T <= Tm -> q_l s' = upd (q_l s) si 0 /\ q_s s' = upd (q_s s) si (nthq mol si)).
Proof.
  intros V o act s si T P Tm st' s' r a mol nz NZ N1 TM H.
  unfold sle_call in H. simpl in H. fold mol in H.
  apply qzerob_false in NZ. rewrite NZ in H. fold nz in H.
  unfold sle_setup in H. simpl in H. fold mol nz in H.
  rewrite N1 in H. simpl in H. rewrite TM in H.
  destruct (qltb Tm T) eqn:C; inversion H; subst; simpl.
  - apply qltb_true in C. split; auto. split; [auto|intros; lra].
  - apply qltb_false in C. split; auto. split; [intros; lra|auto].
Qed.

(* ------------------------------------------------------------------ homogeneity: the normalised feed is the same canonical vector *)
Lemma qsum_scale k v : qsum (map (Qmult k) v) == k * qsum v.
Proof. induction v as [|x v IH]; simpl; [ring|]. rewrite IH. ring. Qed.

Lemma map_ext_Qred (f g : Q -> Q) v : (forall x, f x == g x) -> map Qred (map f v) = map Qred (map g v).
Proof. intros H. induction v as [|x v IH]; simpl; auto. f_equal; auto. apply Qred_complete. apply H. Qed.

Theorem z_scale_invariant_lemma : forall k mol, ~ k == 0 -> ~ qsum mol == 0 ->
  vr (vdivs (map (Qmult k) mol) (rsum (map (Qmult k) mol))) = vr (vdivs mol (rsum mol)).
Proof.
  intros k mol K0 S0. unfold vr, vdivs.
  rewrite (map_map (Qmult k) (fun x => x / rsum (map (Qmult k) mol))).
  apply map_ext_Qred. intros x. unfold rsum. rewrite !Qred_correct. rewrite qsum_scale. field. split; assumption.
Qed.

(* ------------------------------------------------------------------ state invariant over histories *)
Definition st_wf (st : lle_st) : Prop :=
  forall idx, schems st = Some idx -> length (sz st) = length idx /\ exists K, sK st = Some K.

Lemma finish_wf E st s1 index F z a ml mL st' s' r :
  length z = length index ->
  finish E st s1 index F z a ml mL = (st', s', r) -> st_wf st'.
Proof.
  intros Lz H. unfold finish in H. destruct (swap_top E index (atop a) ml mL) as [l L].
  destruct (stored_K_phi l L) as [K' phi'].
  destruct (aupdate a); inversion H; subst; intros idx HI; simpl in *; inversion HI; subst; split; eauto.
Qed.

Lemma pick_length v idx : length (pick v idx) = length idx.
Proof. apply map_length. Qed.

Theorem lle_call_wf : forall E o st s a st' s' t,
  st_wf st -> lle_call E o st s a = (st', s', t) -> st_wf st'.
Proof.
  intros E o st s a st' s' t WF HC. unfold lle_call in HC.
  destruct (liquid_data E (set_TP s a)) as [[s1 index] mol] eqn:LD.
  assert (Lm : length mol = length index).
  { unfold liquid_data in LD. inversion LD. apply pick_length. }
  assert (Lz : length (vr (vdivs mol (rsum mol))) = length index).
  { rewrite vr_length. unfold vdivs. rewrite map_length. exact Lm. }
  destruct (nonzerob (rsum mol) && Nat.ltb 1 (length index)).
  - destruct (use_cache_expr _ _ _ _ _ _ _ _).
    + destruct (sK st) as [K|]; [|inversion HC; subst; exact WF].
      destruct (phase_fraction _ _ K) as [phi|e]; [|inversion HC; subst; exact WF].
      destruct (cached_split _ K _) as [[ml mL]|e].
      * match type of HC with context [finish ?e ?x ?y ?i ?f ?zz ?aa ?l ?L] =>
          destruct (finish e x y i f zz aa l L) as [[st2 s2] r] eqn:FN end.
        inversion HC; subst. eapply finish_wf; eauto.
      * inversion HC; subst. intros idx HI. simpl in HI. destruct (WF idx HI) as (A & K0 & B). simpl. eauto.
    + match type of HC with context [finish ?e ?x ?y ?i ?f ?zz ?aa ?l ?L] =>
        destruct (finish e x y i f zz aa l L) as [[st2 s2] r] eqn:FN end.
      inversion HC; subst. eapply finish_wf; eauto.
  - destruct (negb (aupdate a)).
    + match type of HC with context [if ?c then _ else _] => destruct c end; inversion HC; subst; exact WF.
    + inversion HC; subst; exact WF.
Qed.

Theorem lrun_wf : forall E ops st s,
  st_wf st -> st_wf (fst (fst (lrun E (st, s) ops))).
Proof.
  intros E ops. induction ops as [|op ops IH]; intros st s WF; simpl; auto.
  destruct op as [a o|l L|tT tz]; simpl.
  - destruct (lle_call E o st s a) as [[st1 s1] t] eqn:HC.
    specialize (IH st1 s1 (lle_call_wf _ _ _ _ _ _ _ _ WF HC)).
    destruct (lrun E (st1, s1) ops) as [[st2 s2] ts]. exact IH.
  - specialize (IH st (mkstrm l L (m_o s) (tcT s) (tcP s)) WF).
    destruct (lrun E (st, mkstrm l L (m_o s) (tcT s) (tcP s)) ops) as [[st2 s2] ts]. exact IH.
  - assert (W0 : st_wf (st_init tT tz)) by (intros idx HI; discriminate).
    specialize (IH (st_init tT tz) s W0).
    destruct (lrun E (st_init tT tz, s) ops) as [[st2 s2] ts]. exact IH.
Qed.

(* for every history: the pure-solute branch is taken only when exactly one chemical is in equilibrium in THIS call,
   and then for the solute of this call (after the repair pending_fixes/C15_2) *)
Theorem sle_setup_chemical_lemma : forall V st nz si st' ok c,
  sle_setup V st nz si = (st', ok) -> e_chemical st' = Some c ->
  c = si /\ length (filter (fun i => existsb (Nat.eqb i) nz) (s_lle_index V)) = 1%nat.
Proof.
  intros V st nz si st' ok c H HC. unfold sle_setup in H.
  destruct (opt_eqb idx_eqb (e_nonzero st) (Some nz)).
  { destruct (e_index st) as [|l]; [|destruct (find_pos si l)]; inversion H; subst; discriminate. }
  destruct (Nat.eqb (length (filter (fun i => existsb (Nat.eqb i) nz) (s_lle_index V))) 1) eqn:N.
  - inversion H; subst. simpl in HC. inversion HC. apply Nat.eqb_eq in N. auto.
  - destruct (find_pos si _); inversion H; subst; discriminate.
Qed.

(* ------------------------------------------------------------------ flows proportional to the feed (full) *)

Definition scale_strm (k : Q) (s : strm) : strm :=
  mkstrm (map (Qmult k) (m_l s)) (map (Qmult k) (m_L s)) (m_o s) (tcT s) (tcP s).

(* v' is k times v, entry by entry *)
Definition F2 (k : Q) : vec -> vec -> Prop := Forall2 (fun x x' => x' == k * x).

Definition srel (k : Q) (s s' : strm) : Prop :=
  F2 k (m_l s) (m_l s') /\ F2 k (m_L s) (m_L s') /\ m_o s' = m_o s /\ tcT s' = tcT s /\ tcP s' = tcP s.

Lemma F2_length k v v' : F2 k v v' -> length v' = length v.
Proof. intros H. induction H; simpl; congruence. Qed.

Lemma F2_nthq k v v' i : F2 k v v' -> nthq v' i == k * nthq v i.
Proof.
  intros H. revert i. induction H as [|x x' v v' Hx H IH]; intros i.
  - rewrite !nthq_nil. ring.
  - destruct i; unfold nthq in *; simpl; auto.
Qed.

Lemma F2_map k v : F2 k v (map (Qmult k) v).
Proof. induction v; simpl; constructor; auto. reflexivity. Qed.

Lemma F2_vadd k a b a' b' : F2 k a a' -> F2 k b b' -> F2 k (vadd a b) (vadd a' b').
Proof.
  intros Ha. revert b b'. induction Ha as [|x x' a a' Hx Ha IH]; intros b b' Hb; simpl.
  - constructor.
  - destruct Hb as [|y y' b b' Hy Hb]; simpl; constructor.
    + rewrite Hx, Hy. ring.
    + apply IH; assumption.
Qed.

Lemma F2_pick k v v' idx : F2 k v v' -> F2 k (pick v idx) (pick v' idx).
Proof. intros H. induction idx; simpl; constructor; auto. apply F2_nthq; assumption. Qed.

Lemma F2_qsum k v v' : F2 k v v' -> qsum v' == k * qsum v.
Proof. intros H. induction H; simpl; [ring|]. rewrite H, IHForall2. ring. Qed.

Lemma F2_zeros k v v' : F2 k v v' -> map (fun _ : Q => 0) v' = map (fun _ : Q => 0) v.
Proof. intros H. induction H; simpl; congruence. Qed.

Lemma F2_const (c : Q) k v v' : F2 k v v' -> map (fun _ : Q => c) v' = map (fun _ : Q => c) v.
Proof. intros H. induction H; simpl; congruence. Qed.

Lemma F2_zero_vec k v : F2 k (map (fun _ : Q => 0) v) (map (fun _ : Q => 0) v).
Proof. induction v; simpl; constructor; auto. ring. Qed.

Lemma F2_upd k v v' i x x' : F2 k v v' -> x' == k * x -> F2 k (upd v i x) (upd v' i x').
Proof.
  intros H Hx. revert i. induction H as [|y y' v v' Hy H IH]; intros i; simpl; [constructor|].
  destruct i; constructor; auto. apply IH.
Qed.

Lemma F2_scatter k idx : forall b b' v v', F2 k b b' -> F2 k v v' -> F2 k (scatter b idx v) (scatter b' idx v').
Proof.
  induction idx as [|i idx IH]; intros b b' v v' Hb Hv; simpl; auto.
  destruct Hv as [|x x' v v' Hx Hv]; auto.
  apply IH; auto. apply F2_upd; auto.
Qed.

Lemma nonzerob_scale k x x' : ~ k == 0 -> x' == k * x -> nonzerob x' = nonzerob x.
Proof.
  intros K H. destruct (nonzerob x) eqn:E.
  - apply nonzerob_true. apply nonzerob_true in E. intros Z. apply E. rewrite H in Z.
    destruct (Qmult_integral _ _ Z); [contradiction|assumption].
  - apply nonzerob_false. apply nonzerob_false in E. rewrite H, E. ring.
Qed.

Lemma filter_ext_in' {A} (f g : A -> bool) l : (forall x, f x = g x) -> filter f l = filter g l.
Proof. intros H. induction l; simpl; auto. rewrite H, IHl. reflexivity. Qed.

Lemma liquid_data_scale E k s sa index mol : ~ k == 0 ->
  liquid_data E s = (sa, index, mol) ->
  exists sa' mol', liquid_data E (scale_strm k s) = (sa', index, mol') /\ srel k sa sa' /\ F2 k mol mol'.
Proof.
  intros K H. unfold liquid_data in *. inversion H; subst sa index mol. clear H.
  set (tot := vadd (m_l s) (m_L s)). simpl.
  set (tot' := vadd (map (Qmult k) (m_l s)) (map (Qmult k) (m_L s))).
  assert (T : F2 k tot tot') by (apply F2_vadd; apply F2_map).
  assert (IX : filter (fun i => nonzerob (nthq tot' i)) (lle_index E) = filter (fun i => nonzerob (nthq tot i)) (lle_index E)).
  { apply filter_ext_in'. intros i. apply (nonzerob_scale k); auto. apply F2_nthq; assumption. }
  rewrite IX. eexists; eexists. split; [reflexivity|]. split.
  - unfold srel; simpl. rewrite map_map. repeat split; auto. apply F2_zero_vec.
  - apply F2_pick; assumption.
Qed.

Lemma z_scale k mol mol' : ~ k == 0 -> F2 k mol mol' -> ~ rsum mol == 0 ->
  vr (vdivs mol' (rsum mol')) = vr (vdivs mol (rsum mol)).
Proof.
  intros K H S. assert (S' : rsum mol' == k * rsum mol).
  { unfold rsum. rewrite !Qred_correct. apply F2_qsum; assumption. }
  unfold vr, vdivs. generalize dependent (rsum mol'). generalize dependent (rsum mol). intros F S F' S'.
  induction H; cbn [map]; auto. f_equal; auto. apply Qred_complete. rewrite H, S'. field. split; assumption.
Qed.

Lemma set_TP_scale k s a : set_TP (scale_strm k s) a = scale_strm k (set_TP s a).
Proof. unfold set_TP, scale_strm. destruct (aupdate a); reflexivity. Qed.

Lemma F2_vr_vscale k F F' v : F' == k * F -> F2 k (vr (vscale F v)) (vr (vscale F' v)).
Proof.
  intros H. unfold vr, vscale. induction v; cbn [map]; constructor; auto.
  rewrite !Qred_correct. rewrite H. ring.
Qed.

Lemma finish_scale E k st sa sa' index F F' z a ml mL st' s' r :
  srel k sa sa' -> F' == k * F ->
  finish E st sa index F z a ml mL = (st', s', r) ->
  exists s2, finish E st sa' index F' z a ml mL = (st', s2, r) /\ srel k s' s2.
Proof.
  intros (A & B & C & D & G) HF H. unfold finish in *.
  destruct (swap_top E index (atop a) ml mL) as [l L].
  destruct (stored_K_phi l L) as [K' phi'].
  destruct (aupdate a); inversion H; subst; eexists; (split; [reflexivity|]).
  - unfold srel, write_back; simpl. repeat split; auto; apply F2_scatter; auto; apply F2_vr_vscale; assumption.
  - unfold srel; auto.
Qed.

Lemma nthq_zeros (v : vec) t : nthq (map (fun _ : Q => 0) v) t == 0.
Proof. unfold nthq. revert t; induction v; intros [|t]; simpl; try reflexivity. apply IHv. Qed.

Lemma qltb_zero_scale k z x x' : 0 < k -> z == 0 -> x' == k * x -> qltb z x' = qltb z x.
Proof.
  intros K Z H. destruct (qltb z x) eqn:E.
  - apply qltb_true in E. apply qltb_true. rewrite H. nra.
  - apply qltb_false in E. apply qltb_false. rewrite H. nra.
Qed.

Lemma tail_scale k (st : lle_st) sa sa' index mol mol' a st1 s1 t1 : 0 < k ->
  srel k sa sa' -> F2 k mol mol' ->
  (if negb (aupdate a) then
    let mol_l := mol in
    let mol_L := map (fun _ : Q => 0) mol in
    let swap := match atop a with
                | None => false
                | Some j => match find_pos j index with
                            | None => false
                            | Some t => qltb (nthq mol_L t) (nthq mol_l t)
                            end
                end in
    let mol_L' := if swap then mol_l else mol_L in
    if nonzerob (qsum mol_L') then (st, sa, mktr false None (Ok (RTriple index (map (fun _ : Q => c_1e16) mol) 1)))
    else (st, sa, mktr false None (Ok (RTriple index (map (fun _ : Q => 0) mol) 0)))
  else (st, sa, mktr false None (Ok RNone))) = (st1, s1, t1) ->
  exists s2,
  (if negb (aupdate a) then
    let mol_l := mol' in
    let mol_L := map (fun _ : Q => 0) mol' in
    let swap := match atop a with
                | None => false
                | Some j => match find_pos j index with
                            | None => false
                            | Some t => qltb (nthq mol_L t) (nthq mol_l t)
                            end
                end in
    let mol_L' := if swap then mol_l else mol_L in
    if nonzerob (qsum mol_L') then (st, sa', mktr false None (Ok (RTriple index (map (fun _ : Q => c_1e16) mol') 1)))
    else (st, sa', mktr false None (Ok (RTriple index (map (fun _ : Q => 0) mol') 0)))
  else (st, sa', mktr false None (Ok RNone))) = (st1, s2, t1) /\ srel k s1 s2.
Proof.
  intros K SR FM H. assert (K' : ~ k == 0) by lra.
  destruct (negb (aupdate a)); [|inversion H; subst; eauto].
  cbv zeta in *.
  rewrite (F2_zeros k mol mol' FM), (F2_const c_1e16 k mol mol' FM).
  assert (SW : forall t, qltb (nthq (map (fun _ : Q => 0) mol) t) (nthq mol' t)
                       = qltb (nthq (map (fun _ : Q => 0) mol) t) (nthq mol t)).
  { intros t. apply (qltb_zero_scale k); auto. apply nthq_zeros. apply F2_nthq; assumption. }
  assert (QS : nonzerob (qsum mol') = nonzerob (qsum mol)).
  { apply (nonzerob_scale k); auto. apply F2_qsum; assumption. }
  destruct (atop a) as [j|].
  - destruct (find_pos j index) as [t|].
    + rewrite SW. destruct (qltb (nthq (map (fun _ : Q => 0) mol) t) (nthq mol t)).
      * rewrite QS. destruct (nonzerob (qsum mol)); inversion H; subst; eauto.
      * destruct (nonzerob (qsum (map (fun _ : Q => 0) mol))); inversion H; subst; eauto.
    + destruct (nonzerob (qsum (map (fun _ : Q => 0) mol))); inversion H; subst; eauto.
  - destruct (nonzerob (qsum (map (fun _ : Q => 0) mol))); inversion H; subst; eauto.
Qed.

Theorem lle_homogeneous_lemma : forall E o st s a k st1 s1 t1, 0 < k ->
  lle_call E o st s a = (st1, s1, t1) ->
  exists s2, lle_call E o st (scale_strm k s) a = (st1, s2, t1) /\ srel k s1 s2.
Proof.
  intros E o st s a k st1 s1 t1 K0 H.
  assert (K : ~ k == 0) by lra.
  unfold lle_call in *. rewrite set_TP_scale.
  destruct (liquid_data E (set_TP s a)) as [[sa index] mol] eqn:LD.
  destruct (liquid_data_scale E k _ _ _ _ K LD) as (sa' & mol' & LD' & SR & FM).
  rewrite LD'. clear LD LD'.
  assert (S' : rsum mol' == k * rsum mol).
  { unfold rsum. rewrite !Qred_correct. apply F2_qsum; assumption. }
  rewrite (nonzerob_scale k (rsum mol) (rsum mol') K S').
  destruct (nonzerob (rsum mol)) eqn:NZ; simpl andb in *.
  - destruct (Nat.ltb 1 (length index)) eqn:LI.
    + apply nonzerob_true in NZ. rewrite (z_scale k mol mol' K FM NZ).
      set (z := vr (vdivs mol (rsum mol))) in *.
      destruct (use_cache_expr (ause_cache a) (chems_same (schems st) index) (aT a) (sT st) (tolT st) (sz st) z (tolz st)).
      * destruct (sK st) as [Kv|]; [|inversion H; subst; eauto].
        destruct (phase_fraction (o_rr o) z Kv) as [phi|e]; [|inversion H; subst; eauto].
        destruct (cached_split (Qred phi) Kv z) as [[ml mL]|e]; [|inversion H; subst; eauto].
        destruct (finish E (with_phi st (Some (Qred phi))) sa index (rsum mol) z a ml mL) as [[stf sf] rf] eqn:FN.
        destruct (finish_scale E k _ _ _ _ _ _ _ _ _ _ _ _ _ SR S' FN) as (s2 & FN' & SR').
        rewrite FN'. inversion H; subst. eauto.
      * match type of H with context [finish ?e ?x ?y ?i ?f ?zz ?aa ?l ?L] =>
          destruct (finish e x y i f zz aa l L) as [[stf sf] rf] eqn:FN end.
        destruct (finish_scale E k _ _ _ _ _ _ _ _ _ _ _ _ _ SR S' FN) as (s2 & FN' & SR').
        rewrite FN'. inversion H; subst. eauto.
    + eapply tail_scale; eauto.
  - eapply tail_scale; eauto.
Qed.

Corollary lle_homogeneous_pointwise : forall E o st s a k st1 s1 t1, 0 < k ->
  lle_call E o st s a = (st1, s1, t1) ->
  exists s2, lle_call E o st (scale_strm k s) a = (st1, s2, t1) /\
    length (m_l s2) = length (m_l s1) /\ length (m_L s2) = length (m_L s1) /\
    (forall i, nthq (m_l s2) i == k * nthq (m_l s1) i) /\
    (forall i, nthq (m_L s2) i == k * nthq (m_L s1) i) /\
    m_o s2 = m_o s1 /\ tcT s2 = tcT s1 /\ tcP s2 = tcP s1.
Proof.
  intros E o st s a k st1 s1 t1 K H.
  destruct (lle_homogeneous_lemma E o st s a k st1 s1 t1 K H) as (s2 & H2 & (A & B & C & D & G)).
  exists s2. split; [exact H2|].
  split; [eapply F2_length; eauto|]. split; [eapply F2_length; eauto|].
  split; [intros i; apply F2_nthq; assumption|]. split; [intros i; apply F2_nthq; assumption|]. auto.
Qed.

(* ------------------------------------------------------------------ equal activities for the repaired inner loop *)

Lemma set_head_ok n a e w : set_head n a e = Ok w -> w = e ++ skipn n a /\ length e = Nat.min n (length a).
Proof.
  unfold set_head. destruct (Nat.eqb (length e) (Nat.min n (length a))) eqn:L; [|discriminate].
  intros H; inversion H. apply Nat.eqb_eq in L. auto.
Qed.

Lemma nthq_firstn (l : vec) n i : (i < n)%nat -> nthq (firstn n l) i = nthq l i.
Proof.
  unfold nthq. revert l i; induction n as [|n IH]; intros l i H; [lia|].
  destruct l; simpl; [destruct i; reflexivity|]. destruct i; auto. apply IH. lia.
Qed.

Lemma nthq_app_l (a b : vec) i : (i < length a)%nat -> nthq (a ++ b) i = nthq a i.
Proof. unfold nthq. intros H. apply app_nth1. assumption. Qed.
Lemma nthq_app_r (a b : vec) i : nthq (a ++ b) (length a + i) = nthq b i.
Proof. unfold nthq. rewrite app_nth2 by lia. f_equal. lia. Qed.

Lemma qsum_pw : forall a b, length a = length b ->
  (forall i, (i < length a)%nat -> nthq a i == nthq b i) -> qsum a == qsum b.
Proof.
  induction a as [|x a IH]; intros [|y b] L H; simpl in *; try discriminate; [reflexivity|].
  rewrite (IH b); [|lia|].
  - specialize (H 0%nat ltac:(lia)). unfold nthq in H; simpl in H. rewrite H. reflexivity.
  - intros i Hi. specialize (H (S i) ltac:(lia)). exact H.
Qed.

Lemma qsum_map_div (a : vec) s : qsum (map (fun e_ => e_ / s) a) == qsum a / s.
Proof. induction a; simpl; [unfold Qdiv; ring|]. rewrite IHa. unfold Qdiv. ring. Qed.

Lemma qsum_map2_sub (f g : Q -> Q -> Q) : forall l m,
  qsum (map2 (fun a b => f a b - g a b) l m) == qsum (map2 f l m) - qsum (map2 g l m).
Proof. induction l; intros [|y m]; simpl; try ring. rewrite IHl. ring. Qed.

Lemma inner_loop_repaired_inv fexp fln gamma v z n phi w :
  length v = (n + n)%nat ->
  inner_loop_repaired fexp fln gamma v z n phi = Ok w ->
  exists x y, loop_x fexp v z n phi = Ok x /\ loop_y fexp gamma v z n phi = Ok y /\
    length (gamma x) = length (gamma y) /\ length (gamma y) = n /\
    (forall i, (i < n)%nat -> ~ nthq (gamma y) i == 0) /\
    w = map fln (map2 Qdiv (gamma x) (gamma y)) ++ gamma y.
Proof.
  intros Lv H. unfold inner_loop_repaired in H. binds H. inversion H; subst w. clear H.
  match goal with E : set_tail _ _ _ = Ok ?y |- _ => apply set_tail_ok in E; subst y end.
  match goal with E : set_head _ _ _ = Ok ?y |- _ => apply set_head_ok in E as (E & LH); subst y end.
  match goal with E1 : vdivc z _ = Ok ?a, E2 : vdivsc ?a _ = Ok ?x, E3 : vdivc (gamma ?x) (skipn n v) = Ok ?k,
                  E4 : vop2 Qmult ?k ?x = Ok ?yr, E5 : vdivsc ?yr _ = Ok ?y, E6 : vdivc (gamma ?x) (gamma ?y) = Ok ?k3 |- _ =>
    exists x, y;
    assert (LX : loop_x fexp v z n phi = Ok x) by (unfold loop_x, x_of; rewrite E1; cbn [bind]; exact E2);
    split; [exact LX|]; split;
    [ unfold loop_y; rewrite LX; cbn [bind]; rewrite E3; cbn [bind]; rewrite E4; cbn [bind]; exact E5 | ];
    apply vdivc_ok in E6 as (L6 & K3 & NZ6); subst k3
  end.
  rewrite map_length, map2_length_min in LH.
  match goal with |- length ?gx = length ?gy /\ _ => assert (LG : length gy = n) by lia end.
  split; [assumption|]. split; [exact LG|]. split; [intros i Hi; apply NZ6; lia|].
  rewrite firstn_app. rewrite map_length, map2_length_min.
  match goal with |- context [(n - ?m)%nat] => replace (n - m)%nat with O by lia end.
  simpl firstn at 2. rewrite app_nil_r. rewrite firstn_all2 by (rewrite map_length, map2_length_min; lia). reflexivity.
Qed.

Theorem repaired_fix_equal_activity_lemma : forall fexp fln gamma v z n phi w x y,
  (forall q, 0 < q -> fexp (fln q) == q) ->
  (forall a b, a == b -> fexp a == fexp b) ->
  (forall i, (i < n)%nat -> 0 < nthq (gamma x) i) ->
  (forall i, (i < n)%nat -> 0 < nthq (gamma y) i) ->
  length z = n -> length v = (n + n)%nat ->
  inner_loop_repaired fexp fln gamma v z n phi = Ok w -> veq w v ->
  rr_residual z (map fexp (firstn n v)) phi == 0 ->
  loop_x fexp v z n phi = Ok x -> loop_y fexp gamma v z n phi = Ok y ->
  (forall i, (i < n)%nat -> nthq x i * nthq (gamma x) i == nthq y i * nthq (gamma y) i) /\
  (forall i, (i < n)%nat -> fexp (nthq v i) == nthq (gamma x) i / nthq (gamma y) i).
Proof.
  intros fexp fln gamma v z n phi w x y EL EP GXP GYP Lz Lv HI [_ FIX] RR HX HY.
  destruct (inner_loop_repaired_inv _ _ _ _ _ _ _ _ Lv HI) as (x' & y' & HX' & HY' & LGG & LGY & GYNZ & W).
  rewrite HX in HX'. inversion HX'; subst x'. rewrite HY in HY'. inversion HY'; subst y'. clear HX' HY'.
  set (K := map fexp (firstn n v)) in *.
  assert (LK : length K = n) by (unfold K; rewrite map_length, firstn_length; lia).
  (* unfold the two compositions *)
  unfold loop_x, x_of in HX. fold K in HX. binds HX.
  match goal with E : vdivc z _ = Ok ?a |- _ => apply vdivc_ok in E as (LD & XR & DNZ); rename a into xr end.
  apply vdivsc_ok in HX as (Xe & SXNZ).
  rewrite !map_length in LD, DNZ.
  assert (Lxr : length xr = n).
  { subst xr. rewrite map2_length_min, !map_length. lia. }
  assert (Lx : length x = n) by (subst x; rewrite map_length; exact Lxr).
  unfold loop_y in HY. unfold loop_x, x_of in HY. fold K in HY.
  assert (HX2 : vdivc z (map (fun e_ => 1 + e_) (map (fun e_ => phi * e_) (map (fun e_ => e_ - 1) K))) = Ok xr).
  { subst xr. unfold vdivc. rewrite !map_length. replace (Nat.eqb (length z) (length K)) with true by (symmetry; apply Nat.eqb_eq; lia).
    simpl negb. cbv iota.
    destruct (existsb qzerob (map (fun e_ => 1 + e_) (map (fun e_ => phi * e_) (map (fun e_ => e_ - 1) K)))) eqn:EX; [|reflexivity].
    exfalso. apply existsb_exists in EX as (d & IN & Z). apply In_nth with (d := 0) in IN as (i & Hi & Ei).
    rewrite !map_length in Hi. apply (DNZ i Hi). unfold nthq. rewrite Ei. apply qzerob_true; assumption. }
  rewrite HX2 in HY. cbn [bind] in HY.
  assert (HX3 : vdivsc xr (qsum xr) = Ok x).
  { subst x. unfold vdivsc. destruct (qzerob (qsum xr)) eqn:Z; [|reflexivity].
    destruct xr; [reflexivity|]. exfalso. apply qzerob_true in Z. apply SXNZ; [discriminate|exact Z]. }
  rewrite HX3 in HY. cbn [bind] in HY. binds HY.
  match goal with E : vdivc (gamma x) _ = Ok ?k |- _ => apply vdivc_ok in E as (L1 & K2 & GNZ); subst k end.
  match goal with E : vop2 Qmult _ x = Ok ?yr |- _ => apply vop2_ok in E as (L2 & YR); subst yr end.
  apply vdivsc_ok in HY as (Ye & SYNZ).
  set (yr := map2 Qmult (map2 Qdiv (gamma x) (skipn n v)) x) in *.
  assert (Lsk : length (skipn n v) = n) by (rewrite skipn_length; lia).
  assert (LGX : length (gamma x) = n) by lia.
  assert (Lyr : length yr = n) by (unfold yr; rewrite !map2_length_min, LGX; lia).
  assert (Ly : length y = n) by (subst y; rewrite map_length; exact Lyr).
  (* pointwise facts *)
  assert (Ki : forall i, (i < n)%nat -> nthq K i = fexp (nthq v i)).
  { intros i Hi. unfold K. rewrite nthq_map_default by (rewrite firstn_length; lia). rewrite nthq_firstn by lia. reflexivity. }
  assert (Di : forall i, (i < n)%nat -> ~ 1 + phi * (nthq K i - 1) == 0).
  { intros i Hi. specialize (DNZ i ltac:(lia)).
    rewrite nthq_map_default in DNZ by (rewrite !map_length; lia).
    rewrite nthq_map_default in DNZ by (rewrite !map_length; lia).
    rewrite nthq_map_default in DNZ by lia. exact DNZ. }
  assert (XRi : forall i, (i < n)%nat -> nthq xr i == nthq z i / (1 + phi * (nthq K i - 1))).
  { intros i Hi. subst xr. rewrite nthq_map2 by (rewrite ?map_length; lia).
    rewrite nthq_map_default by (rewrite !map_length; lia).
    rewrite nthq_map_default by (rewrite !map_length; lia).
    rewrite nthq_map_default by lia. reflexivity. }
  assert (Xi : forall i, (i < n)%nat -> nthq x i == nthq xr i / qsum xr).
  { intros i Hi. subst x. rewrite nthq_map_default by lia. reflexivity. }
  (* the fixed point *)
  assert (GY : forall i, (i < n)%nat -> nthq (skipn n v) i == nthq (gamma y) i).
  { intros i Hi. rewrite nthq_skipn. rewrite <- (FIX (n + i)%nat). rewrite W.
    replace n with (length (map fln (map2 Qdiv (gamma x) (gamma y)))) at 1
      by (rewrite map_length, map2_length_min; lia).
    rewrite nthq_app_r. reflexivity. }
  assert (KE : forall i, (i < n)%nat -> nthq K i == nthq (gamma x) i / nthq (gamma y) i).
  { intros i Hi. rewrite Ki by assumption.
    assert (F1 : fln (nthq (gamma x) i / nthq (gamma y) i) == nthq v i).
    { rewrite <- (FIX i). rewrite W. rewrite nthq_app_l by (rewrite map_length, map2_length_min; lia).
      rewrite nthq_map_default by (rewrite map2_length_min; lia). rewrite nthq_map2 by lia. reflexivity. }
    rewrite <- (EP _ _ F1). apply EL.
    specialize (GXP i Hi). specialize (GYP i Hi).
    apply Qlt_shift_div_l; [assumption|]. lra. }
  (* sums *)
  set (A := map2 (fun zi k => k * (zi / (1 + phi * (k - 1)))) z K).
  set (B := map2 (fun zi k => zi / (1 + phi * (k - 1))) z K).
  assert (LA : length A = n) by (unfold A; rewrite map2_length_min; lia).
  assert (LB : length B = n) by (unfold B; rewrite map2_length_min; lia).
  assert (SB : qsum xr == qsum B).
  { apply qsum_pw; [lia|]. intros i Hi. rewrite XRi by lia. unfold B. rewrite nthq_map2 by lia. reflexivity. }
  assert (SAB : qsum A == qsum B).
  { assert (R2 : rr_residual z K phi == qsum A - qsum B).
    { unfold rr_residual, A, B. rewrite <- qsum_map2_sub. apply qsum_pw; [rewrite !map2_length_min; lia|].
      intros i Hi. rewrite map2_length_min in Hi. rewrite !nthq_map2 by lia. field. apply Di. lia. }
    rewrite R2 in RR. lra. }
  assert (n0 : forall i, (i < n)%nat -> xr <> []) by (intros i Hi Z; rewrite Z in Lxr; simpl in Lxr; lia).
  assert (SY : forall i, (i < n)%nat -> qsum yr == 1).
  { intros i0 Hi0. assert (SX0 : ~ qsum xr == 0) by (apply SXNZ; eapply n0; eauto).
    assert (P : qsum yr == qsum (map (fun e_ => e_ / qsum xr) A)).
    { apply qsum_pw; [rewrite map_length; lia|]. intros i Hi. rewrite Lyr in Hi.
      unfold yr. rewrite nthq_map2 by (rewrite ?map2_length_min, ?LGX; lia). rewrite nthq_map2 by (rewrite ?LGX; lia).
      rewrite nthq_map_default by lia. unfold A. rewrite nthq_map2 by lia.
      rewrite (GY i Hi). rewrite <- (KE i Hi). rewrite (Xi i Hi), (XRi i Hi). field. split; [apply Di; assumption|assumption]. }
    rewrite P, qsum_map_div, SAB, <- SB. field. assumption. }
  split.
  - intros i Hi. specialize (SY i Hi).
    assert (S0 : ~ qsum yr == 0) by lra.
    assert (G0 : ~ nthq (skipn n v) i == 0) by (apply GNZ; lia).
    assert (Yi : nthq y i == nthq (gamma x) i / nthq (skipn n v) i * nthq x i / qsum yr).
    { subst y. rewrite nthq_map_default by lia. unfold yr.
      rewrite nthq_map2 by (rewrite ?map2_length_min, ?LGX; lia).
      rewrite nthq_map2 by (rewrite ?LGX; lia). reflexivity. }
    rewrite Yi, SY. rewrite <- (GY i Hi). field. assumption.
  - intros i Hi. rewrite <- Ki by assumption. apply KE; assumption.
Qed.

(* a non-trivial exact fixed point of the repaired loop: z = (1/2,1/2), K = (3,1/3), phi = 1/2, gamma(w) = (4 w2, 4 w1) *)
Definition vR : vec := [2; -(2 # 3); 1; 3].
Definition zR : vec := [1 # 2; 1 # 2].
Definition wR := getv (inner_loop_repaired fexpW flnW gammaW vR zR 2 (1 # 2)).
Definition xR := getv (loop_x fexpW vR zR 2 (1 # 2)).
Definition yR := getv (loop_y fexpW gammaW vR zR 2 (1 # 2)).
Lemma repaired_witness_facts :
  inner_loop_repaired fexpW flnW gammaW vR zR 2 (1 # 2) = Ok wR /\ veq wR vR /\
  rr_residual zR (map fexpW (firstn 2 vR)) (1 # 2) == 0 /\
  loop_x fexpW vR zR 2 (1 # 2) = Ok xR /\ loop_y fexpW gammaW vR zR 2 (1 # 2) = Ok yR /\
  (forall i, (i < 2)%nat -> 0 < nthq (gammaW xR) i) /\ (forall i, (i < 2)%nat -> 0 < nthq (gammaW yR) i) /\
  ~ nthq xR 0 == nthq yR 0.
Proof.
  split. { vm_compute. reflexivity. }
  split. { split; [vm_compute; reflexivity|]. intros i.
           do 4 (destruct i as [|i]; [vm_compute; reflexivity|]). vm_compute. destruct i; reflexivity. }
  split. { vm_compute. reflexivity. }
  split. { vm_compute. reflexivity. }
  split. { vm_compute. reflexivity. }
  split. { intros i Hi. destruct i as [|[|i]]; [vm_compute; reflexivity|vm_compute; reflexivity|lia]. }
  split. { intros i Hi. destruct i as [|[|i]]; [vm_compute; reflexivity|vm_compute; reflexivity|lia]. }
  vm_compute. discriminate.
Qed.

(* ------------------------------------------------------------------ the remembered K and its key change together *)

(* what the cache decision of the NEXT call reads: the remembered K together with the T, z and chemicals it belongs to *)
Definition cache_key (st : lle_st) : option vec * Q * vec * option (list nat) := (sK st, sT st, sz st, schems st).

(* the remembered K of a state is the one computed from the split (l', L') *)
Definition fresh_key (st' : lle_st) (T : Q) (z : vec) (index : list nat) : Prop :=
  sT st' = T /\ sz st' = z /\ schems st' = Some index /\
  exists l' L', sK st' = Some (fst (stored_K_phi l' L')) /\ sphi st' = Some (snd (stored_K_phi l' L')).

Lemma finish_fresh E st s1 index F z a ml mL st' s' r :
  finish E st s1 index F z a ml mL = (st', s', r) -> fresh_key st' (aT a) z index.
Proof.
  unfold finish. destruct (swap_top E index (atop a) ml mL) as [l L].
  destruct (stored_K_phi l L) as [K' phi'] eqn:SK.
  destruct (aupdate a); intros H; inversion H; subst; unfold fresh_key; simpl;
    repeat split; auto; exists l, L; rewrite SK; auto.
Qed.

(* every call, with or without update, with or without reuse, raising or not: either K and its key are all left as they
   were, or all of them are replaced by the values of THIS call (its T, its normalised feed, its chemicals, the K of its split) *)
Theorem key_consistent_lemma : forall E o st s a st' s' t s1 index mol F z,
  lle_call E o st s a = (st', s', t) ->
  call_data E s a = (s1, index, mol, F, z) ->
  cache_key st' = cache_key st \/ fresh_key st' (aT a) z index.
Proof.
  intros E o st s a st' s' t s1 index mol F z HC HD.
  unfold call_data in HD. unfold lle_call in HC.
  destruct (liquid_data E (set_TP s a)) as [[s1' index'] mol'] eqn:LD.
  inversion HD; subst s1' index' F z. clear HD. subst mol'.
  destruct (nonzerob (rsum mol) && Nat.ltb 1 (length index)).
  - destruct (use_cache_expr _ _ _ _ _ _ _ _).
    + destruct (sK st) as [K|] eqn:SK; [|inversion HC; subst; left; reflexivity].
      destruct (phase_fraction _ _ K) as [phi|e]; [|inversion HC; subst; left; reflexivity].
      destruct (cached_split _ K _) as [[ml mL]|e].
      * match type of HC with context [finish ?e ?x ?y ?i ?f ?zz ?aa ?l ?L] =>
          destruct (finish e x y i f zz aa l L) as [[st2 s2] r] eqn:FN end.
        inversion HC; subst. right. eapply finish_fresh; eauto.
      * inversion HC; subst. left. unfold cache_key, with_phi; simpl. rewrite SK. reflexivity.
    + match type of HC with context [finish ?e ?x ?y ?i ?f ?zz ?aa ?l ?L] =>
        destruct (finish e x y i f zz aa l L) as [[st2 s2] r] eqn:FN end.
      inversion HC; subst. right. eapply finish_fresh; eauto.
  - destruct (negb (aupdate a)).
    + match type of HC with context [if ?c then _ else _] => destruct c end; inversion HC; subst; left; reflexivity.
    + inversion HC; subst; left; reflexivity.
Qed.

(* and the reuse decision of a call reads exactly that key *)
Theorem reuse_only_of_latest_lemma : forall E o st1 s a st2 s2 t sA index mol F z T1 z1 idx1,
  fresh_key st1 T1 z1 idx1 ->
  lle_call E o st1 s a = (st2, s2, t) ->
  call_data E s a = (sA, index, mol, F, z) ->
  t_used_cache t = true ->
  index = idx1 /\ Qabs (aT a - T1) < tolT st1 /\
  (forall i, (i < length z1)%nat -> (i < length z)%nat -> Qabs (nthq z1 i - nthq z i) < tolz st1) /\
  exists l' L', sK st1 = Some (fst (stored_K_phi l' L')).
Proof.
  intros E o st1 s a st2 s2 t sA index mol F z T1 z1 idx1 (FT & FZ & FC & l' & L' & FK & _) HC HD HU.
  destruct (use_cache_sound_lemma _ _ _ _ _ _ _ _ _ _ _ _ _ HC HD HU) as (_ & SC & TT & ZZ & _).
  rewrite FC in SC. inversion SC; subst idx1. rewrite FT in TT. rewrite FZ in ZZ.
  repeat split; auto. eauto.
Qed.

(* a call with a given solubility does not depend on what the solver did before: for every state it applies
   _update_solubility over all chemicals to the flows as they are, and returns normally whenever that does *)
Theorem sle_given_spec_lemma : forall V o st s si T P x st' s' r,
  sle_call V o st s (mksargs (Some si) (Some T) false P (Some x)) = (st', s', r) ->
  match update_solubility si SAll (nthq (q_s s) si + nthq (q_l s) si) (q_l s) (q_s s) x with
  | Ok ls => r = Ok tt /\ q_l s' = fst ls /\ q_s s' = snd ls
  | Err e => r = Err e /\ q_l s' = q_l s /\ q_s s' = q_s s
  end /\ q_T s' = T.
Proof.
  intros V o st s si T P x st' s' r H. unfold sle_call in H. simpl in H.
  destruct (update_solubility si SAll (nthq (q_s s) si + nthq (q_l s) si) (q_l s) (q_s s) x) as [ls|e];
    inversion H; subst; simpl; auto.
Qed.

(* ------------------------------------------------------------------ SLE: what is remembered between calls, history independence *)

Definition lle_present (V : senv) (nz : list nat) : list nat :=
  filter (fun i => existsb (Nat.eqb i) nz) (s_lle_index V).

(* what the solver remembers between calls is consistent: a remembered set of chemicals comes with the list index built
   for it (never the all-chemicals slice of a given-solubility call) and is only remembered for mixtures *)
Definition sst_wf (V : senv) (st : sle_st) : Prop :=
  forall nz, e_nonzero st = Some nz ->
    e_index st = SList (lle_present V nz) /\ length (lle_present V nz) <> 1%nat.

Lemma sst_init_wf V act : sst_wf V (sst_init act).
Proof. intros nz H; discriminate. Qed.

Lemma opt_idx_eqb_eq a nz : opt_eqb idx_eqb a (Some nz) = true -> a = Some nz.
Proof. destruct a as [l|]; simpl; [|discriminate]. intros H. apply idx_eqb_eq in H. congruence. Qed.

Lemma sle_setup_wf V st nz si st' ok : sst_wf V st -> sle_setup V st nz si = (st', ok) -> sst_wf V st'.
Proof.
  intros WF H. unfold sle_setup in H. fold (lle_present V nz) in H.
  destruct (opt_eqb idx_eqb (e_nonzero st) (Some nz)).
  - destruct (e_index st) as [|l] eqn:EI; [|destruct (find_pos si l)]; inversion H; subst;
      intros nz' HN; simpl in *; rewrite ?EI; destruct (WF nz' HN) as [A B]; rewrite EI in A; auto.
  - destruct (Nat.eqb (length (lle_present V nz)) 1) eqn:N.
    + inversion H; subst. intros nz' HN; simpl in *. apply WF; assumption.
    + apply Nat.eqb_neq in N.
      destruct (find_pos si (lle_present V nz)); inversion H; subst; intros nz' HN; simpl in *;
        inversion HN; subst; auto.
Qed.

Theorem sle_call_wf_lemma : forall V o st s a st' s' r,
  sst_wf V st -> sle_call V o st s a = (st', s', r) -> sst_wf V st'.
Proof.
  intros V o st s a st' s' r WF H. unfold sle_call in H.
  destruct (sa_solute a) as [si|]; [|inversion H; subst; exact WF].
  destruct (sa_T a) as [T|], (sa_H a); try (inversion H; subst; exact WF).
  destruct (sa_sol a) as [x|].
  - assert (W1 : sst_wf V (mksst None SAll (e_chemical st) (e_sgi st) true (e_act st))) by (intros nz HN; discriminate).
    match type of H with context [update_solubility ?a1 ?a2 ?a3 ?a4 ?a5 ?a6] =>
      destruct (update_solubility a1 a2 a3 a4 a5 a6) end; inversion H; subst; exact W1.
  - cbv zeta in H.
    assert (W1 : sst_wf V (mksst (e_nonzero st) (e_index st) (e_chemical st) (e_sgi st) true (e_act st))) by exact WF.
    match type of H with context [if qzerob ?m then _ else _] => destruct (qzerob m) end; [inversion H; subst; exact W1|].
    match type of H with context [sle_setup ?v ?s0 ?nz ?i] => destruct (sle_setup v s0 nz i) as [st1 ok] eqn:SU end.
    pose proof (sle_setup_wf _ _ _ _ _ _ W1 SU) as W2.
    destruct ok; [|inversion H; subst; exact W2].
    destruct (e_chemical st1) as [c|].
    + destruct (opt_nth (s_tm V) c); [|inversion H; subst; exact W2].
      match type of H with context [if ?c then _ else _] => destruct c end; inversion H; subst; exact W2.
    + match type of H with context [solve_x ?a1 ?a2 ?a3 ?a4 ?a5 ?a6 ?a7] =>
        destruct (solve_x a1 a2 a3 a4 a5 a6 a7) as [ls1 [x|e]] end; [|inversion H; subst; exact W2].
      match type of H with context [update_solubility ?a1 ?a2 ?a3 ?a4 ?a5 ?a6] =>
        destruct (update_solubility a1 a2 a3 a4 a5 a6) end; inversion H; subst; exact W2.
Qed.

Fixpoint srun (V : senv) (p : sle_st * sstrm) (ops : list sop) : sle_st * sstrm :=
  match ops with
  | [] => p
  | op :: rest => let '(st', s', _) := sstep V p op in srun V (st', s') rest
  end.

Theorem srun_wf_lemma : forall V ops st s, sst_wf V st -> sst_wf V (fst (srun V (st, s) ops)).
Proof.
  intros V ops. induction ops as [|op ops IH]; intros st s WF; simpl; [exact WF|].
  destruct op as [a o|l sd|act]; simpl.
  - destruct (sle_call V o st s a) as [[st2 s2] r2] eqn:SC. apply IH. eapply sle_call_wf_lemma; eauto.
  - apply IH; exact WF.
  - apply IH. apply sst_init_wf.
Qed.

(* the set-up of a call from any consistent remembered state agrees with the set-up on a new solver object *)
Lemma sle_setup_fresh V st nz si st1 ok b : sst_wf V st ->
  sle_setup V st nz si = (st1, ok) ->
  exists st2, sle_setup V (mksst None (SList []) None None b (e_act st)) nz si = (st2, ok) /\
    e_chemical st2 = e_chemical st1 /\ (e_chemical st1 = None -> ok = true -> st2 = st1).
Proof.
  intros WF H. unfold sle_setup in *. fold (lle_present V nz) in *. simpl.
  destruct (opt_eqb idx_eqb (e_nonzero st) (Some nz)) eqn:SH.
  - apply opt_idx_eqb_eq in SH. destruct (WF nz SH) as [EI N1]. rewrite EI in H.
    apply Nat.eqb_neq in N1. rewrite N1.
    destruct (find_pos si (lle_present V nz)) as [p|]; inversion H; subst; eexists; (split; [reflexivity|]); simpl.
    + split; auto. intros _ _. rewrite ?SH, ?EI. reflexivity.
    + split; auto. intros _ D; discriminate.
  - destruct (Nat.eqb (length (lle_present V nz)) 1).
    + inversion H; subst. eexists; split; [reflexivity|]. simpl. split; auto. intros D; discriminate.
    + destruct (find_pos si (lle_present V nz)); inversion H; subst; eexists; (split; [reflexivity|]); simpl; split; auto.
      intros _ D; discriminate.
Qed.

(* a computed-solubility call gives the same flows and the same outcome whatever calls were made before on this solver *)
Theorem sle_history_independent_lemma : forall V o st s a st' s' r,
  sst_wf V st -> sa_sol a = None ->
  sle_call V o st s a = (st', s', r) ->
  exists st'', sle_call V o (sst_init (e_act st)) s a = (st'', s', r).
Proof.
  intros V o st s a st' s' r WF NS H. unfold sle_call in *. rewrite NS in *.
  destruct (sa_solute a) as [si|]; [|inversion H; subst; eauto].
  destruct (sa_T a) as [T|], (sa_H a); try (inversion H; subst; eauto; fail).
  cbv zeta in *.
  match type of H with context [if qzerob ?m then _ else _] => destruct (qzerob m) end; [inversion H; subst; eauto|].
  match type of H with context [sle_setup ?v ?s0 ?nz ?i] =>
    set (nzv := nz) in *; destruct (sle_setup v s0 nzv i) as [st1 ok] eqn:SU end.
  assert (W1 : sst_wf V (mksst (e_nonzero st) (e_index st) (e_chemical st) (e_sgi st) true (e_act st))) by exact WF.
  destruct (sle_setup_fresh _ _ _ _ _ _ true W1 SU) as (st2 & SU2 & CH & EQ).
  cbn [e_nonzero e_index e_chemical e_sgi e_act sst_init] in *.
  rewrite SU2.
  destruct ok; [|inversion H; subst; eauto].
  rewrite CH. destruct (e_chemical st1) as [c|] eqn:EC.
  - destruct (opt_nth (s_tm V) c); [|inversion H; subst; eauto].
    match type of H with context [if ?c then _ else _] => destruct c end; inversion H; subst; eauto.
  - rewrite (EQ eq_refl eq_refl). eauto.
Qed.

(* ------------------------------------------------------------------ the class-level cache of activity-coefficient models *)

(* the cache key identifies the ordered list of chemicals (this is the lemma that fails when the key forgets the order) *)
Lemma gamma_key_sound a b : gamma_key_eqb a b = true -> a = b.
Proof. unfold gamma_key_eqb. apply idx_eqb_eq. Qed.

Lemma gfind_sound key c k0 k o : gfind key c k0 = Some (k, o) -> o = key.
Proof.
  revert k0. induction c as [|x c IH]; intros k0 H; simpl in H; [discriminate|].
  destruct (gamma_key_eqb key x) eqn:E.
  - inversion H; subst. symmetry. apply gamma_key_sound; assumption.
  - eapply IH; eauto.
Qed.

Theorem gamma_request_order_lemma : forall hg c chems c' r,
  gamma_request hg c chems = (c', r) -> gres_order r = chems.
Proof.
  intros hg c chems c' r H. unfold gamma_request in H.
  destruct (gfind chems c 0) as [[k o]|] eqn:F.
  - inversion H; subst. simpl. eapply gfind_sound; eauto.
  - destruct (Nat.leb _ 1); inversion H; subst; reflexivity.
Qed.

(* for every history of requests (from any package, any stream): the model object handed out is built for the order asked for *)
Theorem gamma_run_order_lemma : forall hg reqs c,
  map gres_order (gamma_run hg c reqs) = reqs.
Proof.
  intros hg reqs. induction reqs as [|r reqs IH]; intros c; simpl; [reflexivity|].
  destruct (gamma_request hg c r) as [c' g] eqn:R. simpl. f_equal.
  - eapply gamma_request_order_lemma; eauto.
  - apply IH.
Qed.
