(* C15 -- property theorems only.  Each is closed by [exact <lemma>] and followed by Print Assumptions.
   Gen_kernels.v (required through Model) is regenerated from the source on every run. *)
From V Require Import Common.NumFacts C15.Model C15.Proofs.
Open Scope Q_scope.

(* ---- never the equilibrium of an earlier temperature or composition ----
   If a call reuses the remembered partition coefficients, then reuse was allowed, the chemicals in
   equilibrium are the remembered ones, |T - T_last| < tol_T and |z_last,i - z_i| < tol_z for every i, where z
   is the normalised CURRENT feed; and the solver was not consulted. *)
Theorem C15_use_cache_sound : forall E o st s a st' s' t s1 index mol F z,
  lle_call E o st s a = (st', s', t) ->
  call_data E s a = (s1, index, mol, F, z) ->
  t_used_cache t = true ->
  ause_cache a = true /\ schems st = Some index /\
  Qabs (aT a - sT st) < tolT st /\
  (forall i, (i < length (sz st))%nat -> (i < length z)%nat -> Qabs (nthq (sz st) i - nthq z i) < tolz st) /\
  t_solver_in t = None.
Proof. exact use_cache_sound_lemma. Qed.
Print Assumptions C15_use_cache_sound.

(* when the solver runs it is given the current normalised feed, the current T and the current chemicals *)
Theorem C15_solver_sees_current : forall E o st s a st' s' t s1 index mol F z sin,
  lle_call E o st s a = (st', s', t) ->
  call_data E s a = (s1, index, mol, F, z) ->
  t_solver_in t = Some sin ->
  iz sin = z /\ iT sin = aT a /\ iidx sin = index /\ t_used_cache t = false.
Proof. exact solver_sees_current_lemma. Qed.
Print Assumptions C15_solver_sees_current.

(* the cached branch: phase fraction and split are computed from the CURRENT z with the stored K ... *)
Theorem C15_cached_branch_consistent : forall E o st s a st' s' t s1 index mol F z v,
  lle_call E o st s a = (st', s', t) ->
  call_data E s a = (s1, index, mol, F, z) ->
  t_used_cache t = true -> t_ret t = Ok v ->
  exists K phi ml mL,
    sK st = Some K /\ phase_fraction (o_rr o) z K = Ok phi /\
    cached_split (Qred phi) K z = Ok (ml, mL) /\
    finish E (with_phi st (Some (Qred phi))) s1 index F z a ml mL = (st', s', Ok v).
Proof. exact cached_branch_lemma. Qed.
Print Assumptions C15_cached_branch_consistent.

(* ... and that split is the Rachford-Rice split: y_i = z_i K_i / (phi K_i + 1 - phi), one phase gets phi*y, the other the rest *)
Theorem C15_cached_split_is_RR : forall phi K z ml mL, cached_split phi K z = Ok (ml, mL) ->
  (1 <= phi -> ml = z /\ mL = vscale 0 z) /\
  (phi < 1 -> length K = length z /\
     forall i, (i < length z)%nat ->
       ~ phi * nthq K i + (1 - phi) == 0 /\
       nthq ml i == nthq z i * nthq K i / (phi * nthq K i + (1 - phi)) * phi /\
       nthq mL i == nthq z i - nthq ml i).
Proof. exact cached_split_spec. Qed.
Print Assumptions C15_cached_split_is_RR.

(* for every history of calls, flow changes and cache resets: the remembered composition has the length of the
   remembered chemicals and the remembered K exists (so the comparisons of C15_use_cache_sound cover every component) *)
Theorem C15_state_wf_history : forall E ops st s,
  st_wf st -> st_wf (fst (fst (lrun E (st, s) ops))).
Proof. exact lrun_wf. Qed.
Print Assumptions C15_state_wf_history.

(* every call -- with or without update (a K-value query), with or without reuse, returning or raising -- either leaves the
   remembered K and the T, z, chemicals it belongs to all untouched, or replaces all of them by the values of this call *)
Theorem C15_key_consistent : forall E o st s a st' s' t s1 index mol F z,
  lle_call E o st s a = (st', s', t) ->
  call_data E s a = (s1, index, mol, F, z) ->
  cache_key st' = cache_key st \/ fresh_key st' (aT a) z index.
Proof. exact key_consistent_lemma. Qed.
Print Assumptions C15_key_consistent.

(* hence a later call that reuses K does so only within the tolerances of the call that computed that K *)
Theorem C15_reuse_only_of_latest : forall E o st1 s a st2 s2 t sA index mol F z T1 z1 idx1,
  fresh_key st1 T1 z1 idx1 ->
  lle_call E o st1 s a = (st2, s2, t) ->
  call_data E s a = (sA, index, mol, F, z) ->
  t_used_cache t = true ->
  index = idx1 /\ Qabs (aT a - T1) < tolT st1 /\
  (forall i, (i < length z1)%nat -> (i < length z)%nat -> Qabs (nthq z1 i - nthq z i) < tolz st1) /\
  exists l' L', sK st1 = Some (fst (stored_K_phi l' L')).
Proof. exact reuse_only_of_latest_lemma. Qed.
Print Assumptions C15_reuse_only_of_latest.

(* ---- labelling: after the top_chemical logic the two liquids are the given ones, possibly exchanged; the top
   chemical's mass fraction in 'L' is at least that in 'l' when both are non-empty; a single liquid is in 'L' *)
Theorem C15_top_label : forall E index top ml mL l' L',
  swap_top E index top ml mL = (l', L') ->
  ((l', L') = (ml, mL) \/ (l', L') = (mL, ml)) /\
  forall j t, top = Some j -> find_pos j index = Some t ->
    let MW := pick (mw E) index in
    let Ml' := qsum (vmul l' MW) in
    let ML' := qsum (vmul L' MW) in
    (~ Ml' == 0 -> ~ ML' == 0 -> nthq (vmul l' MW) t / Ml' <= nthq (vmul L' MW) t / ML') /\
    (ML' == 0 -> Ml' == 0).
Proof. exact top_label_lemma. Qed.
Print Assumptions C15_top_label.

(* ---- equal activities at a fixed point of the iteration ---- *)
(* full statement: at an exact fixed point of psuedo_equilibrium_inner_loop that also satisfies the phase-fraction
   (Rachford-Rice) equation, every chemical has the same activity in the two liquids of the iteration *)
Definition lle_fix_equal_activity_statement : Prop :=
  forall (fexp fln : Q -> Q) (gamma : vec -> vec) (v z : vec) (n : nat) (phi : Q) (w x y : vec),
    (forall q, 0 < q -> fexp (fln q) == q) ->
    length z = n -> length v = (n + n)%nat ->
    inner_loop fexp fln gamma v z n phi = Ok w -> veq w v ->
    rr_residual z (map fexp (firstn n v)) phi == 0 ->
    loop_x fexp v z n phi = Ok x -> loop_y fexp gamma v z n phi = Ok y ->
    forall i, (i < n)%nat -> nthq x i * nthq (gamma x) i == nthq y i * nthq (gamma y) i.

(* refuted by the source as written (lle.py:65-66 store log K into the gamma block and never update K):
   z = (2/5, 3/5), K = (3, 1/2), phi = 1/2, gamma(w) = (4 w2, 4 w1), gamma_y = (1, 3) is a fixed point with
   activities 16/25 in one liquid and 3/4 in the other *)
Theorem C15_lle_fix_equal_activity_refuted : ~ lle_fix_equal_activity_statement.
Proof.
  intros S. destruct witness_facts as (A & B & C & D & X & Y & N).
  apply N. exact (S fexpW flnW gammaW vW zW 2%nat (1 # 2) wW xW yW A eq_refl eq_refl B C D X Y 0%nat ltac:(auto)).
Qed.
Print Assumptions C15_lle_fix_equal_activity_refuted.

(* the cause, for every input: one pass never changes the log K block *)
Theorem C15_inner_loop_keeps_logK : forall fexp fln gamma v z n phi w,
  (n <= length v)%nat ->
  inner_loop fexp fln gamma v z n phi = Ok w ->
  firstn n w = firstn n v.
Proof. exact inner_loop_keeps_logK_lemma. Qed.
Print Assumptions C15_inner_loop_keeps_logK.

(* what holds for the source as written: the activities are proportional, with one free factor c.
   Missing for the full statement: c = 1, which needs K to be updated to gamma_x/gamma_y (it is not). *)
Theorem C15_lle_fix_equal_activity_partial : forall fexp fln gamma v z n phi w x y,
  length z = n -> length v = (n + n)%nat ->
  (forall u, length (gamma u) = length u) ->
  inner_loop fexp fln gamma v z n phi = Ok w -> veq w v ->
  loop_x fexp v z n phi = Ok x -> loop_y fexp gamma v z n phi = Ok y ->
  exists c, forall i, (i < n)%nat -> nthq x i * nthq (gamma x) i == c * (nthq y i * nthq (gamma y) i).
Proof. exact inner_fix_proportional_lemma. Qed.
Print Assumptions C15_lle_fix_equal_activity_partial.

(* ---- flows proportional to the feed ---- *)
(* scaling both liquid rows by k > 0: the same stored state, the same trace (cache decision, solver arguments, return
   value or exception), every other phase, T and P untouched, and k times the flows in l and L *)
Theorem C15_lle_homogeneous : forall E o st s a k st1 s1 t1, 0 < k ->
  lle_call E o st s a = (st1, s1, t1) ->
  exists s2, lle_call E o st (scale_strm k s) a = (st1, s2, t1) /\
    length (m_l s2) = length (m_l s1) /\ length (m_L s2) = length (m_L s1) /\
    (forall i, nthq (m_l s2) i == k * nthq (m_l s1) i) /\
    (forall i, nthq (m_L s2) i == k * nthq (m_L s1) i) /\
    m_o s2 = m_o s1 /\ tcT s2 = tcT s1 /\ tcP s2 = tcP s1.
Proof. exact lle_homogeneous_pointwise. Qed.
Print Assumptions C15_lle_homogeneous.

(* the normalised feed is the identical canonical vector for k*mol and mol *)
Theorem C15_lle_z_scale_invariant : forall k mol, ~ k == 0 -> ~ qsum mol == 0 ->
  vr (vdivs (map (Qmult k) mol) (rsum (map (Qmult k) mol))) = vr (vdivs mol (rsum mol)).
Proof. exact z_scale_invariant_lemma. Qed.
Print Assumptions C15_lle_z_scale_invariant.

(* ---- the positive counterpart of the refuted statement ----
   for the REPAIRED map (Model.inner_loop_repaired: log K goes to the first block, which the LLE doctest forbids to apply),
   the full statement holds: an exact fixed point that satisfies the Rachford-Rice equation has equal activities in the
   two liquids, and its K is gamma_x / gamma_y *)
Theorem C15_lle_repaired_fix_equal_activity : forall fexp fln gamma v z n phi w x y,
  (forall q, 0 < q -> fexp (fln q) == q) ->
  (forall a b, a == b -> fexp a == fexp b) ->
  (forall i, (i < n)%nat -> 0 < nthq (gamma x) i) ->
  (forall i, (i < n)%nat -> 0 < nthq (gamma y) i) ->
  length z = n -> length v = (n + n)%nat ->
  inner_loop_repaired fexp fln gamma v z n phi = Ok w -> veq w v ->
  rr_residual z (map fexp (firstn n v)) phi == 0 ->
  loop_x fexp v z n phi = Ok x -> loop_y fexp gamma v z n phi = Ok y ->
  (forall i, (i < n)%nat -> nthq x i * nthq (gamma x) i == nthq y i * nthq (gamma y) i) /\
  (forall i, (i < n)%nat -> fexp (nthq v i) == nthq (gamma x) i / nthq (gamma y) i).
Proof. exact repaired_fix_equal_activity_lemma. Qed.
Print Assumptions C15_lle_repaired_fix_equal_activity.

(* its hypotheses are met by a non-trivial fixed point (two different liquids) *)
Example C15_repaired_fixed_point_reachable :
  inner_loop_repaired fexpW flnW gammaW vR zR 2 (1 # 2) = Ok wR /\ veq wR vR /\
  rr_residual zR (map fexpW (firstn 2 vR)) (1 # 2) == 0 /\
  loop_x fexpW vR zR 2 (1 # 2) = Ok xR /\ loop_y fexpW gammaW vR zR 2 (1 # 2) = Ok yR /\
  (forall i, (i < 2)%nat -> 0 < nthq (gammaW xR) i) /\ (forall i, (i < 2)%nat -> 0 < nthq (gammaW yR) i) /\
  ~ nthq xR 0 == nthq yR 0.
Proof. exact repaired_witness_facts. Qed.

(* ---- the activity-coefficient model handed to LLE / SLE ----
   thermo.Gamma(chemicals) keeps one object per key in a class-level cache.  For every history of requests the object
   returned is built for exactly the order of chemicals asked for, so gamma_i is attributed to chemical i of the caller
   (the key equality is translated from activity_coefficients.py on every run) *)
Theorem C15_gamma_request_order : forall hg c chems c' r,
  gamma_request hg c chems = (c', r) -> gres_order r = chems.
Proof. exact gamma_request_order_lemma. Qed.
Print Assumptions C15_gamma_request_order.

Theorem C15_gamma_history_order : forall hg reqs c, map gres_order (gamma_run hg c reqs) = reqs.
Proof. exact gamma_run_order_lemma. Qed.
Print Assumptions C15_gamma_history_order.

Example C15_gamma_cache_reachable :
  gamma_run (fun i => negb (Nat.eqb i 3)) [] [[0; 1]; [1; 0]; [0; 1]; [3; 0]]%nat
  = [GGroup 0 [0; 1]; GGroup 1 [1; 0]; GGroup 0 [0; 1]; GIdeal [3; 0]]%nat.
Proof. vm_compute. reflexivity. Qed.

(* ---- SLE ---- *)
(* a call moves only the named solute (and nothing at all when the solute is unknown) *)
Theorem C15_sle_only_solute_moves : forall V o st s a st' s' r,
  aitken_frame o ->            (* flexsolve touches the arrays only by evaluating SLE._x_iter *)
  sle_call V o st s a = (st', s', r) ->
  match sa_solute a with
  | None => s' = s
  | Some si => same_except si s s'
  end.
Proof. exact sle_only_solute_moves_lemma. Qed.
Print Assumptions C15_sle_only_solute_moves.

(* SLE._update_solubility (generated from the source): x < 0 all solid; x >= x_max all liquid; otherwise
   liquid = F x / (1 - x); solute conserved; never more than present; liquid mole fraction never above x *)
Theorem C15_sle_bounds : forall si idx m l s x l' s',
  (si < length l)%nat -> (si < length s)%nat ->
  update_solubility si idx m l s x = Ok (l', s') ->
  let Fm := solvent_mol idx l si in
  ~ Fm + m == 0 /\
  (x < 0 -> nthq l' si == 0 /\ nthq s' si == m) /\
  (0 <= x -> m / (Fm + m) <= x -> nthq l' si == m /\ nthq s' si == 0) /\
  (0 <= x -> x < m / (Fm + m) -> ~ 1 - x == 0 /\ nthq l' si == Fm * x / (1 - x) /\ nthq s' si == m - nthq l' si) /\
  nthq l' si + nthq s' si == m /\
  (0 < m -> 0 <= Fm -> 0 <= nthq l' si <= m /\ (0 <= x -> nthq l' si <= x * (Fm + nthq l' si))).
Proof. exact sle_bounds_lemma. Qed.
Print Assumptions C15_sle_bounds.

Theorem C15_sle_update_frame : forall si idx m l s x l' s',
  update_solubility si idx m l s x = Ok (l', s') ->
  length l' = length l /\ length s' = length s /\
  forall j, j <> si -> nthq l' j = nthq l j /\ nthq s' j = nthq s j.
Proof. exact sle_update_frame_lemma. Qed.
Print Assumptions C15_sle_update_frame.

(* given solubility: for every solver state (new object or any history of earlier calls) the call applies
   _update_solubility over all chemicals to the present flows and returns normally whenever that does *)
Theorem C15_sle_given_spec : forall V o st s si T P x st' s' r,
  sle_call V o st s (mksargs (Some si) (Some T) false P (Some x)) = (st', s', r) ->
  match update_solubility si SAll (nthq (q_s s) si + nthq (q_l s) si) (q_l s) (q_s s) x with
  | Ok ls => r = Ok tt /\ q_l s' = fst ls /\ q_s s' = snd ls
  | Err e => r = Err e /\ q_l s' = q_l s /\ q_s s' = q_s s
  end /\ q_T s' = T.
Proof. exact sle_given_spec_lemma. Qed.
Print Assumptions C15_sle_given_spec.

(* for every history of calls, flow changes and cache resets on one stream: a remembered set of chemicals always comes with
   the list index built for it (never the all-chemicals slice of a given-solubility call) and only for mixtures *)
Theorem C15_sle_state_wf_history : forall V ops st s, sst_wf V st -> sst_wf V (fst (srun V (st, s) ops)).
Proof. exact srun_wf_lemma. Qed.
Print Assumptions C15_sle_state_wf_history.

(* hence a computed-solubility call returns the same flows and the same outcome (result or exception class) whatever was
   called before on this solver -- other solutes, given solubilities, failed calls -- as on a new solver object
   (holds for the source with pending_fixes/C15_4 applied) *)
Theorem C15_sle_history_independent : forall V o st s a st' s' r,
  sst_wf V st -> sa_sol a = None ->
  sle_call V o st s a = (st', s', r) ->
  exists st'', sle_call V o (sst_init (e_act st)) s a = (st'', s', r).
Proof. exact sle_history_independent_lemma. Qed.
Print Assumptions C15_sle_history_independent.

(* a pure solute (one chemical in equilibrium) on a fresh solver: liquid above Tm, solid at or below *)
Theorem C15_sle_pure : forall V o act s si T P Tm st' s' r,
  let a := mksargs (Some si) (Some T) false P None in
  let mol := vadd (q_l s) (q_s s) in
  let nz := filter (fun i => nonzerob (nthq mol i)) (seq 0 (length mol)) in
  ~ nthq mol si == 0 ->
  length (filter (fun i => existsb (Nat.eqb i) nz) (s_lle_index V)) = 1%nat ->
  opt_nth (s_tm V) si = Some Tm ->
  sle_call V o (sst_init act) s a = (st', s', r) ->
  r = Ok tt /\
  (Tm < T -> q_l s' = upd (q_l s) si (nthq mol si) /\ q_s s' = upd (q_s s) si 0) /\
  (T <= Tm -> q_l s' = upd (q_l s) si 0 /\ q_s s' = upd (q_s s) si (nthq mol si)).
Proof. exact sle_pure_lemma. Qed.
Print Assumptions C15_sle_pure.

(* for every history of earlier calls: the pure-solute rule is applied only when exactly one chemical is in equilibrium in
   the present call, and to the present solute (holds for the source with pending_fixes/C15_2 applied) *)
Theorem C15_sle_pure_branch_only_when_single : forall V st nz si st' ok c,
  sle_setup V st nz si = (st', ok) -> e_chemical st' = Some c ->
  c = si /\ length (filter (fun i => existsb (Nat.eqb i) nz) (s_lle_index V)) = 1%nat.
Proof. exact sle_setup_chemical_lemma. Qed.
Print Assumptions C15_sle_pure_branch_only_when_single.

(* ---- non-vacuity ---- *)
Definition exE := mkenv [16; 32; 8; 64; 4] [0%nat; 1%nat; 2%nat; 4%nat].
Definition exO := mkorc (fun i_ => vmul (iz i_) [1 # 4; 1 # 2]) (mkrr 0 1 (1 # 2)).
Definition exS := mkstrm [1; 0; 0; 0; 0] [1; 2; 0; 0; 0] [0; 0; 0; 0; 0] 300 101325.
Definition exA := mkargs 300 None (Some 1%nat) true true false.
(* a second identical call on the same stream takes the cached branch and returns normally *)
Example C15_cache_reachable :
  let '(st1, s1, _) := lle_call exE exO (st_init c_1em3 (1 # 100000)) exS exA in
  let '(_, _, t) := lle_call exE exO st1 s1 exA in
  t_used_cache t = true /\ t_ret t = Ok RNone.
Proof. vm_compute. split; reflexivity. Qed.

(* the hypotheses of the fixed-point theorems are met by the witness of the refutation *)
Example C15_fixed_point_reachable :
  inner_loop fexpW flnW gammaW vW zW 2 (1 # 2) = Ok wW /\ veq wW vW /\
  loop_x fexpW vW zW 2 (1 # 2) = Ok xW /\ loop_y fexpW gammaW vW zW 2 (1 # 2) = Ok yW.
Proof. destruct witness_facts as (A & B & C & D & X & Y & N). auto. Qed.

Example C15_top_label_reachable :
  swap_top exE [0%nat; 1%nat] (Some 1%nat) [1 # 4; 1 # 8] [1 # 8; 1 # 2] = ([1 # 4; 1 # 8], [1 # 8; 1 # 2]).
Proof. vm_compute. reflexivity. Qed.

Example C15_sle_bounds_reachable :
  exists l' s', update_solubility 1 (SList [0%nat; 1%nat]) 1 [10; 1] [0; 0] (1 # 16) = Ok (l', s') /\
                nthq l' 1 == 2 # 3.
Proof. eexists; eexists. split; [vm_compute; reflexivity|]. vm_compute. reflexivity. Qed.

Example C15_sle_pure_reachable :
  let V := mksenv [0%nat; 1%nat] [Some 320; None] [Some 8192; None] [64; 64] [32; 32] false in
  exists st' s', sle_call V (mkeorc (fun _ => 0) (fun v => Ok v) (fun _ ls x => (ls, Ok x))) (sst_init None)
                   (mksstrm [2; 0] [1; 0] 298 101325) (mksargs (Some 0%nat) (Some 330) false None None) = (st', s', Ok tt)
                 /\ q_l s' = [3; 0].
Proof. eexists; eexists. vm_compute. split; reflexivity. Qed.
