(* C15 -- executable model of the liquid-liquid and solid-liquid equilibrium wrappers.
   Source modelled (thermosteam):
     equilibrium/binary_phase_fraction.py  phase_fraction, solve_phase_fraction_Rashford_Rice,
                                            as_valid_fraction (compute_phase_fraction_2N and the
                                            objective function come from the translator, Gen_kernels.v)
     equilibrium/lle.py                    LLE.__init__, LLE.__call__ (cache decision, cached-K branch,
                                            solve branch, top_chemical relabelling, stored K/phi/T/z,
                                            write-back, the update=False returns), get_liquid_mol_data,
                                            solve_lle_liquid_mol (method dispatch, initial guess),
                                            pseudo_equilibrium, pseudo_equilibrium_outer_loop
                                            (psuedo_equilibrium_inner_loop comes from the translator)
     equilibrium/sle.py                    SLE.__init__, _setup, __call__ (T given), _update_solubility,
                                            _solve_x
     utils/cache.py, _multi_stream.py      Cache.retrieve / reset_cache: one solver object per stream
   Third-party solvers (flexsolve, scipy) and the property package (activity coefficients, solubility_eutectic,
   heat capacities) are oracles: fields of the records carried by each operation.
   No proofs in this file. *)
From V Require Export C15.Base C15.Gen_kernels.

(* ------------------------------------------------------------------ small helpers *)
Definition pick (v : vec) (idx : list nat) : vec := map (nthq v) idx.

Fixpoint scatter (base : vec) (idx : list nat) (vals : vec) : vec :=
  match idx, vals with
  | i :: idx', x :: vals' => scatter (upd base i x) idx' vals'
  | _, _ => base
  end.

Fixpoint find_pos (j : nat) (idx : list nat) : option nat :=
  match idx with
  | [] => None
  | i :: t => if Nat.eqb i j then Some O
              else match find_pos j t with Some p => Some (S p) | None => None end
  end.

Definition idx_eqb (a b : list nat) : bool := list_eqb Nat.eqb a b.
Definition vmaxq (v : vec) : Q := match v with [] => 0 | x :: t => fold_left Qmax t x end.
Definition vminq (v : vec) : Q := match v with [] => 0 | x :: t => fold_left Qmin t x end.
Definition nonzerob (x : Q) : bool := negb (qzerob x).


(* ------------------------------------------------------------------ phase_fraction *)
(* extended value of the objective function at phi = 1: numba array division gives inf/nan, not an exception *)
Inductive ext := Fin (q : Q) | PInf | NInf | NaN.
Definition ext_add (a b : ext) : ext :=
  match a, b with
  | NaN, _ | _, NaN => NaN
  | PInf, NInf | NInf, PInf => NaN
  | PInf, _ | _, PInf => PInf
  | NInf, _ | _, NInf => NInf
  | Fin x, Fin y => Fin (x + y)
  end.
Definition ext_div (a b : Q) : ext :=
  if qzerob b then (if qzerob a then NaN else if qltb 0 a then PInf else NInf) else Fin (a / b).
Definition ext_gt (a b : ext) : bool :=      (* a > b, IEEE *)
  match a, b with
  | NaN, _ | _, NaN => false
  | PInf, PInf => false | PInf, _ => true
  | _, PInf => false
  | NInf, _ => false
  | Fin _, NInf => true
  | Fin x, Fin y => qltb y x
  end.
(* numpy sums left to right from 0 *)
Definition ext_sum (l : list ext) : ext := fold_left ext_add l (Fin 0).

(* phase_fraction_objective_function(phi, -zs*(Ks-1), Ks-1, 0, 0) *)
Definition rr_objective (phi : Q) (zs Ks : vec) : ext :=
  ext_sum (map2 (fun z k => ext_div (- z * (k - 1)) (1 + phi * (k - 1))) zs Ks).

(* oracle answers for one call of flx.find_bracket / flx.IQ_interpolation *)
Record rr_oracle := mkrr { fb_x0 : Q; fb_x1 : Q; iq_val : Q }.

(* solve_phase_fraction_Rashford_Rice(zs, Ks, guess) with za = zb = 0 *)
Definition solve_rr (o : rr_oracle) (zs Ks : vec) : Q :=
  if qleb (vmaxq Ks) c_one_plus then 0
  else if qleb c_one_minus (vminq Ks) then 1
  else
    let y0 := rr_objective 0 zs Ks in
    let y1 := rr_objective 1 zs Ks in
    if ext_gt y0 y1 && ext_gt y1 (Fin 0) then 1
    else if ext_gt y1 y0 && ext_gt y0 (Fin 0) then 0
    else if ext_gt y1 y0 && ext_gt (Fin 0) y1 then 1
    else if ext_gt y0 y1 && ext_gt (Fin 0) y0 then 0
    else if qltb (Qabs (fb_x1 o - fb_x0 o)) c_1em6 then (fb_x0 o + fb_x1 o) / 2
    else iq_val o.

Definition as_valid_fraction (x : Q) : Q := if qltb x 0 then 0 else if qltb 1 x then 1 else x.

(* phase_fraction(zs, Ks, guess): N = zs.size *)
Definition phase_fraction (o : rr_oracle) (zs Ks : vec) : res Q :=
  if Nat.ltb 2 (length zs) then Ok (as_valid_fraction (solve_rr o zs Ks))
  else match Ks with
       | [] => Err EValue                       (* Ks.max() of an empty array *)
       | _ =>
         if qleb (vmaxq Ks) c_one_plus then Ok 1
         else if qleb c_one_minus (vminq Ks) then Ok 0
         else if Nat.eqb (length zs) 2 then
                do r <- compute_phase_fraction_2N zs Ks; Ok (as_valid_fraction r)
              else Err EValue
       end.

(* ------------------------------------------------------------------ LLE wrapper *)
Record env := mkenv {
  mw : vec;                 (* chemicals.MW *)
  lle_index : list nat      (* chemicals._lle_index *)
}.

Record lle_st := mkst {
  sK : option vec;          (* _K *)
  sphi : option Q;          (* _phi *)
  sT : Q;                   (* _T      (read only when schems is set) *)
  sz : vec;                 (* _z_mol *)
  schems : option (list nat); (* _lle_chemicals as indices *)
  tolT : Q;                 (* temperature_cache_tolerance *)
  tolz : Q                  (* composition_cache_tolerance *)
}.

Definition st_init (tT tz : Q) : lle_st := mkst None None 0 [] None tT tz.

Record strm := mkstrm {
  m_l : vec; m_L : vec;     (* imol['l'], imol['L'] *)
  m_o : vec;                (* every other phase row, concatenated: never touched *)
  tcT : Q; tcP : Q          (* thermal_condition *)
}.

Record args := mkargs {
  aT : Q; aP : option Q;    (* P: None when falsy *)
  atop : option nat;        (* top_chemical resolved: index of the chemical whose ID equals the string *)
  aupdate : bool; ause_cache : bool; asingle : bool
}.

(* what the solver oracle sees: self._K, self._phi at the time of the call, the normalised feed, T,
   the chemicals, single_loop *)
Record solver_in := mksin { iK : option vec; iphi : option Q; iz : vec; iT : Q; iidx : list nat; isingle : bool }.

Record lle_oracle := mkorc {
  o_solve : solver_in -> vec;     (* LLE.solve_lle_liquid_mol (model of its inside is below) *)
  o_rr : rr_oracle
}.

Inductive ret := RNone | RTriple (idx : list nat) (K : vec) (phi : Q).

Record trace := mktr {
  t_used_cache : bool;
  t_solver_in : option solver_in;
  t_ret : res ret
}.

(* get_liquid_mol_data *)
Definition liquid_data (E : env) (s : strm) : strm * list nat * vec :=
  let tot := vadd (m_l s) (m_L s) in
  let s' := mkstrm (map (fun _ => 0) (m_l s)) tot (m_o s) (tcT s) (tcP s) in
  let index := filter (fun i => nonzerob (nthq tot i)) (lle_index E) in
  (s', index, pick tot index).

Definition chems_same (c : option (list nat)) (index : list nat) : bool :=
  match c with Some l => idx_eqb l index | None => false end.

(* the top_chemical block of the main branch *)
Definition swap_top (E : env) (index : list nat) (top : option nat) (mol_l mol_L : vec) : vec * vec :=
  match top with
  | None => (mol_l, mol_L)
  | Some j =>
    match find_pos j index with
    | None => (mol_l, mol_L)
    | Some t =>
      let MW := pick (mw E) index in
      let mass_L := vmul mol_L MW in
      let mass_l := vmul mol_l MW in
      let ML := qsum mass_L in
      let Ml := qsum mass_l in
      if nonzerob ML && nonzerob Ml then
        (if qltb (nthq mass_L t / ML) (nthq mass_l t / Ml) then (mol_L, mol_l) else (mol_l, mol_L))
      else if nonzerob Ml then (mol_L, mol_l)
      else (mol_l, mol_L)
    end
  end.

(* K and phi stored after a call *)
Definition stored_K_phi (mol_l mol_L : vec) : vec * Q :=
  let Fl := qsum mol_l in
  let FL := qsum mol_L in
  if qzerob FL then (map (fun _ => 0) mol_l, 0)
  else if qzerob Fl then (map (fun _ => c_1e16) mol_l, 1)
  else
    let xl := map (fun v => let x := v / Fl in if qltb x c_1em16 then c_1em16 else x) mol_l in
    let xL := vdivs mol_L FL in
    (map2 Qdiv xL xl, FL / (FL + Fl)).

Definition set_TP (s : strm) (a : args) : strm :=
  if aupdate a then
    mkstrm (m_l s) (m_L s) (m_o s) (aT a) (match aP a with Some p => p | None => tcP s end)
  else s.

Definition write_back (s : strm) (index : list nat) (F : Q) (mol_l mol_L : vec) : strm :=
  mkstrm (scatter (m_l s) index (vscale F mol_l)) (scatter (m_L s) index (vscale F mol_L))
         (m_o s) (tcT s) (tcP s).

(* the cached-K branch: Rachford-Rice split of the CURRENT z with the stored K *)
Definition cached_split (phi : Q) (K : vec) (z : vec) : res (vec * vec) :=
  if qleb 1 phi then Ok (z, vscale 0 z)
  else
    do y <- vdivc (vmul z K) (map (fun k => phi * k + (1 - phi)) K);
    let mol_l := map (fun e_ => e_ * phi) y in
    Ok (mol_l, vsub z mol_l).

(* the part of __call__ after mol_l, mol_L are known *)
Definition finish (E : env) (st : lle_st) (s1 : strm) (index : list nat) (F : Q) (z : vec)
           (a : args) (mol_l mol_L : vec) : lle_st * strm * res ret :=
  let '(mol_l, mol_L) := swap_top E index (atop a) mol_l mol_L in
  let '(K', phi') := stored_K_phi mol_l mol_L in
  let st' := mkst (Some K') (Some phi') (aT a) z (Some index) (tolT st) (tolz st) in
  if aupdate a then (st', write_back s1 index F mol_l mol_L, Ok RNone)
  else (st', s1, Ok (RTriple index K' phi')).

Definition with_phi (st : lle_st) (p : option Q) : lle_st :=
  mkst (sK st) p (sT st) (sz st) (schems st) (tolT st) (tolz st).
Definition with_K_phi (st : lle_st) (k : option vec) (p : option Q) : lle_st :=
  mkst k p (sT st) (sz st) (schems st) (tolT st) (tolz st).

(* LLE.__call__ *)
Definition lle_call (E : env) (o : lle_oracle) (st : lle_st) (s : strm) (a : args)
  : lle_st * strm * trace :=
  let s0 := set_TP s a in
  let '(s1, index, mol) := liquid_data E s0 in
  let F := qsum mol in
  if nonzerob F && Nat.ltb 1 (length index) then
    let z := vdivs mol F in
    let uc := use_cache_expr (ause_cache a) (chems_same (schems st) index)
                             (aT a) (sT st) (tolT st) (sz st) z (tolz st) in
    if uc then
      match sK st with
      | None => (st, s1, mktr true None (Err EType))
      | Some K =>
        match phase_fraction (o_rr o) z K with
        | Err e => (st, s1, mktr true None (Err e))
        | Ok phi =>
          let st1 := with_phi st (Some phi) in
          match cached_split phi K z with
          | Err e => (st1, s1, mktr true None (Err e))
          | Ok (mol_l, mol_L) =>
            let '(st', s', r) := finish E st1 s1 index F z a mol_l mol_L in
            (st', s', mktr true None r)
          end
        end
      end
    else
      let st1 := if chems_same (schems st) index then st else with_K_phi st None None in
      let sin := mksin (sK st1) (sphi st1) z (aT a) index (asingle a) in
      let mol_L := o_solve o sin in
      let mol_l := vsub z mol_L in
      let '(st', s', r) := finish E st1 s1 index F z a mol_l mol_L in
      (st', s', mktr false (Some sin) r)
  else if negb (aupdate a) then
    let mol_l := mol in
    let mol_L := map (fun _ => 0) mol in
    let swap := match atop a with
                | None => false
                | Some j => match find_pos j index with
                            | None => false
                            | Some t => qltb (nthq mol_L t) (nthq mol_l t)
                            end
                end in
    let mol_L' := if swap then mol_l else mol_L in
    if nonzerob (qsum mol_L') then (st, s1, mktr false None (Ok (RTriple index (map (fun _ => c_1e16) mol) 1)))
    else (st, s1, mktr false None (Ok (RTriple index (map (fun _ => 0) mol) 0)))
  else (st, s1, mktr false None (Ok RNone)).

(* ------------------------------------------------------------------ histories on one stream (cache.py, MultiStream.lle) *)
Inductive lop :=
| LCall (a : args) (o : lle_oracle)      (* stream.lle(T, ...) : Cache.retrieve gives the one solver of the stream *)
| LSetFlow (l L : vec)                   (* the caller changes the liquid flows between calls *)
| LReset (tT tz : Q).                    (* stream.reset_cache(): a new solver (tolerances as given afterwards) *)

Definition lstep (E : env) (p : lle_st * strm) (op : lop) : lle_st * strm * option trace :=
  let '(st, s) := p in
  match op with
  | LCall a o => let '(st', s', t) := lle_call E o st s a in (st', s', Some t)
  | LSetFlow l L => (st, mkstrm l L (m_o s) (tcT s) (tcP s), None)
  | LReset tT tz => (st_init tT tz, s, None)
  end.

Fixpoint lrun (E : env) (p : lle_st * strm) (ops : list lop) : lle_st * strm * list (option trace) :=
  match ops with
  | [] => (fst p, snd p, [])
  | op :: rest =>
    let '(st', s', t) := lstep E p op in
    let '(st'', s'', ts) := lrun E (st', s') rest in
    (st'', s'', t :: ts)
  end.

(* ------------------------------------------------------------------ comparators used by the correspondence files *)
Definition oq_approxb (a b : option Q) : bool := opt_eqb qapproxb a b.
Definition ov_approxb (a b : option vec) : bool := opt_eqb vapproxb a b.

Definition sin_eqb (a b : solver_in) : bool :=
  ov_approxb (iK a) (iK b) && oq_approxb (iphi a) (iphi b) && vapproxb (iz a) (iz b)
  && qeqb (iT a) (iT b) && idx_eqb (iidx a) (iidx b) && Bool.eqb (isingle a) (isingle b).

Definition ret_eqb (a b : ret) : bool :=
  match a, b with
  | RNone, RNone => true
  | RTriple i K p, RTriple i' K' p' => idx_eqb i i' && vapproxb K K' && qapproxb p p'
  | _, _ => false
  end.

Definition trace_eqb (a b : trace) : bool :=
  Bool.eqb (t_used_cache a) (t_used_cache b)
  && opt_eqb sin_eqb (t_solver_in a) (t_solver_in b)
  && res_eqb ret_eqb (t_ret a) (t_ret b).

(* what the harness observes after each operation *)
Record lobs := mkobs {
  ob_l : vec; ob_L : vec; ob_o : vec; ob_T : Q; ob_P : Q;
  ob_K : option vec; ob_phi : option Q; ob_sT : Q; ob_sz : vec; ob_chems : option (list nat);
  ob_trace : option trace
}.

Definition obs_eqb (st : lle_st) (s : strm) (t : option trace) (e : lobs) : bool :=
  vapproxb (m_l s) (ob_l e) && vapproxb (m_L s) (ob_L e) && veqb (m_o s) (ob_o e)
  && qeqb (tcT s) (ob_T e) && qeqb (tcP s) (ob_P e)
  && ov_approxb (sK st) (ob_K e) && oq_approxb (sphi st) (ob_phi e)
  && opt_eqb idx_eqb (schems st) (ob_chems e)
  && match schems st with
     | Some _ => qeqb (sT st) (ob_sT e) && vapproxb (sz st) (ob_sz e)
     | None => true
     end
  && opt_eqb trace_eqb t (ob_trace e).

(* Q arithmetic does not reduce fractions; between two steps of a history the comparator replaces every
   number of the model state by its reduced form (Qred q == q), which keeps the terms small.  Each step is
   still computed by [lstep] itself. *)
Definition vred (v : vec) : vec := map Qred v.
Definition norm_st (st : lle_st) : lle_st :=
  mkst (option_map vred (sK st)) (option_map Qred (sphi st)) (Qred (sT st)) (vred (sz st)) (schems st)
       (tolT st) (tolz st).
Definition norm_strm (s : strm) : strm :=
  mkstrm (vred (m_l s)) (vred (m_L s)) (vred (m_o s)) (Qred (tcT s)) (Qred (tcP s)).

Fixpoint lrun_check (E : env) (p : lle_st * strm) (ops : list lop) (exp : list lobs) : bool :=
  match ops, exp with
  | [], [] => true
  | op :: ops', e :: exp' =>
    let '(st', s', t) := lstep E p op in
    let st' := norm_st st' in let s' := norm_strm s' in
    obs_eqb st' s' t e && lrun_check E (st', s') ops' exp'
  | _, _ => false
  end.
