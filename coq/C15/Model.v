(* C15 -- executable model of the liquid-liquid and solid-liquid equilibrium wrappers.
   Source modelled (thermosteam):
     equilibrium/binary_phase_fraction.py  phase_fraction, solve_phase_fraction_Rashford_Rice,
                                            as_valid_fraction (compute_phase_fraction_2N and the
                                            objective function come from the translator, Gen_kernels.v)
     equilibrium/lle.py                    LLE.__init__, LLE.__call__ (cache decision, cached-K branch,
                                            solve branch, top_chemical relabelling, stored K/phi/T/z,
                                            write-back, the update=False returns), get_liquid_mol_data,
                                            solve_lle_liquid_mol (method dispatch, initial guess),
                                            pseudo_equilibrium, pseudo_equilibrium_outer_loop
                                            (psuedo_equilibrium_inner_loop comes from the translator)
     equilibrium/sle.py                    SLE.__init__, _setup, __call__ (T given), _update_solubility,
                                            _solve_x
     utils/cache.py, _multi_stream.py      Cache.retrieve / reset_cache: one solver object per stream
   Third-party solvers (flexsolve, scipy) and the property package (activity coefficients, solubility_eutectic,
   heat capacities) are oracles: fields of the records carried by each operation.
   No proofs in this file. *)
From V Require Export C15.Base C15.Gen_kernels.

(* ------------------------------------------------------------------ small helpers *)
Definition pick (v : vec) (idx : list nat) : vec := map (nthq v) idx.

Fixpoint scatter (base : vec) (idx : list nat) (vals : vec) : vec :=
  match idx, vals with
  | i :: idx', x :: vals' => scatter (upd base i x) idx' vals'
  | _, _ => base
  end.

Fixpoint find_pos (j : nat) (idx : list nat) : option nat :=
  match idx with
  | [] => None
  | i :: t => if Nat.eqb i j then Some O
              else match find_pos j t with Some p => Some (S p) | None => None end
  end.

(* Q arithmetic does not reduce fractions.  [Qred q == q]; the model reduces at a few let-bindings so that
   histories stay small when evaluated, and so that the normalised feed z handed to the solver oracle is a
   canonical representative (equal feeds up to scaling give the identical z). *)
Definition vr (v : vec) : vec := map Qred v.
Definition rsum (v : vec) : Q := Qred (qsum v).

Definition idx_eqb (a b : list nat) : bool := list_eqb Nat.eqb a b.
Definition vmaxq (v : vec) : Q := match v with [] => 0 | x :: t => fold_left Qmax t x end.
Definition vminq (v : vec) : Q := match v with [] => 0 | x :: t => fold_left Qmin t x end.
Definition nonzerob (x : Q) : bool := negb (qzerob x).


(* ------------------------------------------------------------------ phase_fraction *)
(* extended value of the objective function at phi = 1: numba array division gives inf/nan, not an exception *)
Inductive ext := Fin (q : Q) | PInf | NInf | NaN.
Definition ext_add (a b : ext) : ext :=
  match a, b with
  | NaN, _ | _, NaN => NaN
  | PInf, NInf | NInf, PInf => NaN
  | PInf, _ | _, PInf => PInf
  | NInf, _ | _, NInf => NInf
  | Fin x, Fin y => Fin (x + y)
  end.
Definition ext_div (a b : Q) : ext :=
  if qzerob b then (if qzerob a then NaN else if qltb 0 a then PInf else NInf) else Fin (a / b).
Definition ext_gt (a b : ext) : bool :=      (* a > b, IEEE *)
  match a, b with
  | NaN, _ | _, NaN => false
  | PInf, PInf => false | PInf, _ => true
  | _, PInf => false
  | NInf, _ => false
  | Fin _, NInf => true
  | Fin x, Fin y => qltb y x
  end.
(* numpy sums left to right from 0 *)
Definition ext_sum (l : list ext) : ext := fold_left ext_add l (Fin 0).

(* phase_fraction_objective_function(phi, -zs*(Ks-1), Ks-1, 0, 0) *)
Definition rr_objective (phi : Q) (zs Ks : vec) : ext :=
  ext_sum (map2 (fun z k => ext_div (- z * (k - 1)) (1 + phi * (k - 1))) zs Ks).

(* oracle answers for one call of flx.find_bracket / flx.IQ_interpolation *)
Record rr_oracle := mkrr { fb_x0 : Q; fb_x1 : Q; iq_val : Q }.

(* solve_phase_fraction_Rashford_Rice(zs, Ks, guess) with za = zb = 0 *)
Definition solve_rr (o : rr_oracle) (zs Ks : vec) : Q :=
  if qleb (vmaxq Ks) c_one_plus then 0
  else if qleb c_one_minus (vminq Ks) then 1
  else
    let y0 := rr_objective 0 zs Ks in
    let y1 := rr_objective 1 zs Ks in
    if ext_gt y0 y1 && ext_gt y1 (Fin 0) then 1
    else if ext_gt y1 y0 && ext_gt y0 (Fin 0) then 0
    else if ext_gt y1 y0 && ext_gt (Fin 0) y1 then 1
    else if ext_gt y0 y1 && ext_gt (Fin 0) y0 then 0
    else if qltb (Qabs (fb_x1 o - fb_x0 o)) c_1em6 then (fb_x0 o + fb_x1 o) / 2
    else iq_val o.

Definition as_valid_fraction (x : Q) : Q := if qltb x 0 then 0 else if qltb 1 x then 1 else x.

(* phase_fraction(zs, Ks, guess): N = zs.size *)
Definition phase_fraction (o : rr_oracle) (zs Ks : vec) : res Q :=
  if Nat.ltb 2 (length zs) then Ok (as_valid_fraction (solve_rr o zs Ks))
  else match Ks with
       | [] => Err EValue                       (* Ks.max() of an empty array *)
       | _ =>
         if qleb (vmaxq Ks) c_one_plus then Ok 1
         else if qleb c_one_minus (vminq Ks) then Ok 0
         else if Nat.eqb (length zs) 2 then
                do r <- compute_phase_fraction_2N zs Ks; Ok (as_valid_fraction r)
              else Err EValue
       end.

(* ------------------------------------------------------------------ LLE wrapper *)
Record env := mkenv {
  mw : vec;                 (* chemicals.MW *)
  lle_index : list nat      (* chemicals._lle_index *)
}.

Record lle_st := mkst {
  sK : option vec;          (* _K *)
  sphi : option Q;          (* _phi *)
  sT : Q;                   (* _T      (read only when schems is set) *)
  sz : vec;                 (* _z_mol *)
  schems : option (list nat); (* _lle_chemicals as indices *)
  tolT : Q;                 (* temperature_cache_tolerance *)
  tolz : Q                  (* composition_cache_tolerance *)
}.

Definition st_init (tT tz : Q) : lle_st := mkst None None 0 [] None tT tz.

Record strm := mkstrm {
  m_l : vec; m_L : vec;     (* imol['l'], imol['L'] *)
  m_o : vec;                (* every other phase row, concatenated: never touched *)
  tcT : Q; tcP : Q          (* thermal_condition *)
}.

Record args := mkargs {
  aT : Q; aP : option Q;    (* P: None when falsy *)
  atop : option nat;        (* top_chemical resolved: index of the chemical whose ID equals the string *)
  aupdate : bool; ause_cache : bool; asingle : bool
}.

(* what the solver oracle sees: self._K, self._phi at the time of the call, the normalised feed, T,
   the chemicals, single_loop *)
Record solver_in := mksin { iK : option vec; iphi : option Q; iz : vec; iT : Q; iidx : list nat; isingle : bool }.

Record lle_oracle := mkorc {
  o_solve : solver_in -> vec;     (* LLE.solve_lle_liquid_mol (model of its inside is below) *)
  o_rr : rr_oracle
}.

Inductive ret := RNone | RTriple (idx : list nat) (K : vec) (phi : Q).

Record trace := mktr {
  t_used_cache : bool;
  t_solver_in : option solver_in;
  t_ret : res ret
}.

(* get_liquid_mol_data *)
Definition liquid_data (E : env) (s : strm) : strm * list nat * vec :=
  let tot := vadd (m_l s) (m_L s) in
  let s' := mkstrm (map (fun _ => 0) (m_l s)) tot (m_o s) (tcT s) (tcP s) in
  let index := filter (fun i => nonzerob (nthq tot i)) (lle_index E) in
  (s', index, pick tot index).

Definition chems_same (c : option (list nat)) (index : list nat) : bool :=
  match c with Some l => idx_eqb l index | None => false end.

(* the top_chemical block of the main branch *)
Definition swap_top (E : env) (index : list nat) (top : option nat) (mol_l mol_L : vec) : vec * vec :=
  match top with
  | None => (mol_l, mol_L)
  | Some j =>
    match find_pos j index with
    | None => (mol_l, mol_L)
    | Some t =>
      let MW := pick (mw E) index in
      let mass_L := vmul mol_L MW in
      let mass_l := vmul mol_l MW in
      let ML := qsum mass_L in
      let Ml := qsum mass_l in
      if nonzerob ML && nonzerob Ml then
        (if qltb (nthq mass_L t / ML) (nthq mass_l t / Ml) then (mol_L, mol_l) else (mol_l, mol_L))
      else if nonzerob Ml then (mol_L, mol_l)
      else (mol_l, mol_L)
    end
  end.

(* K and phi stored after a call *)
Definition stored_K_phi (mol_l mol_L : vec) : vec * Q :=
  let Fl := rsum mol_l in
  let FL := rsum mol_L in
  if qzerob FL then (map (fun _ => 0) mol_l, 0)
  else if qzerob Fl then (map (fun _ => c_1e16) mol_l, 1)
  else
    let xl := map (fun v => let x := v / Fl in if qltb x c_1em16 then c_1em16 else x) mol_l in
    let xL := vdivs mol_L FL in
    (vr (map2 Qdiv xL xl), Qred (FL / (FL + Fl))).

Definition set_TP (s : strm) (a : args) : strm :=
  if aupdate a then
    mkstrm (m_l s) (m_L s) (m_o s) (aT a) (match aP a with Some p => p | None => tcP s end)
  else s.

Definition write_back (s : strm) (index : list nat) (F : Q) (mol_l mol_L : vec) : strm :=
  mkstrm (scatter (m_l s) index (vr (vscale F mol_l))) (scatter (m_L s) index (vr (vscale F mol_L)))
         (m_o s) (tcT s) (tcP s).

(* the cached-K branch: Rachford-Rice split of the CURRENT z with the stored K *)
Definition cached_split (phi : Q) (K : vec) (z : vec) : res (vec * vec) :=
  if qleb 1 phi then Ok (z, vscale 0 z)
  else
    do zK <- vop2 Qmult z K;
    do y <- vdivc zK (map (fun k => phi * k + (1 - phi)) K);
    let mol_l := vr (map (fun e_ => e_ * phi) y) in
    Ok (mol_l, vr (vsub z mol_l)).

(* the part of __call__ after mol_l, mol_L are known *)
Definition finish (E : env) (st : lle_st) (s1 : strm) (index : list nat) (F : Q) (z : vec)
           (a : args) (mol_l mol_L : vec) : lle_st * strm * res ret :=
  let '(mol_l, mol_L) := swap_top E index (atop a) mol_l mol_L in
  let '(K', phi') := stored_K_phi mol_l mol_L in
  let st' := mkst (Some K') (Some phi') (aT a) z (Some index) (tolT st) (tolz st) in
  if aupdate a then (st', write_back s1 index F mol_l mol_L, Ok RNone)
  else (st', s1, Ok (RTriple index K' phi')).

Definition with_phi (st : lle_st) (p : option Q) : lle_st :=
  mkst (sK st) p (sT st) (sz st) (schems st) (tolT st) (tolz st).
Definition with_K_phi (st : lle_st) (k : option vec) (p : option Q) : lle_st :=
  mkst k p (sT st) (sz st) (schems st) (tolT st) (tolz st).

(* LLE.__call__ *)
Definition lle_call (E : env) (o : lle_oracle) (st : lle_st) (s : strm) (a : args)
  : lle_st * strm * trace :=
  let s0 := set_TP s a in
  let '(s1, index, mol) := liquid_data E s0 in
  let F := rsum mol in
  if nonzerob F && Nat.ltb 1 (length index) then
    let z := vr (vdivs mol F) in
    let uc := use_cache_expr (ause_cache a) (chems_same (schems st) index)
                             (aT a) (sT st) (tolT st) (sz st) z (tolz st) in
    if uc then
      match sK st with
      | None => (st, s1, mktr true None (Err EType))
      | Some K =>
        match phase_fraction (o_rr o) z K with
        | Err e => (st, s1, mktr true None (Err e))
        | Ok phi =>
          let phi := Qred phi in
          let st1 := with_phi st (Some phi) in
          match cached_split phi K z with
          | Err e => (st1, s1, mktr true None (Err e))
          | Ok (mol_l, mol_L) =>
            let '(st', s', r) := finish E st1 s1 index F z a mol_l mol_L in
            (st', s', mktr true None r)
          end
        end
      end
    else
      let st1 := if chems_same (schems st) index then st else with_K_phi st None None in
      let sin := mksin (sK st1) (sphi st1) z (aT a) index (asingle a) in
      let mol_L := vr (o_solve o sin) in
      let mol_l := vr (vsub z mol_L) in
      let '(st', s', r) := finish E st1 s1 index F z a mol_l mol_L in
      (st', s', mktr false (Some sin) r)
  else if negb (aupdate a) then
    let mol_l := mol in
    let mol_L := map (fun _ => 0) mol in
    let swap := match atop a with
                | None => false
                | Some j => match find_pos j index with
                            | None => false
                            | Some t => qltb (nthq mol_L t) (nthq mol_l t)
                            end
                end in
    let mol_L' := if swap then mol_l else mol_L in
    if nonzerob (qsum mol_L') then (st, s1, mktr false None (Ok (RTriple index (map (fun _ => c_1e16) mol) 1)))
    else (st, s1, mktr false None (Ok (RTriple index (map (fun _ => 0) mol) 0)))
  else (st, s1, mktr false None (Ok RNone)).

(* ------------------------------------------------------------------ histories on one stream (cache.py, MultiStream.lle) *)
Inductive lop :=
| LCall (a : args) (o : lle_oracle)      (* stream.lle(T, ...) : Cache.retrieve gives the one solver of the stream *)
| LSetFlow (l L : vec)                   (* the caller changes the liquid flows between calls *)
| LReset (tT tz : Q).                    (* stream.reset_cache(): a new solver (tolerances as given afterwards) *)

Definition lstep (E : env) (p : lle_st * strm) (op : lop) : lle_st * strm * option trace :=
  let '(st, s) := p in
  match op with
  | LCall a o => let '(st', s', t) := lle_call E o st s a in (st', s', Some t)
  | LSetFlow l L => (st, mkstrm l L (m_o s) (tcT s) (tcP s), None)
  | LReset tT tz => (st_init tT tz, s, None)
  end.

Fixpoint lrun (E : env) (p : lle_st * strm) (ops : list lop) : lle_st * strm * list (option trace) :=
  match ops with
  | [] => (fst p, snd p, [])
  | op :: rest =>
    let '(st', s', t) := lstep E p op in
    let '(st'', s'', ts) := lrun E (st', s') rest in
    (st'', s'', t :: ts)
  end.

(* ------------------------------------------------------------------ comparators used by the correspondence files *)
Definition oq_approxb (a b : option Q) : bool := opt_eqb qapproxb a b.
(* partition coefficients: a component that sits (to 1e-11) entirely in one phase has K_i = x_L/x_l with x_l of the order
   of the float rounding error (the source clamps it at 1e-16); such entries are compared as "both above 1e11" *)
Definition c_sat : Q := 100000000000 # 1.
Definition kapproxb (a b : Q) : bool := qapproxb a b || (qltb c_sat a && qltb c_sat b).
Fixpoint vkapproxb (a b : vec) : bool :=
  match a, b with
  | [], [] => true
  | x :: a', y :: b' => kapproxb x y && vkapproxb a' b'
  | _, _ => false
  end.
Definition ov_approxb (a b : option vec) : bool := opt_eqb vkapproxb a b.

Definition sin_eqb (a b : solver_in) : bool :=
  ov_approxb (iK a) (iK b) && oq_approxb (iphi a) (iphi b) && vapproxb (iz a) (iz b)
  && qeqb (iT a) (iT b) && idx_eqb (iidx a) (iidx b) && Bool.eqb (isingle a) (isingle b).

Definition ret_eqb (a b : ret) : bool :=
  match a, b with
  | RNone, RNone => true
  | RTriple i K p, RTriple i' K' p' => idx_eqb i i' && vkapproxb K K' && qapproxb p p'
  | _, _ => false
  end.

Definition trace_eqb (a b : trace) : bool :=
  Bool.eqb (t_used_cache a) (t_used_cache b)
  && opt_eqb sin_eqb (t_solver_in a) (t_solver_in b)
  && res_eqb ret_eqb (t_ret a) (t_ret b).

(* what the harness observes after each operation *)
Record lobs := mkobs {
  ob_l : vec; ob_L : vec; ob_o : vec; ob_T : Q; ob_P : Q;
  ob_K : option vec; ob_phi : option Q; ob_sT : Q; ob_sz : vec; ob_chems : option (list nat);
  ob_trace : option trace
}.

Definition obs_eqb (st : lle_st) (s : strm) (t : option trace) (e : lobs) : bool :=
  vapproxb (m_l s) (ob_l e) && vapproxb (m_L s) (ob_L e) && veqb (m_o s) (ob_o e)
  && qeqb (tcT s) (ob_T e) && qeqb (tcP s) (ob_P e)
  && ov_approxb (sK st) (ob_K e) && oq_approxb (sphi st) (ob_phi e)
  && opt_eqb idx_eqb (schems st) (ob_chems e)
  && match schems st with
     | Some _ => qeqb (sT st) (ob_sT e) && vapproxb (sz st) (ob_sz e)
     | None => true
     end
  && opt_eqb trace_eqb t (ob_trace e).

(* Q arithmetic does not reduce fractions; between two steps of a history the comparator replaces every
   number of the model state by its reduced form (Qred q == q), which keeps the terms small.  Each step is
   still computed by [lstep] itself. *)
Definition vred (v : vec) : vec := map Qred v.
Definition norm_st (st : lle_st) : lle_st :=
  mkst (option_map vred (sK st)) (option_map Qred (sphi st)) (Qred (sT st)) (vred (sz st)) (schems st)
       (tolT st) (tolz st).
Definition norm_strm (s : strm) : strm :=
  mkstrm (vred (m_l s)) (vred (m_L s)) (vred (m_o s)) (Qred (tcT s)) (Qred (tcP s)).

Fixpoint lrun_check (E : env) (p : lle_st * strm) (ops : list lop) (exp : list lobs) : bool :=
  match ops, exp with
  | [], [] => true
  | op :: ops', e :: exp' =>
    let '(st', s', t) := lstep E p op in
    let st' := norm_st st' in let s' := norm_strm s' in
    obs_eqb st' s' t e && lrun_check E (st', s') ops' exp'
  | _, _ => false
  end.

(* ------------------------------------------------------------------ inside LLE.solve_lle_liquid_mol *)
(* oracles of one solver call *)
Record solve_oracle := mksorc {
  so_fexp : Q -> Q; so_fln : Q -> Q;            (* np.exp / np.log (stand-ins when run against the code) *)
  so_gamma : vec -> vec;                        (* thermo.Gamma(lle_chemicals) at the call's T *)
  so_ait_inner : (vec -> res vec) -> vec -> res vec;   (* flx.aitken on the inner loop *)
  so_ait_outer : (vec -> res vec) -> vec -> res vec;   (* flx.aitken on the outer loop *)
  so_fixed_point : (vec -> res vec) -> vec -> res vec; (* flx.fixed_point (single_loop) *)
  so_rr : rr_oracle;                            (* flexsolve inside phase_fraction *)
  so_shgo : vec -> bool * vec;                  (* scipy shgo: upper bounds -> (success, x) *)
  so_de : vec -> vec                            (* scipy differential_evolution: upper bounds -> x *)
}.

Definition is_zerodiv (e : err) : bool := match e with EZeroDiv => true | _ => false end.

(* the repaired inner loop (what lines 65-66 of lle.py intend): log K goes to the first block.
   Reference map for the _partial theorem; NOT what the source does (that is Gen_kernels.inner_loop). *)
Definition inner_loop_repaired (fexp fln : Q -> Q) (f_gamma : vec -> vec) (logKgammay z : vec) (n : nat) (phi : Q) : res vec :=
  let K := map fexp (firstn n logKgammay) in
  do x <- vdivc z (map (fun e_ => 1 + e_) (map (fun e_ => phi * e_) (map (fun e_ => e_ - 1) K)));
  do x <- vdivsc x (qsum x);
  let gammay := skipn n logKgammay in
  let gammax := f_gamma x in
  do K <- vdivc gammax gammay;
  do y <- vop2 Qmult K x;
  do y <- vdivsc y (qsum y);
  let gammay := f_gamma y in
  do K <- vdivc gammax gammay;
  do new <- set_head n logKgammay (map fln K);
  do new <- set_tail n new gammay;
  Ok new.

(* pseudo_equilibrium_outer_loop; NoEquilibrium is EInfeasible *)
Definition outer_loop (o : solve_oracle) (v z : vec) (n : nat) : res vec :=
  let logKgammay := removelast v in
  let phi := last v 0 in
  do lkg <- so_ait_inner o (fun w => inner_loop (so_fexp o) (so_fln o) (so_gamma o) w z n phi) logKgammay;
  let lkg := vr lkg in
  let K := map (so_fexp o) (firstn n lkg) in
  match phase_fraction (so_rr o) z K with
  | Err e => if is_zerodiv e then Err EInfeasible else Err e
  | Ok phi =>
    let phi := if qltb 1 phi then c_one_m16 else phi in
    let phi := if qltb phi 0 then c_1em16 else phi in
    if Nat.eqb (length lkg) (length v - 1) then Ok (lkg ++ [phi]) else Err EValue
  end.

Definition x_of (z K : vec) (phi : Q) : res vec :=
  vdivc z (map (fun e_ => 1 + e_) (map (fun e_ => phi * e_) (map (fun e_ => e_ - 1) K))).

(* pseudo_equilibrium *)
Definition pseudo_equilibrium (o : solve_oracle) (K : vec) (z : vec) (n : nat) : res vec :=
  do phi <- phase_fraction (so_rr o) z K;
  let x := match x_of z K phi with
           | Ok x => x
           | Err _ => repeat 1 n                 (* bare except: x = np.ones(n) *)
           end in
  do x <- vdivsc x (rsum x);
  do y <- vop2 Qmult K (vr x);
  let g := so_gamma o (vr y) in
  if negb (Nat.eqb (length K) n) || negb (Nat.eqb (length g) n) then Err EValue
  else
    let v := vr (map (so_fln o) K ++ g ++ [phi]) in
    match so_ait_outer o (fun w => outer_loop o w z n) v with
    | Err e => match e with EInfeasible => Ok z | _ => Err e end
    | Ok v =>
      let K := map (so_fexp o) (firstn n v) in
      let phi := last v 0 in
      do x <- x_of z K phi;
      Ok (map (fun e_ => e_ * (1 - phi)) x)
    end.

(* indices[-1], indices[-2] of np.argsort(mol * MW): positions of the largest and second largest mass *)
Fixpoint argmax_from (v : vec) (i : nat) (best : nat) (bv : Q) : nat :=
  match v with
  | [] => best
  | x :: t => if qleb bv x then argmax_from t (S i) i x else argmax_from t (S i) best bv
  end.
Definition argmax (v : vec) : nat := match v with [] => O | x :: t => argmax_from t 1 O x end.
Definition argmax2 (v : vec) : nat * nat :=
  let a := argmax v in
  let lo := vminq v - 1 in
  (a, argmax (upd v a lo)).

Definition default_guess (o : solve_oracle) (mass mol : vec) : res (vec * Q) :=
  let '(a, b) := argmax2 mass in
  let x := upd (upd mol a c_099) b c_1em3 in
  let y := upd (upd mol a c_1em3) b c_099 in
  do x <- vdivsc x (rsum x);
  do y <- vdivsc y (rsum y);
  do K <- vdivc (so_gamma o (vr y)) (so_gamma o (vr x));
  Ok (vr K, 1 # 2).

Inductive method := MPseudo | MShgo | MDE | MOther.

Definition all_zero (v : vec) : bool := forallb qzerob v.

(* LLE.solve_lle_liquid_mol(mol, T, lle_chemicals, single_loop) *)
Definition solve_lle (o : solve_oracle) (m : method) (mws : vec) (K0 : option vec) (phi0 : option Q)
           (mol : vec) (single : bool) : res vec :=
  let n := length mol in
  let mass := vmul mol mws in
  match m with
  | MPseudo =>
    do Kphi <- match K0, phi0 with
               | Some K, Some phi => if qltb 0 phi && qltb phi 1 then Ok (K, phi) else default_guess o mass mol
               | Some K, None => Err EType        (* 0 < None *)
               | None, _ => default_guess o mass mol
               end;
    let '(K, phi) := Kphi in
    if single then
      do phi <- phase_fraction (so_rr o) mol K;
      let x := match x_of mol K phi with Ok x => x | Err _ => repeat 1 n end in
      do x <- vdivsc x (rsum x);
      do y <- vop2 Qmult K (vr x);
      let g := so_gamma o (vr y) in
      if negb (Nat.eqb (length K) n) || negb (Nat.eqb (length g) n) then Err EValue
      else
        let v := vr (K ++ g) in
        do w <- so_fixed_point o (fun w => inner_loop (so_fexp o) (so_fln o) (so_gamma o) w mol n phi) v;
        let K := firstn n w in
        match phase_fraction (so_rr o) mol K with
        | Err e => if is_zerodiv e then Ok mol else Err e
        | Ok phi =>
          let phi := if qltb 1 phi then c_one_m16 else phi in
          let phi := if qltb phi 0 then c_1em16 else phi in
          do x <- x_of mol K phi;
          Ok (map (fun e_ => e_ * (1 - phi)) x)
        end
    else pseudo_equilibrium o K mol n
  | MShgo =>
    let ub := upd mol (argmax mass) ((1 # 2) * nthq mol (argmax mass)) in
    let '(ok, x) := so_shgo o ub in
    if negb ok || all_zero x then Ok (so_de o ub) else Ok x
  | MDE =>
    let ub := upd mol (argmax mass) ((1 # 2) * nthq mol (argmax mass)) in
    Ok (so_de o ub)
  | MOther => Err EValue
  end.

(* iterate a map k times (what the harness substitutes for flx.aitken / flx.fixed_point) *)
Fixpoint iter_res (k : nat) (f : vec -> res vec) (x : vec) : res vec :=
  match k with
  | O => Ok x
  | S k' => do y <- f x; iter_res k' f (vr y)
  end.

(* affine stand-in for the activity coefficients: gamma(x) = a + B x *)
Definition gamma_aff (a : vec) (B : list vec) (x : vec) : vec :=
  map2 (fun ai row => ai + vdot row x) a B.

Definition rv_eqb (a b : res vec) : bool := res_eqb vapproxb a b.

(* k plain evaluations of _x_iter (the harness's stand-in for flx.aitken in sle.py) *)
Fixpoint iter_ls {S : Type} (k : nat) (f : S -> Q -> S * res Q) (ls : S) (x : Q) : S * res Q :=
  match k with
  | O => (ls, Ok x)
  | S k' => match f ls x with
            | (ls', Ok y) => iter_ls k' f ls' (Qred y)
            | (ls', Err e) => (ls', Err e)
            end
  end.

(* ------------------------------------------------------------------ SLE *)
Record senv := mksenv {
  s_lle_index : list nat;
  s_tm : list (option Q); s_hfus : list (option Q);     (* Chemical.Tm, Chemical.Hfus *)
  s_cpl : vec; s_cps : vec;                             (* Cn.l(T), Cn.s(T): oracles, constant stand-ins *)
  s_ideal : bool                                        (* thermo.Gamma is IdealActivityCoefficients *)
}.

Record sle_st := mksst {
  e_nonzero : option (list nat);     (* _nonzero (frozenset, as the sorted list) *)
  e_index : sel;                     (* _index: () initially, a list after _setup, slice(None) after a given solubility *)
  e_chemical : option nat;           (* _chemical *)
  e_sgi : option nat;                (* _solute_gamma_index (None: the slot was never assigned) *)
  e_setup : bool;                    (* _liquid_mol / _solid_mol exist *)
  e_act : option Q                   (* activity_coefficient when truthy *)
}.
Definition sst_init (act : option Q) : sle_st := mksst None (SList []) None None false act.

Record sstrm := mksstrm { q_l : vec; q_s : vec; q_T : Q; q_P : Q }.

Record sargs := mksargs {
  sa_solute : option nat;            (* chemicals.get_index(solute); None = unknown name *)
  sa_T : option Q; sa_H : bool; sa_P : option Q; sa_sol : option Q
}.

Record eut_in := mkeut { u_T : Q; u_Tm : Q; u_Hm : Q; u_Cpl : Q; u_Cps : Q; u_gamma : Q }.
(* the two arrays _x_iter writes while flx.aitken evaluates it *)
Definition lsT := (vec * vec)%type.
Record sle_oracle := mkeorc {
  oe_eut : eut_in -> Q;                              (* chemicals.solubility_eutectic *)
  oe_gamma : vec -> res vec;                         (* self._gamma(x_l, T) (may reject the length of x_l) *)
  oe_aitken : (lsT -> Q -> lsT * res Q) -> lsT -> Q -> lsT * res Q   (* flx.aitken on _x_iter, threading the arrays *)
}.

Definition opt_nth {A} (l : list (option A)) (i : nat) : option A := nth i l None.

(* SLE._x_iter: writes the solute entries of the two arrays, then evaluates the solubility *)
Definition x_iter (o : sle_oracle) (st : sle_st) (si : nat) (mol_solute : Q) (u : eut_in) (ls : lsT) (x : Q) : lsT * res Q :=
  match update_solubility si (e_index st) mol_solute (fst ls) (snd ls) x with
  | Err e => (ls, Err e)
  | Ok ls' =>
    let liquid := sel_pick (fst ls') (e_index st) in
    match vdivsc liquid (qsum liquid) with
    | Err e => (ls', Err e)
    | Ok x_l =>
      match oe_gamma o x_l with
      | Err e => (ls', Err e)
      | Ok g =>
        match e_sgi st with
        | None => (ls', Err EOther)                  (* AttributeError: _solute_gamma_index *)
        | Some k =>
          if Nat.ltb k (length g) then
            (ls', Ok (oe_eut o (mkeut (u_T u) (u_Tm u) (u_Hm u) (u_Cpl u) (u_Cps u) (nthq g k))))
          else (ls', Err EIndex)
        end
      end
    end
  end.

(* SLE._solve_x *)
Definition solve_x (V : senv) (o : sle_oracle) (st : sle_st) (si : nat) (mol_solute : Q) (ls : lsT) (T : Q) : lsT * res Q :=
  match opt_nth (s_tm V) si with
  | None => (ls, Err ERuntime)
  | Some Tm =>
    match opt_nth (s_hfus V) si with
    | None => (ls, Err ERuntime)
    | Some Hm =>
      let u := mkeut T Tm Hm (nthq (s_cpl V) si) (nthq (s_cps V) si) 1 in
      let x0 := oe_eut o u in
      if s_ideal V then
        (ls, Ok (oe_eut o (mkeut T Tm Hm (u_Cpl u) (u_Cps u) (match e_act st with Some a => a | None => 1 end))))
      else oe_aitken o (x_iter o st si mol_solute u) ls x0
    end
  end.

(* the index part of SLE._setup (after the repairs pending_fixes/C15_2: _chemical is cleared whenever the
   mixture branch is, or was, taken; and C15_4: the solute position is recomputed when the remembered index is
   reused); the flag is false when list.index raises ValueError.  A remembered index is always a list
   (Proofs.sst_wf: a given solubility forgets the remembered chemicals), so the SAll case below is unreachable. *)
Definition sle_setup (V : senv) (st : sle_st) (nz : list nat) (si : nat) : sle_st * bool :=
  if opt_eqb idx_eqb (e_nonzero st) (Some nz) then
    match e_index st with
    | SList l =>
      match find_pos si l with
      | Some p => (mksst (e_nonzero st) (e_index st) None (Some p) true (e_act st), true)
      | None => (mksst (e_nonzero st) (e_index st) None (e_sgi st) true (e_act st), false)
      end
    | SAll => (mksst (e_nonzero st) (e_index st) None (e_sgi st) true (e_act st), false)
    end
  else
    let index := filter (fun i => existsb (Nat.eqb i) nz) (s_lle_index V) in
    if Nat.eqb (length index) 1 then
      (mksst (e_nonzero st) (e_index st) (Some si) (e_sgi st) true (e_act st), true)
    else
      match find_pos si index with
      | None => (mksst (Some nz) (SList index) None (e_sgi st) true (e_act st), false)
      | Some p => (mksst (Some nz) (SList index) None (Some p) true (e_act st), true)
      end.

Definition sset_T (s : sstrm) (T : Q) : sstrm := mksstrm (q_l s) (q_s s) T (q_P s).
Definition sset_ls (s : sstrm) (ls : vec * vec) : sstrm := mksstrm (fst ls) (snd ls) (q_T s) (q_P s).

(* SLE.__call__(solute, T, P, H, solubility); the H-given path is not modelled (Err EOther) *)
Definition sle_call (V : senv) (o : sle_oracle) (st : sle_st) (s : sstrm) (a : sargs)
  : sle_st * sstrm * res unit :=
  match sa_solute a with
  | None => (st, s, Err EKey)
  | Some si =>
    match sa_T a, sa_H a with
    | None, false => (st, s, Err EValue)
    | Some _, true => (st, s, Err EValue)
    | None, true => (st, s, Err EOther)
    | Some T, false =>
      let s := mksstrm (q_l s) (q_s s) T (match sa_P a with Some p => p | None => q_P s end) in
      match sa_sol a with
      | Some x =>
        (* the two phase rows are bound from the indexer on this branch too (repair pending_fixes/C15_3;
           before it a new SLE object raised AttributeError here) *)
          let mol_solute := nthq (q_s s) si + nthq (q_l s) si in
          let st := mksst None SAll (e_chemical st) (e_sgi st) true (e_act st) in   (* _nonzero = None: C15_4 *)
          match update_solubility si SAll mol_solute (q_l s) (q_s s) x with
          | Err e => (st, s, Err e)
          | Ok ls => (st, sset_ls s ls, Ok tt)
          end
      | None =>
        (* _setup *)
        let st := mksst (e_nonzero st) (e_index st) (e_chemical st) (e_sgi st) true (e_act st) in
        let mol := vadd (q_l s) (q_s s) in
        let mol_solute := nthq mol si in
        if qzerob mol_solute then (st, s, Err ERuntime)
        else
          let nz := filter (fun i => nonzerob (nthq mol i)) (seq 0 (length mol)) in
          let r := sle_setup V st nz si in
          match r with
          | (st, false) => (st, s, Err EValue)               (* list.index: solute is not an LLE chemical *)
          | (st, true) =>
            match e_chemical st with
            | Some c =>
              match opt_nth (s_tm V) c with
              | None => (st, s, Err EType)                   (* T > None *)
              | Some Tm =>
                if qltb Tm T then (st, sset_ls s (upd (q_l s) si mol_solute, upd (q_s s) si 0), Ok tt)
                else (st, sset_ls s (upd (q_l s) si 0, upd (q_s s) si mol_solute), Ok tt)
              end
            | None =>
              match solve_x V o st si mol_solute (q_l s, q_s s) T with
              | (ls1, Err e) => (st, sset_ls s ls1, Err e)
              | (ls1, Ok x) =>
                match update_solubility si (e_index st) mol_solute (fst ls1) (snd ls1) x with
                | Err e => (st, sset_ls s ls1, Err e)
                | Ok ls => (st, sset_ls s ls, Ok tt)
                end
              end
            end
          end
      end
    end
  end.

Inductive sop :=
| SCall (a : sargs) (o : sle_oracle)
| SSetFlow (l s : vec)
| SReset (act : option Q).

Definition sstep (V : senv) (p : sle_st * sstrm) (op : sop) : sle_st * sstrm * option (res unit) :=
  let '(st, s) := p in
  match op with
  | SCall a o => let '(st', s', r) := sle_call V o st s a in (st', s', Some r)
  | SSetFlow l sd => (st, mksstrm l sd (q_T s) (q_P s), None)
  | SReset act => (sst_init act, s, None)
  end.

Record sobs := mksobs { sb_l : vec; sb_s : vec; sb_T : Q; sb_P : Q; sb_index : sel; sb_chemical : option nat;
                        sb_nonzero : option (list nat); sb_ret : option (res unit) }.
Definition sel_eqb (a b : sel) : bool :=
  match a, b with SAll, SAll => true | SList x, SList y => idx_eqb x y | _, _ => false end.
Definition unit_eqb (a b : unit) : bool := true.
Definition sobs_eqb (st : sle_st) (s : sstrm) (r : option (res unit)) (e : sobs) : bool :=
  vapproxb (q_l s) (sb_l e) && vapproxb (q_s s) (sb_s e) && qeqb (q_T s) (sb_T e) && qeqb (q_P s) (sb_P e)
  && sel_eqb (e_index st) (sb_index e) && opt_eqb Nat.eqb (e_chemical st) (sb_chemical e)
  && opt_eqb idx_eqb (e_nonzero st) (sb_nonzero e) && opt_eqb (res_eqb unit_eqb) r (sb_ret e).

Fixpoint srun_check (V : senv) (p : sle_st * sstrm) (ops : list sop) (exp : list sobs) : bool :=
  match ops, exp with
  | [], [] => true
  | op :: ops', e :: exp' =>
    let '(st', s', r) := sstep V p op in
    let s' := mksstrm (vr (q_l s')) (vr (q_s s')) (q_T s') (q_P s') in
    sobs_eqb st' s' r e && srun_check V (st', s') ops' exp'
  | _, _ => false
  end.

(* ------------------------------------------------------------------ the two compositions of one pass of the inner loop *)
Definition loop_x (fexp : Q -> Q) (v z : vec) (n : nat) (phi : Q) : res vec :=
  do x <- x_of z (map fexp (firstn n v)) phi; vdivsc x (qsum x).
Definition loop_y (fexp : Q -> Q) (gamma : vec -> vec) (v z : vec) (n : nat) (phi : Q) : res vec :=
  do x <- loop_x fexp v z n phi;
  do K <- vdivc (gamma x) (skipn n v);
  do y <- vop2 Qmult K x;
  vdivsc y (qsum y).
(* Rachford-Rice residual of (z, K, phi): what phase_fraction solves *)
Definition rr_residual (z K : vec) (phi : Q) : Q :=
  qsum (map2 (fun zi k => zi * (k - 1) / (1 + phi * (k - 1))) z K).

(* ------------------------------------------------------------------ thermo.Gamma(chemicals): class-level cache of activity-coefficient models
   activity_coefficients.py GroupActivityCoefficients.__new__ (the cache-key equality [gamma_key_eqb] is translated from
   the source).  A cached object carries the chemical order its per-chemical arrays were built for; LLE and SLE call it
   with compositions in the order of THEIR request. *)
Definition gcache := list (list nat).        (* cached objects in creation order, each with the order it was built for *)

Inductive gres :=
| GGroup (id : nat) (order : list nat)       (* a (cached) group-contribution object *)
| GIdeal (order : list nat).                 (* fewer than two chemicals with groups: a new IdealActivityCoefficients *)

Definition gres_order (r : gres) : list nat := match r with GGroup _ o => o | GIdeal o => o end.

Fixpoint gfind (key : list nat) (c : gcache) (k : nat) : option (nat * list nat) :=
  match c with
  | [] => None
  | o :: t => if gamma_key_eqb key o then Some (k, o) else gfind key t (S k)
  end.

Definition gamma_request (has_groups : nat -> bool) (c : gcache) (chems : list nat) : gcache * gres :=
  match gfind chems c 0 with
  | Some (k, o) => (c, GGroup k o)
  | None =>
    if Nat.leb (length (filter has_groups chems)) 1 then (c, GIdeal chems)
    else (c ++ [chems], GGroup (length c) chems)
  end.

Fixpoint gamma_run (has_groups : nat -> bool) (c : gcache) (reqs : list (list nat)) : list gres :=
  match reqs with
  | [] => []
  | r :: rest => let '(c', g) := gamma_request has_groups c r in g :: gamma_run has_groups c' rest
  end.

Definition gres_eqb (a b : gres) : bool :=
  match a, b with
  | GGroup i o, GGroup j p => Nat.eqb i j && idx_eqb o p
  | GIdeal o, GIdeal p => idx_eqb o p
  | _, _ => false
  end.
