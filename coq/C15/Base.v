(* C15 -- carrier-level helpers used by the generated kernels (Gen_kernels.v) and by Model.v.
   Executable definitions only.  Checked operations return Err where NumPy (with
   np.seterr(divide='raise', invalid='raise'), which thermosteam sets) or Python raises. *)
From V Require Export Common.Num.

(* scalar / scalar: ZeroDivisionError (python float, numba scalar) or FloatingPointError (numpy scalar) *)
Definition qdivc (a b : Q) : res Q := if qzerob b then Err EZeroDiv else Ok (a / b).

(* array (op) array of different lengths: ValueError (length-1 broadcasting is outside the model: n >= 2) *)
Definition vop2 (f : Q -> Q -> Q) (a b : vec) : res vec :=
  if Nat.eqb (length a) (length b) then Ok (map2 f a b) else Err EValue.

(* array / array: any zero divisor raises FloatingPointError *)
Definition vdivc (a b : vec) : res vec :=
  if negb (Nat.eqb (length a) (length b)) then Err EValue
  else if existsb qzerob b then Err EZeroDiv
  else Ok (map2 Qdiv a b).

(* array / scalar *)
Definition vdivsc (a : vec) (s : Q) : res vec :=
  if qzerob s then (match a with [] => Ok [] | _ => Err EZeroDiv end) else Ok (map (fun e_ => e_ / s) a).

(* scalar / array *)
Definition sdivvc (s : Q) (b : vec) : res vec :=
  if existsb qzerob b then Err EZeroDiv else Ok (map (fun e_ => s / e_) b).

(* a[n:] = e   and   a[:n] = e *)
Definition set_tail (n : nat) (a e : vec) : res vec :=
  if Nat.eqb (length e) (length a - n) then Ok (firstn n a ++ e) else Err EValue.
Definition set_head (n : nat) (a e : vec) : res vec :=
  if Nat.eqb (length e) (Nat.min n (length a)) then Ok (e ++ skipn n a) else Err EValue.

(* fancy index: slice(None) or a list of positions *)
Inductive sel := SAll | SList (l : list nat).
Definition sel_pick (v : vec) (s : sel) : vec :=
  match s with SAll => v | SList l => map (nthq v) l end.

(* float constants of the hand-modelled functions: exact rationals of the doubles
   1.0 + 1e-9, 1.0 - 1e-9, 1e-6 (binary_phase_fraction.py), 1e16, 1e-16, 1 - 1e-16 (lle.py) *)
Definition c_one_plus : Q := 281474976992131 # 281474976710656.
Definition c_one_minus : Q := 9007199245733793 # 9007199254740992.
Definition c_1em6 : Q := 4722366482869645 # 4722366482869645213696.
Definition c_1e16 : Q := 10000000000000000 # 1.
Definition c_1em16 : Q := 2028240960365167 # 20282409603651670423947251286016.
Definition c_one_m16 : Q := 9007199254740991 # 9007199254740992.
Definition c_099 : Q := 4458563631096791 # 4503599627370496.
Definition c_1em3 : Q := 1152921504606847 # 1152921504606846976.
