(* Generic lemmas about the vector helpers of Num.v *)
From V Require Export Common.Num.

Lemma map2_length {A B C} (f : A -> B -> C) a b :
  length a = length b -> length (map2 f a b) = length a.
Proof.
  revert b; induction a as [|x a IH]; intros [|y b] H; simpl in *; try discriminate; auto.
Qed.

Lemma vadd_length a b : length a = length b -> length (vadd a b) = length a.
Proof. apply map2_length. Qed.
Lemma vscale_length k a : length (vscale k a) = length a.
Proof. apply map_length. Qed.
Lemma vdivs_length a k : length (vdivs a k) = length a.
Proof. apply map_length. Qed.

Lemma nthq_nil i : nthq [] i = 0.
Proof. destruct i; reflexivity. Qed.

Lemma nthq_vadd a b i : length a = length b ->
  nthq (vadd a b) i == nthq a i + nthq b i.
Proof.
  revert b i; induction a as [|x a IH]; intros [|y b] i H; simpl in *; try discriminate.
  - rewrite nthq_nil. unfold nthq; simpl. destruct i; simpl; lra.
  - destruct i; unfold nthq in *; simpl.
    + lra.
    + apply IH. lia.
Qed.

Lemma nthq_vsub a b i : length a = length b ->
  nthq (vsub a b) i == nthq a i - nthq b i.
Proof.
  revert b i; induction a as [|x a IH]; intros [|y b] i H; simpl in *; try discriminate.
  - unfold nthq; destruct i; simpl; lra.
  - destruct i; unfold nthq in *; simpl.
    + lra.
    + apply IH. lia.
Qed.

Lemma nthq_vmul a b i : length a = length b ->
  nthq (vmul a b) i == nthq a i * nthq b i.
Proof.
  revert b i; induction a as [|x a IH]; intros [|y b] i H; simpl in *; try discriminate.
  - unfold nthq; destruct i; simpl; lra.
  - destruct i; unfold nthq in *; simpl.
    + lra.
    + apply IH. lia.
Qed.

Lemma nthq_vscale k a i : nthq (vscale k a) i == k * nthq a i.
Proof.
  revert i; induction a as [|x a IH]; intros i; unfold nthq in *; simpl.
  - destruct i; simpl; lra.
  - destruct i; simpl; [lra | apply IH].
Qed.

Lemma nthq_vdivs a k i : nthq (vdivs a k) i == nthq a i / k.
Proof.
  revert i; induction a as [|x a IH]; intros i; unfold nthq in *; simpl.
  - destruct i; simpl; unfold Qdiv; lra.
  - destruct i; simpl; [lra | apply IH].
Qed.

Lemma qzerob_true a : qzerob a = true <-> a == 0.
Proof. unfold qzerob. apply Qeq_bool_iff. Qed.
Lemma qzerob_false a : qzerob a = false <-> ~ a == 0.
Proof.
  unfold qzerob. split; intros H.
  - intros E. apply Qeq_bool_iff in E. congruence.
  - destruct (Qeq_bool a 0) eqn:E; auto. apply Qeq_bool_iff in E. contradiction.
Qed.

Lemma upd_length {A} (l : list A) i x : length (upd l i x) = length l.
Proof. revert i; induction l as [|h t IH]; intros [|i]; simpl; auto. Qed.

Lemma nth_error_upd_same {A} (l : list A) i x :
  (i < length l)%nat -> nth_error (upd l i x) i = Some x.
Proof.
  revert i; induction l as [|h t IH]; intros [|i] H; simpl in *; try lia; auto.
  apply IH. lia.
Qed.

Lemma nth_error_upd_other {A} (l : list A) i j x :
  i <> j -> nth_error (upd l i x) j = nth_error l j.
Proof.
  revert i j; induction l as [|h t IH]; intros [|i] [|j] H; simpl; auto; try congruence.
Qed.

Lemma nth_upd_same (l : vec) i x : (i < length l)%nat -> nthq (upd l i x) i = x.
Proof.
  revert i; induction l as [|h t IH]; intros [|i] H; simpl in *; try lia; auto.
  unfold nthq in *; simpl. apply IH. lia.
Qed.

Lemma nth_upd_other (l : vec) i j x : i <> j -> nthq (upd l i x) j = nthq l j.
Proof.
  revert i j; induction l as [|h t IH]; intros [|i] [|j] H; unfold nthq in *; simpl; auto; try congruence.
Qed.
