(* Common numeric helpers: exact rationals, vectors as lists, result type.
   Executable definitions only plus small generic lemmas used everywhere. *)
From Coq Require Export QArith Qabs Qminmax List Bool Lia Lqa NArith.
Export ListNotations.
Open Scope Q_scope.

(* ---------- results with an error value ---------- *)
Inductive err : Type :=
| EValue | EKey | EIndex | EType | EZeroDiv | ERuntime | EInfeasible | EUndefPhase
| EDim | EOther.

Inductive res (A : Type) : Type := Ok (a : A) | Err (e : err).
Arguments Ok {A} a. Arguments Err {A} e.

Definition bind {A B} (r : res A) (f : A -> res B) : res B :=
  match r with Ok a => f a | Err e => Err e end.
Notation "'do' x <- r ; k" := (bind r (fun x => k))
  (at level 200, x name, r at level 100, k at level 200).

Definition err_eqb (a b : err) : bool :=
  match a, b with
  | EValue, EValue | EKey, EKey | EIndex, EIndex | EType, EType
  | EZeroDiv, EZeroDiv | ERuntime, ERuntime | EInfeasible, EInfeasible
  | EUndefPhase, EUndefPhase | EDim, EDim | EOther, EOther => true
  | _, _ => false
  end.

(* ---------- vectors over Q ---------- *)
Definition vec := list Q.

Definition nthq (v : vec) (i : nat) : Q := nth i v 0.

Fixpoint map2 {A B C} (f : A -> B -> C) (a : list A) (b : list B) : list C :=
  match a, b with
  | x :: a', y :: b' => f x y :: map2 f a' b'
  | _, _ => []
  end.

Definition vadd (a b : vec) : vec := map2 Qplus a b.
Definition vsub (a b : vec) : vec := map2 Qminus a b.
Definition vmul (a b : vec) : vec := map2 Qmult a b.
Definition vscale (k : Q) (a : vec) : vec := map (Qmult k) a.
Definition vdivs (a : vec) (k : Q) : vec := map (fun x => x / k) a.
Definition qsum (a : vec) : Q := fold_right Qplus 0 a.
Definition vdot (a b : vec) : Q := qsum (vmul a b).
Definition vzero (n : nat) : vec := repeat 0 n.

Definition qeqb (a b : Q) : bool := Qeq_bool a b.
Definition qzerob (a : Q) : bool := Qeq_bool a 0.
Definition qltb (a b : Q) : bool := negb (Qle_bool b a).
Definition qleb (a b : Q) : bool := Qle_bool a b.

(* comparison against floating-point results of the implementation: relative 1e-9 *)
Definition qtol : Q := 1 # 1000000000.
Definition qapproxb (a b : Q) : bool :=
  Qle_bool (Qabs (a - b)) (qtol * Qmax 1 (Qmax (Qabs a) (Qabs b))).

Fixpoint vapproxb (a b : vec) : bool :=
  match a, b with
  | [], [] => true
  | x :: a', y :: b' => qapproxb x y && vapproxb a' b'
  | _, _ => false
  end.

Fixpoint veqb (a b : vec) : bool :=
  match a, b with
  | [], [] => true
  | x :: a', y :: b' => qeqb x y && veqb a' b'
  | _, _ => false
  end.

Fixpoint list_eqb {A} (eqb : A -> A -> bool) (a b : list A) : bool :=
  match a, b with
  | [], [] => true
  | x :: a', y :: b' => eqb x y && list_eqb eqb a' b'
  | _, _ => false
  end.

Definition opt_eqb {A} (eqb : A -> A -> bool) (a b : option A) : bool :=
  match a, b with
  | None, None => true
  | Some x, Some y => eqb x y
  | _, _ => false
  end.

Definition res_eqb {A} (eqb : A -> A -> bool) (a b : res A) : bool :=
  match a, b with
  | Ok x, Ok y => eqb x y
  | Err e, Err f => err_eqb e f
  | _, _ => false
  end.

Fixpoint upd {A} (l : list A) (i : nat) (x : A) : list A :=
  match l, i with
  | [], _ => []
  | _ :: t, O => x :: t
  | h :: t, S j => h :: upd t j x
  end.

(* pointwise equality of vectors as a Prop *)
Definition veq (a b : vec) : Prop :=
  length a = length b /\ forall i, nthq a i == nthq b i.

(* ---------- reporting for correspondence case files ---------- *)
Fixpoint failing_from (n : N) (l : list bool) : list N :=
  match l with
  | [] => []
  | b :: t => if b then failing_from (N.succ n) t else n :: failing_from (N.succ n) t
  end.
Definition failing (l : list bool) : list N := failing_from 0%N l.
