(* C13 — lemmas about the pickling interpreter ModelPickle.v instantiated with the class tables generated from the source
   (Gen_pickle.v): the round trip of a property package reproduces the state of EVERY slot. *)
From Coq Require Import String List Bool Arith Lia.
From V Require Import Common.Num C13.Gen_pickle C13.ModelPickle.
Import ListNotations.
Local Open Scope string_scope.
Local Open Scope nat_scope.
Local Open Scope list_scope.

(* the objects the constructors build *)
Definition thermo_obj (a b c d e : nat) (i : pval) : pobj :=
  mkpobj 0 [("chemicals", PAtom a); ("mixture", PAtom b); ("Gamma", PAtom c); ("Phi", PAtom d); ("PCF", PAtom e);
            ("_ideal", i); ("_original_thermo", PNone)].
Definition ideal_obj (a b : nat) : pobj :=
  mkpobj 1 [("chemicals", PAtom a); ("mixture", PAtom b); ("_original_thermo", PNone)].

Lemma nth_app_new {A} (l e : list A) k : nth_error (l ++ e) (length l + k) = nth_error e k.
Proof. induction l as [|x l IH]; simpl; auto. Qed.
Lemma nth_app_new0 {A} (l e : list A) : nth_error (l ++ e) (length l) = nth_error e 0.
Proof. rewrite <- (nth_app_new l e 0). f_equal. lia. Qed.
Lemma nth_app_old {A} (l e : list A) k x : nth_error l k = Some x -> nth_error (l ++ e) k = Some x.
Proof. intros H. rewrite nth_error_app1; auto. apply nth_error_Some. congruence. Qed.

(* Thermo.__init__ builds exactly thermo_obj with an empty cache *)
Lemma thermo_new_obj h a b c d e :
  thermo_new h [PAtom a; PAtom b; PAtom c; PAtom d; PAtom e] = Ok (h ++ [thermo_obj a b c d e PNone], length h).
Proof. reflexivity. Qed.

(* a package whose ideal package was never asked for *)
Lemma pickle_thermo_plain h l a b c d e :
  nth_error h l = Some (thermo_obj a b c d e PNone) ->
  ppickle h l = Ok (h ++ [thermo_obj a b c d e PNone], length h).
Proof.
  intros H. unfold ppickle, pickle_fuel. cbn [pcopy massoc]. unfold prd. rewrite H. reflexivity.
Qed.

(* an ideal package *)
Lemma pickle_ideal h l a b :
  nth_error h l = Some (ideal_obj a b) ->
  ppickle h l = Ok (h ++ [ideal_obj a b], length h).
Proof.
  intros H. unfold ppickle, pickle_fuel. cbn [pcopy massoc]. unfold prd. rewrite H. reflexivity.
Qed.

(* a package holding its cached ideal package: both are rebuilt, the new package refers to the NEW ideal package *)
Lemma pickle_thermo_cached h l r a b c d e a' b' :
  nth_error h l = Some (thermo_obj a b c d e (PRef r)) -> nth_error h r = Some (ideal_obj a' b') -> l <> r ->
  ppickle h l = Ok (h ++ [ideal_obj a' b'; thermo_obj a b c d e (PRef (length h))], S (length h)).
Proof.
  intros H R N. unfold ppickle, pickle_fuel. cbn [pcopy massoc]. unfold prd. rewrite H.
  cbn [bind get_state p_cls p_fields thermo_obj state_slots cls_recipe cls_slots Nat.eqb thermo_recipe thermo_mro_slots concat app
       pgetfields pgetattr fget String.eqb Ascii.eqb Bool.eqb].
  cbn [pcopy massoc]. unfold prd. rewrite R.
  cbn. rewrite <- app_assoc. cbn. rewrite app_length. cbn. replace (length h + 1) with (S (length h)) by lia. reflexivity.
Qed.

(* ideal() and the in-process reduce on the same shapes *)
Lemma p_ideal_plain h l a b c d e :
  nth_error h l = Some (thermo_obj a b c d e PNone) ->
  p_ideal h l = Ok (pwr h l (thermo_obj a b c d e (PRef (length h))) ++ [ideal_obj a b], length h).
Proof. intros H. unfold p_ideal, prd. rewrite H. reflexivity. Qed.
Lemma p_ideal_cached h l r a b c d e :
  nth_error h l = Some (thermo_obj a b c d e (PRef r)) -> p_ideal h l = Ok (h, r).
Proof. intros H. unfold p_ideal, prd. rewrite H. reflexivity. Qed.
Lemma p_ideal_self h l a b : nth_error h l = Some (ideal_obj a b) -> p_ideal h l = Ok (h, l).
Proof. intros H. unfold p_ideal, prd. rewrite H. reflexivity. Qed.
Lemma reduce_thermo h l a b c d e i :
  nth_error h l = Some (thermo_obj a b c d e i) -> reduce_inproc h l = Ok (h ++ [thermo_obj a b c d e i], length h).
Proof. intros H. unfold reduce_inproc, prd. rewrite H. reflexivity. Qed.
Lemma reduce_ideal h l a b :
  nth_error h l = Some (ideal_obj a b) -> reduce_inproc h l = Ok (h ++ [ideal_obj a b], length h).
Proof. intros H. unfold reduce_inproc, prd. rewrite H. reflexivity. Qed.

(* the views *)
Lemma pview_plain h l a b c d e :
  nth_error h l = Some (thermo_obj a b c d e PNone) ->
  pview (h ++ [thermo_obj a b c d e PNone]) (length h) = pview h l.
Proof. intros H. unfold pview, shallow. rewrite nth_app_new0, H. reflexivity. Qed.
Lemma pview_ideal h l a b :
  nth_error h l = Some (ideal_obj a b) -> pview (h ++ [ideal_obj a b]) (length h) = pview h l.
Proof. intros H. unfold pview, shallow. rewrite nth_app_new0, H. reflexivity. Qed.
Lemma pview_cached h l r a b c d e a' b' :
  nth_error h l = Some (thermo_obj a b c d e (PRef r)) -> nth_error h r = Some (ideal_obj a' b') ->
  pview (h ++ [ideal_obj a' b'; thermo_obj a b c d e (PRef (length h))]) (S (length h)) = pview h l.
Proof.
  intros H R. unfold pview. unfold shallow at 1 3. replace (S (length h)) with (length h + 1) by lia.
  rewrite nth_app_new, H. cbn [nth_error].
  cbn [p_cls p_fields thermo_obj cls_slots Nat.eqb thermo_mro_slots concat app flat_map fget String.eqb Ascii.eqb Bool.eqb map].
  unfold shallow. rewrite nth_app_new0, R. reflexivity.
Qed.

Definition ideal_slot_name : string := "_ideal".
