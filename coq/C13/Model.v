(* C13 — executable heap model of thermosteam stream object graphs.
   Source modelled (as it is at /repo HEAD fd59039, with the repairs proposed in pending_fixes/C13_1 .. C13_4 applied):
     _stream.py       Stream.{__init__, from_data, __reduce__, get_data, set_data, scale, empty, T/P/phase/phases
                      setters, link_with, unlink, copy_like, copy_thermal_condition, copy_phase, copy, flow_proxy, proxy}
     _multi_stream.py MultiStream.{__init__, phases/phase setters, copy_like}
     indexer.py       Indexer.copy, ChemicalIndexer.{copy_like, to_material_indexer, _copy_without_data, blank, from_data},
                      MaterialIndexer.{copy_like, _expand_phases, to_material_indexer, to_chemical_indexer, get_phase,
                      _copy_without_data, blank}, index_overlap
     _phase.py        phase_tuple, check_phase, PhaseIndexer (aliases of the other letter case, compatible_with), Phase
     _thermal_condition.py ThermalCondition.{__init__, copy, copy_like}
   A heap is a list of cells addressed by position.  Python objects that can be shared are cells:
     CVec   a SparseVector (dense list of Q, one entry per chemical of the package)
     CArr   a SparseArray: the list of references to its row vectors ([rows] can be rebound by _expand_phases)
     CPhase a Phase box
     CTC    a ThermalCondition
     CIdxC  a ChemicalIndexer  (_chemicals as package number, _phase, data)
     CIdxM  a MaterialIndexer  (_chemicals, _phases, data)
   A stream object is a record: references _imol and _thermal_condition (attributes that can be REBOUND), and
   the plain fields price, characterization factors, ID, thermo.  The class of the object (Stream / MultiStream)
   is read off the kind of its indexer cell (the harness checks that invariant on every observation).
   Rebinding an attribute = changing the record or the indexer cell; mutating a shared object = writing the cell.
   Every function returns the heap it reached even when it raises (Python does not roll back).
   No proofs in this file. *)
From V Require Export Common.Num.

Definition ref := nat.
Inductive sid := IdNone | IdName (n : nat) | IdAuto.

Inductive cell :=
| CVec (v : vec)
| CArr (rows : list ref)
| CPhase (p : nat)
| CTC (T P : Q)
| CIdxC (pkg : nat) (pb : ref) (data : ref)
| CIdxM (pkg : nat) (phs : list nat) (data : ref).

Definition heap := list cell.

Record stream := mkstream {
  imol : ref; tc : ref; price : Q; cf : list (nat * Q); sid_ : sid; thermo : nat }.

Definition set_imol (s : stream) (r : ref) := mkstream r (tc s) (price s) (cf s) (sid_ s) (thermo s).
Definition set_tc (s : stream) (r : ref) := mkstream (imol s) r (price s) (cf s) (sid_ s) (thermo s).

(* The derived-flow views (imass / ivol) live in the dict `_data_cache` of an indexer object.  That dict is an
   object of its own: link_with can make two indexers hold the SAME dict, unlink gives the indexer a new empty one,
   _expand_phases clears it in place.  It is modelled as a second layer over the heap: [cmap] binds an indexer
   reference to the number of its dict (an indexer without binding has a private dict that nothing else holds and
   that is still empty), [caches] gives for every dict its 'mass' view (None = no 'mass' entry).
   The view wraps the row OBJECTS that were the data of the indexer when the view was created. *)
(* a 'mass' view: the row objects it wraps, and the phase it was built with: the Phase OBJECT of the indexer for a
   ChemicalIndexer (so it follows later writes into that box), the phases tuple (a value) for a MaterialIndexer *)
Record view := mkview { v_rows : list ref; v_pb : option ref; v_phs : list nat }.
Record state := mkstate { hp : heap; ss : list stream; cmap : list (ref * nat); caches : list (option view) }.

(* ---------- phases: 'L'=0 'S'=1 'g'=2 'l'=3 's'=4 (ASCII order); 'G'=5, 'q'=6, 'Q'=7 are not valid ---------- *)
Definition valid_phase (p : nat) : bool := Nat.leb p 4%nat.
Definition swapcase (p : nat) : nat :=
  match p with 0%nat => 3%nat | 1%nat => 4%nat | 2%nat => 5%nat | 3%nat => 0%nat | 4%nat => 1%nat
             | 5%nat => 2%nat | 6%nat => 7%nat | 7%nat => 6%nat | _ => p end.
Definition lower (p : nat) : nat :=
  match p with 0%nat => 3%nat | 1%nat => 4%nat | 5%nat => 2%nat | 7%nat => 6%nat | _ => p end.

Definition memb (p : nat) (l : list nat) : bool := existsb (Nat.eqb p) l.

Fixpoint insert_set (p : nat) (l : list nat) : list nat :=
  match l with
  | [] => [p]
  | x :: t => if Nat.ltb p x then p :: l else if Nat.eqb p x then l else x :: insert_set p t
  end.
Definition sort_set (l : list nat) : list nat := fold_right insert_set [] l.

(* phase_tuple: sorted set, RuntimeError on an invalid phase *)
Definition phase_tuple (l : list nat) : res (list nat) :=
  if forallb valid_phase l then Ok (sort_set l) else Err ERuntime.

Fixpoint find_pos (p : nat) (l : list nat) : option nat :=
  match l with
  | [] => None
  | x :: t => if Nat.eqb p x then Some O else option_map S (find_pos p t)
  end.

(* PhaseIndexer.__call__ / __contains__: the phase itself, else the other letter case *)
Definition pidx (phs : list nat) (p : nat) : option nat :=
  match find_pos p phs with Some i => Some i | None => find_pos (swapcase p) phs end.
Definition compatible (a b : list nat) : bool := list_eqb Nat.eqb (map lower a) (map lower b).
Definition same_phases (a b : list nat) : bool := list_eqb Nat.eqb a b.

(* ---------- heap access ---------- *)
Definition rdvec (h : heap) (r : ref) : vec := match nth_error h r with Some (CVec v) => v | _ => [] end.
Definition rdrows (h : heap) (r : ref) : list ref := match nth_error h r with Some (CArr l) => l | _ => [] end.
Definition rdphase (h : heap) (r : ref) : nat := match nth_error h r with Some (CPhase p) => p | _ => O end.
Definition rdtc (h : heap) (r : ref) : Q * Q := match nth_error h r with Some (CTC T P) => (T, P) | _ => (0, 0) end.
Definition wr (h : heap) (r : ref) (c : cell) : heap := upd h r c.
Definition wrvecs (h : heap) (rs : list ref) (f : vec -> vec) : heap :=
  fold_left (fun h r => wr h r (CVec (f (rdvec h r)))) rs h.

Definition any_nz (v : vec) : bool := existsb (fun x => negb (qzerob x)) v.
Definition zero_like (v : vec) : vec := map (fun _ => 0) v.

Section WithPackages.
(* the property packages: chemicals (identified by a number standing for the CAS) in package order *)
Variable pk : list (list nat).
(* molecular weight of every chemical (by chemical number) *)
Variable mws : list Q.
Definition chems (k : nat) : list nat := nth k pk [].
Definition zeros (k : nat) : vec := vzero (length (chems k)).

(* flow of chemical c in a vector ordered like package [cs] *)
Definition flow_of (cs : list nat) (v : vec) (c : nat) : Q :=
  match find_pos c cs with Some i => nthq v i | None => 0 end.
(* index_overlap raises UndefinedChemicalAlias when a non-zero entry has no counterpart *)
Definition missing (tgt src : list nat) (v : vec) : bool :=
  existsb (fun cx => negb (qzerob (snd cx)) && negb (memb (fst cx) tgt)) (combine src v).
(* data[left_index] = other[right_index] on an emptied vector, read densely *)
Definition remap (tgt src : list nat) (v : vec) : vec := map (flow_of src v) tgt.

(* ---------- ThermalCondition ---------- *)
Definition tc_valid (T P : Q) : bool := negb (qltb T 0) && negb (qltb P 0).
(* ThermalCondition.copy: goes through __init__, which rejects negative values *)
Definition tc_copy (h : heap) (r : ref) : res (heap * ref) :=
  let (T, P) := rdtc h r in
  if tc_valid T P then Ok (h ++ [CTC T P], length h) else Err EInfeasible.
(* ThermalCondition.copy_like *)
Definition tc_copy_like (h : heap) (r o : ref) : heap := let (T, P) := rdtc h o in wr h r (CTC T P).

(* ---------- data containers ---------- *)
Definition alloc_vecs (h : heap) (vs : list vec) : heap * list ref :=
  (h ++ map CVec vs, seq (length h) (length vs)).
(* SparseArray.copy *)
Definition arr_copy (h : heap) (d : ref) : heap * ref :=
  let (h1, rs) := alloc_vecs h (map (rdvec h) (rdrows h d)) in (h1 ++ [CArr rs], length h1).
(* MaterialIndexer.blank *)
Definition mat_blank (h : heap) (k : nat) (phs : list nat) : heap * ref :=
  let (h1, rs) := alloc_vecs h (map (fun _ => zeros k) phs) in
  let h2 := h1 ++ [CArr rs] in
  (h2 ++ [CIdxM k phs (length h1)], length h2).
(* ChemicalIndexer.blank / from_data with a fresh vector *)
Definition chem_new (h : heap) (k p : nat) (v : vec) : heap * ref :=
  (h ++ [CPhase p; CVec v; CIdxC k (length h) (S (length h))], S (S (length h))).

(* Indexer.copy *)
Definition imol_copy (h : heap) (r : ref) : res (heap * ref) :=
  match nth_error h r with
  | Some (CIdxC k pb d) => Ok (chem_new h k (rdphase h pb) (rdvec h d))
  | Some (CIdxM k phs d) => let (h1, d') := arr_copy h d in Ok (h1 ++ [CIdxM k phs d'], length h1)
  | _ => Err EOther
  end.

(* a chemical-indexer source: a real ChemicalIndexer or the view MaterialIndexer.get_phase *)
Record csrc := mkcsrc { c_pkg : nat; c_phase : nat; c_data : ref; c_self : option ref }.

(* ChemicalIndexer.copy_like *)
Definition chem_copy_like (h : heap) (r : ref) (o : csrc) : heap * option err :=
  match nth_error h r with
  | Some (CIdxC k pb d) =>
    if opt_eqb Nat.eqb (c_self o) (Some r) then (h, None) else
    let step2 (h1 : heap) :=
      if valid_phase (c_phase o) then (wr h1 pb (CPhase (c_phase o)), None) else (h1, Some ERuntime) in
    if Nat.eqb k (c_pkg o) then
      step2 (if Nat.eqb d (c_data o) then h else wr h d (CVec (rdvec h (c_data o))))
    else
      let h1 := wr h d (CVec (zero_like (rdvec h d))) in
      let v := rdvec h1 (c_data o) in
      if missing (chems k) (chems (c_pkg o)) v then (h1, Some EKey)
      else step2 (wr h1 d (CVec (remap (chems k) (chems (c_pkg o)) v)))
  | _ => (h, Some EOther)
  end.

(* MaterialIndexer._expand_phases *)
Definition expand_phases (h : heap) (r : ref) (other : list nat) : heap * option err :=
  match nth_error h r with
  | Some (CIdxM k phs d) =>
    let new := filter (fun p => negb (memb p phs)) (sort_set other) in
    match new with
    | [] => (h, None)
    | _ =>
      match phase_tuple (new ++ phs) with
      | Err e => (h, Some e)
      | Ok all =>
        let h1 := wr h r (CIdxM k all d) in
        let old := combine phs (rdrows h1 d) in
        let (h2, fresh) := alloc_vecs h1 (map (fun _ => zeros k) new) in
        let tbl := old ++ combine new fresh in
        let rows := map (fun p => match find (fun pr => Nat.eqb (fst pr) p) tbl with
                                  | Some pr => snd pr | None => O end) all in
        (wr h2 d (CArr rows), None)
      end
    end
  | _ => (h, Some EOther)
  end.

Definition mat_empty (h : heap) (d : ref) : heap := wrvecs h (rdrows h d) zero_like.

(* union over the rows of "some entry in this column is non-zero", as a vector of 0/1 *)
Definition nz_union (h : heap) (rs : list ref) (n : nat) : vec :=
  map (fun i => if existsb (fun r => negb (qzerob (nthq (rdvec h r) i))) rs then 1 else 0) (seq O n).

(* MaterialIndexer.copy_like from a chemical indexer *)
Definition mat_copy_like_c (h : heap) (r : ref) (o : csrc) : heap * option err :=
  match nth_error h r with
  | Some (CIdxM k phs d) =>
    let h1 := mat_empty h d in
    let p := c_phase o in
    let '(h2, e) := match pidx phs p with Some _ => (h1, None) | None => expand_phases h1 r [p] end in
    match e with Some e => (h2, Some e) | None =>
    match nth_error h2 r with
    | Some (CIdxM _ phs2 _) =>
      match pidx phs2 p with
      | None => (h2, Some EUndefPhase)
      | Some i =>
        let row := nth i (rdrows h2 d) O in
        let v := rdvec h2 (c_data o) in
        if Nat.eqb k (c_pkg o) then
          (if Nat.eqb row (c_data o) then h2 else wr h2 row (CVec v), None)
        else if missing (chems k) (chems (c_pkg o)) v then (h2, Some EKey)
        else (wr h2 row (CVec (remap (chems k) (chems (c_pkg o)) v)), None)
      end
    | _ => (h2, Some EOther)
    end end
  | _ => (h, Some EOther)
  end.

(* for i, j in other: data[phase_indexer(i)] = f(j) *)
Fixpoint assign_rows (h : heap) (phs : list nat) (rows : list ref) (ophs : list nat) (orows : list ref)
         (f : vec -> vec) : heap * option err :=
  match ophs, orows with
  | p :: ophs', o :: orows' =>
    match pidx phs p with
    | None => (h, Some EUndefPhase)
    | Some i => assign_rows (wr h (nth i rows O) (CVec (f (rdvec h o)))) phs rows ophs' orows' f
    end
  | _, _ => (h, None)
  end.

(* SparseArray.copy_like / data[:, left] = other[:, right]: rows pairwise by position *)
Fixpoint zip_rows (h : heap) (rows orows : list ref) (f : vec -> vec) : heap :=
  match rows, orows with
  | a :: rows', o :: orows' => zip_rows (if Nat.eqb a o then h else wr h a (CVec (f (rdvec h o)))) rows' orows' f
  | _, _ => h
  end.

(* MaterialIndexer.copy_like from a material indexer *)
Definition mat_copy_like_m (h : heap) (r o : ref) : heap * option err :=
  if Nat.eqb r o then (h, None) else
  match nth_error h r, nth_error h o with
  | Some (CIdxM k phs d), Some (CIdxM ko ophs od) =>
    if Nat.eqb k ko then
      if same_phases phs ophs then (zip_rows h (rdrows h d) (rdrows h od) (fun v => v), None)
      else
        let '(h1, e) := if compatible phs ophs then (h, None) else expand_phases h r ophs in
        match e with Some e => (h1, Some e) | None =>
        match nth_error h1 r with
        | Some (CIdxM _ phs1 _) =>
          let h2 := mat_empty h1 d in
          assign_rows h2 phs1 (rdrows h2 d) ophs (rdrows h2 od) (fun v => v)
        | _ => (h1, Some EOther)
        end end
    else
      (* index_overlap first (raises before any write), then expand if needed, empty, assign row by row *)
      let u := nz_union h (rdrows h od) (length (chems ko)) in
      if missing (chems k) (chems ko) u then (h, Some EKey) else
      let f := remap (chems k) (chems ko) in
      let '(h1, e) := if same_phases phs ophs || compatible phs ophs then (h, None) else expand_phases h r ophs in
      match e with Some e => (h1, Some e) | None =>
      match nth_error h1 r with
      | Some (CIdxM _ phs1 _) =>
        let h2 := mat_empty h1 d in
        assign_rows h2 phs1 (rdrows h2 d) ophs (rdrows h2 od) f
      | _ => (h1, Some EOther)
      end end
  | _, _ => (h, Some EOther)
  end.

(* MaterialIndexer.get_phase(phases[0]) of a one-phase indexer, ChemicalIndexer as itself *)
Definition src_of (h : heap) (o : ref) : option csrc :=
  match nth_error h o with
  | Some (CIdxC k pb d) => Some (mkcsrc k (rdphase h pb) d (Some o))
  | Some (CIdxM k [p] d) => Some (mkcsrc k p (nth O (rdrows h d) O) None)
  | _ => None
  end.

(* ChemicalIndexer.to_material_indexer(phases); empty data is not moved (no phase lookup) *)
Definition chem_to_material (h : heap) (r : ref) (phs : list nat) : res (heap * ref) :=
  match nth_error h r with
  | Some (CIdxC k pb d) =>
    do pt <- phase_tuple phs;
    let p := rdphase h pb in
    let p' := if memb p phs then p else swapcase p in
    if any_nz (rdvec h d) then
      match pidx pt p' with
      | None => Err EUndefPhase
      | Some i =>
        let (h1, m) := mat_blank h k pt in
        Ok (wr h1 (length h + i)%nat (CVec (rdvec h d)), m)
      end
    else Ok (mat_blank h k pt)
  | _ => Err EOther
  end.

(* MaterialIndexer.to_material_indexer(phases): non-empty rows are added to the row of their phase *)
Fixpoint move_rows (h : heap) (base : nat) (pt : list nat) (given : list nat) (ophs : list nat) (orows : list ref)
  : res heap :=
  match ophs, orows with
  | p :: ophs', o :: orows' =>
    let v := rdvec h o in
    if any_nz v then
      let p' := if memb p given then p else swapcase p in
      match pidx pt p' with
      | None => Err EUndefPhase
      | Some i => move_rows (wr h (base + i)%nat (CVec (vadd (rdvec h (base + i)%nat) v))) base pt given ophs' orows'
      end
    else move_rows h base pt given ophs' orows'
  | _, _ => Ok h
  end.
Definition mat_to_material (h : heap) (r : ref) (pt : list nat) : res (heap * ref) :=
  match nth_error h r with
  | Some (CIdxM k phs d) =>
    let (h1, m) := mat_blank h k pt in
    do h2 <- move_rows h1 (length h) pt pt phs (rdrows h d);
    Ok (h2, m)
  | _ => Err EOther
  end.

(* MaterialIndexer.to_chemical_indexer(phase): sum of the rows, fresh unchecked Phase *)
Definition mat_to_chemical (h : heap) (r : ref) (p : nat) : res (heap * ref) :=
  match nth_error h r with
  | Some (CIdxM k phs d) =>
    let v := fold_left (fun acc x => vadd acc (rdvec h x)) (rdrows h d) (zeros k) in
    Ok (chem_new h k p v)
  | _ => Err EOther
  end.

(* ---------- stream level ---------- *)
Definition oret := (heap * stream * option err)%type.
Definition is_multi (h : heap) (s : stream) : bool :=
  match nth_error h (imol s) with Some (CIdxM _ _ _) => true | _ => false end.

(* data rows of a stream (one for a Stream) *)
Definition data_rows (h : heap) (s : stream) : list ref :=
  match nth_error h (imol s) with
  | Some (CIdxC _ _ d) => [d]
  | Some (CIdxM _ _ d) => rdrows h d
  | _ => []
  end.

(* Stream.empty *)
Definition empty (h : heap) (s : stream) : oret := (wrvecs h (data_rows h s) zero_like, s, None).

(* phases setter of Stream and of MultiStream (dispatch on the class = kind of the indexer) *)
Definition set_phases (h : heap) (s : stream) (phs : list nat) : oret :=
  match nth_error h (imol s) with
  | Some (CIdxC k pb d) =>
    match sort_set phs with
    | [p] => if valid_phase p then (wr h pb (CPhase p), s, None) else (h, s, Some ERuntime)
    | _ => match chem_to_material h (imol s) phs with
           | Ok (h1, m) => (h1, set_imol s m, None)
           | Err e => (h, s, Some e)
           end
    end
  | Some (CIdxM k cur d) =>
    match sort_set phs with
    | [p] => match mat_to_chemical h (imol s) p with
             | Ok (h1, c) => (h1, set_imol s c, if valid_phase p then None else Some ERuntime)
             | Err e => (h, s, Some e)
             end
    | _ => match phase_tuple phs with
           | Err e => (h, s, Some e)
           | Ok pt => if same_phases pt cur then (h, s, None)
                      else match mat_to_material h (imol s) pt with
                           | Ok (h1, m) => (h1, set_imol s m, None)
                           | Err e => (h, s, Some e)
                           end
           end
    end
  | _ => (h, s, Some EOther)
  end.

(* phase setter *)
Definition set_phase (h : heap) (s : stream) (p : nat) : oret :=
  match nth_error h (imol s) with
  | Some (CIdxC k pb d) => if valid_phase p then (wr h pb (CPhase p), s, None) else (h, s, Some ERuntime)
  | Some (CIdxM _ _ _) => match mat_to_chemical h (imol s) p with
                          | Ok (h1, c) => (h1, set_imol s c, None)
                          | Err e => (h, s, Some e)
                          end
  | _ => (h, s, Some EOther)
  end.

(* self._imol.copy_like(imol) with the dispatch on both kinds *)
Definition imol_copy_like (h : heap) (r o : ref) : heap * option err :=
  match nth_error h r with
  | Some (CIdxC _ _ _) => match src_of h o with Some c => chem_copy_like h r c | None => (h, Some EOther) end
  | Some (CIdxM _ _ _) =>
    match nth_error h o with
    | Some (CIdxC k pb d) => mat_copy_like_c h r (mkcsrc k (rdphase h pb) d (Some o))
    | _ => mat_copy_like_m h r o
    end
  | _ => (h, Some EOther)
  end.

(* Stream.copy_like / MultiStream.copy_like;  [o] is the other stream *)
Definition copy_like (h : heap) (s o : stream) : oret :=
  match nth_error h (imol s) with
  | Some (CIdxC k _ _) =>
    match nth_error h (imol o) with
    | Some (CIdxM ko ophs od) =>
      match ophs with
      | [p] =>
        let '(h1, e) := chem_copy_like h (imol s) (mkcsrc ko p (nth O (rdrows h od) O) None) in
        match e with Some e => (h1, s, Some e) | None => (tc_copy_like h1 (tc s) (tc o), s, None) end
      | _ =>
        let '(h1, _, _) := empty h s in
        let '(h2, s2, e) := set_phases h1 s ophs in
        match e with Some e => (h2, s2, Some e) | None =>
        let '(h3, e) := mat_copy_like_m h2 (imol s2) (imol o) in
        match e with Some e => (h3, s2, Some e) | None => (tc_copy_like h3 (tc s2) (tc o), s2, None) end end
      end
    | Some (CIdxC ko pbo od) =>
      let '(h1, e) := chem_copy_like h (imol s) (mkcsrc ko (rdphase h pbo) od (Some (imol o))) in
      match e with Some e => (h1, s, Some e) | None => (tc_copy_like h1 (tc s) (tc o), s, None) end
    | _ => (h, s, Some EOther)
    end
  | Some (CIdxM _ _ _) =>
    let '(h1, e) := imol_copy_like h (imol s) (imol o) in
    match e with Some e => (h1, s, Some e) | None => (tc_copy_like h1 (tc s) (tc o), s, None) end
  | _ => (h, s, Some EOther)
  end.

Definition copy_tc (h : heap) (s o : stream) : oret := (tc_copy_like h (tc s) (tc o), s, None).

(* copy_phase: the right-hand side is evaluated first *)
Definition copy_phase (h : heap) (s o : stream) : oret :=
  match nth_error h (imol o) with
  | Some (CIdxC _ pbo _) =>
    match nth_error h (imol s) with
    | Some (CIdxC _ pb _) => (wr h pb (CPhase (rdphase h pbo)), s, None)
    | _ => (h, s, Some EOther)
    end
  | Some (CIdxM _ _ _) => (h, s, Some EValue)
  | _ => (h, s, Some EOther)
  end.

(* Stream.copy: new object, nothing shared; price 0, no characterization factors, ID '' *)
Definition copy (h : heap) (s : stream) : res (heap * stream) :=
  do hi <- imol_copy h (imol s);
  let (h1, i) := hi in
  do ht <- tc_copy h1 (tc s);
  let (h2, t) := ht in
  Ok (h2, mkstream i t 0 [] IdNone (thermo s)).

(* flow_proxy: new indexer object over the SAME data container, own phase box and thermal condition *)
Definition flow_proxy (h : heap) (s : stream) : res (heap * stream) :=
  match nth_error h (imol s) with
  | Some (CIdxC k pb d) =>
    let h1 := h ++ [CPhase (rdphase h pb); CIdxC k (length h) d] in
    do ht <- tc_copy h1 (tc s);
    let (h2, t) := ht in
    Ok (h2, mkstream (S (length h)) t 0 [] IdNone (thermo s))
  | Some (CIdxM k phs d) =>
    let h1 := h ++ [CIdxM k phs d] in
    do ht <- tc_copy h1 (tc s);
    let (h2, t) := ht in
    Ok (h2, mkstream (length h) t 0 [] IdNone (thermo s))
  | _ => Err EOther
  end.

(* proxy: a second object holding the SAME indexer and thermal condition *)
Definition proxy (h : heap) (s : stream) : res (heap * stream) :=
  Ok (h, mkstream (imol s) (tc s) (price s) (cf s) IdNone (thermo s)).

(* link_with(other, flow, phase, TP) *)
Definition link_with (h : heap) (s o : stream) (fl ph tp : bool) : oret :=
  match nth_error h (imol s), nth_error h (imol o) with
  | Some (CIdxC k pb d), Some (CIdxC _ pbo od) =>
    let s1 := if tp then set_tc s (tc o) else s in
    let d1 := if fl then od else d in
    let pb1 := if ph then pbo else pb in
    (wr h (imol s) (CIdxC k pb1 d1), s1, None)
  | Some (CIdxM k phs d), Some (CIdxM _ _ od) =>
    let s1 := if tp then set_tc s (tc o) else s in
    (wr h (imol s) (CIdxM k phs (if fl then od else d)), s1, None)
  | Some _, Some _ => (h, s, Some ERuntime)
  | _, _ => (h, s, Some EOther)
  end.

(* unlink: the indexer OBJECT is kept; its phase box and data are replaced by copies, then the thermal condition *)
Definition unlink (h : heap) (s : stream) : oret :=
  match nth_error h (imol s) with
  | Some (CIdxC k pb d) =>
    let h1 := h ++ [CPhase (rdphase h pb); CVec (rdvec h d)] in
    let h2 := wr h1 (imol s) (CIdxC k (length h) (S (length h))) in
    match tc_copy h2 (tc s) with
    | Ok (h3, t) => (h3, set_tc s t, None)
    | Err e => (h2, s, Some e)
    end
  | Some (CIdxM k phs d) =>
    let (h1, d') := arr_copy h d in
    let h2 := wr h1 (imol s) (CIdxM k phs d') in
    match tc_copy h2 (tc s) with
    | Ok (h3, t) => (h3, set_tc s t, None)
    | Err e => (h2, s, Some e)
    end
  | _ => (h, s, Some EOther)
  end.

(* mutators *)
Definition set_flow (h : heap) (s : stream) (r c : nat) (v : Q) : oret :=
  match nth_error (data_rows h s) r with
  | Some x => (wr h x (CVec (upd (rdvec h x) c v)), s, None)
  | None => (h, s, Some EIndex)
  end.
Definition set_T (h : heap) (s : stream) (v : Q) : oret := (wr h (tc s) (CTC v (snd (rdtc h (tc s)))), s, None).
Definition set_P (h : heap) (s : stream) (v : Q) : oret := (wr h (tc s) (CTC (fst (rdtc h (tc s))) v), s, None).
Definition scale (h : heap) (s : stream) (k : Q) : oret := (wrvecs h (data_rows h s) (vscale k), s, None).

(* constructors *)
Definition T0 : Q := 2622555134571315 # 8796093022208.   (* the float 298.15 *)
Definition P0 : Q := 101325.
Definition new_single (h : heap) (i : sid) (k p : nat) (v : vec) (T P pr : Q) (c : list (nat * Q)) : res (heap * stream) :=
  if tc_valid T P then
    let h1 := h ++ [CTC T P] in
    let (h2, m) := chem_new h1 k p v in
    Ok (h2, mkstream m (length h) pr c i k)
  else Err EInfeasible.

Fixpoint fill_rows (h : heap) (phs : list nat) (rows : list ref) (fl : list (nat * vec)) : res heap :=
  match fl with
  | [] => Ok h
  | (p, v) :: t => match pidx phs p with
                   | None => Err EUndefPhase
                   | Some i => fill_rows (wr h (nth i rows O) (CVec v)) phs rows t
                   end
  end.
Definition new_multi (h : heap) (i : sid) (k : nat) (phs : list nat) (fl : list (nat * vec)) (T P pr : Q)
           (c : list (nat * Q)) : res (heap * stream) :=
  if tc_valid T P then
    let h1 := h ++ [CTC T P] in
    do pt <- phase_tuple phs;
    let (h2, m) := mat_blank h1 k pt in
    do h3 <- fill_rows h2 pt (seq (length h1) (length pt)) fl;
    Ok (h3, mkstream m (length h) pr c i k)
  else Err EInfeasible.

(* __reduce__ then from_data, in process:  from_data(get_data(), _ID, _price, characterization_factors, _thermo) *)
Definition reduce (h : heap) (s : stream) : res (heap * stream) :=
  (* get_data(): StreamData(imol.copy(), T, P, phases) *)
  do hd <- imol_copy h (imol s);
  let (h1, dimol) := hd in
  let (T, P) := rdtc h (tc s) in
  let multi := is_multi h s in
  let phases := match nth_error h (imol s) with
                | Some (CIdxC _ pb _) => [rdphase h pb]
                | Some (CIdxM _ phs _) => phs
                | _ => [] end in
  let newid := match sid_ s with IdNone => IdAuto | x => x end in
  (* cls.__init__(ID, price=, characterization_factors=, thermo=) with the defaults of the class *)
  do hs <- (if multi then new_multi h1 newid (thermo s) [3; 2]%nat [] T0 P0 (price s) (cf s)
            else new_single h1 newid (thermo s) 3%nat (zeros (thermo s)) T0 P0 (price s) (cf s));
  let (h2, n) := hs in
  (* set_data *)
  let '(h3, n1, e) := set_phases h2 n phases in
  match e with Some e => Err e | None =>
  let '(h4, e) := imol_copy_like h3 (imol n1) dimol in
  match e with Some e => Err e | None =>
  Ok (wr h4 (tc n1) (CTC T P), n1)
  end end.

(* ---------- histories over a store of streams ---------- *)
Inductive op :=
| ONewS (i : sid) (k p : nat) (v : vec) (T P pr : Q) (c : list (nat * Q))
| ONewM (i : sid) (k : nat) (phs : list nat) (fl : list (nat * vec)) (T P pr : Q) (c : list (nat * Q))
| OCopy (i : nat) | OCopyLike (i j : nat) | OCopyTC (i j : nat) | OCopyPhase (i j : nat)
| OFlowProxy (i : nat) | OProxy (i : nat)
| OLink (i j : nat) (fl ph tp : bool) | OUnlink (i : nat)
| OSetFlow (i r c : nat) (v : Q) | OSetT (i : nat) (v : Q) | OSetP (i : nat) (v : Q)
| OSetPhase (i p : nat) | OSetPhases (i : nat) (phs : list nat) | OScale (i : nat) (k : Q) | OEmpty (i : nat)
| OReduce (i : nat)
| OReadMass (i : nat) | OSetMass (i r c : nat) (v : Q)
| OReadH (i : nat)
| OSkip.

Definition creator (st : state) (r : res (heap * stream)) : state * option err :=
  match r with
  | Ok (h, s) => (mkstate h (ss st ++ [s]) (cmap st) (caches st), None)
  | Err e => (st, Some e)
  end.
Definition on1 (st : state) (i : nat) (f : heap -> stream -> oret) : state * option err :=
  match nth_error (ss st) i with
  | Some s => let '(h, s', e) := f (hp st) s in (mkstate h (upd (ss st) i s') (cmap st) (caches st), e)
  | None => (st, Some EIndex)
  end.
Definition on2 (st : state) (i j : nat) (f : heap -> stream -> stream -> oret) : state * option err :=
  match nth_error (ss st) i, nth_error (ss st) j with
  | Some s, Some o => let '(h, s', e) := f (hp st) s o in (mkstate h (upd (ss st) i s') (cmap st) (caches st), e)
  | _, _ => (st, Some EIndex)
  end.
Definition new1 (st : state) (i : nat) (f : heap -> stream -> res (heap * stream)) : state * option err :=
  match nth_error (ss st) i with
  | Some s => creator st (f (hp st) s)
  | None => (st, Some EIndex)
  end.

(* ---------- the _data_cache layer ---------- *)
Fixpoint lookup (r : ref) (m : list (ref * nat)) : option nat :=
  match m with [] => None | (k, c) :: t => if Nat.eqb k r then Some c else lookup r t end.
Definition unbind (r : ref) (m : list (ref * nat)) : list (ref * nat) :=
  filter (fun kc => negb (Nat.eqb (fst kc) r)) m.
(* rows wrapped by the 'mass' view in the dict of indexer r, if there is one *)
Definition view_of (st : state) (r : ref) : option view :=
  match lookup r (cmap st) with Some c => nth c (caches st) None | None => None end.
(* by_mass: the cached view, else a new view over the current data rows, stored in the dict *)
Definition new_view (h : heap) (s : stream) : view :=
  match nth_error h (imol s) with
  | Some (CIdxC _ pb d) => mkview [d] (Some pb) []
  | Some (CIdxM _ phs d) => mkview (rdrows h d) None phs
  | _ => mkview [] None []
  end.
Definition by_mass (st : state) (s : stream) : state * list ref :=
  match view_of st (imol s) with
  | Some v => (st, v_rows v)
  | None =>
    let v := new_view (hp st) s in
    match lookup (imol s) (cmap st) with
    | Some c => (mkstate (hp st) (ss st) (cmap st) (upd (caches st) c (Some v)), v_rows v)
    | None => (mkstate (hp st) (ss st) ((imol s, length (caches st)) :: cmap st) (caches st ++ [Some v]), v_rows v)
    end
  end.
(* imol._data_cache = {} *)
Definition cache_reset (st : state) (r : ref) : state := mkstate (hp st) (ss st) (unbind r (cmap st)) (caches st).
(* self._imol._data_cache = other._imol._data_cache *)
Definition cache_share (st : state) (r o : ref) : state :=
  if Nat.eqb r o then st else
  match lookup o (cmap st) with
  | Some c => mkstate (hp st) (ss st) ((r, c) :: unbind r (cmap st)) (caches st)
  | None => mkstate (hp st) (ss st) ((r, length (caches st)) :: (o, length (caches st)) :: unbind r (cmap st))
                    (caches st ++ [None])
  end.
(* self._data_cache.clear() *)
Definition cache_clear (st : state) (r : ref) : state :=
  match lookup r (cmap st) with
  | Some c => mkstate (hp st) (ss st) (cmap st) (upd (caches st) c None)
  | None => st
  end.
Definition phs_at (h : heap) (r : ref) : option (list nat) :=
  match nth_error h r with Some (CIdxM _ phs _) => Some phs | _ => None end.
Definition pkg_at (h : heap) (r : ref) : nat :=
  match nth_error h r with Some (CIdxC k _ _) => k | Some (CIdxM k _ _) => k | _ => O end.
Definition mw_vec (k : nat) : vec := map (fun c => nth c mws 0) (chems k).

(* link_with: the dict is shared exactly when TP and flow and (phase or 2-d data), otherwise replaced by {} *)
Definition link_step (st : state) (i j : nat) (fl ph tp : bool) : state * option err :=
  match nth_error (ss st) i, nth_error (ss st) j with
  | Some s, Some o =>
    let multi := is_multi (hp st) s in
    let '(st1, e) := on2 st i j (fun h s o => link_with h s o fl ph tp) in
    match e with
    | Some _ => (st1, e)
    | None => (if tp && fl && (ph || multi) then cache_share st1 (imol s) (imol o) else cache_reset st1 (imol s), None)
    end
  | _, _ => (st, Some EIndex)
  end.
(* unlink: `imol._data_cache = {}` sits before the copy of the thermal condition, which may raise *)
Definition unlink_step (st : state) (i : nat) : state * option err :=
  match nth_error (ss st) i with
  | Some s =>
    let '(st1, e) := on1 st i unlink in
    (match e with Some EOther => st1 | _ => cache_reset st1 (imol s) end, e)
  | None => (st, Some EIndex)
  end.
(* copy_like: _expand_phases (recognised by the phases of the indexer object having changed) clears the dict *)
Definition copy_like_step (st : state) (i j : nat) : state * option err :=
  match nth_error (ss st) i with
  | Some s =>
    let before := phs_at (hp st) (imol s) in
    let '(st1, e) := on2 st i j copy_like in
    let after := phs_at (hp st1) (imol s) in
    (match before, after with
     | Some a, Some b => if same_phases a b then st1 else cache_clear st1 (imol s)
     | _, _ => st1
     end, e)
  | None => (st, Some EIndex)
  end.
Definition read_mass_step (st : state) (i : nat) : state * option err :=
  match nth_error (ss st) i with
  | Some s => (fst (by_mass st s), None)
  | None => (st, Some EIndex)
  end.
(* s.imass.data[r, c] = v : lands, divided by MW, in the row the view wraps *)
Definition set_mass_step (st : state) (i r c : nat) (v : Q) : state * option err :=
  match nth_error (ss st) i with
  | Some s =>
    let (st1, rows) := by_mass st s in
    match nth_error rows r with
    | Some x =>
      let h := hp st1 in
      let m := nthq (mw_vec (pkg_at h (imol s))) c in
      (mkstate (wr h x (CVec (upd (rdvec h x) c (v / m)))) (ss st1) (cmap st1) (caches st1), None)
    | None => (st1, Some EIndex)
    end
  | None => (st, Some EIndex)
  end.
(* what s.imass reads: the cached view's rows (or the current rows) times MW *)
Definition mass_obs (st : state) (s : stream) : list vec :=
  let rows := match view_of st (imol s) with Some v => v_rows v | None => data_rows (hp st) s end in
  map (fun r => vmul (rdvec (hp st) r) (mw_vec (pkg_at (hp st) (imol s)))) rows.

(* Stream.H.  `_get_property` memoises in (_property_cache, _property_cache_key): a dict of values and the complete
   state (phase, T, P, composition) they were computed for; proxy() hands BOTH objects to the proxy and reset_cache()
   replaces both, so the pair is always held as a unit and a hit returns a value computed for an equal state.  The
   memo is therefore modelled by its specification: reading H (operation OReadH, which fills and uses the memo on the
   real objects) does not change the model state and H is a function of the current state.  For the stub packages of
   the harness (Hf = 0, Cn = 64 for every chemical, any phase):  H = 64 (T - 298.15) * total molar flow. *)
Definition enthalpy (h : heap) (s : stream) : Q :=
  64 * (fst (rdtc h (tc s)) - T0) * qsum (map (fun r => qsum (rdvec h r)) (data_rows h s)).

(* the phase(s) s.imass reports: through the Phase object / the tuple the view was built with *)
Definition mass_phases (st : state) (s : stream) : list nat :=
  let v := match view_of st (imol s) with Some v => v | None => new_view (hp st) s end in
  match v_pb v with Some pb => [rdphase (hp st) pb] | None => v_phs v end.

(* the final observation reads s.imass of every stream of the store IN ORDER; a read creates the view when the dict has
   none, and a later stream holding the same dict then gets that view *)
Fixpoint mass_all (st : state) (l : list stream) : list (list vec * list nat) :=
  match l with
  | [] => []
  | s :: t => let st1 := fst (by_mass st s) in (mass_obs st1 s, mass_phases st1 s) :: mass_all st1 t
  end.

Definition step (st : state) (o : op) : state * option err :=
  match o with
  | ONewS i k p v T P pr c => creator st (new_single (hp st) i k p v T P pr c)
  | ONewM i k phs fl T P pr c => creator st (new_multi (hp st) i k phs fl T P pr c)
  | OCopy i => new1 st i copy
  | OCopyLike i j => copy_like_step st i j
  | OCopyTC i j => on2 st i j copy_tc
  | OCopyPhase i j => on2 st i j copy_phase
  | OFlowProxy i => new1 st i flow_proxy
  | OProxy i => new1 st i proxy
  | OLink i j fl ph tp => link_step st i j fl ph tp
  | OUnlink i => unlink_step st i
  | OSetFlow i r c v => on1 st i (fun h s => set_flow h s r c v)
  | OSetT i v => on1 st i (fun h s => set_T h s v)
  | OSetP i v => on1 st i (fun h s => set_P h s v)
  | OSetPhase i p => on1 st i (fun h s => set_phase h s p)
  | OSetPhases i phs => on1 st i (fun h s => set_phases h s phs)
  | OScale i k => on1 st i (fun h s => scale h s k)
  | OEmpty i => on1 st i empty
  | OReduce i => new1 st i reduce
  | OReadMass i => read_mass_step st i
  | OSetMass i r c v => set_mass_step st i r c v
  | OReadH i => match nth_error (ss st) i with Some _ => (st, None) | None => (st, Some EIndex) end
  | OSkip => (st, None)
  end.

Fixpoint run (st : state) (ops : list op) : state * list (option err) :=
  match ops with
  | [] => (st, [])
  | o :: t => let (st1, e) := step st o in let (st2, es) := run st1 t in (st2, e :: es)
  end.

(* the values returned by the OReadH operations of a history, in order *)
Fixpoint hlog (st : state) (ops : list op) : vec :=
  match ops with
  | [] => []
  | o :: t =>
    let rest := hlog (fst (step st o)) t in
    match o with
    | OReadH i => match nth_error (ss st) i with Some s => enthalpy (hp st) s :: rest | None => rest end
    | _ => rest
    end
  end.

(* ---------- observation ---------- *)
(* cells reachable from a stream, in the order the harness lists the python objects *)
Definition footprint (h : heap) (s : stream) : list ref :=
  match nth_error h (imol s) with
  | Some (CIdxC _ pb d) => [imol s; d; pb; tc s]
  | Some (CIdxM _ _ d) => imol s :: d :: rdrows h d ++ [tc s]
  | _ => [imol s; tc s]
  end.

Record sobs := mksobs {
  o_multi : bool; o_pkg : nat; o_phases : list nat; o_rows : list vec; o_T : Q; o_P : Q;
  o_price : Q; o_cf : list (nat * Q); o_id : sid; o_labels : list nat }.

Definition observe (h : heap) (s : stream) (labels : list nat) : sobs :=
  let (T, P) := rdtc h (tc s) in
  match nth_error h (imol s) with
  | Some (CIdxC k pb d) => mksobs false k [rdphase h pb] [rdvec h d] T P (price s) (cf s) (sid_ s) labels
  | Some (CIdxM k phs d) => mksobs true k phs (map (rdvec h) (rdrows h d)) T P (price s) (cf s) (sid_ s) labels
  | _ => mksobs false O [] [] T P (price s) (cf s) (sid_ s) labels
  end.

Fixpoint first_index (x : nat) (l : list nat) : nat :=
  match l with [] => O | y :: t => if Nat.eqb x y then O else S (first_index x t) end.
Definition canon (l : list nat) : list nat := map (fun x => first_index x l) l.

Fixpoint split_by {A} (l : list A) (ns : list nat) : list (list A) :=
  match ns with [] => [] | n :: t => firstn n l :: split_by (skipn n l) t end.

Definition snapshot (st : state) : list sobs :=
  let fps := map (footprint (hp st)) (ss st) in
  let labs := split_by (canon (concat fps)) (map (@length nat) fps) in
  map2 (fun s l => observe (hp st) s l) (ss st) labs.

Definition sid_eqb (a b : sid) : bool :=
  match a, b with IdNone, IdNone | IdAuto, IdAuto => true | IdName x, IdName y => Nat.eqb x y | _, _ => false end.
Definition cf_eqb (a b : list (nat * Q)) : bool :=
  list_eqb (fun x y => Nat.eqb (fst x) (fst y) && qeqb (snd x) (snd y)) a b.
Definition sobs_eqb (a b : sobs) : bool :=
  Bool.eqb (o_multi a) (o_multi b) && Nat.eqb (o_pkg a) (o_pkg b) && list_eqb Nat.eqb (o_phases a) (o_phases b)
  && list_eqb vapproxb (o_rows a) (o_rows b) && qapproxb (o_T a) (o_T b) && qapproxb (o_P a) (o_P b)
  && qapproxb (o_price a) (o_price b) && cf_eqb (o_cf a) (o_cf b) && sid_eqb (o_id a) (o_id b)
  && list_eqb Nat.eqb (o_labels a) (o_labels b).
Definition oerr_eqb (a b : option err) : bool := opt_eqb err_eqb a b.

End WithPackages.

(* the two stub packages of the harness: [A,B,C] and [C,A,D,B] *)
Definition PK : list (list nat) := [[0; 1; 2]; [2; 0; 3; 1]]%nat.
Definition MWS : list Q := [16; 32; 8; 4].
Definition init : state := mkstate [] [] [] [].
Definition run_eqb (ops : list op) (res : list (option err)) (final : list sobs)
           (mass keyed : list (list vec)) (mphases : list (list nat)) (Hs reads : vec) : bool :=
  let (st, es) := run PK MWS init ops in
  let snap := snapshot st in
  list_eqb oerr_eqb es res && list_eqb sobs_eqb snap final
  && list_eqb (list_eqb vapproxb) (map fst (mass_all PK MWS st (ss st))) mass
  && list_eqb (list_eqb vapproxb) (map o_rows snap) keyed
  && list_eqb (list_eqb Nat.eqb) (map snd (mass_all PK MWS st (ss st))) mphases
  && vapproxb (map (enthalpy (hp st)) (ss st)) Hs && vapproxb (hlog PK MWS init ops) reads.
Definition run_show (ops : list op) :=
  let (st, es) := run PK MWS init ops in (es, snapshot st, mass_all PK MWS st (ss st), hp st, cmap st, caches st).
