(* C13 — property theorems only. *)
From V Require Import Common.NumFacts C13.Model C13.Proofs.
