(* C13 — property theorems only.  Each is closed by [exact <lemma>] (or a short instantiation) and followed by
   Print Assumptions.  hwf = every reference stored in a heap cell points to an allocated cell of the right kind;
   swf = the stream record points to an indexer and a thermal condition; both are invariants of every reachable
   state (copy_lemma, mut_local, link_lemma, unlink_lemma, flow_proxy_lemma re-establish them). *)
From V Require Import Common.NumFacts C13.Model C13.ModelViews C13.Proofs C13.Hist C13.CopyLike C13.Reduce C13.ProofsDeep C13.ProofsViews C13.Gen_pickle C13.ModelPickle C13.ProofsPickle.
Local Open Scope nat_scope.

(* a copy has the same flows, phase(s), T and P; the original is unchanged; nothing is shared *)
Theorem C13_copy_equal : forall h s h2 c, hwf h -> swf h s -> copy h s = Ok (h2, c) ->
  obs h2 c = obs h s /\ obs h2 s = obs h s.
Proof. intros h s h2 c W S C. destruct (copy_lemma h s h2 c W S C) as (_ & _ & _ & A & B & _). auto. Qed.
Print Assumptions C13_copy_equal.

(* ... and for EVERY interleaved history of mutations (set a flow entry, T, P, phase, scale, empty, copy T/P or the
   phase of any third stream) applied to the original (true) or to the copy (false), each step leaves the observations
   of the other one unchanged, and the two still share no cell at the end *)
Theorem C13_copy_disjoint : forall pk h s h2 c, hwf h -> swf h s -> copy h s = Ok (h2, c) ->
  disjoint (footprint h2 s) (footprint h2 c) /\
  forall hist, indep_trace pk h2 s c hist.
Proof.
  intros pk h s h2 c W S C.
  destruct (copy_lemma h s h2 c W S C) as ((e & ->) & W2 & S2 & _ & _ & F & G).
  assert (D : disjoint (footprint (h ++ e) s) (footprint (h ++ e) c)).
  { intros r Hs Hc. rewrite F in Hs. pose proof (footprint_lt _ _ _ W S Hs). pose proof (G _ Hc). lia. }
  split; auto. intros hist. apply indep_lemma; auto. eapply swf_ext; [apply ext_app|auto].
Qed.
Print Assumptions C13_copy_disjoint.

(* the frame property behind it, for any two streams that share nothing: every mutator writes only cells of its
   target (or fresh ones) *)
Theorem C13_mutators_local : forall pk h s m h' s' e y, hwf h -> swf h s -> swf h y ->
  apply_mut pk h s m = (h', s', e) -> disjoint (footprint h y) (footprint h s) ->
  obs h' y = obs h y /\ footprint h' y = footprint h y /\ disjoint (footprint h' y) (footprint h' s') /\
  hwf h' /\ swf h' s' /\ swf h' y.
Proof.
  intros pk h s m h' s' e y W S Y A D. pose proof (mut_local pk h s m h' s' e W S A) as L.
  destruct (local_sep h s h' s' y W S Y L D) as (O & F & SY & D').
  split; [auto|split; [auto|split; [auto|split; [apply L|split; [apply L|auto]]]]].
Qed.
Print Assumptions C13_mutators_local.

(* proxy: the new object holds the same indexer and the same thermal condition: in every later heap both read the
   same flows, phases, T and P and reach the same cells *)
Theorem C13_proxy_all : forall h s h' p, proxy h s = Ok (h', p) ->
  h' = h /\ imol p = imol s /\ tc p = tc s /\
  (forall h2, footprint h2 p = footprint h2 s) /\ (forall h2, obs h2 p = obs h2 s).
Proof. exact proxy_lemma. Qed.
Print Assumptions C13_proxy_all.

(* ... including every derived property read through either handle: H (modelled by its specification, see Model.v)
   is the same function of the same cells, in every later heap; reading it (OReadH) never changes the state *)
Theorem C13_proxy_same_H : forall h s h' p, proxy h s = Ok (h', p) -> forall h2, enthalpy h2 p = enthalpy h2 s.
Proof. intros h s h' p E h2. unfold proxy in E. inversion E; subst. reflexivity. Qed.
Print Assumptions C13_proxy_same_H.
Theorem C13_read_H_pure : forall pk mw st i, fst (step pk mw st (OReadH i)) = st.
Proof. intros pk mw st i. simpl. destruct (nth_error (ss st) i); reflexivity. Qed.
Print Assumptions C13_read_H_pure.

(* flow_proxy: exactly the flow data cells are shared; indexer, phase box and thermal condition are new;
   values are those of the original *)
Theorem C13_flow_proxy_flows_only : forall h s h2 p, hwf h -> swf h s -> flow_proxy h s = Ok (h2, p) ->
  (forall r, shared h2 p s r <-> In r (data_cells h s)) /\
  obs h2 p = obs h s /\ obs h2 s = obs h s /\ hwf h2 /\ swf h2 p /\ swf h2 s.
Proof. exact flow_proxy_lemma. Qed.
Print Assumptions C13_flow_proxy_flows_only.

(* link_with(other, flow, phase, TP) between streams of the same class that share nothing: afterwards the shared
   cells are exactly the selected ones (flow data / phase box / thermal condition), for all 8 flag subsets;
   the other stream is unchanged *)
Theorem C13_link_exact : forall h a b fl ph tp h' a' e, hwf h -> swf h a -> swf h b ->
  disjoint (footprint h a) (footprint h b) -> is_multi h a = is_multi h b ->
  link_with h a b fl ph tp = (h', a', e) ->
  e = None /\ (forall r, shared h' a' b r <-> In r (selected h b fl ph tp)) /\
  obs h' b = obs h b /\ hwf h' /\ swf h' a' /\ swf h' b.
Proof. exact link_lemma. Qed.
Print Assumptions C13_link_exact.

(* unlink: whatever a shared with a stream b holding ANOTHER indexer object (links, flow proxies, any history of
   them), afterwards they share nothing and both keep their values *)
Theorem C13_unlink_sep_partial : forall h a b h' a', hwf h -> swf h a -> swf h b -> imol a <> imol b ->
  unlink h a = (h', a', None) ->
  disjoint (footprint h' a') (footprint h' b) /\ obs h' a' = obs h a /\ obs h' b = obs h b /\
  hwf h' /\ swf h' a' /\ swf h' b.
Proof. exact unlink_lemma. Qed.
Print Assumptions C13_unlink_sep_partial.

(* ... and its derived-flow views: unlink gives the indexer a new empty view dict, so the next imass wraps the
   stream's own (new) rows and no longer the rows of a former partner *)
Theorem C13_unlink_resets_view : forall pk mw st i st' s,
  nth_error (ss st) i = Some s -> step pk mw st (OUnlink i) = (st', None) ->
  view_of st' (imol s) = None /\ (exists a, nth_error (ss st') i = Some a /\ imol a = imol s) /\
  snd (by_mass st' s) = data_rows (hp st') s.
Proof. exact unlink_view. Qed.
Print Assumptions C13_unlink_resets_view.

(* link_with and the dict of derived views: it is shared exactly when flow, T/P and (for a single-phase stream) the
   phase are all linked -- then both indexers hold the same data and the same Phase object, so a view built through
   either is right for both -- and replaced by a new empty dict for every other flag subset *)
Theorem C13_link_view_exact : forall st i j fl ph tp st' s o,
  nth_error (ss st) i = Some s -> nth_error (ss st) j = Some o -> imol s <> imol o ->
  link_step st i j fl ph tp = (st', None) ->
  (tp && fl && (ph || is_multi (hp st) s) = false -> view_of st' (imol s) = None) /\
  (tp && fl && (ph || is_multi (hp st) s) = true ->
     view_of st' (imol s) = view_of st' (imol o) /\
     forall k pb d, nth_error (hp st') (imol o) = Some (CIdxC k pb d) ->
       exists k', nth_error (hp st') (imol s) = Some (CIdxC k' pb d)).
Proof. exact link_view. Qed.
Print Assumptions C13_link_view_exact.

(* ---------- the view-dict layer over whole histories ---------- *)
(* in every state reachable from the empty store by ANY history of operations, every stream points to an allocated
   indexer and every view-dict binding is about an allocated indexer ... *)
Theorem C13_view_bindings_allocated : forall pk mw ops, inv (fst (run pk mw init ops)).
Proof. intros pk mw ops. apply inv_run. apply inv_init. Qed.
Print Assumptions C13_view_bindings_allocated.

(* ... hence an indexer allocated later (by copy, flow_proxy, a phase conversion, from_data) has no binding *)
Theorem C13_fresh_indexer_no_view : forall st r, inv st -> length (hp st) <= r -> lookup r (cmap st) = None.
Proof. exact fresh_no_view. Qed.
Print Assumptions C13_fresh_indexer_no_view.

(* copy in any reachable state: the copy has no cached view; its mass view is built over its own rows, none of which
   the original reaches (so the history theorem C13_copy_disjoint covers what imass reads as well) *)
Theorem C13_copy_view_independent : forall pk mw st i st' s,
  inv st -> hwf (hp st) -> swf (hp st) s -> nth_error (ss st) i = Some s ->
  step pk mw st (OCopy i) = (st', None) ->
  exists c, ss st' = ss st ++ [c] /\ view_of st' (imol c) = None /\
    snd (by_mass st' c) = data_rows (hp st') c /\
    disjoint (footprint (hp st') s) (footprint (hp st') c) /\
    (forall r, In r (snd (by_mass st' c)) -> In r (footprint (hp st') c) /\ ~ In r (footprint (hp st') s)).
Proof. exact copy_view. Qed.
Print Assumptions C13_copy_view_independent.

(* the full statement: after unlink, stream i shares nothing with ANY other stream object of the store *)
Definition C13_unlink_sep_statement : Prop :=
  forall pk mw st i j st' a b, hwf (hp st) -> Forall (swf (hp st)) (ss st) -> i <> j ->
    step pk mw st (OUnlink i) = (st', None) -> nth_error (ss st') i = Some a -> nth_error (ss st') j = Some b ->
    disjoint (footprint (hp st') a) (footprint (hp st') b).

(* ... is refuted by the code as it is: a proxy holds the same indexer OBJECT, and unlink replaces the data and the
   phase box inside that object, so stream and proxy keep sharing the flows (and the phase) *)
Definition wit_ops : list op :=
  [ONewS (IdName 1) 0 3 [1%Q; 0%Q; 2%Q] (300%Q) (101325%Q) 0%Q []; OProxy 0].
Definition wit_state : state := fst (run PK MWS init wit_ops).
Definition wit_after : state := fst (step PK MWS wit_state (OUnlink 0)).
Definition dflt : stream := mkstream 0 0 0%Q [] IdNone 0.
Theorem C13_unlink_sep_refuted : ~ C13_unlink_sep_statement.
Proof.
  intros H.
  assert (W : hwf (hp wit_state)) by (apply hwfb_ok; vm_compute; reflexivity).
  assert (F : Forall (swf (hp wit_state)) (ss wit_state)).
  { apply Forall_forall. intros x Hx. vm_compute in Hx. destruct Hx as [<-|[<-|[]]]; apply swfb_ok; vm_compute; reflexivity. }
  assert (E : step PK MWS wit_state (OUnlink 0) = (wit_after, None)) by (vm_compute; reflexivity).
  assert (N : 0 <> 1) by discriminate.
  assert (A : nth_error (ss wit_after) 0 = Some (nth 0 (ss wit_after) dflt)) by (vm_compute; reflexivity).
  assert (B : nth_error (ss wit_after) 1 = Some (nth 1 (ss wit_after) dflt)) by (vm_compute; reflexivity).
  pose proof (H PK MWS wit_state 0 1 wit_after _ _ W F N E A B) as X.
  apply (X 3); vm_compute; auto.
Qed.
Print Assumptions C13_unlink_sep_refuted.

(* copy_like for EVERY kind x kind x package combination: Stream<-Stream, Stream<-MultiStream (one phase: through
   the view of that phase; two or more: the stream becomes a MultiStream), MultiStream<-Stream (with phase expansion
   when the target lacks the phase), MultiStream<-MultiStream (equal or different phase sets), same and other package.
   Preconditions: well-formed heap; both streams well formed (stream_ok: lower-case phases in a sorted tuple, rows
   distinct and aligned with the phases); they share nothing; and (superset precondition) no row of the source has a
   non-zero entry for a chemical the target package lacks.  Afterwards the flow of every chemical in every phase,
   T and P are those of the source, and the source is unchanged. *)
Theorem C13_copy_like_eq : forall pk h a b h' a' e,
  hwf h -> swf h a -> swf h b -> stream_ok h a -> stream_ok h b -> disjoint (footprint h a) (footprint h b) ->
  (stream_pkg h a <> stream_pkg h b -> forall x, In x (data_rows h b) ->
     missing (chems pk (stream_pkg h a)) (chems pk (stream_pkg h b)) (rdvec h x) = false) ->
  copy_like pk h a b = (h', a', e) ->
  e = None /\ (forall p c, (phase_flow pk h' a' p c == phase_flow pk h b p c)%Q) /\
  rdtc h' (tc a') = rdtc h (tc b) /\ obs h' b = obs h b.
Proof. exact copy_like_all. Qed.
Print Assumptions C13_copy_like_eq.

(* the Stream <- Stream instance in detail (phase box, vector and indexer cell of the target) *)
Theorem C13_copy_like_eq_partial : forall pk h a b ka pba da kb pbb db h' a' e,
  hwf h -> swf h a -> swf h b -> disjoint (footprint h a) (footprint h b) ->
  nth_error h (imol a) = Some (CIdxC ka pba da) -> nth_error h (imol b) = Some (CIdxC kb pbb db) ->
  valid_phase (rdphase h pbb) = true ->
  (ka <> kb -> missing (chems pk ka) (chems pk kb) (rdvec h db) = false) ->
  copy_like pk h a b = (h', a', e) ->
  e = None /\ a' = a /\ rdphase h' pba = rdphase h pbb /\ rdtc h' (tc a) = rdtc h (tc b) /\
  (forall c, (flow_of (chems pk ka) (rdvec h' da) c == flow_of (chems pk kb) (rdvec h db) c)%Q) /\
  obs h' b = obs h b /\ nth_error h' (imol a) = Some (CIdxC ka pba da).
Proof. exact copy_like_ss. Qed.
Print Assumptions C13_copy_like_eq_partial.

(* reduce (= from_data o __reduce__ through __init__): the observable state incl. price, characterization factors and a
   given ID survives (a one-phase MultiStream comes back as a Stream).  This early formulation lacks the reachable-state
   hypotheses (sorted phase tuple, thermo = package of the indexer); the statement is PROVED with them as
   C13_reduce_roundtrip at the end of this file (and for upper-case phases as C13_reduce_roundtrip_multiphase_any_case) *)
Definition C13_reduce_roundtrip_statement : Prop :=
  forall pk h s h' n, hwf h -> swf h s -> plain h s -> sid_ s <> IdNone -> reduce pk h s = Ok (h', n) ->
    obs_plus h' n = (let '(m, phs, rows, T, P, pr, c, i) := obs_plus h s in
                     (match phs with [_] => false | _ => m end, phs, rows, T, P, pr, c, i)).

(* proved in full for a single-phase Stream: the reduced stream has exactly the observable state of the original *)
Theorem C13_reduce_roundtrip_stream : forall pk h s k pb d p v T P h' n,
  nth_error h (imol s) = Some (CIdxC k pb d) -> nth_error h pb = Some (CPhase p) -> nth_error h d = Some (CVec v) ->
  nth_error h (tc s) = Some (CTC T P) -> valid_phase p = true -> thermo s = k -> sid_ s <> IdNone ->
  reduce pk h s = Ok (h', n) -> obs_plus h' n = obs_plus h s.
Proof. exact reduce_stream. Qed.
Print Assumptions C13_reduce_roundtrip_stream.

(* ... and for a MultiStream holding one phase (it comes back as a single-phase Stream with the same phase, flows,
   T, P, price, characterization factors and ID) *)
Theorem C13_reduce_roundtrip_one_phase_multistream : forall pk h s k p d rb vb T P h' n,
  nth_error h (imol s) = Some (CIdxM k [p] d) -> nth_error h d = Some (CArr [rb]) -> nth_error h rb = Some (CVec vb) ->
  nth_error h (tc s) = Some (CTC T P) -> valid_phase p = true -> thermo s = k -> sid_ s <> IdNone ->
  reduce pk h s = Ok (h', n) ->
  obs_plus h' n = (false, [p], [vb], T, P, price s, cf s, sid_ s).
Proof. exact reduce_multi1. Qed.
Print Assumptions C13_reduce_roundtrip_one_phase_multistream.

(* for every stream kind: price, characterization factors, property package and a given ID survive; an empty ID
   becomes an automatic one.  (For MultiStreams with two or more phases the flows, phases, T, P of the reduced stream
   are tied by the correspondence check, which also runs the real pickle; not proved.)  With the constructor as it was before pending fix C13_1 this theorem is false. *)
Theorem C13_reduce_roundtrip_partial : forall pk h s h' n, reduce pk h s = Ok (h', n) ->
  price n = price s /\ cf n = cf s /\ thermo n = thermo s /\
  sid_ n = match sid_ s with IdNone => IdAuto | x => x end.
Proof. exact reduce_fields. Qed.
Print Assumptions C13_reduce_roundtrip_partial.

(* ---------- non-vacuity: the hypotheses are met by states reached through the constructors ---------- *)
Definition ex_ops : list op :=
  [ONewS (IdName 1) 0 3 [1%Q; 0%Q; 2%Q] (300%Q) (101325%Q) (1 # 2)%Q [(2, (3 # 2)%Q)];
   ONewM (IdName 2) 0 [2; 3] [(2, [0%Q; 4%Q; 0%Q]); (3, [(1 # 2)%Q; 0%Q; 0%Q])] (350%Q) (200000%Q) 0%Q [];
   ONewS (IdName 3) 0 2 [0%Q; 3%Q; 0%Q] (310%Q) (101325%Q) 0%Q [];
   ONewM (IdName 4) 0 [2; 3] [(3, [1%Q; 1%Q; 0%Q])] (320%Q) (101325%Q) 0%Q []].
Definition ex_state : state := fst (run PK MWS init ex_ops).
Definition ex_s (i : nat) : stream := nth i (ss ex_state) (mkstream 0 0 0%Q [] IdNone 0).

Example C13_ex_wellformed : hwf (hp ex_state) /\ Forall (swf (hp ex_state)) (ss ex_state).
Proof.
  split; [apply hwfb_ok; vm_compute; reflexivity|].
  apply Forall_forall. intros x Hx. vm_compute in Hx.
  destruct Hx as [<-|[<-|[<-|[<-|[]]]]]; apply swfb_ok; vm_compute; reflexivity.
Qed.

Example C13_ex_copy :
  (exists h2 c, copy (hp ex_state) (ex_s 0) = Ok (h2, c)) /\ (exists h3 d, copy (hp ex_state) (ex_s 1) = Ok (h3, d)) /\
  (exists h4 p, flow_proxy (hp ex_state) (ex_s 0) = Ok (h4, p)) /\ (exists h5 p, flow_proxy (hp ex_state) (ex_s 1) = Ok (h5, p)).
Proof. repeat split; eexists; eexists; vm_compute; reflexivity. Qed.

Example C13_ex_link : disjoint (footprint (hp ex_state) (ex_s 0)) (footprint (hp ex_state) (ex_s 2)) /\
  is_multi (hp ex_state) (ex_s 0) = is_multi (hp ex_state) (ex_s 2) /\
  disjoint (footprint (hp ex_state) (ex_s 1)) (footprint (hp ex_state) (ex_s 3)) /\
  is_multi (hp ex_state) (ex_s 1) = is_multi (hp ex_state) (ex_s 3) /\
  exists h' a', unlink (hp ex_state) (ex_s 0) = (h', a', None).
Proof.
  split; [apply disjointb_ok; vm_compute; reflexivity|]. split; [vm_compute; reflexivity|].
  split; [apply disjointb_ok; vm_compute; reflexivity|]. split; [vm_compute; reflexivity|].
  eexists; eexists; vm_compute; reflexivity.
Qed.

(* a mutation through a flow proxy IS visible in the original (the sharing theorems are not about an empty set) *)
Example C13_ex_flow_proxy_visible :
  let '(st1, _) := run PK MWS ex_state [OFlowProxy 0; OSetFlow 4 0 1 (7%Q)] in
  o_rows (observe (hp st1) (nth 0 (ss st1) (ex_s 0)) []) = [[1%Q; 7%Q; 2%Q]].
Proof. vm_compute. reflexivity. Qed.

Example C13_ex_copy_like : valid_phase (rdphase (hp ex_state) 5) = true /\
  disjoint (footprint (hp ex_state) (ex_s 0)) (footprint (hp ex_state) (ex_s 2)) /\
  exists h' a', copy_like PK (hp ex_state) (ex_s 0) (ex_s 2) = (h', a', None).
Proof.
  split; [vm_compute; reflexivity|]. split; [apply disjointb_ok; vm_compute; reflexivity|].
  eexists; eexists; vm_compute; reflexivity.
Qed.

(* other-package copy_like and reduce on reachable states *)
Example C13_ex_other_package_and_reduce :
  let '(st1, es) := run PK MWS ex_state [ONewS (IdName 5) 1 3 [0%Q; 0%Q; 5%Q; 0%Q] (300%Q) (101325%Q) 0%Q [];
                                      OCopyLike 4 0; OReduce 0; OReduce 1] in
  es = [None; None; None; None] /\
  o_rows (observe (hp st1) (nth 4 (ss st1) dflt) []) = [[2%Q; 1%Q; 0%Q; 0%Q]] /\
  obs_plus (hp st1) (nth 5 (ss st1) dflt) = obs_plus (hp st1) (nth 0 (ss st1) dflt) /\
  obs_plus (hp st1) (nth 6 (ss st1) dflt) = obs_plus (hp st1) (nth 1 (ss st1) dflt).
Proof. vm_compute. repeat split; reflexivity. Qed.

(* the view layer is exercised: a view created while linked reads the partner's rows, and unlink resets it *)
Example C13_ex_view_after_unlink :
  let '(st1, es) := run PK MWS ex_state [OLink 0 2 true true true; OReadMass 0; OUnlink 0; OSetFlow 0 0 0 (5%Q)] in
  es = [None; None; None; None] /\
  mass_obs PK MWS st1 (nth 0 (ss st1) dflt) = [[80%Q; (3 * 32)%Q; (0 * 8)%Q]] /\
  mass_obs PK MWS st1 (nth 2 (ss st1) dflt) = [[(0 * 16)%Q; (3 * 32)%Q; (0 * 8)%Q]].
Proof. vm_compute. repeat split; reflexivity. Qed.

(* link_with(flow, TP) without the phase between a liquid and a gas stream: each mass view reports its own phase *)
Example C13_ex_view_phase_not_shared :
  let '(st1, es) := run PK MWS ex_state [OLink 2 0 true false true; OReadMass 0; OReadMass 2] in
  es = [None; None; None] /\ mass_phases st1 (nth 0 (ss st1) dflt) = [3] /\ mass_phases st1 (nth 2 (ss st1) dflt) = [2].
Proof. vm_compute. repeat split; reflexivity. Qed.

(* the well-formedness precondition of C13_copy_like_eq holds for streams built by the constructors *)
Example C13_ex_stream_ok : stream_ok (hp ex_state) (ex_s 0) /\ stream_ok (hp ex_state) (ex_s 1).
Proof.
  split.
  - split; [eexists; eexists; vm_compute; reflexivity|].
    assert (E : nth_error (hp ex_state) (imol (ex_s 0)) = Some (CIdxC 0 1 2)) by (vm_compute; reflexivity). rewrite E.
    split; [exists 3; split; [vm_compute; reflexivity|right; left; reflexivity]|eexists; vm_compute; reflexivity].
  - split; [eexists; eexists; vm_compute; reflexivity|].
    assert (E : nth_error (hp ex_state) (imol (ex_s 1)) = Some (CIdxM 0 [2; 3] 7)) by (vm_compute; reflexivity). rewrite E.
    assert (R : rdrows (hp ex_state) 7 = [5; 6]) by (vm_compute; reflexivity). rewrite R.
    split; [|discriminate]. constructor.
    + exact E.
    + vm_compute; reflexivity.
    + split.
      * simpl. split; [intros y [<-|[]]; lia|]. split; [intros y []|exact I].
      * constructor; [left; reflexivity|constructor; [right; left; reflexivity|constructor]].
    + reflexivity.
    + repeat constructor; simpl; intuition lia.
    + intros x [<-|[<-|[]]]; eexists; vm_compute; reflexivity.
Qed.

(* MultiStream <- Stream with phase expansion, and Stream <- MultiStream, on those states *)
Example C13_ex_copy_like_kinds :
  let '(st1, es) := run PK MWS ex_state [ONewS (IdName 5) 0 4 [7%Q; 0%Q; 0%Q] (300%Q) (101325%Q) 0%Q [];
                                          OCopyLike 1 4; OCopyLike 0 3] in
  es = [None; None; None] /\
  o_phases (observe (hp st1) (nth 1 (ss st1) dflt) []) = [2; 3; 4] /\
  o_rows (observe (hp st1) (nth 1 (ss st1) dflt) []) = [[0%Q; 0%Q; 0%Q]; [0%Q; 0%Q; 0%Q]; [7%Q; 0%Q; 0%Q]] /\
  o_multi (observe (hp st1) (nth 0 (ss st1) dflt) []) = true /\
  o_rows (observe (hp st1) (nth 0 (ss st1) dflt) []) = [[0%Q; 0%Q; 0%Q]; [1%Q; 1%Q; 0%Q]].
Proof. vm_compute. repeat split; reflexivity. Qed.

(* ---------- deepening round ---------- *)
(* reduce (= from_data o __reduce__ through __init__) for EVERY kind of stream: single-phase Stream, MultiStream holding
   one phase (comes back as a Stream) and MultiStream with two or more phases (incl. empty phases): the whole observable
   state -- flows of every phase, phases, T, P, price, characterization factors, a given ID -- is reproduced *)
Theorem C13_reduce_roundtrip : forall pk h s h' n,
  stream_ok h s -> thermo s = stream_pkg h s -> sid_ s <> IdNone -> reduce pk h s = Ok (h', n) ->
  obs_plus h' n = reduce_expect (obs_plus h s).
Proof. exact reduce_all. Qed.
Print Assumptions C13_reduce_roundtrip.

(* the multi-phase case on its own *)
Theorem C13_reduce_roundtrip_multiphase : forall pk h s k phs d rows T P h' n,
  nth_error h (imol s) = Some (CIdxM k phs d) -> nth_error h d = Some (CArr rows) ->
  nth_error h (tc s) = Some (CTC T P) -> good phs -> 2 <= length phs -> length rows = length phs ->
  thermo s = k -> sid_ s <> IdNone -> reduce pk h s = Ok (h', n) ->
  obs_plus h' n = (true, phs, map (rdvec h) rows, T, P, price s, cf s, sid_ s).
Proof. exact reduce_multi. Qed.
Print Assumptions C13_reduce_roundtrip_multiphase.

(* ... and for ANY sorted tuple of valid phases, the upper-case phases 'L', 'S' included *)
Theorem C13_reduce_roundtrip_multiphase_any_case : forall pk h s k phs d rows T P h' n,
  nth_error h (imol s) = Some (CIdxM k phs d) -> nth_error h d = Some (CArr rows) ->
  nth_error h (tc s) = Some (CTC T P) -> sinc phs -> forallb valid_phase phs = true -> 2 <= length phs ->
  length rows = length phs -> thermo s = k -> sid_ s <> IdNone -> reduce pk h s = Ok (h', n) ->
  obs_plus h' n = (true, phs, map (rdvec h) rows, T, P, price s, cf s, sid_ s).
Proof. exact reduce_multi_any. Qed.
Print Assumptions C13_reduce_roundtrip_multiphase_any_case.

Definition exL : state :=
  fst (run PK MWS init [ONewM (IdName 1) 0 [0; 3] [(0, [1%Q; 0%Q; 2%Q]); (3, [0%Q; 4%Q; 0%Q])] (300%Q) (101325%Q) 0%Q []]).
Example C13_ex_reduce_upper_case :
  sinc [0; 3] /\ forallb valid_phase [0; 3] = true /\
  nth_error (hp exL) (imol (nth 0 (ss exL) dflt)) = Some (CIdxM 0 [0; 3] 3) /\
  exists h' n, reduce PK (hp exL) (nth 0 (ss exL) dflt) = Ok (h', n).
Proof.
  split; [simpl; split; [intros y [<-|[]]; lia|split; [intros y []|exact I]]|]. split; [reflexivity|].
  split; [vm_compute; reflexivity|eexists; eexists; vm_compute; reflexivity].
Qed.

Example C13_ex_reduce_roundtrip :
  stream_ok (hp ex_state) (ex_s 1) /\ thermo (ex_s 1) = stream_pkg (hp ex_state) (ex_s 1) /\ sid_ (ex_s 1) <> IdNone /\
  (exists h' n, reduce PK (hp ex_state) (ex_s 1) = Ok (h', n)) /\
  stream_ok (hp ex_state) (ex_s 0) /\ (exists h' n, reduce PK (hp ex_state) (ex_s 0) = Ok (h', n)).
Proof.
  destruct C13_ex_stream_ok as [A B].
  split; [exact B|]. split; [vm_compute; reflexivity|]. split; [vm_compute; discriminate|].
  split; [eexists; eexists; vm_compute; reflexivity|]. split; [exact A|eexists; eexists; vm_compute; reflexivity].
Qed.

(* the view dict over WHOLE histories of single-phase Streams (every operation of the model except the MultiStream
   constructor and the phases setter): the invariant SW holds in every reachable state ... *)
Theorem C13_stream_histories_invariant : forall pk mw ops, forallb sop ops = true -> SW (fst (run pk mw init ops)).
Proof. intros pk mw ops F. apply SW_run; auto. apply SW_init. Qed.
Print Assumptions C13_stream_histories_invariant.

(* ... hence a cached mass view wraps exactly the data vector and the Phase object of every indexer holding its dict *)
Theorem C13_view_bound_over_histories : forall pk mw ops st r c v k pb d,
  forallb sop ops = true -> st = fst (run pk mw init ops) ->
  lookup r (cmap st) = Some c -> nth c (caches st) None = Some v -> nth_error (hp st) r = Some (CIdxC k pb d) ->
  v = mkview [d] (Some pb) [].
Proof. exact view_bound_over_histories. Qed.
Print Assumptions C13_view_bound_over_histories.

(* ... and s.imass of every stream of the store, cached or not, wraps the stream's own current data vector *)
Theorem C13_imass_wraps_own_rows : forall pk mw ops st i s,
  forallb sop ops = true -> st = fst (run pk mw init ops) -> nth_error (ss st) i = Some s ->
  snd (by_mass st s) = data_rows (hp st) s.
Proof. exact imass_wraps_own_rows. Qed.
Print Assumptions C13_imass_wraps_own_rows.

Definition view_hist : list op :=
  [ONewS (IdName 1) 0 3 [1%Q; 0%Q; 2%Q] (300%Q) (101325%Q) 0%Q [];
   ONewS (IdName 2) 0 2 [0%Q; 4%Q; 0%Q] (350%Q) (101325%Q) 0%Q [];
   OLink 1 0 true true true; OReadMass 1; OSetMass 0 0 1 (64%Q); OFlowProxy 0; OReadMass 2; OUnlink 0; OReadMass 0; OCopyLike 2 1].
Example C13_ex_view_history :
  forallb sop view_hist = true /\
  (let st := fst (run PK MWS init view_hist) in
   exists r c v, lookup r (cmap st) = Some c /\ nth c (caches st) None = Some v /\
                 exists k pb d, nth_error (hp st) r = Some (CIdxC k pb d)).
Proof.
  split; [reflexivity|]. vm_compute. exists 3. eexists; eexists. split; [reflexivity|]. split; [reflexivity|].
  eexists; eexists; eexists; reflexivity.
Qed.

(* ---------- per-phase views ms[phase] (ModelViews.v) ---------- *)
(* MultiStream.__getitem__ when the dict _streams has no view under that key (the record built is the one of
   getitem_new below): the view is an ordinary single-phase stream object whose cells are a NEW indexer, the row cell of
   the phase, the LockedPhase cell and the thermal condition of the MultiStream.  It shares with the MultiStream EXACTLY
   the row of the phase and the thermal condition (nothing else: not the indexer, not the other rows), it reads the
   flows of that row, the phase of its key and T, P of the MultiStream, and the MultiStream is unchanged *)
Theorem C13_phase_view_shares_row_T_P : forall h l s k phs d p i h' l' m,
  hwf h -> swf h s -> nth_error h (imol s) = Some (CIdxM k phs d) -> pidx phs p = Some i ->
  i < length (rdrows h d) -> lk_ok h l -> get_phase h l (imol s) p = Ok (h', l', m) ->
  let v := mkstream m (tc s) 0%Q [] IdNone (thermo s) in
  hwf h' /\ swf h' v /\ swf h' s /\ lk_ok h' l' /\
  (forall r, shared h' v s r <-> r = nth i (rdrows h d) 0 \/ r = tc s) /\
  obs h' s = obs h s /\ footprint h' s = footprint h s /\
  obs h' v = (false, [p], [rdvec h (nth i (rdrows h d) 0)], fst (rdtc h (tc s)), snd (rdtc h (tc s))).
Proof. exact view_shares. Qed.
Print Assumptions C13_phase_view_shares_row_T_P.

(* the dict: a missing key creates that record and stores it; a present key returns the stored object, state unchanged *)
Theorem C13_phase_view_created_once : forall vs i p s,
  nth_error (ss (base vs)) i = Some s ->
  (forall h' l' m, sub_find i p (subs vs) = None -> get_phase (hp (base vs)) (lk vs) (imol s) p = Ok (h', l', m) ->
     getitem vs i p = (mkv (with_heap (base vs) h') (subs vs ++ [(i, p, mkstream m (tc s) 0%Q [] IdNone (thermo s))]) l',
                       Ok (mkstream m (tc s) 0%Q [] IdNone (thermo s)))) /\
  (forall v, sub_find i p (subs vs) = Some v -> getitem vs i p = (vs, Ok v)).
Proof. intros vs i p s A. split; [intros h' l' m B C; apply getitem_new; auto|intros v B; eapply getitem_cached; eauto]. Qed.
Print Assumptions C13_phase_view_created_once.

(* a copy of a view: same flows, phase, T, P; built of new cells only (its phase box is an ordinary new Phase, not the
   locked one), so it shares nothing with the view nor with the MultiStream, and under EVERY interleaved history of
   mutations of the copy and of the view / of the MultiStream the other side never changes *)
Theorem C13_phase_view_copy_independent : forall pk h s v h2 c, hwf h -> swf h s -> swf h v -> copy h v = Ok (h2, c) ->
  obs h2 c = obs h v /\ obs h2 v = obs h v /\ obs h2 s = obs h s /\
  disjoint (footprint h2 c) (footprint h2 v) /\ disjoint (footprint h2 c) (footprint h2 s) /\
  (forall r, In r (footprint h2 c) -> length h <= r) /\
  (forall hist, indep_trace pk h2 v c hist) /\ (forall hist, indep_trace pk h2 s c hist).
Proof.
  intros pk h s v h2 c W S V C.
  destruct (view_copy h s v h2 c W S V C) as (A & B & D & W2 & SC & SV & SS & DV & DS & G).
  repeat (split; auto); intros hist; apply indep_lemma; auto; apply disjoint_sym; auto.
Qed.
Print Assumptions C13_phase_view_copy_independent.

(* the full statement over histories: in every reachable state every cached view wraps the row of its phase and the
   thermal condition of its MultiStream *)
Definition C13_phase_views_attached_statement : Prop :=
  forall pk mw ops, attached (fst (vrun pk mw vinit ops)).

(* ... is refuted by the code as it is: link_with and unlink rebind the data container and the thermal condition of the
   MultiStream and leave _streams alone.  Witness: a view taken while linked still wraps the partner's row and thermal
   condition after unlink() (so a write through a['l'] lands in b and is not seen by a) *)
Definition vwit_ops : list vop :=
  [VBase (ONewM (IdName 1) 0 [2; 3] [(2, [1%Q; 0%Q; 2%Q]); (3, [0%Q; 4%Q; 0%Q])] (300%Q) (101325%Q) 0%Q []);
   VBase (ONewM (IdName 2) 0 [2; 3] [(3, [0%Q; 8%Q; 0%Q])] (350%Q) (101325%Q) 0%Q []);
   VBase (OLink 0 1 true true true); VGet 0 3; VBase (OUnlink 0)].
Definition vwit : vstate := fst (vrun PK MWS vinit vwit_ops).
Theorem C13_phase_views_attached_refuted : ~ C13_phase_views_attached_statement.
Proof.
  intros H.
  destruct (H PK MWS vwit_ops 0 3 (nth 0 (map snd (subs vwit)) dflt) (nth 0 (ss (base vwit)) dflt))
    as (k & phs & d & j & k' & pb & _ & _ & _ & E).
  - vm_compute. left. reflexivity.
  - vm_compute. reflexivity.
  - vm_compute in E. discriminate.
Qed.
Print Assumptions C13_phase_views_attached_refuted.

(* the same witness, observed: the write through the stale view a['l'] changes b and not a *)
Example C13_ex_stale_view_writes_partner :
  let '(vs, es) := vrun PK MWS vwit [VSetFlow 0 3 0 (9%Q)] in
  es = [None] /\
  o_rows (observe (hp (base vs)) (nth 0 (ss (base vs)) dflt) []) = [[0%Q; 0%Q; 0%Q]; [0%Q; 8%Q; 0%Q]] /\
  o_rows (observe (hp (base vs)) (nth 1 (ss (base vs)) dflt) []) = [[0%Q; 0%Q; 0%Q]; [9%Q; 8%Q; 0%Q]].
Proof. vm_compute. repeat split; reflexivity. Qed.

(* without link_with / unlink in between the view stays attached across phase changes and phase expansion (the phases
   setter re-attaches it to the rows of the new indexer) *)
Definition vex_ops : list vop :=
  [VBase (ONewM (IdName 1) 0 [2; 3] [(2, [1%Q; 0%Q; 2%Q]); (3, [0%Q; 4%Q; 0%Q])] (300%Q) (101325%Q) 0%Q []);
   VBase (ONewS (IdName 2) 0 4 [7%Q; 0%Q; 0%Q] (310%Q) (101325%Q) 0%Q []);
   VGet 0 3; VGet 0 2; VBase (OCopyLike 0 1); VGet 0 4; VBase (OSetPhases 0 [3; 4]); VSetFlow 0 3 1 (5%Q); VSetT 0 4 (333%Q)].
Definition vex : vstate := fst (vrun PK MWS vinit vex_ops).
Definition attachedb (vs : vstate) : bool :=
  forallb (fun e => let '(i, p, v) := e in
    match nth_error (ss (base vs)) i with
    | None => true
    | Some s =>
      match nth_error (hp (base vs)) (imol s), nth_error (hp (base vs)) (imol v) with
      | Some (CIdxM _ phs d), Some (CIdxC _ _ dv) =>
        match pidx phs p with Some j => Nat.eqb dv (nth j (rdrows (hp (base vs)) d) 0) && Nat.eqb (tc v) (tc s) | None => false end
      | _, _ => false
      end
    end) (subs vs).
Example C13_ex_phase_views :
  hwf (hp (base vex)) /\ lk_ok (hp (base vex)) (lk vex) /\ attachedb vex = true /\ map fst (subs vex) = [(0, 3); (0, 4)] /\
  o_rows (observe (hp (base vex)) (nth 0 (ss (base vex)) dflt) []) = [[0%Q; 5%Q; 0%Q]; [7%Q; 0%Q; 0%Q]] /\
  o_T (observe (hp (base vex)) (nth 0 (ss (base vex)) dflt) []) = 333%Q /\
  (exists h2 c, copy (hp (base vex)) (nth 0 (map snd (subs vex)) dflt) = Ok (h2, c)).
Proof.
  split; [apply hwfb_ok; vm_compute; reflexivity|].
  split; [intros p r; vm_compute; intros E; repeat (destruct p as [|p]; try discriminate E); inversion E; reflexivity|].
  split; [vm_compute; reflexivity|]. split; [vm_compute; reflexivity|]. split; [vm_compute; reflexivity|].
  split; [vm_compute; reflexivity|]. eexists; eexists; vm_compute; reflexivity.
Qed.

(* ---------- the view dict (_data_cache) when MultiStreams take part ---------- *)
(* the exact statement of C13_view_bound_over_histories for a MaterialIndexer: a cached mass view wraps the current rows
   and phases of every indexer holding its dict, in every reachable state *)
Definition C13_view_bound_multistream_statement : Prop :=
  forall pk mw ops st r c v k phs d, st = fst (run pk mw init ops) ->
    lookup r (cmap st) = Some c -> nth c (caches st) None = Some v -> nth_error (hp st) r = Some (CIdxM k phs d) ->
    v = mkview (rdrows (hp st) d) None phs.

(* admissibility condition: no two distinct MaterialIndexer objects hold the same SparseArray (no flow proxy of, and no
   flow link between, MultiStreams whose phases are expanded later) *)
Definition arrays_private (h : heap) : Prop :=
  forall r1 r2 k1 p1 k2 p2 d,
    nth_error h r1 = Some (CIdxM k1 p1 d) -> nth_error h r2 = Some (CIdxM k2 p2 d) -> r1 = r2.

(* the condition is necessary: with a flow proxy of a MultiStream (second indexer over the same SparseArray, own dict), a
   mass view created through the proxy, and copy_like of a solid stream onto the original (_expand_phases re-shapes the
   shared array and clears only the original's dict), the proxy's cached view wraps two rows while its array has three *)
Definition mwit_ops : list op :=
  [ONewM (IdName 1) 0 [2; 3] [(2, [1%Q; 0%Q; 2%Q]); (3, [0%Q; 4%Q; 0%Q])] (300%Q) (101325%Q) 0%Q [];
   ONewS (IdName 2) 0 4 [7%Q; 0%Q; 0%Q] (310%Q) (101325%Q) 0%Q [];
   OFlowProxy 0; OReadMass 2; OCopyLike 0 1].
Theorem C13_view_bound_multistream_refuted : ~ C13_view_bound_multistream_statement.
Proof.
  intros H.
  assert (E : mkview [1; 2] None [2; 3] = mkview (rdrows (hp (fst (run PK MWS init mwit_ops))) 3) None [2; 3]).
  { apply (H PK MWS mwit_ops _ 9 0 (mkview [1; 2] None [2; 3]) 0 [2; 3] 3 eq_refl); vm_compute; reflexivity. }
  vm_compute in E. discriminate E.
Qed.
Print Assumptions C13_view_bound_multistream_refuted.

(* ... and the witness violates exactly that condition in the state before the expanding operation *)
Theorem C13_view_bound_condition_necessary :
  ~ arrays_private (hp (fst (run PK MWS init (firstn 4 mwit_ops)))) /\
  arrays_private (hp (fst (run PK MWS init (firstn 2 mwit_ops)))).
Proof.
  split.
  - intros H. specialize (H 4 9 0 [2; 3] 0 [2; 3] 3). vm_compute in H. discriminate (H eq_refl eq_refl).
  - intros r1 r2 k1 p1 k2 p2 d H1 H2.
    assert (A : forall r k p d0, nth_error (hp (fst (run PK MWS init (firstn 2 mwit_ops)))) r = Some (CIdxM k p d0) -> r = 4).
    { intros r k p d0. vm_compute. intros E.
      do 9 (destruct r as [|r]; [simpl in E; try discriminate E; try reflexivity|]). simpl in E. destruct r; discriminate E. }
    rewrite (A _ _ _ _ H1), (A _ _ _ _ H2). reflexivity.
Qed.
Print Assumptions C13_view_bound_condition_necessary.

(* ---- pickles of property packages: the generic pickling of slotted classes (utils/pickle.py) run on the class tables that
   tr/C13_pickle.py regenerates from _thermo.py on every run.  pview = class, state of EVERY slot of the class (unset / None /
   value) and the same for every object a slot refers to. *)

(* a Thermo as its constructor leaves it (no ideal package cached yet), for all constructor values and all heaps: the round
   trip succeeds, builds one new object, leaves the heap below it as it was, and the new object has the same view *)
Theorem C13_pickle_thermo_roundtrip : forall h l a b c d e,
  nth_error h l = Some (thermo_obj a b c d e PNone) ->
  exists h2 l2, ppickle h l = Ok (h2, l2) /\ pview h2 l2 = pview h l /\ length h <= l2 /\ firstn (length h) h2 = h.
Proof.
  intros h l a b c d e H. eexists. eexists. split; [apply (pickle_thermo_plain h l a b c d e H)|].
  split; [apply pview_plain; exact H|]. split; [apply le_n|]. rewrite firstn_app, Nat.sub_diag, firstn_all. cbn [firstn]. apply app_nil_r.
Qed.
Print Assumptions C13_pickle_thermo_roundtrip.

(* a Thermo holding its cached ideal package: same, and the cached package is rebuilt too (the new package refers to a NEW
   ideal package with the same view, never to the original's) *)
Theorem C13_pickle_thermo_cached_roundtrip : forall h l r a b c d e a' b',
  nth_error h l = Some (thermo_obj a b c d e (PRef r)) -> nth_error h r = Some (ideal_obj a' b') -> l <> r ->
  exists h2 l2, ppickle h l = Ok (h2, l2) /\ pview h2 l2 = pview h l /\ length h <= l2 /\ firstn (length h) h2 = h /\
    exists r2, (exists o, nth_error h2 l2 = Some o /\ fget (p_fields o) ideal_slot_name = Some (PRef r2)) /\ length h <= r2.
Proof.
  intros h l r a b c d e a' b' H R N. eexists. eexists. split; [apply (pickle_thermo_cached h l r a b c d e a' b' H R N)|].
  split; [apply (pview_cached h l r a b c d e a' b' H R)|]. split; [lia|]. split.
  - rewrite firstn_app, Nat.sub_diag, firstn_all. cbn [firstn]. apply app_nil_r.
  - exists (length h). split; [|lia]. eexists. split.
    + replace (S (length h)) with (length h + 1) by lia. rewrite nth_app_new. reflexivity.
    + reflexivity.
Qed.
Print Assumptions C13_pickle_thermo_cached_roundtrip.

Theorem C13_pickle_ideal_roundtrip : forall h l a b,
  nth_error h l = Some (ideal_obj a b) ->
  exists h2 l2, ppickle h l = Ok (h2, l2) /\ pview h2 l2 = pview h l /\ length h <= l2 /\ firstn (length h) h2 = h.
Proof.
  intros h l a b H. eexists. eexists. split; [apply (pickle_ideal h l a b H)|].
  split; [apply pview_ideal; exact H|]. split; [apply le_n|]. rewrite firstn_app, Nat.sub_diag, firstn_all. cbn [firstn]. apply app_nil_r.
Qed.
Print Assumptions C13_pickle_ideal_roundtrip.

(* what the round trip is FOR: the ideal package of an unpickled package can be asked for, exactly as the original's: it is
   built over the unpickled package's own chemicals and mixture and cached *)
Theorem C13_pickle_then_ideal : forall h l a b c d e,
  nth_error h l = Some (thermo_obj a b c d e PNone) ->
  exists h2 l2 h3 i3, ppickle h l = Ok (h2, l2) /\ p_ideal h2 l2 = Ok (h3, i3) /\
    nth_error h3 i3 = Some (ideal_obj a b) /\ nth_error h3 l2 = Some (thermo_obj a b c d e (PRef i3)) /\
    p_ideal h3 l2 = Ok (h3, i3).
Proof.
  intros h l a b c d e H.
  assert (N : nth_error (h ++ [thermo_obj a b c d e PNone]) (length h) = Some (thermo_obj a b c d e PNone))
    by (rewrite nth_app_new0; reflexivity).
  eexists. eexists. eexists. eexists. split; [apply (pickle_thermo_plain h l a b c d e H)|].
  split; [apply (p_ideal_plain _ _ a b c d e N)|].
  assert (W : forall (x : pobj), pwr (h ++ [thermo_obj a b c d e PNone]) (length h) x = h ++ [x]).
  { intros x. clear H N. induction h as [|y h IH]; cbn; [reflexivity|]. f_equal. exact IH. }
  rewrite W. rewrite app_length. cbn [length]. replace (length h + 1) with (S (length h)) by lia.
  rewrite <- app_assoc. cbn [app].
  split; [replace (S (length h)) with (length h + 1) by lia; rewrite nth_app_new; reflexivity|].
  split; [rewrite nth_app_new0; reflexivity|].
  apply (p_ideal_cached _ _ _ a b c d e). rewrite nth_app_new0. reflexivity.
Qed.
Print Assumptions C13_pickle_then_ideal.

(* non-vacuity: the shapes of the hypotheses are what the constructor and ideal() produce *)
Example C13_pickle_shapes_reached :
  fst (fst (prun ([], []) [PNew 0 10 20 21 22])) = [thermo_obj 0 10 20 21 22 PNone] /\
  fst (fst (prun ([], []) [PNew 0 10 20 21 22; PIdeal 0])) = [thermo_obj 0 10 20 21 22 (PRef 1); ideal_obj 0 10].
Proof. split; reflexivity. Qed.

(* the statement over ALL histories (every object of every store reachable by PNew / PIdeal / PPickle / PReduce / PEnter
   round-trips with an equal view) is kept visible; proved above for the three shapes objects have (constructor result,
   package with cached ideal package, ideal package); that every reachable object has one of these shapes is executed by
   the correspondence (family pickle-slots: the whole store is compared slot by slot), not proved. *)
Definition C13_pickle_history_statement : Prop :=
  forall ops h store outs, prun ([], []) ops = ((h, store), outs) -> forall l, In l store ->
  exists h2 l2, ppickle h l = Ok (h2, l2) /\ pview h2 l2 = pview h l /\ length h <= l2 /\ firstn (length h) h2 = h.
