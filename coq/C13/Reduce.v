(* C13 — reduce (= from_data o __reduce__ through __init__) evaluated symbolically on an arbitrary heap for a
   single-phase Stream and for a MultiStream holding one phase: the observable state incl. price, characterization
   factors and a given ID is reproduced exactly. *)
From V Require Import Common.NumFacts C13.Model C13.Proofs.
From Coq Require Import Lia.
Local Open Scope nat_scope.

Lemma wr_app_new (h e : heap) j c : wr (h ++ e) (length h + j) c = h ++ upd e j c.
Proof.
  unfold wr. induction h as [|x h IH]; simpl; auto. f_equal. exact IH.
Qed.
Lemma rd_app_new (h e : heap) j : nth_error (h ++ e) (length h + j) = nth_error e j.
Proof. apply nth_error_app_new. Qed.

Section R.
Variable pk : list (list nat).
Lemma reduce_stream h s k pb d p v T P h' n :
  nth_error h (imol s) = Some (CIdxC k pb d) -> nth_error h pb = Some (CPhase p) -> nth_error h d = Some (CVec v) ->
  nth_error h (tc s) = Some (CTC T P) -> valid_phase p = true -> thermo s = k -> sid_ s <> IdNone ->
  reduce pk h s = Ok (h', n) -> obs_plus h' n = obs_plus h s.
Proof.
  intros Hi Hp Hd Ht VP TH ID R.
  unfold reduce in R. unfold imol_copy in R. rewrite Hi in R. unfold chem_new in R. cbn [bind] in R.
  unfold rdtc in R. rewrite Ht in R. unfold is_multi in R. rewrite Hi in R.
  unfold rdphase in R at 1 2. rewrite Hp in R. unfold rdvec in R at 1. rewrite Hd in R.
  unfold new_single in R.
  assert (TV : tc_valid T0 P0 = true) by (vm_compute; reflexivity). rewrite TV in R.
  unfold chem_new in R. cbn [bind] in R.
  rewrite TH in R.
  repeat rewrite app_length in R. simpl length in R.
  rewrite <- !app_assoc in R. simpl app in R.
  replace (S (S (length h + 3 + 1))) with (length h + 6) in R by lia.
  replace (S (length h + 3 + 1)) with (length h + 5) in R by lia.
  replace (length h + 3 + 1) with (length h + 4) in R by lia.
  replace (S (S (length h))) with (length h + 2) in R by lia.
  replace (S (length h)) with (length h + 1) in R by lia.
  unfold set_phases in R. cbn [imol] in R. rewrite rd_app_new in R. cbn [nth_error] in R.
  cbn [sort_set fold_right insert_set] in R. rewrite VP in R.
  rewrite wr_app_new in R. cbn [upd] in R.
  unfold imol_copy_like in R. cbn [imol] in R. rewrite rd_app_new in R. cbn [nth_error] in R.
  unfold src_of in R. rewrite rd_app_new in R. cbn [nth_error] in R.
  unfold rdphase in R at 1. rewrite nth_error_app_new0 in R. cbn [nth_error] in R.
  unfold chem_copy_like in R. rewrite rd_app_new in R. cbn [nth_error c_self c_pkg c_phase c_data opt_eqb] in R.
  assert (Q1 : Nat.eqb (length h + 2) (length h + 6) = false) by (apply Nat.eqb_neq; lia).
  assert (Q2 : Nat.eqb (length h + 5) (length h + 1) = false) by (apply Nat.eqb_neq; lia).
  rewrite Q1, Nat.eqb_refl, Q2, VP in R.
  unfold rdvec in R at 1. rewrite rd_app_new in R. cbn [nth_error] in R.
  rewrite !wr_app_new in R. cbn [upd tc] in R. rewrite wr_app_new in R. cbn [upd] in R.
  inversion R; subst h' n; clear R.
  unfold obs_plus, observe. cbn [imol tc price cf sid_]. unfold rdtc. rewrite !rd_app_new. cbn [nth_error].
  rewrite Hi, Ht. unfold rdphase, rdvec. rewrite !rd_app_new. cbn [nth_error]. rewrite Hp, Hd.
  cbn [o_multi o_phases o_rows o_T o_P o_price o_cf o_id].
  destruct (sid_ s); try congruence; reflexivity.
Qed.

Lemma vadd_vzero n : vadd (vzero n) (vzero n) = vzero n.
Proof. unfold vadd, vzero. induction n as [|n IH]; simpl; auto. rewrite IH. reflexivity. Qed.

Lemma reduce_multi1 h s k p d rb vb T P h' n :
  nth_error h (imol s) = Some (CIdxM k [p] d) -> nth_error h d = Some (CArr [rb]) -> nth_error h rb = Some (CVec vb) ->
  nth_error h (tc s) = Some (CTC T P) -> valid_phase p = true -> thermo s = k -> sid_ s <> IdNone ->
  reduce pk h s = Ok (h', n) ->
  obs_plus h' n = (false, [p], [vb], T, P, price s, cf s, sid_ s).
Proof.
  intros Hi Hd Hr Ht VP TH ID R.
  assert (RD : rdrows h d = [rb]) by (unfold rdrows; rewrite Hd; reflexivity).
  assert (RV : rdvec h rb = vb) by (unfold rdvec; rewrite Hr; reflexivity).
  unfold reduce in R. unfold imol_copy in R. rewrite Hi in R. unfold arr_copy, alloc_vecs in R.
  rewrite !RD in R. cbn [map length seq] in R. rewrite RV in R.
  cbn [bind] in R. unfold rdtc in R. rewrite Ht in R. unfold is_multi in R. rewrite Hi in R.
  unfold new_multi in R.
  assert (TV : tc_valid T0 P0 = true) by (vm_compute; reflexivity). rewrite TV in R.
  change (phase_tuple [3; 2]) with (Ok (A := list nat) [2; 3]) in R. cbn [bind] in R.
  unfold mat_blank, alloc_vecs in R. cbn [map length seq fill_rows bind] in R. rewrite TH in R.
  repeat rewrite app_length in R. simpl length in R.
  rewrite <- !app_assoc in R. simpl app in R.
  replace (length h + 1 + 1 + 1 + 1 + 2 + 1) with (length h + 7) in R by lia.
  replace (length h + 1 + 1 + 1 + 1 + 2) with (length h + 6) in R by lia.
  replace (S (length h + 1 + 1 + 1 + 1)) with (length h + 5) in R by lia.
  replace (length h + 1 + 1 + 1 + 1) with (length h + 4) in R by lia.
  replace (length h + 1 + 1 + 1) with (length h + 3) in R by lia.
  replace (length h + 1 + 1) with (length h + 2) in R by lia.
  unfold set_phases in R. cbn [imol] in R. rewrite rd_app_new in R. cbn [nth_error] in R.
  cbn [sort_set fold_right insert_set] in R.
  unfold mat_to_chemical in R. rewrite rd_app_new in R. cbn [nth_error] in R.
  unfold rdrows in R at 1. rewrite rd_app_new in R. cbn [nth_error fold_left] in R.
  unfold rdvec in R at 1 2. rewrite !rd_app_new in R. cbn [nth_error] in R.
  unfold zeros in R. rewrite !vadd_vzero in R. fold (zeros pk k) in R.
  unfold chem_new in R. rewrite VP in R.
  repeat rewrite app_length in R. simpl length in R. rewrite <- !app_assoc in R. simpl app in R.
  replace (S (S (length h + 8))) with (length h + 10) in R by lia.
  replace (S (length h + 8)) with (length h + 9) in R by lia.
  unfold set_imol in R. cbn [imol tc price cf sid_ thermo] in R.
  unfold imol_copy_like in R. rewrite rd_app_new in R. cbn [nth_error] in R.
  unfold src_of in R. rewrite rd_app_new in R. cbn [nth_error] in R.
  unfold rdrows in R at 1. rewrite rd_app_new in R. cbn [nth_error nth] in R.
  unfold chem_copy_like in R. rewrite rd_app_new in R. cbn [nth_error c_self c_pkg c_phase c_data opt_eqb] in R.
  assert (Q2 : Nat.eqb (length h + 9) (length h) = false) by (apply Nat.eqb_neq; lia).
  rewrite Nat.eqb_refl, Q2, VP in R.
  unfold rdvec in R at 1. rewrite nth_error_app_new0 in R. cbn [nth_error] in R.
  rewrite !wr_app_new in R. cbn [upd] in R.
  inversion R; subst h' n; clear R.
  unfold obs_plus, observe. cbn [imol tc price cf sid_]. unfold rdtc. rewrite !rd_app_new. cbn [nth_error].
  unfold rdphase, rdvec. rewrite !rd_app_new. cbn [nth_error].
  cbn [o_multi o_phases o_rows o_T o_P o_price o_cf o_id].
  destruct (sid_ s); try congruence; reflexivity.
Qed.
End R.
