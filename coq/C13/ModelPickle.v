(* C13 — executable model of the generic pickling of slotted classes (thermosteam/utils/pickle.py: get_state,
   new_from_state, __reduce__ installed by @cucumber; utils/misc.py getfields / setfields) applied to the property-package
   classes Thermo / IdealThermo (thermosteam/_thermo.py), and of the methods that create the slot state: Thermo.__init__,
   Thermo.ideal(), IdealThermo.ideal(), __enter__.  The class tables (slots per mro class, _pickle_recipe, the ordered slot
   writes of __init__ and ideal()) are NOT written here: they are regenerated from the source on every run
   (tr/C13_pickle.py -> Gen_pickle.v).  Definitions only. *)
From Coq Require Import String List Bool Arith.
From V Require Import Common.Num C13.Gen_pickle.
Import ListNotations.
Local Open Scope nat_scope.

(* a slot value: None, an opaque immutable value (chemicals / mixture / a class: identified by a code), a reference to another
   slotted object of the heap *)
Inductive pval := PNone | PAtom (n : nat) | PRef (l : nat).
(* an object: class (0 = Thermo, 1 = IdealThermo) and the slots that are SET, in the order they were first set *)
Record pobj := mkpobj { p_cls : nat; p_fields : list (string * pval) }.
Definition pheap := list pobj.

Definition cls_slots (c : nat) : list string := concat (if c =? 0 then thermo_mro_slots else ideal_mro_slots).
Definition cls_recipe (c : nat) : option (list string) := if c =? 0 then thermo_recipe else ideal_recipe.

Fixpoint fget (fs : list (string * pval)) (s : string) : option pval :=
  match fs with [] => None | (k, v) :: r => if String.eqb k s then Some v else fget r s end.
Fixpoint fset (fs : list (string * pval)) (s : string) (v : pval) : list (string * pval) :=
  match fs with [] => [(s, v)] | (k, w) :: r => if String.eqb k s then (k, v) :: r else (k, w) :: fset r s v end.
Fixpoint mem_str (s : string) (l : list string) : bool :=
  match l with [] => false | x :: r => String.eqb x s || mem_str s r end.

(* getattr(obj, name): a slot that was never set raises AttributeError *)
Definition pgetattr (o : pobj) (s : string) : res pval :=
  match fget (p_fields o) s with Some v => Ok v | None => Err EOther end.
(* object.__setattr__(obj, name, v): only names of the class's slots can be set *)
Definition psetattr (o : pobj) (s : string) (v : pval) : res pobj :=
  if mem_str s (cls_slots (p_cls o)) then Ok (mkpobj (p_cls o) (fset (p_fields o) s v)) else Err EOther.

(* getfields: [getattr(obj, i) for i in fields] *)
Fixpoint pgetfields (o : pobj) (slots : list string) : res (list pval) :=
  match slots with
  | [] => Ok []
  | s :: r => do v <- pgetattr o s; do vs <- pgetfields o r; Ok (v :: vs)
  end.
(* setfields: for i, j in zip(names, fields): setfield(obj, i, j) *)
Fixpoint psetfields (o : pobj) (slots : list string) (vals : list pval) : res pobj :=
  match slots, vals with
  | s :: r, v :: w => do o1 <- psetattr o s v; psetfields o1 r w
  | _, _ => Ok o
  end.

(* get_state: slots = obj._pickle_recipe if hasattr(obj, '_pickle_recipe') else sum of __slots__ over the mro *)
Definition state_slots (c : nat) : list string :=
  match cls_recipe c with Some r => r | None => cls_slots c end.
Definition get_state (o : pobj) : res (nat * list string * list pval) :=
  do vs <- pgetfields o (state_slots (p_cls o)); Ok (p_cls o, state_slots (p_cls o), vs).
(* new_from_state: object.__new__(cls) has every slot unset; then setfields *)
Definition new_from_state (st : nat * list string * list pval) : res pobj :=
  let '(c, slots, vals) := st in psetfields (mkpobj c []) slots vals.

Definition prd (h : pheap) (l : nat) : res pobj :=
  match nth_error h l with Some o => Ok o | None => Err EIndex end.

(* f, args = obj.__reduce__(); f( *args ): the values are shared with the original, not copied *)
Definition reduce_inproc (h : pheap) (l : nat) : res (pheap * nat) :=
  do o <- prd h l; do st <- get_state o; do n <- new_from_state st; Ok (h ++ [n], length h).

(* pickle.loads(pickle.dumps(obj)): the reduce value of the object is built recursively (args first, then the call, then
   the object is entered into the memo), referenced slotted objects are rebuilt once (memo), opaque values are carried over.
   The recursion depth of pickle is bounded; running out of fuel stands for RecursionError. *)
Fixpoint massoc (m : list (nat * nat)) (l : nat) : option nat :=
  match m with [] => None | (k, v) :: r => if k =? l then Some v else massoc r l end.
Definition pickle_fuel := 8.
Fixpoint pcopy (fuel : nat) (h : pheap) (memo : list (nat * nat)) (l : nat) : res (pheap * list (nat * nat) * nat) :=
  match fuel with
  | O => Err ERuntime
  | S f =>
    match massoc memo l with
    | Some l' => Ok (h, memo, l')
    | None =>
      do o <- prd h l;
      do st <- get_state o;
      let '(c, slots, vals) := st in
      do r <- (fix cpv (h : pheap) (memo : list (nat * nat)) (vs : list pval) : res (pheap * list (nat * nat) * list pval) :=
                 match vs with
                 | [] => Ok (h, memo, [])
                 | PRef x :: w =>
                     do a <- pcopy f h memo x; let '(h1, m1, x') := a in
                     do b <- cpv h1 m1 w; let '(h2, m2, w') := b in Ok (h2, m2, PRef x' :: w')
                 | v :: w => do b <- cpv h memo w; let '(h2, m2, w') := b in Ok (h2, m2, v :: w')
                 end) h memo vals;
      let '(h1, m1, vals') := r in
      do n <- new_from_state (c, slots, vals');
      Ok (h1 ++ [n], (l, length h1) :: m1, length h1)
    end
  end.
Definition ppickle (h : pheap) (l : nat) : res (pheap * nat) :=
  do r <- pcopy pickle_fuel h [] l; let '(h1, _, l') := r in Ok (h1, l').

(* Thermo.__init__ (after the arguments are resolved): the ordered slot writes *)
Definition init_val (args : list pval) (v : option nat) : pval :=
  match v with None => PNone | Some k => nth k args PNone end.
Fixpoint apply_init (o : pobj) (sets : list (string * option nat)) (args : list pval) : res pobj :=
  match sets with
  | [] => Ok o
  | (s, v) :: r => do o1 <- psetattr o s (init_val args v); apply_init o1 r args
  end.
Definition thermo_new (h : pheap) (args : list pval) : res (pheap * nat) :=
  do o <- apply_init (mkpobj 0 []) thermo_init_sets args; Ok (h ++ [o], length h).

(* ideal(): Thermo reads the cache slot (AttributeError when unset); a falsy value (None) -> a new IdealThermo is built by the
   listed writes and returned; IdealThermo.ideal() returns self *)
Definition truthy (v : pval) : bool := match v with PNone => false | _ => true end.
Fixpoint apply_ideal (self new : pobj) (nl : nat) (sets : list (bool * string * (string + bool))) : res (pobj * pobj) :=
  match sets with
  | [] => Ok (self, new)
  | (on_self, s, src) :: r =>
      do v <- match src with
              | inl a => pgetattr self a
              | inr true => Ok (PRef nl)
              | inr false => Ok PNone
              end;
      if on_self then do s1 <- psetattr self s v; apply_ideal s1 new nl r
      else do n1 <- psetattr new s v; apply_ideal self n1 nl r
  end.
Fixpoint pwr {A} (h : list A) (l : nat) (x : A) : list A :=
  match h, l with
  | [], _ => []
  | _ :: r, O => x :: r
  | y :: r, S k => y :: pwr r k x
  end.
Definition p_ideal (h : pheap) (l : nat) : res (pheap * nat) :=
  do o <- prd h l;
  if p_cls o =? 0 then
    do c <- pgetattr o thermo_ideal_cache;
    if truthy c then match c with PRef r => Ok (h, r) | _ => Err EOther end
    else
      do p <- apply_ideal o (mkpobj 1 []) (length h) thermo_ideal_sets;
      let '(o1, n1) := p in Ok (pwr h l o1 ++ [n1], length h)
  else Ok (h, l).

(* histories over a store of handles *)
Inductive pop :=
| PNew (chem mix gam phi pcf : nat)     (* Thermo(...) with the resolved constructor values *)
| PIdeal (i : nat)                       (* store[i].ideal(), the result is appended to the store *)
| PPickle (i : nat)                      (* pickle.loads(pickle.dumps(store[i])) appended *)
| PReduce (i : nat)                      (* f, args = store[i].__reduce__(); f( *args ) appended *)
| PEnter (i : nat).                      (* store[i].__enter__(): with a default package set, the slot assignment goes through
                                            the read-only __setattr__ -> TypeError before anything is changed *)

Definition pstate := (pheap * list nat)%type.
Definition pstep (st : pstate) (o : pop) : res pstate :=
  let '(h, store) := st in
  let at_ i := match nth_error store i with Some l => Ok l | None => Err EIndex end in
  let push (r : res (pheap * nat)) := do p <- r; let '(h1, l) := p in Ok (h1, store ++ [l]) in
  match o with
  | PNew a b c d e => push (thermo_new h [PAtom a; PAtom b; PAtom c; PAtom d; PAtom e])
  | PIdeal i => do l <- at_ i; push (p_ideal h l)
  | PPickle i => do l <- at_ i; push (ppickle h l)
  | PReduce i => do l <- at_ i; push (reduce_inproc h l)
  | PEnter i => do l <- at_ i; Err EType
  end.
Fixpoint prun (st : pstate) (ops : list pop) : pstate * list (option err) :=
  match ops with
  | [] => (st, [])
  | o :: r =>
      match pstep st o with
      | Ok st1 => let '(s2, outs) := prun st1 r in (s2, None :: outs)
      | Err e => let '(s2, outs) := prun st r in (s2, Some e :: outs)
      end
  end.

(* observation of the whole store, canonical: objects are numbered in the order they are first reached (store order, then
   the references of each visited object in slot order); per object: class and for EVERY slot of the class unset / None /
   opaque value / number of the referenced object *)
Inductive sval := SvNone | SvAtom (n : nat) | SvRef (k : nat).
Fixpoint pindex_of (l : nat) (vis : list nat) : option nat :=
  match vis with [] => None | x :: r => if x =? l then Some 0 else option_map S (pindex_of l r) end.
Definition padd_new (vis : list nat) (l : nat) : list nat :=
  match pindex_of l vis with Some _ => vis | None => vis ++ [l] end.
Definition slot_vals (h : pheap) (l : nat) : list (option pval) :=
  match nth_error h l with
  | Some o => map (fun s => fget (p_fields o) s) (cls_slots (p_cls o))
  | None => []
  end.
Definition refs_of (h : pheap) (l : nat) : list nat :=
  flat_map (fun v => match v with Some (PRef r) => [r] | _ => [] end) (slot_vals h l).
Fixpoint pvisit (fuel : nat) (h : pheap) (vis : list nat) (idx : nat) : list nat :=
  match fuel with
  | O => vis
  | S f => match nth_error vis idx with
           | None => vis
           | Some l => pvisit f h (fold_left padd_new (refs_of h l) vis) (S idx)
           end
  end.
Definition prow (h : pheap) (vis : list nat) (l : nat) : nat * list (option sval) :=
  (match nth_error h l with Some o => p_cls o | None => 99 end,
   map (fun v => match v with
                 | None => None
                 | Some PNone => Some SvNone
                 | Some (PAtom n) => Some (SvAtom n)
                 | Some (PRef r) => Some (SvRef (match pindex_of r vis with Some k => k | None => 999 end))
                 end) (slot_vals h l)).
Definition psnapshot (st : pstate) : list nat * list (nat * list (option sval)) :=
  let '(h, store) := st in
  let vis := pvisit (S (length h)) h (fold_left padd_new store []) 0 in
  (map (fun l => match pindex_of l vis with Some k => k | None => 999 end) store, map (prow h vis) vis).

(* comparison with the observed outcome *)
Definition sval_eqb (a b : sval) : bool :=
  match a, b with
  | SvNone, SvNone => true
  | SvAtom x, SvAtom y => x =? y
  | SvRef x, SvRef y => x =? y
  | _, _ => false
  end.
Definition osval_eqb (a b : option sval) : bool :=
  match a, b with None, None => true | Some x, Some y => sval_eqb x y | _, _ => false end.
Fixpoint plist_eqb {A} (f : A -> A -> bool) (a b : list A) : bool :=
  match a, b with
  | [], [] => true
  | x :: r, y :: s => f x y && plist_eqb f r s
  | _, _ => false
  end.
Definition perr_eqb (a b : err) : bool :=
  match a, b with
  | EValue, EValue | EKey, EKey | EIndex, EIndex | EType, EType | EZeroDiv, EZeroDiv | ERuntime, ERuntime
  | EInfeasible, EInfeasible | EUndefPhase, EUndefPhase | EDim, EDim | EOther, EOther => true
  | _, _ => false
  end.
Definition poerr_eqb (a b : option err) : bool :=
  match a, b with None, None => true | Some x, Some y => perr_eqb x y | _, _ => false end.
Definition prow_eqb (a b : nat * list (option sval)) : bool :=
  (fst a =? fst b) && plist_eqb osval_eqb (snd a) (snd b).
Definition prun_eqb (ops : list pop) (outs : list (option err)) (labels : list nat) (rows : list (nat * list (option sval))) : bool :=
  let '(st, o) := prun ([], []) ops in
  let '(lb, rw) := psnapshot st in
  plist_eqb poerr_eqb o outs && plist_eqb Nat.eqb lb labels && plist_eqb prow_eqb rw rows.
Definition prun_show (ops : list pop) := let '(st, o) := prun ([], []) ops in (o, psnapshot st).

(* the view of ONE object used by the theorems: its class, every slot of the class (unset / value with references
   abstracted), and the same for every object a slot refers to *)
Inductive shv := ShUnset | ShNone | ShAtom (n : nat) | ShRef.
Definition shallow (h : pheap) (l : nat) : nat * list (string * shv) :=
  match nth_error h l with
  | Some o => (p_cls o, map (fun s => (s, match fget (p_fields o) s with
                                          | None => ShUnset | Some PNone => ShNone | Some (PAtom n) => ShAtom n | Some (PRef _) => ShRef
                                          end)) (cls_slots (p_cls o)))
  | None => (99, [])
  end.
Definition pview (h : pheap) (l : nat) : (nat * list (string * shv)) * list (string * (nat * list (string * shv))) :=
  (shallow h l,
   match nth_error h l with
   | Some o => flat_map (fun s => match fget (p_fields o) s with Some (PRef r) => [(s, shallow h r)] | _ => [] end) (cls_slots (p_cls o))
   | None => []
   end).
