(* C13 — lemmas about the per-phase views ms[phase] (ModelViews.v). *)
From V Require Import Common.NumFacts C13.Model C13.ModelViews C13.Proofs.
From Coq Require Import Lia.
Local Open Scope nat_scope.

(* the table of LockedPhase singletons points to phase cells holding their own key *)
Definition lk_ok (h : heap) (l : list (nat * ref)) : Prop :=
  forall p r, lookup p l = Some r -> nth_error h r = Some (CPhase p).

Lemma lk_ok_app h e l : lk_ok h l -> lk_ok (h ++ e) l.
Proof.
  intros L p r H. pose proof (L p r H) as N. rewrite nth_error_app_l; auto. eapply nth_error_some_lt; eauto.
Qed.

Lemma lk_ok_nil h : lk_ok h [].
Proof. intros p r H. discriminate. Qed.

Lemma locked_lemma h l p h1 l1 pb : lk_ok h l -> locked h l p = (h1, l1, pb) ->
  (exists e, h1 = h ++ e /\ forall c, In c e -> c = CPhase p) /\ lk_ok h1 l1 /\ nth_error h1 pb = Some (CPhase p) /\
  lookup p l1 = Some pb.
Proof.
  intros L E. unfold locked in E. destruct (lookup p l) as [r|] eqn:Q.
  - inversion E; subst. split; [exists []; rewrite app_nil_r; split; [auto|intros c []]|]. split; auto.
  - inversion E; subst. split; [exists [CPhase p]; split; [auto|intros c [<-|[]]; auto]|].
    split; [|split].
    + intros q r H. simpl in H. destruct (Nat.eqb p q) eqn:PQ.
      * apply Nat.eqb_eq in PQ. subst q. inversion H; subst. rewrite nth_error_app_new0. reflexivity.
      * apply (lk_ok_app h [CPhase p] l L q r H).
    + rewrite nth_error_app_new0. reflexivity.
    + simpl. rewrite Nat.eqb_refl. reflexivity.
Qed.

(* MaterialIndexer.get_phase: a NEW chemical indexer over the row cell of the phase and the locked phase cell *)
Lemma get_phase_lemma h l r k phs d p i h' l' m :
  hwf h -> nth_error h r = Some (CIdxM k phs d) -> pidx phs p = Some i -> i < length (rdrows h d) -> lk_ok h l ->
  get_phase h l r p = Ok (h', l', m) ->
  exists e pb, h' = h ++ e /\ hwf h' /\ lk_ok h' l' /\ length h <= m /\
    nth_error h' m = Some (CIdxC k pb (nth i (rdrows h d) O)) /\ nth_error h' pb = Some (CPhase p) /\
    lookup p l' = Some pb /\ is_kind h (nth i (rdrows h d) O) 0.
Proof.
  intros W Hr Hp Hi L G. unfold get_phase in G. rewrite Hr, Hp in G.
  destruct (locked h l p) as [[h1 l1] pb] eqn:LK. inversion G; subst; clear G.
  destruct (locked_lemma _ _ _ _ _ _ L LK) as ((e & -> & He) & L1 & Hpb & Hl).
  assert (Krow : is_kind h (nth i (rdrows h d) O) 0).
  { pose proof (W _ _ Hr) as K. simpl in K. destruct K as (c & Hc & Kc). unfold rdrows in *. rewrite Hc in *.
    destruct c; simpl in Kc; try discriminate. pose proof (W _ _ Hc) as F. simpl in F. rewrite Forall_forall in F.
    apply F. apply nth_In. exact Hi. }
  exists (e ++ [CIdxC k pb (nth i (rdrows h d) O)]), pb.
  split; [rewrite app_assoc; reflexivity|].
  assert (W1 : hwf (h ++ e)).
  { apply hwf_app; auto. intros c Hc. rewrite (He _ Hc). exact I. }
  split; [|split; [|split; [|split; [|split; [|split]]]]].
  - apply hwf_app; auto. intros c [<-|[]]. simpl. split.
    + apply (ext_app (h ++ e)). exists (CPhase p). split; auto.
    + apply (ext_app (h ++ e)). apply (ext_app h). exact Krow.
  - apply lk_ok_app; auto.
  - rewrite app_length. lia.
  - rewrite nth_error_app_new0. reflexivity.
  - rewrite nth_error_app_l; auto. eapply nth_error_some_lt; eauto.
  - exact Hl.
  - exact Krow.
Qed.

(* no cell of a well-formed MultiStream is a phase box *)
Lemma multi_no_phase h s k phs d r : hwf h -> swf h s -> nth_error h (imol s) = Some (CIdxM k phs d) ->
  In r (footprint h s) -> is_kind h r 2 -> False.
Proof.
  intros W S Hi I K. destruct (footprint_multi _ _ _ _ _ W Hi) as [Kd Kr].
  destruct S as [_ Kt]. unfold footprint in I. rewrite Hi in I. simpl in I.
  destruct I as [<-|[<-|I]].
  - assert (is_kind h (imol s) 5) by (eexists; split; eauto). pose proof (is_kind_fun _ _ _ _ H K). discriminate.
  - pose proof (is_kind_fun _ _ _ _ Kd K). discriminate.
  - apply in_app_or in I. destruct I as [I|[<-|[]]].
    + rewrite Forall_forall in Kr. pose proof (is_kind_fun _ _ _ _ (Kr _ I) K). discriminate.
    + pose proof (is_kind_fun _ _ _ _ Kt K). discriminate.
Qed.

(* ms[p] at creation: shares with the MultiStream exactly the row of the phase and the thermal condition *)
Lemma view_shares h l s k phs d p i h' l' m :
  hwf h -> swf h s -> nth_error h (imol s) = Some (CIdxM k phs d) -> pidx phs p = Some i ->
  i < length (rdrows h d) -> lk_ok h l -> get_phase h l (imol s) p = Ok (h', l', m) ->
  let v := mkstream m (tc s) 0%Q [] IdNone (thermo s) in
  hwf h' /\ swf h' v /\ swf h' s /\ lk_ok h' l' /\
  (forall r, shared h' v s r <-> r = nth i (rdrows h d) O \/ r = tc s) /\
  obs h' s = obs h s /\ footprint h' s = footprint h s /\
  obs h' v = (false, [p], [rdvec h (nth i (rdrows h d) O)], fst (rdtc h (tc s)), snd (rdtc h (tc s))).
Proof.
  intros W S Hi Hp Li L G v.
  destruct (get_phase_lemma _ _ _ _ _ _ _ _ _ _ _ W Hi Hp Li L G) as (e & pb & -> & W' & L' & Lm & Hm & Hpb & _ & Krow).
  assert (E : ext h (h ++ e)) by apply ext_app.
  destruct (stream_stable h (h ++ e) [] s [] W S (frame_app _ _ _)) as [FS OS]; [intros r _ []|].
  assert (S' : swf (h ++ e) s) by (eapply swf_ext; eauto).
  assert (SV : swf (h ++ e) v).
  { split; [left; eexists; split; [exact Hm|reflexivity]|]. apply E. apply S. }
  assert (FV : footprint (h ++ e) v = [m; nth i (rdrows h d) O; pb; tc s]).
  { unfold footprint. simpl. rewrite Hm. reflexivity. }
  split; auto. split; auto. split; auto. split; auto. split; [|split; [|split]].
  - intros r. unfold shared. rewrite FV, FS. split.
    + intros [[<-|[<-|[<-|[<-|[]]]]] I2]; auto.
      * pose proof (footprint_lt _ _ _ W S I2). lia.
      * exfalso. eapply (multi_no_phase (h ++ e) s); eauto.
        -- rewrite <- Hi. apply nth_error_app_l. eapply nth_error_some_lt; eauto.
        -- rewrite FS. exact I2.
        -- eexists; split; [exact Hpb|reflexivity].
    + intros [->| ->].
      * split; [simpl; auto|]. unfold footprint. rewrite Hi. simpl. right; right. apply in_or_app. left. apply nth_In. exact Li.
      * split; [simpl; auto|]. unfold footprint. rewrite Hi. simpl. right; right. apply in_or_app. right. simpl; auto.
  - apply obs_of_observe. exact OS.
  - exact FS.
  - unfold obs, observe. simpl. rewrite Hm. simpl. unfold rdphase. rewrite Hpb.
    assert (RV : rdvec (h ++ e) (nth i (rdrows h d) O) = rdvec h (nth i (rdrows h d) O)).
    { unfold rdvec. rewrite nth_error_app_l; auto. eapply is_kind_lt; eauto. }
    assert (RT : rdtc (h ++ e) (tc s) = rdtc h (tc s)).
    { unfold rdtc. rewrite nth_error_app_l; auto. destruct S as [_ Kt]. eapply is_kind_lt; eauto. }
    rewrite RV, RT. destruct (rdtc h (tc s)). reflexivity.
Qed.

(* a copy of a view (of any well-formed stream beside a second one) is made of new cells only *)
Lemma view_copy h s v h2 c : hwf h -> swf h s -> swf h v -> copy h v = Ok (h2, c) ->
  obs h2 c = obs h v /\ obs h2 v = obs h v /\ obs h2 s = obs h s /\ hwf h2 /\ swf h2 c /\ swf h2 v /\ swf h2 s /\
  disjoint (footprint h2 c) (footprint h2 v) /\ disjoint (footprint h2 c) (footprint h2 s) /\
  (forall r, In r (footprint h2 c) -> length h <= r).
Proof.
  intros W S V C. destruct (copy_lemma h v h2 c W V C) as ((e & ->) & W2 & S2 & A & B & F & G).
  destruct (stream_stable h (h ++ e) [] s [] W S (frame_app _ _ _)) as [FS OS]; [intros r _ []|].
  split; auto. split; auto. split; [apply obs_of_observe; auto|]. split; auto. split; auto.
  split; [eapply swf_ext; [apply ext_app|auto]|]. split; [eapply swf_ext; [apply ext_app|auto]|].
  split; [|split; auto].
  - intros r Hc Hv. rewrite F in Hv. pose proof (footprint_lt _ _ _ W V Hv). pose proof (G _ Hc). lia.
  - intros r Hc Hs. rewrite FS in Hs. pose proof (footprint_lt _ _ _ W S Hs). pose proof (G _ Hc). lia.
Qed.

(* __getitem__ on a MultiStream without a cached view of that key builds exactly the record of [view_shares] *)
Lemma getitem_new vs i p s h' l' m : nth_error (ss (base vs)) i = Some s -> sub_find i p (subs vs) = None ->
  get_phase (hp (base vs)) (lk vs) (imol s) p = Ok (h', l', m) ->
  getitem vs i p = (mkv (with_heap (base vs) h') (subs vs ++ [(i, p, mkstream m (tc s) 0%Q [] IdNone (thermo s))]) l',
                    Ok (mkstream m (tc s) 0%Q [] IdNone (thermo s))).
Proof. intros A B C. unfold getitem. rewrite A, B, C. reflexivity. Qed.

(* ... and with a cached view returns that object and changes nothing *)
Lemma getitem_cached vs i p s v : nth_error (ss (base vs)) i = Some s -> sub_find i p (subs vs) = Some v ->
  getitem vs i p = (vs, Ok v).
Proof. intros A B. unfold getitem. rewrite A, B. reflexivity. Qed.

(* every cached view of a MultiStream wraps the row of its phase and the thermal condition of the MultiStream *)
Definition attached (vs : vstate) : Prop :=
  forall i p v s, In (i, p, v) (subs vs) -> nth_error (ss (base vs)) i = Some s ->
    exists k phs d j k' pb, nth_error (hp (base vs)) (imol s) = Some (CIdxM k phs d) /\ pidx phs p = Some j /\
      nth_error (hp (base vs)) (imol v) = Some (CIdxC k' pb (nth j (rdrows (hp (base vs)) d) O)) /\ tc v = tc s.
