(* C13 — lemmas about the heap model.
   Spec-level notions (heap typing, footprint disjointness, frames, observations) are defined here; the executable
   model is in Model.v. *)
From V Require Import Common.NumFacts C13.Model.
From Coq Require Import Lia.
Local Open Scope nat_scope.

(* ================================================================= basic list/heap facts *)
Lemma nth_error_app_l {A} (l e : list A) r : (r < length l)%nat -> nth_error (l ++ e) r = nth_error l r.
Proof. intros H. apply nth_error_app1. exact H. Qed.

Lemma nth_error_app_new {A} (l e : list A) k : nth_error (l ++ e) (length l + k) = nth_error e k.
Proof. rewrite nth_error_app2 by lia. f_equal. lia. Qed.

Lemma nth_error_app_new0 {A} (l e : list A) : nth_error (l ++ e) (length l) = nth_error e 0.
Proof. rewrite <- (nth_error_app_new l e 0). f_equal. lia. Qed.

Lemma nth_error_upd {A} (l : list A) i j x :
  nth_error (upd l i x) j = if Nat.eqb i j then (if Nat.ltb i (length l) then Some x else None) else nth_error l j.
Proof.
  revert i j; induction l as [|a l IH]; intros i j.
  - simpl. destruct i, j; simpl; auto. destruct (Nat.eqb i j); auto.
  - destruct i as [|i], j as [|j]; simpl; auto. rewrite IH. reflexivity.
Qed.

Lemma nth_error_some_lt {A} (l : list A) r c : nth_error l r = Some c -> (r < length l)%nat.
Proof. intros H. apply nth_error_Some. congruence. Qed.

Lemma wr_length h r c : length (wr h r c) = length h.
Proof. apply upd_length. Qed.

Lemma wr_other h r c r' : r <> r' -> nth_error (wr h r c) r' = nth_error h r'.
Proof. intros H. apply nth_error_upd_other. exact H. Qed.

Lemma wr_same h r c : (r < length h)%nat -> nth_error (wr h r c) r = Some c.
Proof. apply nth_error_upd_same. Qed.

(* ================================================================= heap typing *)
Definition kind (c : cell) : nat :=
  match c with CVec _ => 0 | CArr _ => 1 | CPhase _ => 2 | CTC _ _ => 3 | CIdxC _ _ _ => 4 | CIdxM _ _ _ => 5 end%nat.
Definition is_kind (h : heap) (r : ref) (k : nat) : Prop := exists c, nth_error h r = Some c /\ kind c = k.
Definition cell_ok (h : heap) (c : cell) : Prop :=
  match c with
  | CArr rows => Forall (fun r => is_kind h r 0) rows
  | CIdxC _ pb d => is_kind h pb 2 /\ is_kind h d 0
  | CIdxM _ _ d => is_kind h d 1
  | _ => True
  end.
(* every reference stored in a cell points to an existing cell of the right kind *)
Definition hwf (h : heap) : Prop := forall r c, nth_error h r = Some c -> cell_ok h c.
Definition swf (h : heap) (s : stream) : Prop :=
  (is_kind h (imol s) 4 \/ is_kind h (imol s) 5) /\ is_kind h (tc s) 3.
(* cells are never deallocated and never change kind *)
Definition ext (h h' : heap) : Prop := forall r k, is_kind h r k -> is_kind h' r k.

Lemma is_kind_lt h r k : is_kind h r k -> (r < length h)%nat.
Proof. intros (c & H & _). eapply nth_error_some_lt; eauto. Qed.

Lemma is_kind_fun h r k k' : is_kind h r k -> is_kind h r k' -> k = k'.
Proof. intros (c & H & K) (c' & H' & K'). congruence. Qed.

Lemma ext_refl h : ext h h.
Proof. intros r k H; exact H. Qed.
Lemma ext_trans a b c : ext a b -> ext b c -> ext a c.
Proof. intros H1 H2 r k H. auto. Qed.
Lemma ext_app h e : ext h (h ++ e).
Proof.
  intros r k (c & H & K). exists c. split; auto.
  rewrite nth_error_app_l; auto. eapply nth_error_some_lt; eauto.
Qed.
Lemma ext_wr h r c : (forall c0, nth_error h r = Some c0 -> kind c0 = kind c) -> ext h (wr h r c).
Proof.
  intros HK r' k (c' & H & K). destruct (Nat.eq_dec r r') as [->|N].
  - exists c. split. + apply wr_same. eapply nth_error_some_lt; eauto. + rewrite <- (HK _ H). exact K.
  - exists c'. split; auto. rewrite wr_other; auto.
Qed.

Lemma cell_ok_ext h h' c : ext h h' -> cell_ok h c -> cell_ok h' c.
Proof.
  intros E. destruct c; simpl; auto.
  - intros F. eapply Forall_impl; [|exact F]. intros a. apply E.
  - intros [A B]. split; apply E; auto.
Qed.

Lemma hwf_app h e : hwf h -> (forall c, In c e -> cell_ok (h ++ e) c) -> hwf (h ++ e).
Proof.
  intros W HE r c H. destruct (Nat.lt_ge_cases r (length h)) as [L|G].
  - rewrite nth_error_app_l in H by auto. eapply cell_ok_ext; [apply ext_app|]. eapply W; eauto.
  - apply HE. rewrite nth_error_app2 in H by lia. eapply nth_error_In; eauto.
Qed.

Lemma hwf_wr h r c : hwf h -> (forall c0, nth_error h r = Some c0 -> kind c0 = kind c) -> cell_ok h c -> hwf (wr h r c).
Proof.
  intros W HK OK r' c' H. pose proof (ext_wr h r c HK) as E.
  unfold wr in H. rewrite (nth_error_upd h r r' c) in H. destruct (Nat.eqb r r') eqn:Q.
  - destruct (Nat.ltb r (length h)); inversion H; subst. eapply cell_ok_ext; eauto.
  - eapply cell_ok_ext; eauto.
Qed.

Lemma swf_ext h h' s : ext h h' -> swf h s -> swf h' s.
Proof. intros E [[A|A] B]; split; auto. Qed.

Lemma is_kind_new h e k c kd : nth_error e k = Some c -> kind c = kd -> is_kind (h ++ e) (length h + k) kd.
Proof. intros H K. exists c. split; auto. rewrite nth_error_app_new. exact H. Qed.

(* ================================================================= frames *)
(* cells of h outside F are the same in h' *)
Definition frame (h h' : heap) (F : list ref) : Prop :=
  forall r, (r < length h)%nat -> ~ In r F -> nth_error h' r = nth_error h r.

Lemma frame_refl h F : frame h h F.
Proof. intros r _ _. reflexivity. Qed.
Lemma frame_app h e F : frame h (h ++ e) F.
Proof. intros r L _. apply nth_error_app_l. exact L. Qed.
Lemma frame_wr h r c F : In r F \/ (length h <= r)%nat -> frame h (wr h r c) F.
Proof.
  intros HR r' L N. apply wr_other. intros ->. destruct HR; [contradiction|lia].
Qed.
Lemma frame_trans h h1 h2 F F' :
  frame h h1 F -> frame h1 h2 F' -> (length h <= length h1)%nat ->
  (forall r, In r F' -> In r F \/ (length h <= r)%nat) -> frame h h2 F.
Proof.
  intros A B L I r Lr N. rewrite B; [apply A; auto|lia|].
  intros HF. destruct (I _ HF); [contradiction|lia].
Qed.
Lemma frame_weaken h h' F F' : frame h h' F -> incl F F' -> frame h h' F'.
Proof. intros A I r L N. apply A; auto. Qed.

Lemma ext_length h h' : ext h h' -> (length h <= length h')%nat.
Proof.
  intros E. destruct h as [|c h0] eqn:Hh; [simpl; lia|]. rewrite <- Hh in *.
  assert (L : (length h - 1 < length h)%nat) by (subst; simpl; lia).
  destruct (nth_error h (length h - 1)) as [c'|] eqn:Q.
  - assert (K : is_kind h (length h - 1) (kind c')) by (exists c'; auto).
    apply E in K. apply is_kind_lt in K. lia.
  - apply nth_error_None in Q. lia.
Qed.

(* ================================================================= reading through a frame *)
Section Stable.
Variables (h h' : heap) (F : list ref).
Hypothesis FR : frame h h' F.

Lemma rd_stable r k : is_kind h r k -> ~ In r F -> nth_error h' r = nth_error h r.
Proof. intros K N. apply FR; auto. eapply is_kind_lt; eauto. Qed.

Lemma rdvec_stable r : is_kind h r 0 -> ~ In r F -> rdvec h' r = rdvec h r.
Proof. intros K N. unfold rdvec. erewrite rd_stable; eauto. Qed.
Lemma rdrows_stable r : is_kind h r 1 -> ~ In r F -> rdrows h' r = rdrows h r.
Proof. intros K N. unfold rdrows. erewrite rd_stable; eauto. Qed.
Lemma rdphase_stable r : is_kind h r 2 -> ~ In r F -> rdphase h' r = rdphase h r.
Proof. intros K N. unfold rdphase. erewrite rd_stable; eauto. Qed.
Lemma rdtc_stable r : is_kind h r 3 -> ~ In r F -> rdtc h' r = rdtc h r.
Proof. intros K N. unfold rdtc. erewrite rd_stable; eauto. Qed.
End Stable.

(* the cells a stream reaches are typed *)
Lemma footprint_chem h s k pb d : hwf h -> nth_error h (imol s) = Some (CIdxC k pb d) ->
  is_kind h pb 2 /\ is_kind h d 0.
Proof. intros W H. exact (W _ _ H). Qed.
Lemma footprint_multi h s k phs d : hwf h -> nth_error h (imol s) = Some (CIdxM k phs d) ->
  is_kind h d 1 /\ Forall (fun r => is_kind h r 0) (rdrows h d).
Proof.
  intros W H. pose proof (W _ _ H) as K. simpl in K. split; auto.
  destruct K as (c & Hc & Kc). unfold rdrows. rewrite Hc. destruct c; simpl in Kc; try discriminate.
  exact (W _ _ Hc).
Qed.

Lemma swf_cases h s : swf h s ->
  ((exists k pb d, nth_error h (imol s) = Some (CIdxC k pb d)) \/
   (exists k phs d, nth_error h (imol s) = Some (CIdxM k phs d))) /\
  exists T P, nth_error h (tc s) = Some (CTC T P).
Proof.
  intros [[(c & H & K)|(c & H & K)] (t & Ht & Kt)]; (split; [|destruct t; simpl in Kt; try discriminate; eauto]);
    destruct c; simpl in K; try discriminate; eauto.
Qed.

(* a stream whose cells are all outside F reads the same through the frame *)
Lemma stream_stable h h' F s labels : hwf h -> swf h s -> frame h h' F ->
  (forall r, In r (footprint h s) -> ~ In r F) ->
  footprint h' s = footprint h s /\ observe h' s labels = observe h s labels.
Proof.
  intros W S FR N. destruct (swf_cases _ _ S) as [[(k & pb & d & Hi)|(k & phs & d & Hi)] (T & P & Ht)].
  - destruct (footprint_chem _ _ _ _ _ W Hi) as [Kp Kd].
    assert (FP : footprint h s = [imol s; d; pb; tc s]) by (unfold footprint; rewrite Hi; reflexivity).
    rewrite FP in N.
    assert (Hi' : nth_error h' (imol s) = Some (CIdxC k pb d)).
    { rewrite <- Hi. apply FR; [eapply nth_error_some_lt; eauto|apply N; simpl; auto]. }
    assert (Ht' : nth_error h' (tc s) = nth_error h (tc s)).
    { apply FR; [eapply nth_error_some_lt; eauto|apply N; simpl; auto]. }
    split.
    + unfold footprint. rewrite Hi', Hi. reflexivity.
    + unfold observe. rewrite Hi', Hi. unfold rdtc. rewrite Ht'.
      rewrite (rdphase_stable _ _ _ FR pb Kp) by (apply N; simpl; auto).
      rewrite (rdvec_stable _ _ _ FR d Kd) by (apply N; simpl; auto). reflexivity.
  - destruct (footprint_multi _ _ _ _ _ W Hi) as [Kd Kr].
    assert (FP : footprint h s = imol s :: d :: rdrows h d ++ [tc s]) by (unfold footprint; rewrite Hi; reflexivity).
    rewrite FP in N.
    assert (Hi' : nth_error h' (imol s) = Some (CIdxM k phs d)).
    { rewrite <- Hi. apply FR; [eapply nth_error_some_lt; eauto|apply N; simpl; auto]. }
    assert (Ht' : nth_error h' (tc s) = nth_error h (tc s)).
    { apply FR; [eapply nth_error_some_lt; eauto|apply N; simpl; right; right; apply in_or_app; right; simpl; auto]. }
    assert (Hr : rdrows h' d = rdrows h d) by (apply (rdrows_stable _ _ _ FR d Kd); apply N; simpl; auto).
    assert (Hv : map (rdvec h') (rdrows h d) = map (rdvec h) (rdrows h d)).
    { apply map_ext_in. intros r Hr0. apply (rdvec_stable _ _ _ FR r).
      - rewrite Forall_forall in Kr. auto.
      - apply N. simpl. right; right. apply in_or_app; left; auto. }
    split.
    + unfold footprint. rewrite Hi', Hi, Hr. reflexivity.
    + unfold observe. rewrite Hi', Hi, Hr, Hv. unfold rdtc. rewrite Ht'. reflexivity.
Qed.

(* every cell of a well-formed stream is allocated *)
Lemma footprint_lt h s r : hwf h -> swf h s -> In r (footprint h s) -> (r < length h)%nat.
Proof.
  intros W S I. destruct (swf_cases _ _ S) as [[(k & pb & d & Hi)|(k & phs & d & Hi)] (T & P & Ht)].
  - destruct (footprint_chem _ _ _ _ _ W Hi) as [Kp Kd]. unfold footprint in I. rewrite Hi in I.
    simpl in I. destruct I as [<-|[<-|[<-|[<-|[]]]]];
      eauto using is_kind_lt, nth_error_some_lt.
  - destruct (footprint_multi _ _ _ _ _ W Hi) as [Kd Kr]. unfold footprint in I. rewrite Hi in I.
    simpl in I. destruct I as [<-|[<-|I]]; eauto using is_kind_lt, nth_error_some_lt.
    apply in_app_or in I. destruct I as [I|[<-|[]]]; eauto using nth_error_some_lt.
    rewrite Forall_forall in Kr. eapply is_kind_lt; eauto.
Qed.

Definition disjoint (a b : list ref) : Prop := forall r, In r a -> ~ In r b.

(* ================================================================= observations *)
(* obs: kind, phase(s), flows, T, P;   obs+ adds price, characterization factors, ID *)
Definition obs (h : heap) (s : stream) :=
  let o := observe h s [] in (o_multi o, o_phases o, o_rows o, o_T o, o_P o).
Definition obs_plus (h : heap) (s : stream) :=
  let o := observe h s [] in (o_multi o, o_phases o, o_rows o, o_T o, o_P o, o_price o, o_cf o, o_id o).

Lemma obs_of_observe h h' s s' : observe h s [] = observe h' s' [] -> obs h s = obs h' s'.
Proof. unfold obs. intros ->. reflexivity. Qed.

(* ================================================================= allocation of row vectors *)
Lemma map_rdvec_alloc h vs rest : map (rdvec (h ++ map CVec vs ++ rest)) (seq (length h) (length vs)) = vs.
Proof.
  revert h; induction vs as [|v vs IH]; intros h; simpl; [reflexivity|]. f_equal.
  - unfold rdvec. rewrite nth_error_app2 by lia. rewrite Nat.sub_diag. reflexivity.
  - specialize (IH (h ++ [CVec v])). rewrite app_length in IH. simpl in IH.
    replace (length h + 1) with (S (length h)) in IH by lia. rewrite <- app_assoc in IH. exact IH.
Qed.

Lemma kind_alloc h vs rest : Forall (fun r => is_kind (h ++ map CVec vs ++ rest) r 0) (seq (length h) (length vs)).
Proof.
  revert h; induction vs as [|v vs IH]; intros h; simpl; constructor.
  - exists (CVec v). split; auto. rewrite nth_error_app2 by lia. rewrite Nat.sub_diag. reflexivity.
  - specialize (IH (h ++ [CVec v])). rewrite app_length in IH. simpl in IH.
    replace (length h + 1) with (S (length h)) in IH by lia. rewrite <- app_assoc in IH. exact IH.
Qed.

Lemma in_seq_ge a n r : In r (seq a n) -> a <= r.
Proof. intros H. apply in_seq in H. lia. Qed.

(* ================================================================= copy *)
Lemma tc_copy_ok h r T P : nth_error h r = Some (CTC T P) -> forall h' t, tc_copy h r = Ok (h', t) ->
  h' = h ++ [CTC T P] /\ t = length h.
Proof.
  intros H h' t. unfold tc_copy, rdtc. rewrite H. destruct (tc_valid T P); intros E; inversion E; auto.
Qed.

Lemma copy_lemma h s h2 c : hwf h -> swf h s -> copy h s = Ok (h2, c) ->
  (exists e, h2 = h ++ e) /\ hwf h2 /\ swf h2 c /\
  obs h2 c = obs h s /\ obs h2 s = obs h s /\ footprint h2 s = footprint h s /\
  (forall r, In r (footprint h2 c) -> length h <= r).
Proof.
  intros W SW C.
  assert (ORIG : forall e, obs (h ++ e) s = obs h s /\ footprint (h ++ e) s = footprint h s).
  { intros e. destruct (stream_stable h (h ++ e) [] s [] W SW (frame_app _ _ _)) as [A B]; [intros r _ []|].
    split; auto. apply obs_of_observe; auto. }
  destruct (swf_cases _ _ SW) as [[(k & pb & d & Hi)|(k & phs & d & Hi)] (T & P & Ht)]; unfold copy, imol_copy in C; rewrite Hi in C.
  - (* single phase *)
    unfold chem_new in C. cbn [bind] in C.
    destruct (tc_copy _ (tc s)) as [[h3 t]|] eqn:TC; cbn [bind] in C; [|discriminate].
    eapply tc_copy_ok in TC; [|rewrite nth_error_app_l; [exact Ht|eapply nth_error_some_lt; eauto]].
    destruct TC as [-> ->]. inversion C; subst h2 c; clear C.
    rewrite <- app_assoc. simpl app.
    set (e := [CPhase (rdphase h pb); CVec (rdvec h d); CIdxC k (length h) (S (length h)); CTC T P]).
    assert (N0 : nth_error (h ++ e) (length h) = Some (CPhase (rdphase h pb))).
    { rewrite nth_error_app_new0. reflexivity. }
    assert (N1 : nth_error (h ++ e) (S (length h)) = Some (CVec (rdvec h d))).
    { replace (S (length h)) with (length h + 1) by lia. rewrite nth_error_app_new. reflexivity. }
    assert (N2 : nth_error (h ++ e) (S (S (length h))) = Some (CIdxC k (length h) (S (length h)))).
    { replace (S (S (length h))) with (length h + 2) by lia. rewrite nth_error_app_new. reflexivity. }
    assert (N3 : nth_error (h ++ e) (length (h ++ [CPhase (rdphase h pb); CVec (rdvec h d); CIdxC k (length h) (S (length h))])) = Some (CTC T P)).
    { rewrite app_length. simpl length. rewrite nth_error_app_new. reflexivity. }
    destruct (ORIG e) as [O1 O2].
    split; [eauto|]. split; [|split; [|split; [|split; [|split]]]]; auto.
    + apply hwf_app; auto. intros c [<-|[<-|[<-|[<-|[]]]]]; simpl; auto.
      split; [exists (CPhase (rdphase h pb))|exists (CVec (rdvec h d))]; auto.
    + split; simpl; [left; eexists; split; [exact N2|reflexivity]|eexists; split; [exact N3|reflexivity]].
    + unfold obs, observe. simpl imol; simpl tc. rewrite N2, Hi. unfold rdtc. rewrite N3, Ht.
      unfold rdphase, rdvec. rewrite N0, N1. reflexivity.
    + intros r. unfold footprint. simpl imol; simpl tc. rewrite N2. rewrite app_length. simpl.
      intros [<-|[<-|[<-|[<-|[]]]]]; lia.
  - (* multi-phase *)
    unfold arr_copy, alloc_vecs in C. cbn [bind] in C.
    destruct (tc_copy _ (tc s)) as [[h3 t]|] eqn:TC; cbn [bind] in C; [|discriminate].
    assert (LT : tc s < length h) by (eapply nth_error_some_lt; eauto).
    eapply tc_copy_ok in TC; [|rewrite !nth_error_app_l; try exact Ht; rewrite ?app_length; lia].
    destruct TC as [-> ->]. inversion C; subst h2 c; clear C.
    set (vs := map (rdvec h) (rdrows h d)).
    set (n := length h). set (m := length vs).
    assert (LV : length (h ++ map CVec vs) = n + m) by (rewrite app_length, map_length; reflexivity).
    rewrite LV.
    set (e := map CVec vs ++ [CArr (seq n m); CIdxM k phs (n + m); CTC T P]).
    assert (HE : ((h ++ map CVec vs) ++ [CArr (seq n m)]) ++ [CIdxM k phs (n + m)]
                 = h ++ map CVec vs ++ [CArr (seq n m); CIdxM k phs (n + m)]).
    { rewrite <- !app_assoc. reflexivity. }
    assert (HE2 : (((h ++ map CVec vs) ++ [CArr (seq n m)]) ++ [CIdxM k phs (n + m)]) ++ [CTC T P] = h ++ e).
    { unfold e. rewrite <- !app_assoc. reflexivity. }
    rewrite HE2.
    assert (LA : length ((h ++ map CVec vs) ++ [CArr (seq n m)]) = n + m + 1).
    { rewrite app_length, LV. reflexivity. }
    assert (LB : length (((h ++ map CVec vs) ++ [CArr (seq n m)]) ++ [CIdxM k phs (n + m)]) = n + m + 2).
    { rewrite app_length, LA. simpl. lia. }
    rewrite LA, LB.
    assert (NEW : forall j c, nth_error [CArr (seq n m); CIdxM k phs (n + m); CTC T P] j = Some c ->
                         nth_error (h ++ e) (n + m + j) = Some c).
    { intros j c Hj. unfold e. rewrite app_assoc.
      replace (n + m + j) with (length (h ++ map CVec vs) + j) by (rewrite LV; lia).
      rewrite nth_error_app_new. exact Hj. }
    assert (N1 : nth_error (h ++ e) (n + m) = Some (CArr (seq n m))).
    { replace (n + m) with (n + m + 0) by lia. apply NEW. reflexivity. }
    assert (N2 : nth_error (h ++ e) (n + m + 1) = Some (CIdxM k phs (n + m))) by (apply NEW; reflexivity).
    assert (N3 : nth_error (h ++ e) (n + m + 2) = Some (CTC T P)) by (apply NEW; reflexivity).
    assert (RV : map (rdvec (h ++ e)) (seq n m) = vs) by (unfold e, n, m; apply map_rdvec_alloc).
    assert (KV : Forall (fun r => is_kind (h ++ e) r 0) (seq n m)) by (unfold e, n, m; apply kind_alloc).
    destruct (ORIG e) as [O1 O2].
    split; [eauto|]. split; [|split; [|split; [|split; [|split]]]]; auto.
    + apply hwf_app; auto. intros c Hc. unfold e in Hc. apply in_app_or in Hc. destruct Hc as [Hc|[<-|[<-|[<-|[]]]]]; simpl; auto.
      * apply in_map_iff in Hc. destruct Hc as (v & <- & _). exact I.
      * eexists; split; [exact N1|reflexivity].
    + split; simpl; [right; eexists; split; [exact N2|reflexivity]|eexists; split; [exact N3|reflexivity]].
    + unfold obs, observe. simpl imol; simpl tc. rewrite N2, Hi. unfold rdtc. rewrite N3, Ht.
      cbn [o_multi o_phases o_rows o_T o_P]. unfold rdrows at 1. rewrite N1. rewrite RV. reflexivity.
    + intros r. unfold footprint. simpl imol; simpl tc. rewrite N2. unfold rdrows. rewrite N1.
      intros [<-|[<-|Hr]]; try lia. apply in_app_or in Hr. destruct Hr as [Hr|[<-|[]]]; [|lia].
      apply in_seq_ge in Hr. exact Hr.
Qed.

(* ================================================================= local operations *)
(* an operation on stream s that reaches (h', s') is local when it only writes cells of s (or fresh ones),
   keeps the heap typed, and the cells s' reaches afterwards are old cells of s or fresh ones *)
Record local (h : heap) (s : stream) (h' : heap) (s' : stream) : Prop := {
  l_ext : ext h h';
  l_hwf : hwf h';
  l_swf : swf h' s';
  l_frame : frame h h' (footprint h s);
  l_fp : forall r, In r (footprint h' s') -> In r (footprint h s) \/ length h <= r }.

Lemma local_refl h s : hwf h -> swf h s -> local h s h s.
Proof. intros W SW. constructor; auto using ext_refl, frame_refl. Qed.

Lemma local_trans h s h1 s1 h2 s2 : local h s h1 s1 -> local h1 s1 h2 s2 -> local h s h2 s2.
Proof.
  intros [E1 W1 S1 F1 P1] [E2 W2 S2 F2 P2]. pose proof (ext_length _ _ E1) as L.
  constructor; auto.
  - eapply ext_trans; eauto.
  - eapply frame_trans; eauto.
  - intros r Hr. destruct (P2 _ Hr) as [A|A]; [auto|right; lia].
Qed.

(* a stream that shares nothing with the target of a local operation does not notice it *)
Lemma local_sep h s h' s' y : hwf h -> swf h s -> swf h y -> local h s h' s' ->
  disjoint (footprint h y) (footprint h s) ->
  obs h' y = obs h y /\ footprint h' y = footprint h y /\ swf h' y /\
  disjoint (footprint h' y) (footprint h' s').
Proof.
  intros W SW SY [E W' S' FR FP] D.
  destruct (stream_stable h h' (footprint h s) y [] W SY FR D) as [A B].
  split; [apply obs_of_observe; auto|]. split; auto. split; [eapply swf_ext; eauto|].
  intros r Hr Hs. rewrite A in Hr. destruct (FP _ Hs) as [X|X].
  - exact (D _ Hr X).
  - pose proof (footprint_lt _ _ _ W SY Hr). lia.
Qed.

Lemma tc_in_fp h s : In (tc s) (footprint h s).
Proof.
  unfold footprint. destruct (nth_error h (imol s)) as [[]|]; simpl; auto.
  right; right. apply in_or_app. right. simpl; auto.
Qed.
Lemma imol_in_fp h s : In (imol s) (footprint h s).
Proof. unfold footprint. destruct (nth_error h (imol s)) as [[]|]; simpl; auto. Qed.

Lemma leaf_cell_ok h c : (kind c = 0 \/ kind c = 2 \/ kind c = 3) -> cell_ok h c.
Proof. destruct c; simpl; intros [H|[H|H]]; try discriminate; exact I. Qed.

(* writing a vector, a phase box or a thermal condition does not change who reaches what *)
Lemma footprint_leaf_write h y r c k : hwf h -> swf h y -> is_kind h r k -> (k = 0 \/ k = 2 \/ k = 3) ->
  footprint (wr h r c) y = footprint h y.
Proof.
  intros W SY K KK.
  destruct (swf_cases _ _ SY) as [[(k0 & pb & d & Hi)|(k0 & phs & d & Hi)] _].
  - assert (N : r <> imol y).
    { intros ->. assert (is_kind h (imol y) 4) by (eexists; split; [exact Hi|reflexivity]).
      pose proof (is_kind_fun _ _ _ _ K H). lia. }
    unfold footprint. rewrite wr_other by auto. rewrite Hi. reflexivity.
  - assert (N : r <> imol y).
    { intros ->. assert (is_kind h (imol y) 5) by (eexists; split; [exact Hi|reflexivity]).
      pose proof (is_kind_fun _ _ _ _ K H). lia. }
    destruct (footprint_multi _ _ _ _ _ W Hi) as [Kd _].
    assert (N2 : r <> d). { intros ->. pose proof (is_kind_fun _ _ _ _ K Kd). lia. }
    unfold footprint. rewrite wr_other by auto. rewrite Hi. unfold rdrows. rewrite wr_other by auto. reflexivity.
Qed.

Lemma leaf_write_local h s r c k : hwf h -> swf h s -> In r (footprint h s) -> is_kind h r k -> kind c = k ->
  (k = 0 \/ k = 2 \/ k = 3) -> local h s (wr h r c) s.
Proof.
  intros W SW I K KC KK.
  assert (HK : forall c0, nth_error h r = Some c0 -> kind c0 = kind c).
  { intros c0 H0. destruct K as (c1 & H1 & K1). congruence. }
  pose proof (ext_wr h r c HK) as E.
  constructor; auto.
  - apply hwf_wr; auto. apply leaf_cell_ok. rewrite KC. exact KK.
  - eapply swf_ext; eauto.
  - apply frame_wr. auto.
  - intros r'. erewrite footprint_leaf_write; eauto.
Qed.

Lemma data_rows_fp h s r : hwf h -> swf h s -> In r (data_rows h s) -> In r (footprint h s) /\ is_kind h r 0.
Proof.
  intros W SW I. unfold data_rows in I.
  destruct (swf_cases _ _ SW) as [[(k & pb & d & Hi)|(k & phs & d & Hi)] _]; rewrite Hi in I.
  - destruct I as [<-|[]]. destruct (footprint_chem _ _ _ _ _ W Hi). split; auto.
    unfold footprint. rewrite Hi. simpl; auto.
  - destruct (footprint_multi _ _ _ _ _ W Hi) as [_ KR]. rewrite Forall_forall in KR. split; auto.
    unfold footprint. rewrite Hi. simpl. right; right. apply in_or_app; auto.
Qed.

Lemma wrvecs_local rs f : forall h s, hwf h -> swf h s ->
  (forall r, In r rs -> In r (footprint h s) /\ is_kind h r 0) -> local h s (wrvecs h rs f) s.
Proof.
  induction rs as [|r rs IH]; intros h s W SW H; simpl.
  - apply local_refl; auto.
  - destruct (H r (or_introl eq_refl)) as [I K].
    assert (L1 : local h s (wr h r (CVec (f (rdvec h r)))) s) by (eapply leaf_write_local; eauto).
    eapply local_trans; [exact L1|]. unfold wrvecs in IH. apply IH.
    + apply L1. + apply L1.
    + intros r' Hr'. destruct (H r' (or_intror Hr')) as [I' K']. split.
      * erewrite footprint_leaf_write; eauto.
      * apply (l_ext _ _ _ _ L1). exact K'.
Qed.

(* ---------- the mutators of the property ---------- *)
Section Mutators.
Variable pk : list (list nat).

Inductive mut :=
| MSetFlow (r c : nat) (v : Q) | MSetT (v : Q) | MSetP (v : Q) | MSetPhase (p : nat) | MScale (k : Q) | MEmpty
| MCopyTC (o : stream) | MCopyPhase (o : stream).

Definition apply_mut (h : heap) (s : stream) (m : mut) : oret :=
  match m with
  | MSetFlow r c v => set_flow h s r c v
  | MSetT v => set_T h s v
  | MSetP v => set_P h s v
  | MSetPhase p => set_phase pk h s p
  | MScale k => scale h s k
  | MEmpty => empty h s
  | MCopyTC o => copy_tc h s o
  | MCopyPhase o => copy_phase h s o
  end.

Lemma tc_write_local h s T P : hwf h -> swf h s -> local h s (wr h (tc s) (CTC T P)) s.
Proof.
  intros W SW. eapply leaf_write_local with (k := 3); eauto using tc_in_fp.
  - apply SW.
Qed.

Lemma mut_local h s m h' s' e : hwf h -> swf h s -> apply_mut h s m = (h', s', e) -> local h s h' s'.
Proof.
  intros W SW A. destruct m; simpl in A.
  - (* set_flow *)
    unfold set_flow in A. destruct (nth_error (data_rows h s) r) as [x|] eqn:Q; inversion A; subst.
    + apply nth_error_In in Q. destruct (data_rows_fp _ _ _ W SW Q) as [I K].
      eapply leaf_write_local with (k := 0); eauto.
    + apply local_refl; auto.
  - unfold set_T in A. inversion A; subst. apply tc_write_local; auto.
  - unfold set_P in A. inversion A; subst. apply tc_write_local; auto.
  - (* set_phase *)
    unfold set_phase in A.
    destruct (swf_cases _ _ SW) as [[(k & pb & d & Hi)|(k & phs & d & Hi)] (T & P & Ht)]; rewrite Hi in A.
    + destruct (valid_phase p); inversion A; subst; [|apply local_refl; auto].
      destruct (footprint_chem _ _ _ _ _ W Hi) as [Kp Kd].
      eapply leaf_write_local with (k := 2); eauto. unfold footprint. rewrite Hi. simpl; auto.
    + unfold mat_to_chemical in A. rewrite Hi in A. unfold chem_new in A. inversion A; subst; clear A.
      set (v := fold_left _ _ _).
      set (e0 := [CPhase p; CVec v; CIdxC k (length h) (S (length h))]).
      assert (N0 : nth_error (h ++ e0) (length h) = Some (CPhase p)) by (rewrite nth_error_app_new0; reflexivity).
      assert (N1 : nth_error (h ++ e0) (S (length h)) = Some (CVec v)).
      { replace (S (length h)) with (length h + 1) by lia. rewrite nth_error_app_new. reflexivity. }
      assert (N2 : nth_error (h ++ e0) (S (S (length h))) = Some (CIdxC k (length h) (S (length h)))).
      { replace (S (S (length h))) with (length h + 2) by lia. rewrite nth_error_app_new. reflexivity. }
      constructor.
      * apply ext_app.
      * apply hwf_app; auto. intros c [<-|[<-|[<-|[]]]]; simpl; auto.
        split; [exists (CPhase p)|exists (CVec v)]; auto.
      * split; simpl; [left; eexists; split; [exact N2|reflexivity]|]. apply (ext_app h e0). apply SW.
      * apply frame_app.
      * intros r. unfold footprint. simpl imol; simpl tc. rewrite N2. intros [<-|[<-|[<-|[<-|[]]]]]; try (right; lia).
        left. apply tc_in_fp.
  - unfold scale in A. inversion A; subst. apply wrvecs_local; auto. intros r. apply data_rows_fp; auto.
  - unfold empty in A. inversion A; subst. apply wrvecs_local; auto. intros r. apply data_rows_fp; auto.
  - unfold copy_tc, tc_copy_like in A. destruct (rdtc h (tc o)) as [T P]. inversion A; subst.
    apply tc_write_local; auto.
  - (* copy_phase *)
    unfold copy_phase in A.
    destruct (nth_error h (imol o)) as [[| | | |ko pbo od|]|]; try (inversion A; subst; apply local_refl; auto).
    destruct (swf_cases _ _ SW) as [[(k & pb & d & Hi)|(k & phs & d & Hi)] _]; rewrite Hi in A;
      inversion A; subst; [|apply local_refl; auto].
    destruct (footprint_chem _ _ _ _ _ W Hi) as [Kp Kd].
    eapply leaf_write_local with (k := 2); eauto. unfold footprint. rewrite Hi. simpl; auto.
Qed.

(* ---------- histories on a separated pair: no step on one is visible in the other ---------- *)
Fixpoint indep_trace (h : heap) (a b : stream) (hist : list (bool * mut)) : Prop :=
  match hist with
  | [] => disjoint (footprint h a) (footprint h b)
  | (true, m) :: t => let '(h', a', _) := apply_mut h a m in obs h' b = obs h b /\ indep_trace h' a' b t
  | (false, m) :: t => let '(h', b', _) := apply_mut h b m in obs h' a = obs h a /\ indep_trace h' a b' t
  end.

Lemma disjoint_sym a b : disjoint a b -> disjoint b a.
Proof. intros D r Hb Ha. exact (D r Ha Hb). Qed.

Lemma indep_lemma hist : forall h a b, hwf h -> swf h a -> swf h b ->
  disjoint (footprint h a) (footprint h b) -> indep_trace h a b hist.
Proof.
  induction hist as [|[[|] m] t IH]; intros h a b W SA SB D; simpl; auto.
  - destruct (apply_mut h a m) as [[h' a'] e] eqn:A.
    pose proof (mut_local _ _ _ _ _ _ W SA A) as L.
    destruct (local_sep h a h' a' b W SA SB L (disjoint_sym _ _ D)) as (O & _ & SB' & D').
    split; auto. apply IH; auto; try apply L. apply disjoint_sym; auto.
  - destruct (apply_mut h b m) as [[h' b'] e] eqn:A.
    pose proof (mut_local _ _ _ _ _ _ W SB A) as L.
    destruct (local_sep h b h' b' a W SB SA L D) as (O & _ & SA' & D').
    split; auto. apply IH; auto; try apply L.
Qed.

End Mutators.

(* ================================================================= sharing: proxy, flow_proxy, link_with, unlink *)
Definition shared (h : heap) (a b : stream) (r : ref) : Prop := In r (footprint h a) /\ In r (footprint h b).

(* the cells holding flow data: the vector, or the array and its rows *)
Definition data_cells (h : heap) (s : stream) : list ref :=
  match nth_error h (imol s) with
  | Some (CIdxC _ _ d) => [d]
  | Some (CIdxM _ _ d) => d :: rdrows h d
  | _ => []
  end.
Definition phase_cells (h : heap) (s : stream) : list ref :=
  match nth_error h (imol s) with Some (CIdxC _ pb _) => [pb] | _ => [] end.

Lemma proxy_lemma h s h' p : proxy h s = Ok (h', p) ->
  h' = h /\ imol p = imol s /\ tc p = tc s /\
  (forall h2, footprint h2 p = footprint h2 s) /\ (forall h2, obs h2 p = obs h2 s).
Proof.
  unfold proxy. intros E. inversion E; subst. repeat split; auto.
  intros h2. unfold obs, observe. simpl. destruct (rdtc h2 (tc s)). destruct (nth_error h2 (imol s)) as [[]|]; reflexivity.
Qed.

(* the indexer cell of a stream is none of the cells of a stream with another indexer *)
Lemma imol_not_in_fp h a b : hwf h -> swf h a -> swf h b -> imol a <> imol b -> ~ In (imol a) (footprint h b).
Proof.
  intros W SA SB N I.
  assert (KA : is_kind h (imol a) 4 \/ is_kind h (imol a) 5) by apply SA.
  assert (X : forall k, is_kind h (imol a) k -> k = 4 \/ k = 5).
  { intros k K. destruct KA as [A|A]; pose proof (is_kind_fun _ _ _ _ K A); lia. }
  destruct (swf_cases _ _ SB) as [[(k & pb & d & Hi)|(k & phs & d & Hi)] (T & P & Ht)].
  - destruct (footprint_chem _ _ _ _ _ W Hi) as [Kp Kd]. unfold footprint in I. rewrite Hi in I. simpl in I.
    destruct I as [E|[E|[E|[E|[]]]]]; try congruence.
    + rewrite E in Kd. apply X in Kd. lia.
    + rewrite E in Kp. apply X in Kp. lia.
    + assert (K : is_kind h (imol a) 3) by (rewrite <- E; eexists; split; [exact Ht|reflexivity]). apply X in K. lia.
  - destruct (footprint_multi _ _ _ _ _ W Hi) as [Kd Kr]. unfold footprint in I. rewrite Hi in I. simpl in I.
    destruct I as [E|[E|I]]; try congruence.
    + rewrite E in Kd. apply X in Kd. lia.
    + apply in_app_or in I. destruct I as [I|[E|[]]].
      * rewrite Forall_forall in Kr. apply Kr in I. apply X in I. lia.
      * assert (K : is_kind h (imol a) 3) by (rewrite <- E; eexists; split; [exact Ht|reflexivity]). apply X in K. lia.
Qed.

(* ---------- unlink ---------- *)
Lemma unlink_lemma h a b h' a' : hwf h -> swf h a -> swf h b -> imol a <> imol b ->
  unlink h a = (h', a', None) ->
  disjoint (footprint h' a') (footprint h' b) /\ obs h' a' = obs h a /\ obs h' b = obs h b /\
  hwf h' /\ swf h' a' /\ swf h' b.
Proof.
  intros W SA SB N U.
  pose proof (imol_not_in_fp _ _ _ W SA SB N) as NI.
  assert (LI : imol a < length h) by (apply (footprint_lt h a); auto; apply imol_in_fp).
  assert (STB : forall h2, frame h h2 [imol a] -> footprint h2 b = footprint h b /\ obs h2 b = obs h b).
  { intros h2 FR. destruct (stream_stable h h2 [imol a] b [] W SB FR) as [A B].
    - intros r Hr [<-|[]]. contradiction.
    - split; auto. apply obs_of_observe; auto. }
  destruct (swf_cases _ _ SA) as [[(k & pb & d & Hi)|(k & phs & d & Hi)] (T & P & Ht)]; unfold unlink in U; rewrite Hi in U.
  - (* single phase *)
    set (e1 := [CPhase (rdphase h pb); CVec (rdvec h d)]) in *.
    set (h2 := wr (h ++ e1) (imol a) (CIdxC k (length h) (S (length h)))) in *.
    assert (Ht2 : nth_error h2 (tc a) = Some (CTC T P)).
    { unfold h2. rewrite wr_other. - rewrite nth_error_app_l; eauto using nth_error_some_lt.
      - intros E. rewrite E in Hi. congruence. }
    destruct (tc_copy h2 (tc a)) as [[h3 t]|] eqn:TC; [|discriminate].
    destruct (tc_copy_ok _ _ _ _ Ht2 _ _ TC) as [-> ->]. inversion U; subst h' a'; clear U.
    assert (L2 : length h2 = S (S (length h))).
    { unfold h2. rewrite wr_length, app_length. simpl. lia. }
    assert (Ni : nth_error (h2 ++ [CTC T P]) (imol a) = Some (CIdxC k (length h) (S (length h)))).
    { rewrite nth_error_app_l by lia. unfold h2. apply wr_same. rewrite app_length. lia. }
    assert (N0 : nth_error (h2 ++ [CTC T P]) (length h) = Some (CPhase (rdphase h pb))).
    { rewrite nth_error_app_l by lia. unfold h2. rewrite wr_other by lia. rewrite nth_error_app_new0. reflexivity. }
    assert (N1 : nth_error (h2 ++ [CTC T P]) (S (length h)) = Some (CVec (rdvec h d))).
    { rewrite nth_error_app_l by lia. unfold h2. rewrite wr_other by lia.
      replace (S (length h)) with (length h + 1) by lia. rewrite nth_error_app_new. reflexivity. }
    assert (N3 : nth_error (h2 ++ [CTC T P]) (length h2) = Some (CTC T P)) by (rewrite nth_error_app_new0; reflexivity).
    assert (FR : frame h (h2 ++ [CTC T P]) [imol a]).
    { intros r Lr Nr. rewrite nth_error_app_l by lia. unfold h2. rewrite wr_other.
      - apply nth_error_app_l; auto. - intros <-. apply Nr. simpl; auto. }
    destruct (STB _ FR) as [FB OB].
    assert (EX : ext h (h2 ++ [CTC T P])).
    { eapply ext_trans; [apply ext_app|]. eapply ext_trans; [|apply ext_app]. unfold h2. apply ext_wr.
      intros c0 H0. rewrite nth_error_app_l in H0 by auto. rewrite Hi in H0. inversion H0; reflexivity. }
    assert (FA : footprint (h2 ++ [CTC T P]) (set_tc a (length h2)) = [imol a; S (length h); length h; length h2]).
    { unfold footprint. simpl imol; simpl tc. rewrite Ni. reflexivity. }
    split; [|split; [|split; [|split; [|split]]]]; auto.
    + intros r. rewrite FA, FB. intros [<-|[<-|[<-|[<-|[]]]]] Hb; try contradiction;
        pose proof (footprint_lt _ _ _ W SB Hb); lia.
    + unfold obs, observe. simpl imol; simpl tc. rewrite Ni, Hi. unfold rdtc. rewrite N3, Ht.
      cbn [o_multi o_phases o_rows o_T o_P]. unfold rdphase at 1. unfold rdvec at 1. rewrite N0, N1. reflexivity.
    + intros r c Hc. destruct (Nat.lt_ge_cases r (length h)) as [Lr|Gr].
      * destruct (Nat.eq_dec r (imol a)) as [->|Nr].
        -- rewrite Ni in Hc. inversion Hc; subst. simpl. split; eexists; split; eauto.
        -- rewrite FR in Hc; auto; [|intros [E|[]]; congruence]. eapply cell_ok_ext; eauto.
      * assert (r = length h \/ r = S (length h) \/ r = length h2).
        { apply nth_error_some_lt in Hc. rewrite app_length in Hc. simpl in Hc. lia. }
        destruct H as [-> | [-> | ->]]; [rewrite N0 in Hc|rewrite N1 in Hc|rewrite N3 in Hc]; inversion Hc; exact I.
    + split; simpl; [left; eexists; split; [exact Ni|reflexivity]|eexists; split; [exact N3|reflexivity]].
    + eapply swf_ext; eauto.
  - (* multi-phase *)
    unfold arr_copy, alloc_vecs in U.
    set (vs := map (rdvec h) (rdrows h d)) in *.
    set (n := length h) in *. set (m := length vs) in *.
    assert (LV : length (h ++ map CVec vs) = n + m) by (rewrite app_length, map_length; reflexivity).
    rewrite LV in U.
    set (h1 := (h ++ map CVec vs) ++ [CArr (seq n m)]) in *.
    assert (H1E : h1 = h ++ map CVec vs ++ [CArr (seq n m)]) by (unfold h1; rewrite <- app_assoc; reflexivity).
    set (h2 := wr h1 (imol a) (CIdxM k phs (n + m))) in *.
    assert (L1 : length h1 = n + m + 1) by (unfold h1; rewrite app_length, LV; reflexivity).
    assert (L2 : length h2 = n + m + 1) by (unfold h2; rewrite wr_length; exact L1).
    assert (Ht2 : nth_error h2 (tc a) = Some (CTC T P)).
    { unfold h2. rewrite wr_other. - rewrite H1E. rewrite nth_error_app_l; eauto using nth_error_some_lt.
      - intros E. rewrite E in Hi. congruence. }
    destruct (tc_copy h2 (tc a)) as [[h3 t]|] eqn:TC; [|discriminate].
    destruct (tc_copy_ok _ _ _ _ Ht2 _ _ TC) as [-> ->]. inversion U; subst h' a'; clear U.
    assert (Ni : nth_error (h2 ++ [CTC T P]) (imol a) = Some (CIdxM k phs (n + m))).
    { rewrite nth_error_app_l by lia. unfold h2. apply wr_same. lia. }
    assert (OLD : forall r, r <> imol a -> nth_error (h2 ++ [CTC T P]) r = nth_error (h1 ++ [CTC T P]) r).
    { intros r Nr. destruct (Nat.lt_ge_cases r (length h2)).
      - rewrite !nth_error_app_l by lia. unfold h2. apply wr_other. auto.
      - rewrite !nth_error_app2 by lia. rewrite L1, L2. reflexivity. }
    assert (H1T : h1 ++ [CTC T P] = h ++ map CVec vs ++ [CArr (seq n m); CTC T P]).
    { rewrite H1E. rewrite <- !app_assoc. reflexivity. }
    assert (N1 : nth_error (h2 ++ [CTC T P]) (n + m) = Some (CArr (seq n m))).
    { rewrite OLD by lia. rewrite H1T. rewrite app_assoc. rewrite <- LV. rewrite nth_error_app_new0. reflexivity. }
    assert (N3 : nth_error (h2 ++ [CTC T P]) (length h2) = Some (CTC T P)) by (rewrite nth_error_app_new0; reflexivity).
    assert (RV : map (rdvec (h2 ++ [CTC T P])) (seq n m) = vs).
    { transitivity (map (rdvec (h ++ map CVec vs ++ [CArr (seq n m); CTC T P])) (seq n m)).
      - apply map_ext_in. intros r Hr. apply in_seq in Hr. unfold rdvec. rewrite OLD by lia. rewrite H1T. reflexivity.
      - apply map_rdvec_alloc. }
    assert (KV : Forall (fun r => is_kind (h2 ++ [CTC T P]) r 0) (seq n m)).
    { pose proof (kind_alloc h vs [CArr (seq n m); CTC T P]) as K. fold n m in K. rewrite Forall_forall in *.
      intros r Hr. destruct (K r Hr) as (c & Hc & Kc). exists c. split; auto. apply in_seq in Hr.
      rewrite OLD by lia. rewrite H1T. exact Hc. }
    assert (FR : frame h (h2 ++ [CTC T P]) [imol a]).
    { intros r Lr Nr. rewrite OLD by (intros ->; apply Nr; simpl; auto). rewrite H1T. apply nth_error_app_l; auto. }
    destruct (STB _ FR) as [FB OB].
    assert (EX : ext h (h2 ++ [CTC T P])).
    { eapply ext_trans; [apply (ext_app h (map CVec vs ++ [CArr (seq n m)]))|]. rewrite <- H1E.
      eapply ext_trans; [|apply ext_app]. unfold h2. apply ext_wr.
      intros c0 H0. rewrite H1E in H0. rewrite nth_error_app_l in H0 by auto. rewrite Hi in H0. inversion H0; reflexivity. }
    assert (FA : footprint (h2 ++ [CTC T P]) (set_tc a (length h2)) = imol a :: (n + m) :: seq n m ++ [length h2]).
    { unfold footprint. simpl imol; simpl tc. rewrite Ni. unfold rdrows. rewrite N1. reflexivity. }
    split; [|split; [|split; [|split; [|split]]]]; auto.
    + intros r. rewrite FA, FB. intros [<-|[<-|Hr]] Hb; try contradiction.
      * pose proof (footprint_lt _ _ _ W SB Hb). lia.
      * pose proof (footprint_lt _ _ _ W SB Hb). apply in_app_or in Hr. destruct Hr as [Hr|[<-|[]]]; [|lia].
        apply in_seq in Hr. lia.
    + unfold obs, observe. simpl imol; simpl tc. rewrite Ni, Hi. unfold rdtc. rewrite N3, Ht.
      cbn [o_multi o_phases o_rows o_T o_P]. unfold rdrows at 1. rewrite N1, RV. reflexivity.
    + intros r c Hc. destruct (Nat.lt_ge_cases r (length h)) as [Lr|Gr].
      * destruct (Nat.eq_dec r (imol a)) as [->|Nr].
        -- rewrite Ni in Hc. inversion Hc; subst. simpl. eexists; split; [exact N1|reflexivity].
        -- rewrite FR in Hc; auto; [|intros [E|[]]; congruence]. eapply cell_ok_ext; eauto.
      * destruct (Nat.lt_ge_cases r (n + m)) as [Lv|Gv].
        -- assert (Hs : In r (seq n m)) by (apply in_seq; lia).
           rewrite Forall_forall in KV. destruct (KV r Hs) as (c' & Hc' & Kc'). rewrite Hc in Hc'. inversion Hc'; subst.
           apply leaf_cell_ok; auto.
        -- assert (r = n + m \/ r = length h2).
           { apply nth_error_some_lt in Hc. rewrite app_length in Hc. simpl in Hc. lia. }
           destruct H as [-> | ->]; [rewrite N1 in Hc|rewrite N3 in Hc]; inversion Hc; subst; simpl; auto.
    + split; simpl; [right; eexists; split; [exact Ni|reflexivity]|eexists; split; [exact N3|reflexivity]].
    + eapply swf_ext; eauto.
Qed.

(* ---------- link_with ---------- *)
Definition selected (h : heap) (b : stream) (fl ph tp : bool) : list ref :=
  (if fl then data_cells h b else []) ++ (if ph then phase_cells h b else []) ++ (if tp then [tc b] else []).

Lemma in_app3 {A} (x : A) l1 l2 l3 : In x (l1 ++ l2 ++ l3) <-> In x l1 \/ In x l2 \/ In x l3.
Proof. rewrite !in_app_iff. tauto. Qed.

Lemma link_lemma h a b fl ph tp h' a' e : hwf h -> swf h a -> swf h b ->
  disjoint (footprint h a) (footprint h b) -> is_multi h a = is_multi h b ->
  link_with h a b fl ph tp = (h', a', e) ->
  e = None /\ (forall r, shared h' a' b r <-> In r (selected h b fl ph tp)) /\
  obs h' b = obs h b /\ hwf h' /\ swf h' a' /\ swf h' b.
Proof.
  intros W SA SB D KM L.
  assert (NI : imol a <> imol b).
  { intros E. apply (D (imol a)); [apply imol_in_fp|rewrite E; apply imol_in_fp]. }
  assert (LI : imol a < length h) by (apply (footprint_lt h a); auto; apply imol_in_fp).
  assert (NIB : ~ In (imol a) (footprint h b)) by (apply D; apply imol_in_fp).
  assert (STB : forall c, frame h (wr h (imol a) c) [imol a]) by (intros c; apply frame_wr; simpl; auto).
  assert (FB : forall c, footprint (wr h (imol a) c) b = footprint h b /\ obs (wr h (imol a) c) b = obs h b).
  { intros c. destruct (stream_stable h _ [imol a] b [] W SB (STB c)) as [A B].
    - intros r Hr [<-|[]]. contradiction.
    - split; auto. apply obs_of_observe; auto. }
  unfold is_multi in KM.
  destruct (swf_cases _ _ SA) as [[(k & pb & d & Hi)|(k & phs & d & Hi)] (T & P & Ht)];
  destruct (swf_cases _ _ SB) as [[(kb & pbb & db & Hb)|(kb & phsb & db & Hb)] (Tb & Pb & Htb)];
    rewrite Hi, Hb in KM; try discriminate; unfold link_with in L; rewrite Hi, Hb in L; inversion L; subst h' a' e; clear L.
  - (* single phase *)
    destruct (footprint_chem _ _ _ _ _ W Hi) as [Kpa Kda]. destruct (footprint_chem _ _ _ _ _ W Hb) as [Kpb Kdb].
    set (c := CIdxC k (if ph then pbb else pb) (if fl then db else d)).
    destruct (FB c) as [FBc OBc].
    assert (Ni : nth_error (wr h (imol a) c) (imol a) = Some c) by (apply wr_same; auto).
    assert (EX : ext h (wr h (imol a) c)).
    { apply ext_wr. intros c0 H0. rewrite Hi in H0. inversion H0; reflexivity. }
    assert (FPB : footprint h b = [imol b; db; pbb; tc b]) by (unfold footprint; rewrite Hb; reflexivity).
    assert (FPA : footprint h a = [imol a; d; pb; tc a]) by (unfold footprint; rewrite Hi; reflexivity).
    assert (FA : footprint (wr h (imol a) c) (if tp then set_tc a (tc b) else a)
                 = [imol a; if fl then db else d; if ph then pbb else pb; if tp then tc b else tc a]).
    { unfold footprint. destruct tp; simpl imol; simpl tc; rewrite Ni; reflexivity. }
    assert (D2 : ~ In d (footprint h b)) by (apply D; rewrite FPA; simpl; auto).
    assert (D3 : ~ In pb (footprint h b)) by (apply D; rewrite FPA; simpl; auto).
    assert (D4 : ~ In (tc a) (footprint h b)) by (apply D; rewrite FPA; simpl; auto).
    split; auto. split; [|split; [|split; [|split]]]; auto.
    + intros r. unfold shared, selected, data_cells, phase_cells. rewrite FA, FBc, Hb. rewrite in_app3.
      rewrite FPB in *. clear - NIB D2 D3 D4.
      destruct fl, ph, tp; simpl in *; intuition congruence.
    + apply hwf_wr; auto.
      * intros c0 H0. rewrite Hi in H0. inversion H0; reflexivity.
      * unfold c; simpl. destruct ph, fl; auto.
    + split.
      * left. destruct tp; simpl; eexists; split; [exact Ni|reflexivity|exact Ni|reflexivity].
      * destruct tp; simpl; apply EX; [apply SB|apply SA].
    + eapply swf_ext; eauto.
  - (* multi-phase *)
    destruct (footprint_multi _ _ _ _ _ W Hi) as [Kda Kra]. destruct (footprint_multi _ _ _ _ _ W Hb) as [Kdb Krb].
    set (c := CIdxM k phs (if fl then db else d)).
    destruct (FB c) as [FBc OBc].
    assert (Ni : nth_error (wr h (imol a) c) (imol a) = Some c) by (apply wr_same; auto).
    assert (EX : ext h (wr h (imol a) c)).
    { apply ext_wr. intros c0 H0. rewrite Hi in H0. inversion H0; reflexivity. }
    assert (FPB : footprint h b = imol b :: db :: rdrows h db ++ [tc b]) by (unfold footprint; rewrite Hb; reflexivity).
    assert (FPA : footprint h a = imol a :: d :: rdrows h d ++ [tc a]) by (unfold footprint; rewrite Hi; reflexivity).
    assert (RR : forall x, is_kind h x 1 -> rdrows (wr h (imol a) c) x = rdrows h x).
    { intros x Kx. unfold rdrows. rewrite wr_other; auto. intros E. rewrite <- E in Kx.
      assert (is_kind h (imol a) 5) by (eexists; split; [exact Hi|reflexivity]).
      pose proof (is_kind_fun _ _ _ _ Kx H). lia. }
    assert (FA : footprint (wr h (imol a) c) (if tp then set_tc a (tc b) else a)
                 = imol a :: (if fl then db else d) :: rdrows h (if fl then db else d) ++ [if tp then tc b else tc a]).
    { unfold footprint. destruct tp, fl; simpl imol; simpl tc; rewrite Ni; unfold c; rewrite RR; auto. }
    assert (D2 : ~ In d (footprint h b)) by (apply D; rewrite FPA; simpl; auto).
    assert (D3 : forall x, In x (rdrows h d) -> ~ In x (footprint h b)).
    { intros x Hx. apply D. rewrite FPA. simpl. right; right. apply in_or_app; auto. }
    assert (D4 : ~ In (tc a) (footprint h b)).
    { apply D. rewrite FPA. simpl. right; right. apply in_or_app; right; simpl; auto. }
    split; auto. split; [|split; [|split; [|split]]]; auto.
    + intros r. unfold shared, selected, data_cells, phase_cells. rewrite FA, FBc, Hb. rewrite in_app3.
      split.
      * intros [HA HB]. simpl in HA. destruct HA as [E|[E|HA]].
        -- subst r. contradiction.
        -- subst r. destruct fl; [left; simpl; auto|contradiction].
        -- apply in_app_or in HA. destruct HA as [HA|[E|[]]].
           ++ destruct fl; [left; simpl; auto|exfalso; eapply D3; eauto].
           ++ subst r. destruct tp; [right; right; simpl; auto|contradiction].
      * rewrite FPB. intros [H1|[H1|H1]].
        -- destruct fl; [|destruct H1]. simpl in H1. destruct H1 as [<-|H1]; split; simpl; auto.
           ++ right; right. apply in_or_app; auto.
           ++ right; right. apply in_or_app; auto.
        -- destruct ph; destruct H1.
        -- destruct tp; [|destruct H1]. destruct H1 as [<-|[]]. split; simpl; right; right; apply in_or_app; right; simpl; auto.
    + apply hwf_wr; auto.
      * intros c0 H0. rewrite Hi in H0. inversion H0; reflexivity.
      * unfold c; simpl. destruct fl; auto.
    + split.
      * right. destruct tp; simpl; eexists; split; [exact Ni|reflexivity|exact Ni|reflexivity].
      * destruct tp; simpl; apply EX; [apply SB|apply SA].
    + eapply swf_ext; eauto.
Qed.

(* ---------- flow_proxy ---------- *)
Lemma flow_proxy_lemma h s h2 p : hwf h -> swf h s -> flow_proxy h s = Ok (h2, p) ->
  (forall r, shared h2 p s r <-> In r (data_cells h s)) /\
  obs h2 p = obs h s /\ obs h2 s = obs h s /\ hwf h2 /\ swf h2 p /\ swf h2 s.
Proof.
  intros W SW FP.
  assert (ORIG : forall e, obs (h ++ e) s = obs h s /\ footprint (h ++ e) s = footprint h s).
  { intros e. destruct (stream_stable h (h ++ e) [] s [] W SW (frame_app _ _ _)) as [A B]; [intros r _ []|].
    split; auto. apply obs_of_observe; auto. }
  assert (LT : tc s < length h) by (apply (footprint_lt h s); auto; apply tc_in_fp).
  destruct (swf_cases _ _ SW) as [[(k & pb & d & Hi)|(k & phs & d & Hi)] (T & P & Ht)]; unfold flow_proxy in FP; rewrite Hi in FP.
  - destruct (footprint_chem _ _ _ _ _ W Hi) as [Kp Kd].
    destruct (tc_copy _ (tc s)) as [[h3 t]|] eqn:TC; cbn [bind] in FP; [|discriminate].
    eapply tc_copy_ok in TC; [|rewrite nth_error_app_l; [exact Ht|auto]].
    destruct TC as [-> ->]. inversion FP; subst h2 p; clear FP.
    rewrite <- app_assoc. simpl app. rewrite app_length. simpl length.
    set (e := [CPhase (rdphase h pb); CIdxC k (length h) d; CTC T P]).
    assert (N0 : nth_error (h ++ e) (length h) = Some (CPhase (rdphase h pb))) by (rewrite nth_error_app_new0; reflexivity).
    assert (N1 : nth_error (h ++ e) (S (length h)) = Some (CIdxC k (length h) d)).
    { replace (S (length h)) with (length h + 1) by lia. rewrite nth_error_app_new. reflexivity. }
    assert (N2 : nth_error (h ++ e) (length h + 2) = Some (CTC T P)) by (rewrite nth_error_app_new; reflexivity).
    assert (Nd : nth_error (h ++ e) d = nth_error h d) by (apply nth_error_app_l; eapply is_kind_lt; eauto).
    destruct (ORIG e) as [O1 O2].
    assert (FA : footprint (h ++ e) (mkstream (S (length h)) (length h + 2) 0 [] IdNone (thermo s))
                 = [S (length h); d; length h; length h + 2]).
    { unfold footprint. simpl imol; simpl tc. rewrite N1. reflexivity. }
    split; [|split; [|split; [|split; [|split]]]]; auto.
    + intros r. unfold shared, data_cells. rewrite FA, O2, Hi. split.
      * intros [HA HB]. pose proof (footprint_lt _ _ _ W SW HB). simpl in HA.
        destruct HA as [E|[E|[E|[E|[]]]]]; subst; simpl; auto; lia.
      * intros [<-|[]]. split; simpl; auto. unfold footprint. rewrite Hi. simpl; auto.
    + unfold obs, observe. simpl imol; simpl tc. rewrite N1, Hi. unfold rdtc. rewrite N2, Ht.
      cbn [o_multi o_phases o_rows o_T o_P]. unfold rdphase at 1. rewrite N0. unfold rdvec. rewrite Nd. reflexivity.
    + apply hwf_app; auto. intros c [<-|[<-|[<-|[]]]]; simpl; auto. split.
      * eexists; split; [exact N0|reflexivity].
      * apply (ext_app h e). exact Kd.
    + split; simpl; [left; eexists; split; [exact N1|reflexivity]|eexists; split; [exact N2|reflexivity]].
    + eapply swf_ext; [apply ext_app|auto].
  - destruct (footprint_multi _ _ _ _ _ W Hi) as [Kd Kr].
    destruct (tc_copy _ (tc s)) as [[h3 t]|] eqn:TC; cbn [bind] in FP; [|discriminate].
    eapply tc_copy_ok in TC; [|rewrite nth_error_app_l; [exact Ht|auto]].
    destruct TC as [-> ->]. inversion FP; subst h2 p; clear FP.
    rewrite <- app_assoc. simpl app. rewrite app_length. simpl length.
    set (e := [CIdxM k phs d; CTC T P]).
    assert (N0 : nth_error (h ++ e) (length h) = Some (CIdxM k phs d)) by (rewrite nth_error_app_new0; reflexivity).
    assert (N1 : nth_error (h ++ e) (length h + 1) = Some (CTC T P)) by (rewrite nth_error_app_new; reflexivity).
    assert (Nd : nth_error (h ++ e) d = nth_error h d) by (apply nth_error_app_l; eapply is_kind_lt; eauto).
    assert (Rd : rdrows (h ++ e) d = rdrows h d) by (unfold rdrows; rewrite Nd; reflexivity).
    assert (Rv : map (rdvec (h ++ e)) (rdrows h d) = map (rdvec h) (rdrows h d)).
    { apply map_ext_in. intros r Hr. unfold rdvec. rewrite nth_error_app_l; auto.
      rewrite Forall_forall in Kr. eapply is_kind_lt; eauto. }
    destruct (ORIG e) as [O1 O2].
    assert (FA : footprint (h ++ e) (mkstream (length h) (length h + 1) 0 [] IdNone (thermo s))
                 = length h :: d :: rdrows h d ++ [length h + 1]).
    { unfold footprint. simpl imol; simpl tc. rewrite N0, Rd. reflexivity. }
    split; [|split; [|split; [|split; [|split]]]]; auto.
    + intros r. unfold shared, data_cells. rewrite FA, O2, Hi. split.
      * intros [HA HB]. pose proof (footprint_lt _ _ _ W SW HB). simpl in HA.
        destruct HA as [E|[E|HA]]; subst; simpl; auto; try lia.
        apply in_app_or in HA. destruct HA as [HA|[E|[]]]; auto. lia.
      * intros HD. split.
        -- simpl in *. destruct HD as [<-|HD]; auto. right; right. apply in_or_app; auto.
        -- unfold footprint. rewrite Hi. simpl in *. destruct HD as [<-|HD]; auto. right; right. apply in_or_app; auto.
    + unfold obs, observe. simpl imol; simpl tc. rewrite N0, Hi. unfold rdtc. rewrite N1, Ht.
      cbn [o_multi o_phases o_rows o_T o_P]. rewrite Rd, Rv. reflexivity.
    + apply hwf_app; auto. intros c [<-|[<-|[]]]; simpl; auto. apply (ext_app h e). exact Kd.
    + split; simpl; [right; eexists; split; [exact N0|reflexivity]|eexists; split; [exact N1|reflexivity]].
    + eapply swf_ext; [apply ext_app|auto].
Qed.

(* ================================================================= decidable well-formedness (for the examples) *)
Definition kind_atb (h : heap) (r : ref) (k : nat) : bool :=
  match nth_error h r with Some c => Nat.eqb (kind c) k | None => false end.
Definition cell_okb (h : heap) (c : cell) : bool :=
  match c with
  | CArr rows => forallb (fun r => kind_atb h r 0) rows
  | CIdxC _ pb d => kind_atb h pb 2 && kind_atb h d 0
  | CIdxM _ _ d => kind_atb h d 1
  | _ => true
  end.
Definition hwfb (h : heap) : bool := forallb (cell_okb h) h.
Definition swfb (h : heap) (s : stream) : bool :=
  (kind_atb h (imol s) 4 || kind_atb h (imol s) 5) && kind_atb h (tc s) 3.
Definition disjointb (a b : list ref) : bool := forallb (fun r => negb (existsb (Nat.eqb r) b)) a.

Lemma kind_atb_ok h r k : kind_atb h r k = true -> is_kind h r k.
Proof.
  unfold kind_atb. destruct (nth_error h r) as [c|] eqn:E; [|discriminate].
  intros H. apply Nat.eqb_eq in H. exists c; auto.
Qed.
Lemma hwfb_ok h : hwfb h = true -> hwf h.
Proof.
  unfold hwfb. rewrite forallb_forall. intros H r c Hc. apply nth_error_In in Hc. apply H in Hc.
  destruct c; simpl in *; auto.
  - rewrite forallb_forall in Hc. apply Forall_forall. intros x Hx. apply kind_atb_ok; auto.
  - apply andb_prop in Hc. destruct Hc. split; apply kind_atb_ok; auto.
  - apply kind_atb_ok; auto.
Qed.
Lemma swfb_ok h s : swfb h s = true -> swf h s.
Proof.
  unfold swfb. intros H. apply andb_prop in H. destruct H as [A B]. apply orb_prop in A.
  split; [destruct A; [left|right]|]; apply kind_atb_ok; auto.
Qed.
Lemma disjointb_ok a b : disjointb a b = true -> disjoint a b.
Proof.
  unfold disjointb. rewrite forallb_forall. intros H r Ha Hb. apply H in Ha.
  apply negb_true_iff in Ha. assert (existsb (Nat.eqb r) b = true); [|congruence].
  apply existsb_exists. exists r. split; auto. apply Nat.eqb_refl.
Qed.

(* ================================================================= copy_like, Stream <- Stream *)
Lemma find_pos_nth c l i : find_pos c l = Some i -> nth_error l i = Some c.
Proof.
  revert i; induction l as [|x l IH]; intros i; simpl; [discriminate|].
  destruct (Nat.eqb c x) eqn:E.
  - intros H; inversion H; subst. apply Nat.eqb_eq in E. subst. reflexivity.
  - destruct (find_pos c l) as [j|]; simpl; [|discriminate]. intros H; inversion H; subst. simpl. auto.
Qed.
Lemma find_pos_none c l : find_pos c l = None -> memb c l = false.
Proof.
  induction l as [|x l IH]; simpl; auto. destruct (Nat.eqb c x); [discriminate|].
  destruct (find_pos c l); simpl; [discriminate|auto].
Qed.

Local Open Scope Q_scope.
(* the chemical-by-chemical reading of index_overlap: same flow for every chemical of either package *)
Lemma flow_of_remap tgt src v c : missing tgt src v = false ->
  flow_of tgt (remap tgt src v) c == flow_of src v c.
Proof.
  intros M. unfold flow_of at 1. destruct (find_pos c tgt) as [i|] eqn:F.
  - apply find_pos_nth in F. unfold remap, nthq.
    assert (E : nth_error (map (flow_of src v) tgt) i = Some (flow_of src v c)).
    { rewrite nth_error_map, F. reflexivity. }
    rewrite (nth_error_nth _ _ 0 E). reflexivity.
  - apply find_pos_none in F. unfold flow_of. destruct (find_pos c src) as [j|] eqn:G; [|reflexivity].
    apply find_pos_nth in G. unfold nthq.
    destruct (nth_error v j) as [x|] eqn:V.
    + rewrite (nth_error_nth _ _ 0 V).
      unfold missing in M. rewrite <- not_true_iff_false in M.
      destruct (qzerob x) eqn:Z; [apply qzerob_true in Z; rewrite Z; reflexivity|].
      exfalso. apply M. apply existsb_exists. exists (c, x). split.
      * clear - G V. revert v j G V. induction src as [|s src IH]; intros v [|j] G V; simpl in *; try discriminate.
        -- destruct v; simpl in *; [discriminate|]. inversion G; inversion V; subst. auto.
        -- destruct v; simpl in *; [discriminate|]. right. eapply IH; eauto.
      * simpl. rewrite Z, F. reflexivity.
    + rewrite nth_overflow; [reflexivity|]. apply nth_error_None. exact V.
Qed.
Local Close Scope Q_scope.

Lemma upd_upd {A} (l : list A) i x y : upd (upd l i x) i y = upd l i y.
Proof. revert i; induction l as [|a l IH]; intros [|i]; simpl; auto. f_equal. apply IH. Qed.

Section CopyLike.
Variable pk : list (list nat).

(* Stream.copy_like(Stream), same or different property package: phase, T, P and the flow of EVERY chemical become
   those of the source; the source is unchanged.  Preconditions: the streams share nothing, the source phase is a
   valid phase, and (superset precondition) every chemical with a non-zero source flow exists in the target package *)
Lemma copy_like_ss h a b ka pba da kb pbb db h' a' e :
  hwf h -> swf h a -> swf h b -> disjoint (footprint h a) (footprint h b) ->
  nth_error h (imol a) = Some (CIdxC ka pba da) -> nth_error h (imol b) = Some (CIdxC kb pbb db) ->
  valid_phase (rdphase h pbb) = true ->
  (ka <> kb -> missing (chems pk ka) (chems pk kb) (rdvec h db) = false) ->
  copy_like pk h a b = (h', a', e) ->
  e = None /\ a' = a /\ rdphase h' pba = rdphase h pbb /\ rdtc h' (tc a) = rdtc h (tc b) /\
  (forall c, (flow_of (chems pk ka) (rdvec h' da) c == flow_of (chems pk kb) (rdvec h db) c)%Q) /\
  obs h' b = obs h b /\ nth_error h' (imol a) = Some (CIdxC ka pba da).
Proof.
  intros W SA SB D Hi Hb VP MS CL.
  destruct (footprint_chem _ _ _ _ _ W Hi) as [Kpa Kda]. destruct (footprint_chem _ _ _ _ _ W Hb) as [Kpb Kdb].
  destruct (swf_cases _ _ SA) as [_ (Ta & Pa & Hta)]. destruct (swf_cases _ _ SB) as [_ (Tb & Pb & Htb)].
  assert (FPA : footprint h a = [imol a; da; pba; tc a]) by (unfold footprint; rewrite Hi; reflexivity).
  assert (FPB : footprint h b = [imol b; db; pbb; tc b]) by (unfold footprint; rewrite Hb; reflexivity).
  assert (NE : imol a <> imol b).
  { intros E. apply (D (imol a)); [apply imol_in_fp|rewrite E; apply imol_in_fp]. }
  assert (Ndd : da <> db). { intros E. apply (D da); [rewrite FPA|rewrite FPB, E]; simpl; auto. }
  assert (Kta : is_kind h (tc a) 3) by apply SA.
  assert (Ndp : da <> pba). { intros E. rewrite E in Kda. pose proof (is_kind_fun _ _ _ _ Kda Kpa). lia. }
  assert (Ndt : da <> tc a). { intros E. rewrite E in Kda. pose proof (is_kind_fun _ _ _ _ Kda Kta). lia. }
  assert (Npt : pba <> tc a). { intros E. rewrite E in Kpa. pose proof (is_kind_fun _ _ _ _ Kpa Kta). lia. }
  assert (Lda : da < length h) by (eapply is_kind_lt; eauto).
  assert (Lpa : pba < length h) by (eapply is_kind_lt; eauto).
  assert (Lta : tc a < length h) by (eapply is_kind_lt; eauto).
  (* the three writes *)
  assert (SHAPE : exists v, (forall c, (flow_of (chems pk ka) v c == flow_of (chems pk kb) (rdvec h db) c)%Q) /\
                  h' = wr (wr (wr h da (CVec v)) pba (CPhase (rdphase h pbb))) (tc a) (CTC Tb Pb) /\ a' = a /\ e = None).
  { unfold copy_like in CL. rewrite Hi, Hb in CL. unfold chem_copy_like in CL. rewrite Hi in CL.
    assert (Q : opt_eqb Nat.eqb (Some (imol b)) (Some (imol a)) = false).
    { simpl. apply Nat.eqb_neq. auto. }
    cbn [c_self c_pkg c_data c_phase] in CL. rewrite Q in CL. rewrite VP in CL.
    assert (Q2 : Nat.eqb da db = false) by (apply Nat.eqb_neq; auto). rewrite Q2 in CL.
    assert (TCL : forall hh, tc_copy_like hh (tc a) (tc b) = wr hh (tc a) (CTC (fst (rdtc hh (tc b))) (snd (rdtc hh (tc b))))).
    { intros hh. unfold tc_copy_like. destruct (rdtc hh (tc b)); reflexivity. }
    assert (RTB : forall x c1 y c2, x <> tc b -> y <> tc b -> rdtc (wr (wr h x c1) y c2) (tc b) = (Tb, Pb)).
    { intros x c1 y c2 N1 N2. unfold rdtc. rewrite !wr_other by auto. rewrite Htb. reflexivity. }
    assert (Ntb1 : da <> tc b). { intros E. apply (D da); [rewrite FPA|rewrite FPB, E]; simpl; auto. }
    assert (Ntb2 : pba <> tc b). { intros E. apply (D pba); [rewrite FPA|rewrite FPB, E]; simpl; auto. }
    destruct (Nat.eqb ka kb) eqn:KK.
    - apply Nat.eqb_eq in KK. subst kb. inversion CL; subst h' a' e; clear CL.
      exists (rdvec h db). split; [intros c; reflexivity|]. rewrite TCL, RTB by auto. auto.
    - apply Nat.eqb_neq in KK. specialize (MS KK).
      assert (RV : rdvec (wr h da (CVec (zero_like (rdvec h da)))) db = rdvec h db).
      { unfold rdvec. rewrite wr_other; auto. }
      rewrite RV in CL. rewrite MS in CL. inversion CL; subst h' a' e; clear CL.
      exists (remap (chems pk ka) (chems pk kb) (rdvec h db)). split; [intros c; apply flow_of_remap; auto|].
      rewrite TCL.
      assert (WW : wr (wr h da (CVec (zero_like (rdvec h da)))) da (CVec (remap (chems pk ka) (chems pk kb) (rdvec h db)))
                   = wr h da (CVec (remap (chems pk ka) (chems pk kb) (rdvec h db)))).
      { unfold wr. apply upd_upd. }
      rewrite WW. rewrite RTB by auto. auto. }
  destruct SHAPE as (v & FL & -> & -> & ->).
  split; auto. split; auto.
  assert (L1 : length (wr h da (CVec v)) = length h) by apply wr_length.
  split; [|split; [|split; [|split]]].
  - unfold rdphase. rewrite wr_other by auto. rewrite wr_same by (rewrite L1; auto). reflexivity.
  - unfold rdtc at 1. rewrite wr_same by (rewrite !wr_length; auto). unfold rdtc. rewrite Htb. reflexivity.
  - intros c. unfold rdvec at 1. rewrite wr_other by auto. rewrite wr_other by auto. rewrite wr_same by auto. apply FL.
  - assert (FR : frame h (wr (wr (wr h da (CVec v)) pba (CPhase (rdphase h pbb))) (tc a) (CTC Tb Pb)) (footprint h a)).
    { intros r Lr Nr. rewrite FPA in Nr. rewrite !wr_other; auto; intros E; apply Nr; subst; simpl; auto. }
    destruct (stream_stable h _ (footprint h a) b [] W SB FR) as [_ OB].
    + intros r Hr Ha. exact (D r Ha Hr).
    + apply obs_of_observe. exact OB.
  - assert (Ki : is_kind h (imol a) 4) by (eexists; split; [exact Hi|reflexivity]).
    assert (X1 : tc a <> imol a). { intros E. rewrite E in Kta. pose proof (is_kind_fun _ _ _ _ Kta Ki). lia. }
    assert (X2 : pba <> imol a). { intros E. rewrite E in Kpa. pose proof (is_kind_fun _ _ _ _ Kpa Ki). lia. }
    assert (X3 : da <> imol a). { intros E. rewrite E in Kda. pose proof (is_kind_fun _ _ _ _ Kda Ki). lia. }
    rewrite !wr_other by auto. exact Hi.
Qed.

(* Stream.copy_like(MultiStream holding one phase): the same, through the view of that phase (incl. T and P) *)
Lemma copy_like_s_m1 h a b ka pba da kb p db rb h' a' e :
  hwf h -> swf h a -> swf h b -> disjoint (footprint h a) (footprint h b) ->
  nth_error h (imol a) = Some (CIdxC ka pba da) -> nth_error h (imol b) = Some (CIdxM kb [p] db) ->
  rdrows h db = [rb] -> valid_phase p = true ->
  (ka <> kb -> missing (chems pk ka) (chems pk kb) (rdvec h rb) = false) ->
  copy_like pk h a b = (h', a', e) ->
  e = None /\ a' = a /\ rdphase h' pba = p /\ rdtc h' (tc a) = rdtc h (tc b) /\
  (forall c, (flow_of (chems pk ka) (rdvec h' da) c == flow_of (chems pk kb) (rdvec h rb) c)%Q) /\
  obs h' b = obs h b /\ nth_error h' (imol a) = Some (CIdxC ka pba da).
Proof.
  intros W SA SB D Hi Hb RB VP MS CL.
  destruct (footprint_chem _ _ _ _ _ W Hi) as [Kpa Kda]. destruct (footprint_multi _ _ _ _ _ W Hb) as [Kdb Krb].
  destruct (swf_cases _ _ SA) as [_ (Ta & Pa & Hta)]. destruct (swf_cases _ _ SB) as [_ (Tb & Pb & Htb)].
  assert (FPA : footprint h a = [imol a; da; pba; tc a]) by (unfold footprint; rewrite Hi; reflexivity).
  assert (FPB : footprint h b = [imol b; db; rb; tc b]) by (unfold footprint; rewrite Hb, RB; reflexivity).
  assert (NE : imol a <> imol b).
  { intros E. apply (D (imol a)); [apply imol_in_fp|rewrite E; apply imol_in_fp]. }
  assert (Ndd : da <> rb). { intros E. apply (D da); [rewrite FPA|rewrite FPB, E]; simpl; auto. }
  assert (Kta : is_kind h (tc a) 3) by apply SA.
  assert (Ndp : da <> pba). { intros E. rewrite E in Kda. pose proof (is_kind_fun _ _ _ _ Kda Kpa). lia. }
  assert (Ndt : da <> tc a). { intros E. rewrite E in Kda. pose proof (is_kind_fun _ _ _ _ Kda Kta). lia. }
  assert (Npt : pba <> tc a). { intros E. rewrite E in Kpa. pose proof (is_kind_fun _ _ _ _ Kpa Kta). lia. }
  assert (Lda : da < length h) by (eapply is_kind_lt; eauto).
  assert (Lpa : pba < length h) by (eapply is_kind_lt; eauto).
  assert (Lta : tc a < length h) by (eapply is_kind_lt; eauto).
  (* the three writes *)
  assert (SHAPE : exists v, (forall c, (flow_of (chems pk ka) v c == flow_of (chems pk kb) (rdvec h rb) c)%Q) /\
                  h' = wr (wr (wr h da (CVec v)) pba (CPhase p)) (tc a) (CTC Tb Pb) /\ a' = a /\ e = None).
  { unfold copy_like in CL. rewrite Hi, Hb in CL. rewrite RB in CL. cbn [nth] in CL.
    unfold chem_copy_like in CL. rewrite Hi in CL.
    cbn [c_self c_pkg c_data c_phase opt_eqb] in CL. rewrite VP in CL.
    assert (Q2 : Nat.eqb da rb = false) by (apply Nat.eqb_neq; auto). rewrite Q2 in CL.
    assert (TCL : forall hh, tc_copy_like hh (tc a) (tc b) = wr hh (tc a) (CTC (fst (rdtc hh (tc b))) (snd (rdtc hh (tc b))))).
    { intros hh. unfold tc_copy_like. destruct (rdtc hh (tc b)); reflexivity. }
    assert (RTB : forall x c1 y c2, x <> tc b -> y <> tc b -> rdtc (wr (wr h x c1) y c2) (tc b) = (Tb, Pb)).
    { intros x c1 y c2 N1 N2. unfold rdtc. rewrite !wr_other by auto. rewrite Htb. reflexivity. }
    assert (Ntb1 : da <> tc b). { intros E. apply (D da); [rewrite FPA|rewrite FPB, E]; simpl; auto. }
    assert (Ntb2 : pba <> tc b). { intros E. apply (D pba); [rewrite FPA|rewrite FPB, E]; simpl; auto. }
    destruct (Nat.eqb ka kb) eqn:KK.
    - apply Nat.eqb_eq in KK. subst kb. inversion CL; subst h' a' e; clear CL.
      exists (rdvec h rb). split; [intros c; reflexivity|]. rewrite TCL, RTB by auto. auto.
    - apply Nat.eqb_neq in KK. specialize (MS KK).
      assert (RV : rdvec (wr h da (CVec (zero_like (rdvec h da)))) rb = rdvec h rb).
      { unfold rdvec. rewrite wr_other; auto. }
      rewrite RV in CL. rewrite MS in CL. inversion CL; subst h' a' e; clear CL.
      exists (remap (chems pk ka) (chems pk kb) (rdvec h rb)). split; [intros c; apply flow_of_remap; auto|].
      rewrite TCL.
      assert (WW : wr (wr h da (CVec (zero_like (rdvec h da)))) da (CVec (remap (chems pk ka) (chems pk kb) (rdvec h rb)))
                   = wr h da (CVec (remap (chems pk ka) (chems pk kb) (rdvec h rb)))).
      { unfold wr. apply upd_upd. }
      rewrite WW. rewrite RTB by auto. auto. }
  destruct SHAPE as (v & FL & -> & -> & ->).
  split; auto. split; auto.
  assert (L1 : length (wr h da (CVec v)) = length h) by apply wr_length.
  split; [|split; [|split; [|split]]].
  - unfold rdphase. rewrite wr_other by auto. rewrite wr_same by (rewrite L1; auto). reflexivity.
  - unfold rdtc at 1. rewrite wr_same by (rewrite !wr_length; auto). unfold rdtc. rewrite Htb. reflexivity.
  - intros c. unfold rdvec at 1. rewrite wr_other by auto. rewrite wr_other by auto. rewrite wr_same by auto. apply FL.
  - assert (FR : frame h (wr (wr (wr h da (CVec v)) pba (CPhase p)) (tc a) (CTC Tb Pb)) (footprint h a)).
    { intros r Lr Nr. rewrite FPA in Nr. rewrite !wr_other; auto; intros E; apply Nr; subst; simpl; auto. }
    destruct (stream_stable h _ (footprint h a) b [] W SB FR) as [_ OB].
    + intros r Hr Ha. exact (D r Ha Hr).
    + apply obs_of_observe. exact OB.
  - assert (Ki : is_kind h (imol a) 4) by (eexists; split; [exact Hi|reflexivity]).
    assert (X1 : tc a <> imol a). { intros E. rewrite E in Kta. pose proof (is_kind_fun _ _ _ _ Kta Ki). lia. }
    assert (X2 : pba <> imol a). { intros E. rewrite E in Kpa. pose proof (is_kind_fun _ _ _ _ Kpa Ki). lia. }
    assert (X3 : da <> imol a). { intros E. rewrite E in Kda. pose proof (is_kind_fun _ _ _ _ Kda Ki). lia. }
    rewrite !wr_other by auto. exact Hi.
Qed.
End CopyLike.

(* ================================================================= reduce: the plain fields *)
Section Reduce.
Variable pk : list (list nat).

Definition same_fields (a b : stream) : Prop :=
  price a = price b /\ cf a = cf b /\ sid_ a = sid_ b /\ thermo a = thermo b.

Lemma set_phases_fields h s phs h' s' e : set_phases pk h s phs = (h', s', e) -> same_fields s' s.
Proof.
  unfold set_phases, same_fields.
  repeat match goal with
         | |- context [match ?x with _ => _ end] => destruct x
         end; intros H; inversion H; subst; simpl; auto.
Qed.

(* price, characterization factors, thermo and a given ID survive __reduce__ / from_data / __init__ *)
Lemma reduce_fields h s h' n : reduce pk h s = Ok (h', n) ->
  price n = price s /\ cf n = cf s /\ thermo n = thermo s /\
  sid_ n = match sid_ s with IdNone => IdAuto | x => x end.
Proof.
  unfold reduce. destruct (imol_copy h (imol s)) as [[h1 dimol]|]; cbn [bind]; [|discriminate].
  destruct (rdtc h (tc s)) as [T P].
  set (newid := match sid_ s with IdNone => IdAuto | x => x end).
  assert (TV : tc_valid T0 P0 = true) by (vm_compute; reflexivity).
  match goal with |- context [bind ?x _] => destruct x as [[h2 n0]|] eqn:N end; cbn [bind]; [|discriminate].
  assert (F0 : price n0 = price s /\ cf n0 = cf s /\ thermo n0 = thermo s /\ sid_ n0 = newid).
  { destruct (is_multi h s).
    - unfold new_multi in N. rewrite TV in N.
      change (phase_tuple [3; 2]) with (Ok (A := list nat) [2; 3]) in N. cbn [bind] in N.
      destruct (mat_blank _ _ _ _) as [h3 m]. cbn [fill_rows bind] in N. inversion N; subst. simpl. auto.
    - unfold new_single in N. rewrite TV in N. destruct (chem_new _ _ _ _) as [h3 m]. inversion N; subst. simpl. auto. }
  destruct (set_phases pk h2 n0 _) as [[h3 n1] e] eqn:SP.
  apply set_phases_fields in SP. destruct SP as (A & B & C & D).
  destruct e; [discriminate|]. destruct (imol_copy_like pk h3 (imol n1) dimol) as [h4 e2]. destruct e2; [discriminate|].
  intros H; inversion H; subst. destruct F0 as (F1 & F2 & F3 & F4).
  repeat split; congruence.
Qed.
End Reduce.

(* ================================================================= statements kept for Props.v *)
(* flow of chemical c in phase p of stream s (0 when the stream has no such phase or chemical) *)
Definition phase_flow (pk : list (list nat)) (h : heap) (s : stream) (p c : nat) : Q :=
  match nth_error h (imol s) with
  | Some (CIdxC k pb d) => if Nat.eqb (rdphase h pb) p then flow_of (chems pk k) (rdvec h d) c else 0%Q
  | Some (CIdxM k phs d) =>
    match find_pos p phs with
    | Some i => flow_of (chems pk k) (rdvec h (nth i (rdrows h d) 0)) c
    | None => 0%Q
    end
  | _ => 0%Q
  end.
Definition stream_phases (h : heap) (s : stream) : list nat :=
  match nth_error h (imol s) with
  | Some (CIdxC _ pb _) => [rdphase h pb]
  | Some (CIdxM _ phs _) => phs
  | _ => []
  end.
Definition stream_pkg (h : heap) (s : stream) : nat :=
  match nth_error h (imol s) with Some (CIdxC k _ _) => k | Some (CIdxM k _ _) => k | _ => 0 end.
(* lower-case valid phases, rows aligned with phases *)
Definition plain (h : heap) (s : stream) : Prop :=
  Forall (fun p => p = 2 \/ p = 3 \/ p = 4) (stream_phases h s) /\
  length (data_rows h s) = length (stream_phases h s).

(* ================================================================= the _data_cache layer *)
Lemma lookup_unbind r m : lookup r (unbind r m) = None.
Proof.
  induction m as [|[k c] m IH]; simpl; auto. destruct (Nat.eqb k r) eqn:E; simpl; auto. rewrite E. exact IH.
Qed.
Lemma view_reset st r : view_of (cache_reset st r) r = None.
Proof. unfold view_of, cache_reset. simpl. rewrite lookup_unbind. reflexivity. Qed.
Lemma unlink_imol h s h' a e : unlink h s = (h', a, e) -> imol a = imol s.
Proof.
  unfold unlink. destruct (nth_error h (imol s)) as [[| | | |k pb d|k phs d]|]; try (intros H; inversion H; reflexivity).
  - destruct (tc_copy _ _) as [[h3 t]|]; intros H; inversion H; reflexivity.
  - destruct (arr_copy h d) as [h1 d']. destruct (tc_copy _ _) as [[h3 t]|]; intros H; inversion H; reflexivity.
Qed.

(* after unlink the indexer of the stream holds a new, empty view dict: the next imass is built over its own rows *)
Lemma unlink_view pk mw st i st' s : nth_error (ss st) i = Some s -> step pk mw st (OUnlink i) = (st', None) ->
  view_of st' (imol s) = None /\ (exists a, nth_error (ss st') i = Some a /\ imol a = imol s) /\
  snd (by_mass st' s) = data_rows (hp st') s.
Proof.
  intros H E. simpl in E. unfold unlink_step in E. rewrite H in E. unfold on1 in E. rewrite H in E.
  destruct (unlink (hp st) s) as [[h a] e] eqn:U. inversion E; subst; clear E.
  assert (V : view_of (cache_reset {| hp := h; ss := upd (ss st) i a; cmap := cmap st; caches := caches st |} (imol s)) (imol s) = None)
    by apply view_reset.
  split; [exact V|]. split.
  - exists a. split; [|eapply unlink_imol; eauto]. simpl. apply nth_error_upd_same. eapply nth_error_some_lt; eauto.
  - unfold by_mass. rewrite V. simpl. rewrite lookup_unbind. simpl. unfold new_view, data_rows. simpl.
    destruct (nth_error h (imol s)) as [[]|]; reflexivity.
Qed.

(* ---------- link_with and the view dict ---------- *)
Lemma lookup_unbind_other r o m : o <> r -> lookup o (unbind r m) = lookup o m.
Proof.
  intros N. induction m as [|[k c] m IH]; simpl; auto. destruct (Nat.eqb k r) eqn:E; simpl.
  - apply Nat.eqb_eq in E. subst k. destruct (Nat.eqb r o) eqn:E2; [apply Nat.eqb_eq in E2; congruence|exact IH].
  - destruct (Nat.eqb k o); auto.
Qed.
Lemma hp_cache_share st r o : hp (cache_share st r o) = hp st.
Proof. unfold cache_share. destruct (Nat.eqb r o); auto. destruct (lookup o (cmap st)); reflexivity. Qed.
Lemma view_share st r o : r <> o -> view_of (cache_share st r o) r = view_of (cache_share st r o) o.
Proof.
  intros N. unfold cache_share. destruct (Nat.eqb r o) eqn:E; [apply Nat.eqb_eq in E; congruence|].
  assert (E2 : Nat.eqb o r = false) by (apply Nat.eqb_neq; auto).
  destruct (lookup o (cmap st)) as [c|] eqn:L; unfold view_of; simpl; rewrite Nat.eqb_refl.
  - rewrite E. rewrite lookup_unbind_other by auto. rewrite L. reflexivity.
  - rewrite E. rewrite Nat.eqb_refl. reflexivity.
Qed.

(* link_with shares the dict of derived views exactly when data, thermal condition AND phase (for a single-phase
   stream) are linked, and then the two indexers hold the same data and the same Phase object, so a view built by
   either is right for both; in every other case the stream gets a new empty dict *)
Lemma link_view st i j fl ph tp st' s o :
  nth_error (ss st) i = Some s -> nth_error (ss st) j = Some o -> imol s <> imol o ->
  link_step st i j fl ph tp = (st', None) ->
  (tp && fl && (ph || is_multi (hp st) s) = false -> view_of st' (imol s) = None) /\
  (tp && fl && (ph || is_multi (hp st) s) = true ->
     view_of st' (imol s) = view_of st' (imol o) /\
     forall k pb d, nth_error (hp st') (imol o) = Some (CIdxC k pb d) ->
       exists k', nth_error (hp st') (imol s) = Some (CIdxC k' pb d)).
Proof.
  intros Hs Ho N L. unfold link_step in L. rewrite Hs, Ho in L. unfold on2 in L. rewrite Hs, Ho in L.
  destruct (link_with (hp st) s o fl ph tp) as [[h a] e] eqn:LW. destruct e; [discriminate|].
  set (st1 := {| hp := h; ss := upd (ss st) i a; cmap := cmap st; caches := caches st |}) in *.
  destruct (tp && fl && (ph || is_multi (hp st) s)) eqn:C; inversion L; subst st'; clear L; split; try discriminate; intros _.
  - split; [apply view_share; auto|].
    intros k pb d Hc. rewrite hp_cache_share in *. change (hp st1) with h in *. unfold link_with in LW.
    destruct (nth_error (hp st) (imol s)) as [[| | | |ks pbs ds|ks phs ds]|] eqn:Is;
      destruct (nth_error (hp st) (imol o)) as [[| | | |ko pbo od|ko pho od]|] eqn:Io; try (inversion LW; fail).
    + inversion LW; subst h a; clear LW.
      assert (M : is_multi (hp st) s = false) by (unfold is_multi; rewrite Is; reflexivity).
      rewrite M in C. destruct tp, fl, ph; simpl in C; try discriminate.
      rewrite wr_other in Hc by auto. rewrite Io in Hc. inversion Hc; subst.
      exists ks. apply wr_same. eapply nth_error_some_lt; eauto.
    + inversion LW; subst h a; clear LW. rewrite wr_other in Hc by auto. rewrite Io in Hc. discriminate.
  - apply view_reset.
Qed.
