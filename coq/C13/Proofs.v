(* C13 — lemmas about the heap model. *)
From V Require Import Common.NumFacts C13.Model.
