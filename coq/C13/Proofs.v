(* C13 — lemmas about the heap model.
   Spec-level notions (heap typing, footprint disjointness, frames, observations) are defined here; the executable
   model is in Model.v. *)
From V Require Import Common.NumFacts C13.Model.
From Coq Require Import Lia.
Local Open Scope nat_scope.

(* ================================================================= basic list/heap facts *)
Lemma nth_error_app_l {A} (l e : list A) r : (r < length l)%nat -> nth_error (l ++ e) r = nth_error l r.
Proof. intros H. apply nth_error_app1. exact H. Qed.

Lemma nth_error_app_new {A} (l e : list A) k : nth_error (l ++ e) (length l + k) = nth_error e k.
Proof. rewrite nth_error_app2 by lia. f_equal. lia. Qed.

Lemma nth_error_upd {A} (l : list A) i j x :
  nth_error (upd l i x) j = if Nat.eqb i j then (if Nat.ltb i (length l) then Some x else None) else nth_error l j.
Proof.
  revert i j; induction l as [|a l IH]; intros i j.
  - simpl. destruct i, j; simpl; auto. destruct (Nat.eqb i j); auto.
  - destruct i as [|i], j as [|j]; simpl; auto. rewrite IH. reflexivity.
Qed.

Lemma nth_error_some_lt {A} (l : list A) r c : nth_error l r = Some c -> (r < length l)%nat.
Proof. intros H. apply nth_error_Some. congruence. Qed.

Lemma wr_length h r c : length (wr h r c) = length h.
Proof. apply upd_length. Qed.

Lemma wr_other h r c r' : r <> r' -> nth_error (wr h r c) r' = nth_error h r'.
Proof. intros H. apply nth_error_upd_other. exact H. Qed.

Lemma wr_same h r c : (r < length h)%nat -> nth_error (wr h r c) r = Some c.
Proof. apply nth_error_upd_same. Qed.

(* ================================================================= heap typing *)
Definition kind (c : cell) : nat :=
  match c with CVec _ => 0 | CArr _ => 1 | CPhase _ => 2 | CTC _ _ => 3 | CIdxC _ _ _ => 4 | CIdxM _ _ _ => 5 end%nat.
Definition is_kind (h : heap) (r : ref) (k : nat) : Prop := exists c, nth_error h r = Some c /\ kind c = k.
Definition cell_ok (h : heap) (c : cell) : Prop :=
  match c with
  | CArr rows => Forall (fun r => is_kind h r 0) rows
  | CIdxC _ pb d => is_kind h pb 2 /\ is_kind h d 0
  | CIdxM _ _ d => is_kind h d 1
  | _ => True
  end.
(* every reference stored in a cell points to an existing cell of the right kind *)
Definition hwf (h : heap) : Prop := forall r c, nth_error h r = Some c -> cell_ok h c.
Definition swf (h : heap) (s : stream) : Prop :=
  (is_kind h (imol s) 4 \/ is_kind h (imol s) 5) /\ is_kind h (tc s) 3.
(* cells are never deallocated and never change kind *)
Definition ext (h h' : heap) : Prop := forall r k, is_kind h r k -> is_kind h' r k.

Lemma is_kind_lt h r k : is_kind h r k -> (r < length h)%nat.
Proof. intros (c & H & _). eapply nth_error_some_lt; eauto. Qed.

Lemma is_kind_fun h r k k' : is_kind h r k -> is_kind h r k' -> k = k'.
Proof. intros (c & H & K) (c' & H' & K'). congruence. Qed.

Lemma ext_refl h : ext h h.
Proof. intros r k H; exact H. Qed.
Lemma ext_trans a b c : ext a b -> ext b c -> ext a c.
Proof. intros H1 H2 r k H. auto. Qed.
Lemma ext_app h e : ext h (h ++ e).
Proof.
  intros r k (c & H & K). exists c. split; auto.
  rewrite nth_error_app_l; auto. eapply nth_error_some_lt; eauto.
Qed.
Lemma ext_wr h r c : (forall c0, nth_error h r = Some c0 -> kind c0 = kind c) -> ext h (wr h r c).
Proof.
  intros HK r' k (c' & H & K). destruct (Nat.eq_dec r r') as [->|N].
  - exists c. split. + apply wr_same. eapply nth_error_some_lt; eauto. + rewrite <- (HK _ H). exact K.
  - exists c'. split; auto. rewrite wr_other; auto.
Qed.

Lemma cell_ok_ext h h' c : ext h h' -> cell_ok h c -> cell_ok h' c.
Proof.
  intros E. destruct c; simpl; auto.
  - intros F. eapply Forall_impl; [|exact F]. intros a. apply E.
  - intros [A B]. split; apply E; auto.
Qed.

Lemma hwf_app h e : hwf h -> (forall c, In c e -> cell_ok (h ++ e) c) -> hwf (h ++ e).
Proof.
  intros W HE r c H. destruct (Nat.lt_ge_cases r (length h)) as [L|G].
  - rewrite nth_error_app_l in H by auto. eapply cell_ok_ext; [apply ext_app|]. eapply W; eauto.
  - apply HE. rewrite nth_error_app2 in H by lia. eapply nth_error_In; eauto.
Qed.

Lemma hwf_wr h r c : hwf h -> (forall c0, nth_error h r = Some c0 -> kind c0 = kind c) -> cell_ok h c -> hwf (wr h r c).
Proof.
  intros W HK OK r' c' H. pose proof (ext_wr h r c HK) as E.
  unfold wr in H. rewrite (nth_error_upd h r r' c) in H. destruct (Nat.eqb r r') eqn:Q.
  - destruct (Nat.ltb r (length h)); inversion H; subst. eapply cell_ok_ext; eauto.
  - eapply cell_ok_ext; eauto.
Qed.

Lemma swf_ext h h' s : ext h h' -> swf h s -> swf h' s.
Proof. intros E [[A|A] B]; split; auto. Qed.

Lemma is_kind_new h e k c kd : nth_error e k = Some c -> kind c = kd -> is_kind (h ++ e) (length h + k) kd.
Proof. intros H K. exists c. split; auto. rewrite nth_error_app_new. exact H. Qed.

(* ================================================================= frames *)
(* cells of h outside F are the same in h' *)
Definition frame (h h' : heap) (F : list ref) : Prop :=
  forall r, (r < length h)%nat -> ~ In r F -> nth_error h' r = nth_error h r.

Lemma frame_refl h F : frame h h F.
Proof. intros r _ _. reflexivity. Qed.
Lemma frame_app h e F : frame h (h ++ e) F.
Proof. intros r L _. apply nth_error_app_l. exact L. Qed.
Lemma frame_wr h r c F : In r F \/ (length h <= r)%nat -> frame h (wr h r c) F.
Proof.
  intros HR r' L N. apply wr_other. intros ->. destruct HR; [contradiction|lia].
Qed.
Lemma frame_trans h h1 h2 F F' :
  frame h h1 F -> frame h1 h2 F' -> (length h <= length h1)%nat ->
  (forall r, In r F' -> In r F \/ (length h <= r)%nat) -> frame h h2 F.
Proof.
  intros A B L I r Lr N. rewrite B; [apply A; auto|lia|].
  intros HF. destruct (I _ HF); [contradiction|lia].
Qed.
Lemma frame_weaken h h' F F' : frame h h' F -> incl F F' -> frame h h' F'.
Proof. intros A I r L N. apply A; auto. Qed.

Lemma ext_length h h' : ext h h' -> (length h <= length h')%nat.
Proof.
  intros E. destruct h as [|c h0] eqn:Hh; [simpl; lia|]. rewrite <- Hh in *.
  assert (L : (length h - 1 < length h)%nat) by (subst; simpl; lia).
  destruct (nth_error h (length h - 1)) as [c'|] eqn:Q.
  - assert (K : is_kind h (length h - 1) (kind c')) by (exists c'; auto).
    apply E in K. apply is_kind_lt in K. lia.
  - apply nth_error_None in Q. lia.
Qed.

(* ================================================================= reading through a frame *)
Section Stable.
Variables (h h' : heap) (F : list ref).
Hypothesis FR : frame h h' F.

Lemma rd_stable r k : is_kind h r k -> ~ In r F -> nth_error h' r = nth_error h r.
Proof. intros K N. apply FR; auto. eapply is_kind_lt; eauto. Qed.

Lemma rdvec_stable r : is_kind h r 0 -> ~ In r F -> rdvec h' r = rdvec h r.
Proof. intros K N. unfold rdvec. erewrite rd_stable; eauto. Qed.
Lemma rdrows_stable r : is_kind h r 1 -> ~ In r F -> rdrows h' r = rdrows h r.
Proof. intros K N. unfold rdrows. erewrite rd_stable; eauto. Qed.
Lemma rdphase_stable r : is_kind h r 2 -> ~ In r F -> rdphase h' r = rdphase h r.
Proof. intros K N. unfold rdphase. erewrite rd_stable; eauto. Qed.
Lemma rdtc_stable r : is_kind h r 3 -> ~ In r F -> rdtc h' r = rdtc h r.
Proof. intros K N. unfold rdtc. erewrite rd_stable; eauto. Qed.
End Stable.

(* the cells a stream reaches are typed *)
Lemma footprint_chem h s k pb d : hwf h -> nth_error h (imol s) = Some (CIdxC k pb d) ->
  is_kind h pb 2 /\ is_kind h d 0.
Proof. intros W H. exact (W _ _ H). Qed.
Lemma footprint_multi h s k phs d : hwf h -> nth_error h (imol s) = Some (CIdxM k phs d) ->
  is_kind h d 1 /\ Forall (fun r => is_kind h r 0) (rdrows h d).
Proof.
  intros W H. pose proof (W _ _ H) as K. simpl in K. split; auto.
  destruct K as (c & Hc & Kc). unfold rdrows. rewrite Hc. destruct c; simpl in Kc; try discriminate.
  exact (W _ _ Hc).
Qed.

Lemma swf_cases h s : swf h s ->
  ((exists k pb d, nth_error h (imol s) = Some (CIdxC k pb d)) \/
   (exists k phs d, nth_error h (imol s) = Some (CIdxM k phs d))) /\
  exists T P, nth_error h (tc s) = Some (CTC T P).
Proof.
  intros [[(c & H & K)|(c & H & K)] (t & Ht & Kt)]; (split; [|destruct t; simpl in Kt; try discriminate; eauto]);
    destruct c; simpl in K; try discriminate; eauto.
Qed.

(* a stream whose cells are all outside F reads the same through the frame *)
Lemma stream_stable h h' F s labels : hwf h -> swf h s -> frame h h' F ->
  (forall r, In r (footprint h s) -> ~ In r F) ->
  footprint h' s = footprint h s /\ observe h' s labels = observe h s labels.
Proof.
  intros W S FR N. destruct (swf_cases _ _ S) as [[(k & pb & d & Hi)|(k & phs & d & Hi)] (T & P & Ht)].
  - destruct (footprint_chem _ _ _ _ _ W Hi) as [Kp Kd].
    assert (FP : footprint h s = [imol s; d; pb; tc s]) by (unfold footprint; rewrite Hi; reflexivity).
    rewrite FP in N.
    assert (Hi' : nth_error h' (imol s) = Some (CIdxC k pb d)).
    { rewrite <- Hi. apply FR; [eapply nth_error_some_lt; eauto|apply N; simpl; auto]. }
    assert (Ht' : nth_error h' (tc s) = nth_error h (tc s)).
    { apply FR; [eapply nth_error_some_lt; eauto|apply N; simpl; auto]. }
    split.
    + unfold footprint. rewrite Hi', Hi. reflexivity.
    + unfold observe. rewrite Hi', Hi. unfold rdtc. rewrite Ht'.
      rewrite (rdphase_stable _ _ _ FR pb Kp) by (apply N; simpl; auto).
      rewrite (rdvec_stable _ _ _ FR d Kd) by (apply N; simpl; auto). reflexivity.
  - destruct (footprint_multi _ _ _ _ _ W Hi) as [Kd Kr].
    assert (FP : footprint h s = imol s :: d :: rdrows h d ++ [tc s]) by (unfold footprint; rewrite Hi; reflexivity).
    rewrite FP in N.
    assert (Hi' : nth_error h' (imol s) = Some (CIdxM k phs d)).
    { rewrite <- Hi. apply FR; [eapply nth_error_some_lt; eauto|apply N; simpl; auto]. }
    assert (Ht' : nth_error h' (tc s) = nth_error h (tc s)).
    { apply FR; [eapply nth_error_some_lt; eauto|apply N; simpl; right; right; apply in_or_app; right; simpl; auto]. }
    assert (Hr : rdrows h' d = rdrows h d) by (apply (rdrows_stable _ _ _ FR d Kd); apply N; simpl; auto).
    assert (Hv : map (rdvec h') (rdrows h d) = map (rdvec h) (rdrows h d)).
    { apply map_ext_in. intros r Hr0. apply (rdvec_stable _ _ _ FR r).
      - rewrite Forall_forall in Kr. auto.
      - apply N. simpl. right; right. apply in_or_app; left; auto. }
    split.
    + unfold footprint. rewrite Hi', Hi, Hr. reflexivity.
    + unfold observe. rewrite Hi', Hi, Hr, Hv. unfold rdtc. rewrite Ht'. reflexivity.
Qed.

(* every cell of a well-formed stream is allocated *)
Lemma footprint_lt h s r : hwf h -> swf h s -> In r (footprint h s) -> (r < length h)%nat.
Proof.
  intros W S I. destruct (swf_cases _ _ S) as [[(k & pb & d & Hi)|(k & phs & d & Hi)] (T & P & Ht)].
  - destruct (footprint_chem _ _ _ _ _ W Hi) as [Kp Kd]. unfold footprint in I. rewrite Hi in I.
    simpl in I. destruct I as [<-|[<-|[<-|[<-|[]]]]];
      eauto using is_kind_lt, nth_error_some_lt.
  - destruct (footprint_multi _ _ _ _ _ W Hi) as [Kd Kr]. unfold footprint in I. rewrite Hi in I.
    simpl in I. destruct I as [<-|[<-|I]]; eauto using is_kind_lt, nth_error_some_lt.
    apply in_app_or in I. destruct I as [I|[<-|[]]]; eauto using nth_error_some_lt.
    rewrite Forall_forall in Kr. eapply is_kind_lt; eauto.
Qed.

Definition disjoint (a b : list ref) : Prop := forall r, In r a -> ~ In r b.
