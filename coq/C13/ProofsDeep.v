(* C13 — deepening: reduce (= from_data o __reduce__ through __init__) for MultiStreams with two or more phases. *)
From V Require Import Common.NumFacts C13.Model C13.Proofs C13.Hist C13.CopyLike C13.Reduce.
From Coq Require Import Lia.
Local Open Scope nat_scope.

Lemma map_eq_nth {A B} (f : A -> B) : forall (l : list A) (vs : list B), length l = length vs ->
  (forall i a, nth_error l i = Some a -> nth_error vs i = Some (f a)) -> map f l = vs.
Proof.
  induction l as [|x l IH]; intros [|v vs] L H; simpl in L; try discriminate; auto.
  simpl. f_equal.
  - specialize (H 0 x eq_refl). simpl in H. inversion H; reflexivity.
  - apply IH; [lia|]. intros i a Hi. exact (H (S i) a Hi).
Qed.

Lemma any_nz_vzero n : any_nz (vzero n) = false.
Proof. unfold any_nz, vzero. induction n as [|n IH]; simpl; auto. Qed.

(* rows that hold no material are not moved by to_material_indexer *)
Lemma move_rows_zero base pt given : forall ophs orows h,
  (forall o, In o orows -> any_nz (rdvec h o) = false) -> move_rows h base pt given ophs orows = Ok h.
Proof.
  induction ophs as [|p ophs IH]; intros [|o orows] h Z; simpl; auto.
  rewrite (Z o (or_introl eq_refl)). apply IH. intros x Hx. apply Z. simpl; auto.
Qed.

(* Indexer.copy of a material indexer: a fresh array over fresh rows with the same values, nothing else touched *)
Lemma imol_copy_multi_spec h r k phs d rows :
  nth_error h r = Some (CIdxM k phs d) -> nth_error h d = Some (CArr rows) ->
  exists h1 dimol dd,
    imol_copy h r = Ok (h1, dimol) /\ (exists e, h1 = h ++ e) /\
    nth_error h1 dimol = Some (CIdxM k phs dd) /\
    nth_error h1 dd = Some (CArr (seq (length h) (length rows))) /\
    map (rdvec h1) (seq (length h) (length rows)) = map (rdvec h) rows /\
    length h1 = length h + length rows + 2 /\ dimol = length h + length rows + 1 /\ dd = length h + length rows.
Proof.
  intros Hr Hd. unfold imol_copy. rewrite Hr. unfold arr_copy, alloc_vecs.
  assert (R : rdrows h d = rows) by (unfold rdrows; rewrite Hd; reflexivity). rewrite R.
  set (vs := map (rdvec h) rows). rewrite (map_length (rdvec h) rows : length vs = length rows).
  set (n := length h). set (m := length rows).
  assert (LV : length (h ++ map CVec vs) = n + m) by (rewrite app_length, map_length; unfold vs; rewrite map_length; reflexivity).
  rewrite LV.
  assert (LA : length ((h ++ map CVec vs) ++ [CArr (seq n m)]) = n + m + 1) by (rewrite app_length, LV; reflexivity).
  rewrite LA.
  set (e := map CVec vs ++ [CArr (seq n m); CIdxM k phs (n + m)]).
  assert (HE : ((h ++ map CVec vs) ++ [CArr (seq n m)]) ++ [CIdxM k phs (n + m)] = h ++ e).
  { unfold e. rewrite <- !app_assoc. reflexivity. }
  rewrite HE.
  assert (NEW : forall j c, nth_error [CArr (seq n m); CIdxM k phs (n + m)] j = Some c -> nth_error (h ++ e) (n + m + j) = Some c).
  { intros j c Hj. unfold e. rewrite app_assoc. replace (n + m + j) with (length (h ++ map CVec vs) + j) by (rewrite LV; lia).
    rewrite nth_error_app_new. exact Hj. }
  exists (h ++ e), (n + m + 1), (n + m). split; [reflexivity|]. split; [eauto|]. split; [apply NEW; reflexivity|].
  split; [replace (n + m) with (n + m + 0) at 1 by lia; apply NEW; reflexivity|].
  split; [|split; [|split; reflexivity]].
  - assert (LVS : length vs = m) by (unfold vs; apply map_length).
    pose proof (map_rdvec_alloc h vs [CArr (seq n m); CIdxM k phs (n + m)]) as X. rewrite LVS in X. exact X.
  - rewrite app_length. unfold e. rewrite app_length, map_length. unfold vs. rewrite map_length. simpl. fold n m. lia.
Qed.

Section ReduceMulti.
Variable pk : list (list nat).

Lemma reduce_multi h s k phs d rows T P h' n :
  nth_error h (imol s) = Some (CIdxM k phs d) -> nth_error h d = Some (CArr rows) ->
  nth_error h (tc s) = Some (CTC T P) -> good phs -> 2 <= length phs -> length rows = length phs ->
  thermo s = k -> sid_ s <> IdNone -> reduce pk h s = Ok (h', n) ->
  obs_plus h' n = (true, phs, map (rdvec h) rows, T, P, price s, cf s, sid_ s).
Proof.
  intros Hi Hd Ht GP L2 LR TH ID R.
  destruct (imol_copy_multi_spec h (imol s) k phs d rows Hi Hd) as (h1 & dimol & dd & IC & (e1 & HE1) & Hdi & Hdd & RV1 & Lh1 & Edi & Edd).
  unfold reduce in R. rewrite IC in R. cbn [bind] in R. unfold rdtc in R. rewrite Ht in R.
  unfold is_multi in R. rewrite Hi in R. rewrite TH in R.
  (* cls.__init__ *)
  unfold new_multi in R.
  assert (TV : tc_valid T0 P0 = true) by (vm_compute; reflexivity). rewrite TV in R.
  change (phase_tuple [3; 2]) with (Ok (A := list nat) [2; 3]) in R. cbn [bind] in R.
  assert (G23 : good [2; 3]).
  { split; [simpl; split; [intros y [<-|[]]; lia|split; [intros y []|exact I]]|].
    constructor; [left; reflexivity|constructor; [right; left; reflexivity|constructor]]. }
  destruct (mat_blank pk (h1 ++ [CTC T0 P0]) k [2; 3]) as [h2 m] eqn:B0.
  destruct (mat_blank_ok pk _ k [2; 3] h2 m G23 B0) as (MA0 & (e2 & HE2) & Em & Lh2 & ZR0).
  cbn [fill_rows bind] in R.
  rewrite app_length in MA0, Em, Lh2, ZR0. simpl length in MA0, Em, Lh2, ZR0.
  set (n1 := length h1) in *.
  (* everything of h1 is still in h2 *)
  assert (OLD2 : forall x, x < n1 -> nth_error h2 x = nth_error h1 x).
  { intros x Lx. rewrite HE2. rewrite <- app_assoc. apply nth_error_app_l. exact Lx. }
  assert (TC2 : nth_error h2 n1 = Some (CTC T0 P0)).
  { rewrite HE2. rewrite <- app_assoc. unfold n1. rewrite nth_error_app_new0. reflexivity. }
  set (newid := match sid_ s with IdNone => IdAuto | x => x end) in *.
  set (n0 := mkstream m n1 (price s) (cf s) newid k) in *.
  (* self.phases = phases *)
  assert (SP : exists h3 n1' d1 rows1,
     set_phases pk h2 n0 phs = (h3, n1', None) /\ mat_ok h3 (imol n1') k phs d1 rows1 /\
     (exists e, h3 = h2 ++ e) /\ (forall x, In x (imol n1' :: d1 :: rows1) -> n1 < x) /\
     tc n1' = n1 /\ price n1' = price s /\ cf n1' = cf s /\ sid_ n1' = newid).
  { unfold set_phases. cbn [imol n0]. rewrite (m_idx _ _ _ _ _ _ MA0).
    rewrite (sort_set_id phs (proj1 GP)).
    destruct (phase_tuple_good phs (proj2 GP)) as [PT _]. rewrite (sort_set_id phs (proj1 GP)) in PT.
    destruct phs as [|p1 [|p2 l]]; simpl in L2; try lia.
    remember (p1 :: p2 :: l) as phs eqn:EP. rewrite PT.
    destruct (same_phases phs [2; 3]) eqn:SAME.
    - apply list_eqb_nat in SAME. exists h2, n0, (n1 + 1 + 2), (seq (n1 + 1) 2). rewrite SAME in *.
      split; [reflexivity|]. split; [exact MA0|]. split; [exists []; rewrite app_nil_r; reflexivity|].
      split; [|repeat split; reflexivity].
      intros x [E|[E|Hx]]; [cbn [imol n0] in E; lia|lia|apply in_seq in Hx; lia].
    - unfold mat_to_material. rewrite (m_idx _ _ _ _ _ _ MA0).
      destruct (mat_blank pk h2 k phs) as [h3 m'] eqn:B1.
      destruct (mat_blank_ok pk h2 k phs h3 m' GP B1) as (MA1 & (e3 & HE3) & Em' & Lh3 & ZR1).
      assert (R0 : rdrows h2 (n1 + 1 + 2) = seq (n1 + 1) 2).
      { unfold rdrows. rewrite (m_arr _ _ _ _ _ _ MA0). reflexivity. }
      rewrite R0.
      rewrite move_rows_zero.
      + cbn [bind]. exists h3, (set_imol n0 m'), (length h2 + length phs), (seq (length h2) (length phs)).
        split; [reflexivity|]. split; [exact MA1|]. split; [eauto|]. split; [|repeat split; reflexivity].
        rewrite Lh2. intros x [E|[E|Hx]]; [cbn [imol set_imol] in E; lia|lia|apply in_seq in Hx; lia].
      + intros o Ho. unfold rdvec. rewrite HE3. rewrite nth_error_app_l.
        * rewrite (ZR0 o Ho). apply any_nz_vzero.
        * apply in_seq in Ho. rewrite Lh2. lia. }
  destruct SP as (h3 & n1' & d1 & rows1 & SPE & MA & (e3 & HE3) & FRESH & Etc & Epr & Ecf & Eid).
  rewrite SPE in R.
  pose proof MA as [Hr3 Hd3 _ LEN3 ND3 VEC3].
  assert (L12 : n1 <= length h2) by (rewrite Lh2; lia).
  assert (OLD3 : forall x, x < n1 -> nth_error h3 x = nth_error h1 x).
  { intros x Lx. rewrite HE3. rewrite nth_error_app_l by lia. apply OLD2. exact Lx. }
  assert (TC3 : nth_error h3 n1 = Some (CTC T0 P0)).
  { rewrite HE3. rewrite nth_error_app_l by (rewrite Lh2; lia). exact TC2. }
  assert (Ldi : dimol < n1) by (unfold n1; lia). assert (Ldd : dd < n1) by (unfold n1; lia).
  (* self._imol.copy_like(data._imol) *)
  unfold imol_copy_like in R. rewrite Hr3 in R. rewrite (OLD3 dimol Ldi), Hdi in R.
  unfold mat_copy_like_m in R.
  assert (Q : Nat.eqb (imol n1') dimol = false).
  { apply Nat.eqb_neq. intros E. assert (n1 < imol n1') by (apply FRESH; simpl; auto). lia. }
  rewrite Q, Hr3 in R. rewrite (OLD3 dimol Ldi), Hdi in R. rewrite Nat.eqb_refl in R.
  assert (SS : same_phases phs phs = true) by (apply list_eqb_nat; reflexivity). rewrite SS in R.
  assert (R3 : rdrows h3 d1 = rows1) by (unfold rdrows; rewrite Hd3; reflexivity).
  assert (R3o : rdrows h3 dd = seq (length h) (length rows)).
  { unfold rdrows. rewrite (OLD3 dd Ldd), Hdd. reflexivity. }
  rewrite R3, R3o in R.
  set (orows := seq (length h) (length rows)) in *.
  assert (LO : forall o, In o orows -> o < n1). { intros o Ho. apply in_seq in Ho. unfold n1. lia. }
  assert (LEQ : length rows1 = length orows) by (unfold orows; rewrite seq_length; lia).
  assert (LT3 : forall x, In x rows1 -> x < length h3) by (intros x Hx; exact (mat_ok_lt _ _ _ _ _ _ x MA Hx)).
  assert (DJ : forall o, In o orows -> ~ In o rows1).
  { intros o Ho Hx. assert (n1 < o) by (apply FRESH; simpl; auto). specialize (LO o Ho). lia. }
  destruct (zip_rows_spec (fun v => v) rows1 orows h3 LEQ ND3 LT3 DJ) as [OUT HIT].
  set (h4 := zip_rows h3 rows1 orows (fun v => v)) in *.
  rewrite Etc in R. inversion R; subst h' n; clear R.
  (* observation *)
  assert (NTC : ~ In n1 rows1). { intros Hx. assert (n1 < n1) by (apply FRESH; simpl; auto). lia. }
  assert (Ni : nth_error (wr h4 n1 (CTC T P)) (imol n1') = Some (CIdxM k phs d1)).
  { assert (n1 < imol n1') by (apply FRESH; simpl; auto). rewrite wr_other by lia. unfold h4. rewrite OUT; auto.
    intros Hx. destruct (VEC3 _ Hx) as (v & Hv). rewrite Hr3 in Hv. discriminate. }
  assert (Nd : nth_error (wr h4 n1 (CTC T P)) d1 = Some (CArr rows1)).
  { assert (n1 < d1) by (apply FRESH; simpl; auto). rewrite wr_other by lia. unfold h4. rewrite OUT; auto.
    intros Hx. destruct (VEC3 _ Hx) as (v & Hv). rewrite Hd3 in Hv. discriminate. }
  assert (L4 : length h4 = length h3) by (unfold h4; apply zip_rows_len_local).
  assert (Nt : nth_error (wr h4 n1 (CTC T P)) n1 = Some (CTC T P)).
  { apply wr_same. rewrite L4. eapply nth_error_some_lt; eauto. }
  assert (VS : map (rdvec (wr h4 n1 (CTC T P))) rows1 = map (rdvec h) rows).
  { apply map_eq_nth; [rewrite map_length; lia|].
    intros i a Ha. rewrite nth_error_map.
    destruct (nth_error orows i) as [o|] eqn:Ho; [|apply nth_error_None in Ho; apply nth_error_some_lt in Ha; lia].
    assert (Ia : In a rows1) by (eapply nth_error_In; eauto).
    assert (RA : rdvec (wr h4 n1 (CTC T P)) a = rdvec h3 o).
    { apply rdvec_of. rewrite wr_other by (intros E; subst; contradiction). exact (HIT i a o Ha Ho). }
    rewrite RA. assert (Io : In o orows) by (eapply nth_error_In; eauto).
    assert (R31 : rdvec h3 o = rdvec h1 o) by (unfold rdvec; rewrite OLD3; auto).
    rewrite R31.
    assert (E1 : nth_error (map (rdvec h1) orows) i = Some (rdvec h1 o)) by (apply map_nth_error; exact Ho).
    rewrite RV1 in E1. rewrite nth_error_map in E1.
    destruct (nth_error rows i); inversion E1; subst; reflexivity. }
  unfold obs_plus, observe. rewrite Etc. unfold rdtc. rewrite Nt, Ni. unfold rdrows. rewrite Nd. rewrite VS.
  cbn [o_multi o_phases o_rows o_T o_P o_price o_cf o_id]. rewrite Epr, Ecf, Eid. unfold newid.
  destruct (sid_ s); try congruence; reflexivity.
Qed.

Record mat_ok' (h : heap) (r : ref) (k : nat) (phs : list nat) (d : ref) (rows : list ref) : Prop := {
  m_idx' : nth_error h r = Some (CIdxM k phs d);
  m_arr' : nth_error h d = Some (CArr rows);
  m_len' : length rows = length phs;
  m_nodup' : NoDup rows;
  m_vec' : forall x, In x rows -> exists v, nth_error h x = Some (CVec v) }.

(* MaterialIndexer.blank for ANY phase tuple (upper-case phases included) *)
Lemma mat_blank_ok' h k phs h' m : mat_blank pk h k phs = (h', m) ->
  mat_ok' h' m k phs (length h + length phs) (seq (length h) (length phs)) /\
  (exists e, h' = h ++ e) /\ m = S (length h + length phs) /\ length h' = S (S (length h + length phs)) /\
  (forall x, In x (seq (length h) (length phs)) -> nth_error h' x = Some (CVec (zeros pk k))).
Proof.
  unfold mat_blank, alloc_vecs. intros E. inversion E; subst h' m; clear E.
  set (vs := map (fun _ : nat => zeros pk k) phs).
  assert (LV : length vs = length phs) by (unfold vs; apply map_length). rewrite LV.
  set (n := length h). set (q := length phs).
  assert (LA : length (h ++ map CVec vs) = n + q) by (rewrite app_length, map_length, LV; reflexivity).
  rewrite LA.
  set (e := map CVec vs ++ [CArr (seq n q); CIdxM k phs (n + q)]).
  assert (HE : ((h ++ map CVec vs) ++ [CArr (seq n q)]) ++ [CIdxM k phs (n + q)] = h ++ e).
  { unfold e. rewrite <- !app_assoc. reflexivity. }
  assert (LB : length ((h ++ map CVec vs) ++ [CArr (seq n q)]) = S (n + q)) by (rewrite app_length, LA; simpl; lia).
  rewrite LB, HE.
  assert (NEW : forall j c, nth_error [CArr (seq n q); CIdxM k phs (n + q)] j = Some c -> nth_error (h ++ e) (n + q + j) = Some c).
  { intros j c Hj. unfold e. rewrite app_assoc. replace (n + q + j) with (length (h ++ map CVec vs) + j) by (rewrite LA; lia).
    rewrite nth_error_app_new. exact Hj. }
  assert (N1 : nth_error (h ++ e) (n + q) = Some (CArr (seq n q))).
  { replace (n + q) with (n + q + 0) by lia. apply NEW. reflexivity. }
  assert (N2 : nth_error (h ++ e) (S (n + q)) = Some (CIdxM k phs (n + q))).
  { replace (S (n + q)) with (n + q + 1) by lia. apply NEW. reflexivity. }
  assert (VV : forall x, In x (seq n q) -> nth_error (h ++ e) x = Some (CVec (zeros pk k))).
  { intros x Hx. apply in_seq in Hx. replace x with (n + (x - n)) by lia. unfold n. rewrite nth_error_app_new.
    unfold e. rewrite nth_error_app_l by (rewrite map_length, LV; lia). unfold vs. rewrite map_map, nth_error_map.
    destruct (nth_error phs (x - length h)) eqn:EN; [reflexivity|]. apply nth_error_None in EN. fold q in EN. fold n in EN. lia. }
  split; [|split; [eauto|split; [reflexivity|split; [|exact VV]]]].
  - constructor; auto.
    + apply seq_length.
    + apply seq_NoDup.
    + intros x Hx. eexists. apply VV. exact Hx.
  - rewrite app_length. unfold e. rewrite app_length, map_length, LV. simpl. lia.
Qed.

(* the same for ANY sorted tuple of valid phases, the upper-case phases included *)
Lemma reduce_multi_any h s k phs d rows T P h' n :
  nth_error h (imol s) = Some (CIdxM k phs d) -> nth_error h d = Some (CArr rows) ->
  nth_error h (tc s) = Some (CTC T P) -> sinc phs -> forallb valid_phase phs = true -> 2 <= length phs -> length rows = length phs ->
  thermo s = k -> sid_ s <> IdNone -> reduce pk h s = Ok (h', n) ->
  obs_plus h' n = (true, phs, map (rdvec h) rows, T, P, price s, cf s, sid_ s).
Proof.
  intros Hi Hd Ht SI VA L2 LR TH ID R.
  destruct (imol_copy_multi_spec h (imol s) k phs d rows Hi Hd) as (h1 & dimol & dd & IC & (e1 & HE1) & Hdi & Hdd & RV1 & Lh1 & Edi & Edd).
  unfold reduce in R. rewrite IC in R. cbn [bind] in R. unfold rdtc in R. rewrite Ht in R.
  unfold is_multi in R. rewrite Hi in R. rewrite TH in R.
  (* cls.__init__ *)
  unfold new_multi in R.
  assert (TV : tc_valid T0 P0 = true) by (vm_compute; reflexivity). rewrite TV in R.
  change (phase_tuple [3; 2]) with (Ok (A := list nat) [2; 3]) in R. cbn [bind] in R.
  destruct (mat_blank pk (h1 ++ [CTC T0 P0]) k [2; 3]) as [h2 m] eqn:B0.
  destruct (mat_blank_ok' _ k [2; 3] h2 m B0) as (MA0 & (e2 & HE2) & Em & Lh2 & ZR0).
  cbn [fill_rows bind] in R.
  rewrite app_length in MA0, Em, Lh2, ZR0. simpl length in MA0, Em, Lh2, ZR0.
  set (n1 := length h1) in *.
  (* everything of h1 is still in h2 *)
  assert (OLD2 : forall x, x < n1 -> nth_error h2 x = nth_error h1 x).
  { intros x Lx. rewrite HE2. rewrite <- app_assoc. apply nth_error_app_l. exact Lx. }
  assert (TC2 : nth_error h2 n1 = Some (CTC T0 P0)).
  { rewrite HE2. rewrite <- app_assoc. unfold n1. rewrite nth_error_app_new0. reflexivity. }
  set (newid := match sid_ s with IdNone => IdAuto | x => x end) in *.
  set (n0 := mkstream m n1 (price s) (cf s) newid k) in *.
  (* self.phases = phases *)
  assert (SP : exists h3 n1' d1 rows1,
     set_phases pk h2 n0 phs = (h3, n1', None) /\ mat_ok' h3 (imol n1') k phs d1 rows1 /\
     (exists e, h3 = h2 ++ e) /\ (forall x, In x (imol n1' :: d1 :: rows1) -> n1 < x) /\
     tc n1' = n1 /\ price n1' = price s /\ cf n1' = cf s /\ sid_ n1' = newid).
  { unfold set_phases. cbn [imol n0]. rewrite (m_idx' _ _ _ _ _ _ MA0).
    rewrite (sort_set_id phs SI).
    assert (PT : phase_tuple phs = Ok phs) by (unfold phase_tuple; rewrite VA, (sort_set_id phs SI); reflexivity).
    destruct phs as [|p1 [|p2 l]]; simpl in L2; try lia.
    remember (p1 :: p2 :: l) as phs eqn:EP. rewrite PT.
    destruct (same_phases phs [2; 3]) eqn:SAME.
    - apply list_eqb_nat in SAME. exists h2, n0, (n1 + 1 + 2), (seq (n1 + 1) 2). rewrite SAME in *.
      split; [reflexivity|]. split; [exact MA0|]. split; [exists []; rewrite app_nil_r; reflexivity|].
      split; [|repeat split; reflexivity].
      intros x [E|[E|Hx]]; [cbn [imol n0] in E; lia|lia|apply in_seq in Hx; lia].
    - unfold mat_to_material. rewrite (m_idx' _ _ _ _ _ _ MA0).
      destruct (mat_blank pk h2 k phs) as [h3 m'] eqn:B1.
      destruct (mat_blank_ok' h2 k phs h3 m' B1) as (MA1 & (e3 & HE3) & Em' & Lh3 & ZR1).
      assert (R0 : rdrows h2 (n1 + 1 + 2) = seq (n1 + 1) 2).
      { unfold rdrows. rewrite (m_arr' _ _ _ _ _ _ MA0). reflexivity. }
      rewrite R0.
      rewrite move_rows_zero.
      + cbn [bind]. exists h3, (set_imol n0 m'), (length h2 + length phs), (seq (length h2) (length phs)).
        split; [reflexivity|]. split; [exact MA1|]. split; [eauto|]. split; [|repeat split; reflexivity].
        rewrite Lh2. intros x [E|[E|Hx]]; [cbn [imol set_imol] in E; lia|lia|apply in_seq in Hx; lia].
      + intros o Ho. unfold rdvec. rewrite HE3. rewrite nth_error_app_l.
        * rewrite (ZR0 o Ho). apply any_nz_vzero.
        * apply in_seq in Ho. rewrite Lh2. lia. }
  destruct SP as (h3 & n1' & d1 & rows1 & SPE & MA & (e3 & HE3) & FRESH & Etc & Epr & Ecf & Eid).
  rewrite SPE in R.
  pose proof MA as [Hr3 Hd3 LEN3 ND3 VEC3].
  assert (L12 : n1 <= length h2) by (rewrite Lh2; lia).
  assert (OLD3 : forall x, x < n1 -> nth_error h3 x = nth_error h1 x).
  { intros x Lx. rewrite HE3. rewrite nth_error_app_l by lia. apply OLD2. exact Lx. }
  assert (TC3 : nth_error h3 n1 = Some (CTC T0 P0)).
  { rewrite HE3. rewrite nth_error_app_l by (rewrite Lh2; lia). exact TC2. }
  assert (Ldi : dimol < n1) by (unfold n1; lia). assert (Ldd : dd < n1) by (unfold n1; lia).
  (* self._imol.copy_like(data._imol) *)
  unfold imol_copy_like in R. rewrite Hr3 in R. rewrite (OLD3 dimol Ldi), Hdi in R.
  unfold mat_copy_like_m in R.
  assert (Q : Nat.eqb (imol n1') dimol = false).
  { apply Nat.eqb_neq. intros E. assert (n1 < imol n1') by (apply FRESH; simpl; auto). lia. }
  rewrite Q, Hr3 in R. rewrite (OLD3 dimol Ldi), Hdi in R. rewrite Nat.eqb_refl in R.
  assert (SS : same_phases phs phs = true) by (apply list_eqb_nat; reflexivity). rewrite SS in R.
  assert (R3 : rdrows h3 d1 = rows1) by (unfold rdrows; rewrite Hd3; reflexivity).
  assert (R3o : rdrows h3 dd = seq (length h) (length rows)).
  { unfold rdrows. rewrite (OLD3 dd Ldd), Hdd. reflexivity. }
  rewrite R3, R3o in R.
  set (orows := seq (length h) (length rows)) in *.
  assert (LO : forall o, In o orows -> o < n1). { intros o Ho. apply in_seq in Ho. unfold n1. lia. }
  assert (LEQ : length rows1 = length orows) by (unfold orows; rewrite seq_length; lia).
  assert (LT3 : forall x, In x rows1 -> x < length h3) by (intros x Hx; (destruct (VEC3 x Hx) as (vx & Hvx); eapply nth_error_some_lt; eauto)).
  assert (DJ : forall o, In o orows -> ~ In o rows1).
  { intros o Ho Hx. assert (n1 < o) by (apply FRESH; simpl; auto). specialize (LO o Ho). lia. }
  destruct (zip_rows_spec (fun v => v) rows1 orows h3 LEQ ND3 LT3 DJ) as [OUT HIT].
  set (h4 := zip_rows h3 rows1 orows (fun v => v)) in *.
  rewrite Etc in R. inversion R; subst h' n; clear R.
  (* observation *)
  assert (NTC : ~ In n1 rows1). { intros Hx. assert (n1 < n1) by (apply FRESH; simpl; auto). lia. }
  assert (Ni : nth_error (wr h4 n1 (CTC T P)) (imol n1') = Some (CIdxM k phs d1)).
  { assert (n1 < imol n1') by (apply FRESH; simpl; auto). rewrite wr_other by lia. unfold h4. rewrite OUT; auto.
    intros Hx. destruct (VEC3 _ Hx) as (v & Hv). rewrite Hr3 in Hv. discriminate. }
  assert (Nd : nth_error (wr h4 n1 (CTC T P)) d1 = Some (CArr rows1)).
  { assert (n1 < d1) by (apply FRESH; simpl; auto). rewrite wr_other by lia. unfold h4. rewrite OUT; auto.
    intros Hx. destruct (VEC3 _ Hx) as (v & Hv). rewrite Hd3 in Hv. discriminate. }
  assert (L4 : length h4 = length h3) by (unfold h4; apply zip_rows_len_local).
  assert (Nt : nth_error (wr h4 n1 (CTC T P)) n1 = Some (CTC T P)).
  { apply wr_same. rewrite L4. eapply nth_error_some_lt; eauto. }
  assert (VS : map (rdvec (wr h4 n1 (CTC T P))) rows1 = map (rdvec h) rows).
  { apply map_eq_nth; [rewrite map_length; lia|].
    intros i a Ha. rewrite nth_error_map.
    destruct (nth_error orows i) as [o|] eqn:Ho; [|apply nth_error_None in Ho; apply nth_error_some_lt in Ha; lia].
    assert (Ia : In a rows1) by (eapply nth_error_In; eauto).
    assert (RA : rdvec (wr h4 n1 (CTC T P)) a = rdvec h3 o).
    { apply rdvec_of. rewrite wr_other by (intros E; subst; contradiction). exact (HIT i a o Ha Ho). }
    rewrite RA. assert (Io : In o orows) by (eapply nth_error_In; eauto).
    assert (R31 : rdvec h3 o = rdvec h1 o) by (unfold rdvec; rewrite OLD3; auto).
    rewrite R31.
    assert (E1 : nth_error (map (rdvec h1) orows) i = Some (rdvec h1 o)) by (apply map_nth_error; exact Ho).
    rewrite RV1 in E1. rewrite nth_error_map in E1.
    destruct (nth_error rows i); inversion E1; subst; reflexivity. }
  unfold obs_plus, observe. rewrite Etc. unfold rdtc. rewrite Nt, Ni. unfold rdrows. rewrite Nd. rewrite VS.
  cbn [o_multi o_phases o_rows o_T o_P o_price o_cf o_id]. rewrite Epr, Ecf, Eid. unfold newid.
  destruct (sid_ s); try congruence; reflexivity.
Qed.
End ReduceMulti.

(* ================================================================= reduce for every kind of stream *)
Section ReduceAll.
Variable pk : list (list nat).

(* what from_data(get_data(), ID, price, characterization_factors, thermo) must reproduce: the whole observable state;
   only the class changes for a MultiStream holding one phase (phases = (p,) makes it a single-phase Stream) *)
Definition reduce_expect (o : bool * list nat * list vec * Q * Q * Q * list (nat * Q) * sid) :=
  let '(m, phs, rows, T, P, pr, c, i) := o in
  (match phs with [_] => false | _ => m end, phs, rows, T, P, pr, c, i).

Lemma reduce_all h s h' n :
  stream_ok h s -> thermo s = stream_pkg h s -> sid_ s <> IdNone -> reduce pk h s = Ok (h', n) ->
  obs_plus h' n = reduce_expect (obs_plus h s).
Proof.
  intros [(T & P & Ht) OK] TH ID R. unfold stream_pkg in TH.
  destruct (nth_error h (imol s)) as [[| | | |k pb d|k phs d]|] eqn:Hi; try contradiction.
  - (* single-phase Stream *)
    destruct OK as [(p & Hp & PP) (v & Hv)].
    rewrite (reduce_stream pk h s k pb d p v T P h' n Hi Hp Hv Ht (plain_valid _ PP) TH ID R).
    unfold obs_plus, observe, rdtc. rewrite Ht, Hi. unfold rdphase, rdvec. rewrite Hp, Hv. reflexivity.
  - destruct OK as [MA NE]. pose proof MA as [_ Hd GP LEN _ VEC].
    assert (OS : obs_plus h s = (true, phs, map (rdvec h) (rdrows h d), T, P, price s, cf s, sid_ s)).
    { unfold obs_plus, observe, rdtc. rewrite Ht, Hi. reflexivity. }
    rewrite OS. unfold reduce_expect.
    destruct phs as [|p [|p2 l]]; [congruence| |].
    + (* MultiStream holding one phase *)
      destruct (rdrows h d) as [|rb [|rb2 lr]] eqn:RB; simpl in LEN; try discriminate.
      destruct (VEC rb (or_introl eq_refl)) as (vb & Hvb).
      assert (PP : plainp p). { destruct GP as [_ PL]. inversion PL; auto. }
      rewrite (reduce_multi1 pk h s k p d rb vb T P h' n Hi Hd Hvb Ht (plain_valid _ PP) TH ID R).
      simpl. rewrite (rdvec_of _ _ _ Hvb). reflexivity.
    + (* two or more phases *)
      assert (L2 : 2 <= length (p :: p2 :: l)) by (simpl; lia).
      exact (reduce_multi pk h s k (p :: p2 :: l) d (rdrows h d) T P h' n Hi Hd Ht GP L2 LEN TH ID R).
Qed.
End ReduceAll.

(* ================================================================= the view dict over histories of single-phase Streams *)
(* heap steps: cells keep their kind, references stay valid, and ChemicalIndexer cells of old references do not change *)
Definition leafk (k : nat) : Prop := k = 0 \/ k = 2 \/ k = 3.
Definition cfix (h h' : heap) : Prop :=
  forall r, r < length h -> forall k pb d, nth_error h' r = Some (CIdxC k pb d) <-> nth_error h r = Some (CIdxC k pb d).
Definition gstep (h h' : heap) : Prop := ext h h' /\ hwf h' /\ cfix h h'.

Lemma cfix_refl h : cfix h h.
Proof. intros r _ k pb d. tauto. Qed.
Lemma gstep_refl h : hwf h -> gstep h h.
Proof. intros W. split; [apply ext_refl|split; [exact W|apply cfix_refl]]. Qed.
Lemma gstep_trans h h1 h2 : gstep h h1 -> gstep h1 h2 -> gstep h h2.
Proof.
  intros (E1 & W1 & C1) (E2 & W2 & C2). split; [eapply ext_trans; eauto|]. split; auto.
  intros r Lr k pb d. pose proof (ext_length _ _ E1). rewrite (C2 r ltac:(lia)). apply C1. exact Lr.
Qed.
Lemma gstep_app h e : hwf h -> (forall c, In c e -> cell_ok (h ++ e) c) -> gstep h (h ++ e).
Proof.
  intros W CE. split; [apply ext_app|]. split; [apply hwf_app; auto|].
  intros r Lr k pb d. rewrite nth_error_app_l by exact Lr. tauto.
Qed.
Lemma gstep_leaf h x c k : hwf h -> is_kind h x k -> leafk k -> kind c = k -> gstep h (wr h x c).
Proof.
  intros W K LK KC.
  assert (HK : forall c0, nth_error h x = Some c0 -> kind c0 = kind c).
  { intros c0 H0. destruct K as (c1 & H1 & K1). congruence. }
  split; [apply ext_wr; auto|]. split; [apply hwf_wr; auto; apply leaf_cell_ok; rewrite KC; exact LK|].
  intros r Lr k0 pb d. destruct (Nat.eq_dec x r) as [-> | N].
  - rewrite wr_same by auto. destruct K as (c1 & H1 & K1). rewrite H1.
    split; intros E; inversion E; subst; simpl in *; destruct LK as [L|[L|L]]; try lia; rewrite <- KC in L; simpl in L; lia.
  - rewrite wr_other by auto. tauto.
Qed.

Definition chemP (h : heap) (s : stream) : Prop := exists k pb d, nth_error h (imol s) = Some (CIdxC k pb d).
Definition fupd (sg : nat -> ref * ref) (n : nat) (x : ref * ref) : nat -> ref * ref :=
  fun c => if Nat.eqb c n then x else sg c.

(* the invariant: a typed heap of single-phase streams, every dict binding is about an allocated ChemicalIndexer, and
   every dict has one signature (Phase object, data vector) that all its holders carry and that its mass view wraps *)
Record SW (st : state) : Prop := {
  sw_hwf : hwf (hp st);
  sw_swf : Forall (swf (hp st)) (ss st);
  sw_chem : Forall (chemP (hp st)) (ss st);
  sw_inv : inv st;
  sw_dict : forall r c, lookup r (cmap st) = Some c -> c < length (caches st);
  sw_keys : forall r c, lookup r (cmap st) = Some c -> exists k pb d, nth_error (hp st) r = Some (CIdxC k pb d);
  sw_sig : exists sg : nat -> ref * ref,
      (forall r c k pb d, lookup r (cmap st) = Some c -> nth_error (hp st) r = Some (CIdxC k pb d) -> sg c = (pb, d)) /\
      (forall c v, c < length (caches st) -> nth c (caches st) None = Some v -> v = mkview [snd (sg c)] (Some (fst (sg c))) []) }.

(* what the invariant is for: a cached mass view wraps exactly the data vector and the Phase object of its indexer *)
Lemma SW_view st r c v k pb d : SW st -> lookup r (cmap st) = Some c -> nth c (caches st) None = Some v ->
  nth_error (hp st) r = Some (CIdxC k pb d) -> v = mkview [d] (Some pb) [].
Proof.
  intros [_ _ _ _ DI _ (sg & SG & VW)] L Hv Hc. rewrite (VW c v (DI _ _ L) Hv). rewrite (SG _ _ _ _ _ L Hc). reflexivity.
Qed.

Lemma lookup_lt st r c : inv st -> lookup r (cmap st) = Some c -> r < length (hp st).
Proof.
  intros [_ C] L. unfold cmap_lt in C. induction (cmap st) as [|[k0 c0] m IH]; simpl in L; [discriminate|].
  inversion C; subst. destruct (Nat.eqb k0 r) eqn:E; [apply Nat.eqb_eq in E; subst; auto|auto].
Qed.

(* a heap step that leaves the view layer alone *)
Lemma SW_heap st h' l' : SW st -> gstep (hp st) h' -> Forall (swf h') l' -> Forall (chemP h') l' ->
  SW (mkstate h' l' (cmap st) (caches st)).
Proof.
  intros [W S C I DI KE (sg & SG & VW)] (E & W' & CF) S' C'.
  assert (LL : length (hp st) <= length h') by (apply ext_length; auto).
  assert (BL : forall r c, lookup r (cmap st) = Some c -> r < length (hp st)) by (intros; eapply lookup_lt; eauto).
  constructor; simpl; [exact W'|exact S'|exact C'| |exact DI| |].
  - split; unfold store_lt, cmap_lt; simpl.
    + apply Forall_forall. intros s Hs. rewrite Forall_forall in C'. destruct (C' s Hs) as (k & pb & d & H).
      eapply nth_error_some_lt; eauto.
    + destruct I as [_ CL]. unfold cmap_lt in CL. eapply Forall_impl; [|exact CL]. simpl. intros; lia.
  - intros r c L. destruct (KE r c L) as (k & pb & d & H). exists k, pb, d. apply (CF r (BL r c L)). exact H.
  - exists sg. split; [|exact VW]. intros r c k pb d L H. apply (CF r (BL r c L)) in H. exact (SG r c k pb d L H).
Qed.

Lemma chemP_gstep h h' s : gstep h h' -> chemP h s -> chemP h' s.
Proof.
  intros (_ & _ & CF) (k & pb & d & H). exists k, pb, d. apply CF; auto. eapply nth_error_some_lt; eauto.
Qed.
Lemma swf_gstep h h' s : gstep h h' -> swf h s -> swf h' s.
Proof. intros (E & _ & _). apply swf_ext. exact E. Qed.

Lemma SW_in st i s : SW st -> nth_error (ss st) i = Some s -> swf (hp st) s /\ chemP (hp st) s.
Proof.
  intros SWs Hs. pose proof (nth_error_In _ _ Hs) as I. split.
  - pose proof (sw_swf _ SWs) as F. rewrite Forall_forall in F. auto.
  - pose proof (sw_chem _ SWs) as F. rewrite Forall_forall in F. auto.
Qed.

(* operations that only step the heap and keep the record of their target *)
Lemma SW_on1_same st i s h' : SW st -> nth_error (ss st) i = Some s -> gstep (hp st) h' ->
  SW (mkstate h' (upd (ss st) i s) (cmap st) (caches st)).
Proof.
  intros SWs Hs G. destruct (SW_in _ _ _ SWs Hs) as [S1 C1]. apply SW_heap; auto.
  - apply Forall_upd; [|apply (swf_gstep _ _ _ G); auto].
    eapply Forall_impl; [|exact (sw_swf _ SWs)]. intros a. apply swf_gstep; auto.
  - apply Forall_upd; [|apply (chemP_gstep _ _ _ G); auto].
    eapply Forall_impl; [|exact (sw_chem _ SWs)]. intros a. apply chemP_gstep; auto.
Qed.

(* ... and the ones that append a new stream *)
Lemma SW_new st h' c : SW st -> gstep (hp st) h' -> swf h' c -> chemP h' c ->
  SW (mkstate h' (ss st ++ [c]) (cmap st) (caches st)).
Proof.
  intros SWs G S1 C1. apply SW_heap; auto; apply Forall_app; split; try (constructor; auto).
  - eapply Forall_impl; [|exact (sw_swf _ SWs)]. intros a. apply swf_gstep; auto.
  - eapply Forall_impl; [|exact (sw_chem _ SWs)]. intros a. apply chemP_gstep; auto.
Qed.

Section Frag.
Variables (pk : list (list nat)) (mw : list Q).

(* the mutators on a single-phase stream are leaf writes *)
Lemma mut_gstep h s m h' s' e : hwf h -> swf h s -> chemP h s -> apply_mut pk h s m = (h', s', e) -> gstep h h' /\ s' = s.
Proof.
  intros W SWs (k & pb & d & Hi) A. destruct (footprint_chem _ _ _ _ _ W Hi) as [Kp Kd].
  assert (Kt : is_kind h (tc s) 3) by apply SWs.
  destruct m; simpl in A.
  - unfold set_flow, data_rows in A. rewrite Hi in A. destruct r as [|[|r]]; simpl in A; inversion A; subst; split; auto;
      try (apply gstep_refl; auto). apply (gstep_leaf _ _ _ 0 W Kd); [left; reflexivity|reflexivity].
  - unfold set_T in A. inversion A; subst. split; auto. apply (gstep_leaf _ _ _ 3 W Kt); [right; right; reflexivity|reflexivity].
  - unfold set_P in A. inversion A; subst. split; auto. apply (gstep_leaf _ _ _ 3 W Kt); [right; right; reflexivity|reflexivity].
  - unfold set_phase in A. rewrite Hi in A. destruct (valid_phase p); inversion A; subst; split; auto; [|apply gstep_refl; auto].
    apply (gstep_leaf _ _ _ 2 W Kp); [right; left; reflexivity|reflexivity].
  - unfold scale, data_rows in A. rewrite Hi in A. inversion A; subst. split; auto.
    apply (gstep_leaf _ _ _ 0 W Kd); [left; reflexivity|reflexivity].
  - unfold empty, data_rows in A. rewrite Hi in A. inversion A; subst. split; auto.
    apply (gstep_leaf _ _ _ 0 W Kd); [left; reflexivity|reflexivity].
  - unfold copy_tc, tc_copy_like in A. destruct (rdtc h (tc o)). inversion A; subst. split; auto.
    apply (gstep_leaf _ _ _ 3 W Kt); [right; right; reflexivity|reflexivity].
  - unfold copy_phase in A. destruct (nth_error h (imol o)) as [[| | | |ko pbo od|]|]; try (inversion A; subst; split; auto; apply gstep_refl; auto).
    rewrite Hi in A. inversion A; subst. split; auto. apply (gstep_leaf _ _ _ 2 W Kp); [right; left; reflexivity|reflexivity].
Qed.

(* Stream.copy_like(Stream): up to three leaf writes and then T, P *)
Lemma copy_like_chem_gstep h s o h' s' e : hwf h -> swf h s -> chemP h s -> chemP h o ->
  copy_like pk h s o = (h', s', e) -> gstep h h' /\ s' = s.
Proof.
  intros W SWs (k & pb & d & Hi) (ko & pbo & od & Ho) CL.
  destruct (footprint_chem _ _ _ _ _ W Hi) as [Kp Kd]. assert (Kt : is_kind h (tc s) 3) by apply SWs.
  unfold copy_like in CL. rewrite Hi, Ho in CL.
  assert (STEP2 : forall h1 p, gstep h h1 ->
            gstep h (fst (if valid_phase p then (wr h1 pb (CPhase p), @None err) else (h1, Some ERuntime)))).
  { intros h1 p G. destruct (valid_phase p); simpl; auto. eapply gstep_trans; [exact G|].
    apply (gstep_leaf h1 pb _ 2); [apply G|destruct G as (E & _); apply E; exact Kp|right; left; reflexivity|reflexivity]. }
  assert (LEAFD : forall v, gstep h (wr h d (CVec v))) by (intros v; apply (gstep_leaf _ _ _ 0 W Kd); [left; reflexivity|reflexivity]).
  assert (CCL : gstep h (fst (chem_copy_like pk h (imol s) (mkcsrc ko (rdphase h pbo) od (Some (imol o)))))).
  { unfold chem_copy_like. rewrite Hi. cbn [c_self c_pkg c_data c_phase].
    destruct (opt_eqb Nat.eqb (Some (imol o)) (Some (imol s))); simpl; [apply gstep_refl; auto|].
    destruct (Nat.eqb k ko).
    - apply STEP2. destruct (Nat.eqb d od); [apply gstep_refl; auto|apply LEAFD].
    - destruct (missing _ _ _); simpl; [apply LEAFD|]. apply STEP2.
      eapply gstep_trans; [apply LEAFD|]. apply (gstep_leaf _ d _ 0); [apply (LEAFD (zero_like (rdvec h d)))| |left; reflexivity|reflexivity].
      destruct (LEAFD (zero_like (rdvec h d))) as (E & _). apply E. exact Kd. }
  destruct (chem_copy_like pk h (imol s) _) as [h1 e1]. simpl in CCL.
  destruct e1; inversion CL; subst h' s' e; split; auto.
  unfold tc_copy_like. destruct (rdtc h1 (tc o)). eapply gstep_trans; [exact CCL|].
  apply (gstep_leaf h1 (tc s) _ 3); [apply CCL|destruct CCL as (E & _); apply E; exact Kt|right; right; reflexivity|reflexivity].
Qed.
End Frag.

Lemma gstep_of_ext h e : hwf (h ++ e) -> gstep h (h ++ e).
Proof.
  intros W. split; [apply ext_app|split; auto]. intros r Lr k pb d. rewrite nth_error_app_l by exact Lr. tauto.
Qed.

Lemma chem_of_obs h s m ph rows T P : swf h s -> obs h s = (m, ph, rows, T, P) -> m = false -> chemP h s.
Proof.
  intros SWs O M. destruct (swf_cases _ _ SWs) as [[(k & pb & d & Hi)|(k & phs & d & Hi)] _]; [exists k, pb, d; exact Hi|].
  unfold obs, observe in O. rewrite Hi in O. destruct (rdtc h (tc s)). simpl in O. inversion O. congruence.
Qed.

Lemma obs_chem h s : chemP h s -> exists ph rows T P, obs h s = (false, ph, rows, T, P).
Proof.
  intros (k & pb & d & Hi). unfold obs, observe. rewrite Hi. destruct (rdtc h (tc s)). simpl. eauto.
Qed.

Lemma flow_proxy_ext h s h2 p : flow_proxy h s = Ok (h2, p) -> exists e, h2 = h ++ e.
Proof.
  unfold flow_proxy. destruct (nth_error h (imol s)) as [[| | | |k pb d|k phs d]|]; try discriminate.
  - unfold tc_copy. destruct (rdtc _ (tc s)). destruct (tc_valid q q0); cbn [bind]; [|discriminate].
    intros H; inversion H; subst. rewrite <- app_assoc. eauto.
  - unfold tc_copy. destruct (rdtc _ (tc s)). destruct (tc_valid q q0); cbn [bind]; [|discriminate].
    intros H; inversion H; subst. rewrite <- app_assoc. eauto.
Qed.

Lemma new_single_step h i k p v T P pr c h2 n : hwf h -> new_single h i k p v T P pr c = Ok (h2, n) ->
  gstep h h2 /\ swf h2 n /\ chemP h2 n.
Proof.
  intros W. unfold new_single. destruct (tc_valid T P); [|discriminate]. unfold chem_new.
  rewrite app_length. simpl length. intros H; inversion H; subst h2 n; clear H.
  rewrite <- app_assoc. simpl app.
  set (e := [CTC T P; CPhase p; CVec v; CIdxC k (length h + 1) (S (length h + 1))]).
  assert (N0 : nth_error (h ++ e) (length h) = Some (CTC T P)) by (rewrite nth_error_app_new0; reflexivity).
  assert (N1 : nth_error (h ++ e) (length h + 1) = Some (CPhase p)) by (rewrite nth_error_app_new; reflexivity).
  assert (N2 : nth_error (h ++ e) (S (length h + 1)) = Some (CVec v)).
  { replace (S (length h + 1)) with (length h + 2) by lia. rewrite nth_error_app_new. reflexivity. }
  assert (N3 : nth_error (h ++ e) (S (S (length h + 1))) = Some (CIdxC k (length h + 1) (S (length h + 1)))).
  { replace (S (S (length h + 1))) with (length h + 3) by lia. rewrite nth_error_app_new. reflexivity. }
  assert (W2 : hwf (h ++ e)).
  { apply hwf_app; auto. intros c0 [<-|[<-|[<-|[<-|[]]]]]; simpl; auto. split; eexists; split; eauto. }
  split; [apply gstep_of_ext; auto|]. split.
  - split; simpl; [left; eexists; split; [exact N3|reflexivity]|eexists; split; [exact N0|reflexivity]].
  - exists k, (length h + 1), (S (length h + 1)). exact N3.
Qed.

(* ---------- the dict layer ---------- *)
Lemma lookup_unbind_some r x m c : lookup x (unbind r m) = Some c -> x <> r /\ lookup x m = Some c.
Proof.
  intros H. destruct (Nat.eq_dec x r) as [-> | N]; [rewrite lookup_unbind in H; discriminate|].
  split; auto. rewrite lookup_unbind_other in H; auto.
Qed.
Lemma fupd_same sg n x : fupd sg n x n = x.
Proof. unfold fupd. rewrite Nat.eqb_refl. reflexivity. Qed.
Lemma fupd_other sg n x c : c <> n -> fupd sg n x c = sg c.
Proof. intros N. unfold fupd. destruct (Nat.eqb c n) eqn:E; [apply Nat.eqb_eq in E; congruence|reflexivity]. Qed.

Lemma unbind_lt r m n : Forall (fun kc : ref * nat => fst kc < n) m -> Forall (fun kc : ref * nat => fst kc < n) (unbind r m).
Proof. apply unbind_Forall. Qed.

Lemma SW_link st i j fl ph tp st' e : SW st -> link_step st i j fl ph tp = (st', e) -> SW st'.
Proof.
  intros SWs L. pose proof SWs as [W S C I DI KE (sg & SG & VW)].
  unfold link_step in L.
  destruct (nth_error (ss st) i) as [s|] eqn:Hs; [|inversion L; subst; exact SWs].
  destruct (nth_error (ss st) j) as [o|] eqn:Ho; [|inversion L; subst; exact SWs].
  destruct (SW_in _ _ _ SWs Hs) as [SS (k & pb & d & Hi)]. destruct (SW_in _ _ _ SWs Ho) as [SO (ko & pbo & od & Hoi)].
  assert (M : is_multi (hp st) s = false) by (unfold is_multi; rewrite Hi; reflexivity). rewrite M in L.
  unfold on2 in L. rewrite Hs, Ho in L. unfold link_with in L. rewrite Hi, Hoi in L.
  set (r := imol s) in *. set (r' := imol o) in *.
  set (cnew := CIdxC k (if ph then pbo else pb) (if fl then od else d)) in *.
  set (h' := wr (hp st) r cnew) in *.
  set (s1 := if tp then set_tc s (tc o) else s) in *.
  assert (Lr : r < length (hp st)) by (eapply nth_error_some_lt; eauto).
  destruct (footprint_chem _ _ _ _ _ W Hi) as [Kp Kd]. destruct (footprint_chem _ _ _ _ _ W Hoi) as [Kpo Kdo].
  assert (EX : ext (hp st) h'). { apply ext_wr. intros c0 H0. rewrite Hi in H0. inversion H0; reflexivity. }
  assert (W' : hwf h').
  { apply hwf_wr; auto. - intros c0 H0. rewrite Hi in H0. inversion H0; reflexivity.
    - unfold cnew; simpl. destruct ph, fl; auto. }
  assert (Nr : nth_error h' r = Some cnew) by (apply wr_same; auto).
  assert (OT : forall x, x <> r -> nth_error h' x = nth_error (hp st) x) by (intros x N; apply wr_other; auto).
  assert (L' : length h' = length (hp st)) by apply wr_length.
  assert (S1 : Forall (swf h') (upd (ss st) i s1)).
  { apply Forall_upd; [eapply Forall_impl; [|exact S]; intros a; apply swf_ext; auto|].
    unfold s1. destruct tp; split; simpl; try (left; eexists; split; [exact Nr|reflexivity]); apply EX; [apply SO|apply SS]. }
  assert (GC : forall a, chemP (hp st) a -> chemP h' a).
  { intros a (ka & pa & da & Ha). destruct (Nat.eq_dec (imol a) r) as [E|N].
    - unfold chemP. rewrite E, Nr. unfold cnew. eauto.
    - exists ka, pa, da. rewrite OT; auto. }
  assert (C1 : Forall (chemP h') (upd (ss st) i s1)).
  { apply Forall_upd; [eapply Forall_impl; [|exact C]; exact GC|].
    unfold chemP, s1. destruct tp; simpl; fold r; rewrite Nr; unfold cnew; eauto. }
  assert (I1 : store_lt (mkstate h' (upd (ss st) i s1) (cmap st) (caches st))).
  { unfold store_lt. simpl. apply Forall_forall. intros a Ha. rewrite Forall_forall in C1. destruct (C1 a Ha) as (? & ? & ? & H).
    eapply nth_error_some_lt; eauto. }
  assert (CLT : Forall (fun kc : ref * nat => fst kc < length h') (cmap st)).
  { destruct I as [_ CL]. unfold cmap_lt in CL. rewrite L'. exact CL. }
  assert (KC : forall x, (exists c0, lookup x (cmap st) = Some c0) \/ x = r ->
                exists k0 p0 d0, nth_error h' x = Some (CIdxC k0 p0 d0)).
  { intros x [(c0 & Lx) | ->]; [|rewrite Nr; unfold cnew; eauto].
    destruct (Nat.eq_dec x r) as [-> | N]; [rewrite Nr; unfold cnew; eauto|rewrite OT by auto; eapply KE; eauto]. }
  inversion L; subst st' e; clear L.
  destruct (tp && fl && (ph || false)) eqn:FULL.
  - destruct tp, fl, ph; simpl in FULL; try discriminate.
    assert (CN : cnew = CIdxC k pbo od) by reflexivity.
    unfold cache_share. cbn [cmap caches hp ss].
    destruct (Nat.eqb r r') eqn:RR.
    + (* linked with a holder of the very same indexer object: the cell is rewritten with its own content *)
      constructor; cbn [cmap caches hp ss]; auto; [split; auto|..].
      * intros x c0 Lx. apply KC. eauto.
      * exists sg. split; auto. intros x c0 k1 p1 d1 Lx Hx. destruct (Nat.eq_dec x r) as [-> | N].
        -- rewrite Nr, CN in Hx. injection Hx as <- <- <-. apply Nat.eqb_eq in RR. unfold r' in RR. fold r in Lx.
           assert (Lo : lookup r' (cmap st) = Some c0) by (unfold r'; rewrite <- RR; exact Lx). exact (SG r' c0 ko pbo od Lo Hoi).
        -- rewrite OT in Hx by auto. eapply SG; eauto.
    + apply Nat.eqb_neq in RR.
      destruct (lookup r' (cmap st)) as [c|] eqn:LO; cbn [cmap caches hp ss].
      * assert (LK : forall x c0, lookup x ((r, c) :: unbind r (cmap st)) = Some c0 ->
                       (x = r /\ c0 = c) \/ (x <> r /\ lookup x (cmap st) = Some c0)).
        { intros x c0. simpl. destruct (Nat.eqb r x) eqn:E.
          - apply Nat.eqb_eq in E. intros H; inversion H; auto.
          - intros H. right. apply lookup_unbind_some in H. tauto. }
        constructor; cbn [cmap caches hp ss]; auto.
        -- split; auto. unfold cmap_lt. cbn [cmap hp]. constructor; [simpl; lia|apply unbind_lt; exact CLT].
        -- intros x c0 Lx. destruct (LK _ _ Lx) as [[-> ->] | [N Lx']]; eapply DI; eauto.
        -- intros x c0 Lx. apply KC. destruct (LK _ _ Lx) as [[-> ->] | [N Lx']]; eauto.
        -- exists sg. split; auto. intros x c0 k1 p1 d1 Lx Hx. destruct (LK _ _ Lx) as [[-> ->] | [N Lx']].
           ++ rewrite Nr, CN in Hx. injection Hx as <- <- <-. exact (SG r' c ko pbo od LO Hoi).
           ++ rewrite OT in Hx by auto. eapply SG; eauto.
      * set (nc := length (caches st)).
        assert (LK : forall x c0, lookup x ((r, nc) :: (r', nc) :: unbind r (cmap st)) = Some c0 ->
                       (x = r /\ c0 = nc) \/ (x = r' /\ c0 = nc) \/ (x <> r /\ lookup x (cmap st) = Some c0)).
        { intros x c0. simpl. destruct (Nat.eqb r x) eqn:E.
          - apply Nat.eqb_eq in E. intros H; inversion H; auto.
          - destruct (Nat.eqb r' x) eqn:E2.
            + apply Nat.eqb_eq in E2. intros H; inversion H; auto.
            + intros H. right; right. apply lookup_unbind_some in H. tauto. }
        constructor; cbn [cmap caches hp ss]; auto.
        -- split; auto. unfold cmap_lt. cbn [cmap hp]. constructor; [simpl; lia|].
           constructor; [simpl; rewrite L'; eapply nth_error_some_lt; eauto|apply unbind_lt; exact CLT].
        -- intros x c0 Lx. rewrite app_length. simpl. destruct (LK _ _ Lx) as [[-> ->]|[[-> ->] | [N Lx']]]; try (unfold nc; lia).
           specialize (DI _ _ Lx'). lia.
        -- intros x c0 Lx. destruct (LK _ _ Lx) as [[-> ->]|[[-> ->] | [N Lx']]].
           ++ apply KC; auto. ++ rewrite OT by auto. eauto. ++ apply KC; eauto.
        -- exists (fupd sg nc (pbo, od)). split.
           ++ intros x c0 k1 p1 d1 Lx Hx. destruct (LK _ _ Lx) as [[-> ->]|[[-> ->] | [N Lx']]].
              ** rewrite Nr, CN in Hx. injection Hx as <- <- <-. apply fupd_same.
              ** rewrite OT in Hx by auto. rewrite Hoi in Hx. injection Hx as <- <- <-. apply fupd_same.
              ** rewrite OT in Hx by auto. rewrite fupd_other; [eapply SG; eauto|]. specialize (DI _ _ Lx'). unfold nc. lia.
           ++ intros c0 v Lc Hv. rewrite app_length in Lc. simpl in Lc. destruct (Nat.eq_dec c0 nc) as [-> | N].
              ** unfold nc in Hv. rewrite app_nth2 in Hv by lia. rewrite Nat.sub_diag in Hv. discriminate.
              ** rewrite app_nth1 in Hv by (unfold nc in N; lia). rewrite fupd_other by auto. apply VW; auto. unfold nc in N. lia.
  - (* not everything is linked: the stream gets a new empty dict *)
    unfold cache_reset. cbn [cmap caches hp ss].
    constructor; cbn [cmap caches hp ss]; auto.
    + split; auto. unfold cmap_lt. cbn [cmap hp]. apply unbind_lt. exact CLT.
    + intros x c0 Lx. apply lookup_unbind_some in Lx. eapply DI; apply Lx.
    + intros x c0 Lx. apply lookup_unbind_some in Lx. apply KC. left. exists c0. apply Lx.
    + exists sg. split; auto. intros x c0 k1 p1 d1 Lx Hx. apply lookup_unbind_some in Lx. destruct Lx as [N Lx].
      rewrite OT in Hx by auto. eapply SG; eauto.
Qed.

Lemma nth_upd_gen {A} (l : list A) c x d c' : nth c' (upd l c x) d = if Nat.eqb c c' then (if Nat.ltb c (length l) then x else d) else nth c' l d.
Proof.
  revert c c'; induction l as [|a l IH]; intros c c'; simpl.
  - destruct c, c'; simpl; auto. destruct (Nat.eqb c c'); auto.
  - destruct c as [|c], c' as [|c']; simpl; auto. rewrite IH. reflexivity.
Qed.

(* by_mass: the cached view, or a new one over the indexer's own vector and Phase object *)
Lemma SW_by_mass st i s : SW st -> nth_error (ss st) i = Some s ->
  SW (fst (by_mass st s)) /\ exists k pb d, nth_error (hp st) (imol s) = Some (CIdxC k pb d) /\ snd (by_mass st s) = [d].
Proof.
  intros SWs Hs. pose proof SWs as [W S C I DI KE (sg & SG & VW)].
  destruct (SW_in _ _ _ SWs Hs) as [SS (k & pb & d & Hi)]. set (r := imol s) in *.
  assert (Lr : r < length (hp st)) by (eapply nth_error_some_lt; eauto).
  unfold by_mass. fold r. destruct (view_of st r) as [v|] eqn:V.
  - split; [exact SWs|]. exists k, pb, d. split; auto. unfold view_of in V.
    destruct (lookup r (cmap st)) as [c|] eqn:L; [|discriminate].
    rewrite (SW_view st r c v k pb d SWs L V Hi). reflexivity.
  - assert (NV : new_view (hp st) s = mkview [d] (Some pb) []) by (unfold new_view; fold r; rewrite Hi; reflexivity).
    rewrite NV. unfold view_of in V.
    destruct (lookup r (cmap st)) as [c|] eqn:L; simpl fst; simpl snd.
    + split; [|exists k, pb, d; auto].
      constructor; cbn [cmap caches hp ss]; auto.
      * intros x c0 Lx. rewrite upd_length. eapply DI; eauto.
      * exists sg. split; auto. intros c0 v0 Lc. rewrite upd_length in Lc. rewrite nth_upd_gen.
        destruct (Nat.eqb c c0) eqn:E.
        -- apply Nat.eqb_eq in E. subst c0. assert (LT : Nat.ltb c (length (caches st)) = true) by (apply Nat.ltb_lt; auto).
           rewrite LT. intros H; inversion H; subst. rewrite (SG r c k pb d L Hi). reflexivity.
        -- apply VW; auto.
    + set (nc := length (caches st)).
      split; [|exists k, pb, d; auto].
      constructor; cbn [cmap caches hp ss]; auto.
      * destruct I as [SL CL]. split; auto. unfold cmap_lt. cbn [cmap hp]. constructor; auto.
      * intros x c0. simpl. rewrite app_length. simpl. destruct (Nat.eqb r x); [intros H; inversion H; unfold nc; lia|].
        intros Lx. specialize (DI _ _ Lx). lia.
      * intros x c0. simpl. destruct (Nat.eqb r x) eqn:E; [apply Nat.eqb_eq in E; subst x; intros _; eauto|apply KE].
      * exists (fupd sg nc (pb, d)). split.
        -- intros x c0 k1 p1 d1. simpl. destruct (Nat.eqb r x) eqn:E.
           ++ apply Nat.eqb_eq in E. subst x. intros H Hx. inversion H; subst c0. rewrite Hi in Hx. injection Hx as <- <- <-. apply fupd_same.
           ++ intros Lx Hx. rewrite fupd_other; [eapply SG; eauto|]. specialize (DI _ _ Lx). unfold nc. lia.
        -- intros c0 v0 Lc Hv. rewrite app_length in Lc. simpl in Lc. destruct (Nat.eq_dec c0 nc) as [-> | N].
           ++ unfold nc in Hv. rewrite app_nth2 in Hv by lia. rewrite Nat.sub_diag in Hv. simpl in Hv. inversion Hv; subst.
              rewrite fupd_same. reflexivity.
           ++ rewrite app_nth1 in Hv by (unfold nc in N; lia). rewrite fupd_other by auto. apply VW; auto. unfold nc in N. lia.
Qed.

Lemma SW_set_mass pk mw st i r0 c0 v st' e : SW st -> set_mass_step pk mw st i r0 c0 v = (st', e) -> SW st'.
Proof.
  intros SWs L. unfold set_mass_step in L. destruct (nth_error (ss st) i) as [s|] eqn:Hs; [|inversion L; subst; exact SWs].
  destruct (SW_by_mass st i s SWs Hs) as [SW1 (k & pb & d & Hi & RW)]. destruct (hp_by_mass st s) as [HB SB].
  destruct (by_mass st s) as [st1 rows]. simpl in SW1, RW, HB, SB. subst rows.
  destruct r0 as [|r0]; simpl in L; [|destruct r0; inversion L; subst; exact SW1].
  inversion L; subst st' e; clear L.
  assert (Kd : is_kind (hp st1) d 0).
  { rewrite HB. destruct (footprint_chem _ _ _ _ _ (sw_hwf _ SWs) Hi) as [_ Kd]. exact Kd. }
  assert (G : gstep (hp st1) (wr (hp st1) d (CVec (upd (rdvec (hp st1) d) c0 (v / nthq (mw_vec pk mw (pkg_at (hp st1) (imol s))) c0)%Q)))).
  { apply (gstep_leaf _ _ _ 0 (sw_hwf _ SW1) Kd); [left; reflexivity|reflexivity]. }
  apply SW_heap; auto.
  - eapply Forall_impl; [|exact (sw_swf _ SW1)]. intros a. apply swf_gstep; auto.
  - eapply Forall_impl; [|exact (sw_chem _ SW1)]. intros a. apply chemP_gstep; auto.
Qed.

(* ---------- unlink of a single-phase stream ---------- *)
Lemma unlink_h2 h r k pb d : hwf h -> nth_error h r = Some (CIdxC k pb d) ->
  let h2 := wr (h ++ [CPhase (rdphase h pb); CVec (rdvec h d)]) r (CIdxC k (length h) (S (length h))) in
  ext h h2 /\ hwf h2 /\ nth_error h2 r = Some (CIdxC k (length h) (S (length h))) /\
  (forall x, x < length h -> x <> r -> nth_error h2 x = nth_error h x) /\ length h2 = length h + 2.
Proof.
  intros W Hi h2. set (e1 := [CPhase (rdphase h pb); CVec (rdvec h d)]) in *.
  assert (Lr : r < length h) by (eapply nth_error_some_lt; eauto).
  assert (W1 : hwf (h ++ e1)) by (apply hwf_app; auto; intros c [<-|[<-|[]]]; exact I).
  assert (N0 : nth_error (h ++ e1) (length h) = Some (CPhase (rdphase h pb))) by (rewrite nth_error_app_new0; reflexivity).
  assert (N1 : nth_error (h ++ e1) (S (length h)) = Some (CVec (rdvec h d))).
  { replace (S (length h)) with (length h + 1) by lia. rewrite nth_error_app_new. reflexivity. }
  assert (Hi1 : nth_error (h ++ e1) r = Some (CIdxC k pb d)) by (rewrite nth_error_app_l; auto).
  assert (HK : forall c0, nth_error (h ++ e1) r = Some c0 -> kind c0 = kind (CIdxC k (length h) (S (length h)))).
  { intros c0 H0. rewrite Hi1 in H0. inversion H0; reflexivity. }
  split; [eapply ext_trans; [apply ext_app|apply ext_wr; exact HK]|].
  split; [apply hwf_wr; auto; simpl; split; eexists; split; eauto|].
  split; [apply wr_same; rewrite app_length; simpl; lia|].
  split; [intros x Lx N; unfold h2; rewrite wr_other by auto; apply nth_error_app_l; auto|].
  unfold h2. rewrite wr_length, app_length. simpl. lia.
Qed.

Lemma SW_unlink pk mw st i st' e : SW st -> step pk mw st (OUnlink i) = (st', e) -> SW st'.
Proof.
  intros SWs L. simpl in L. unfold unlink_step in L. pose proof SWs as [W SF CF I DI KE (sg & SG & VW)].
  destruct (nth_error (ss st) i) as [s|] eqn:Hs; [|inversion L; subst; exact SWs].
  destruct (SW_in _ _ _ SWs Hs) as [SS (k & pb & d & Hi)]. set (r := imol s) in *.
  unfold on1 in L. rewrite Hs in L. unfold unlink in L. fold r in L. rewrite Hi in L.
  destruct (unlink_h2 (hp st) r k pb d W Hi) as (E2 & W2 & N2 & O2 & L2).
  set (h2 := wr (hp st ++ [CPhase (rdphase (hp st) pb); CVec (rdvec (hp st) d)]) r (CIdxC k (length (hp st)) (S (length (hp st))))) in *.
  destruct (swf_cases _ _ SS) as [_ (T & P & Ht)].
  assert (Lt : tc s < length (hp st)) by (eapply nth_error_some_lt; eauto).
  assert (Ntr : tc s <> r) by (intros E; rewrite E, Hi in Ht; discriminate).
  assert (Ht2 : nth_error h2 (tc s) = Some (CTC T P)) by (rewrite O2; auto).
  assert (COMMON : forall hf sf, ext (hp st) hf -> hwf hf ->
            nth_error hf r = Some (CIdxC k (length (hp st)) (S (length (hp st)))) ->
            (forall x, x < length (hp st) -> x <> r -> nth_error hf x = nth_error (hp st) x) ->
            imol sf = r -> is_kind hf (tc sf) 3 ->
            SW (cache_reset (mkstate hf (upd (ss st) i sf) (cmap st) (caches st)) r)).
  { intros hf sf EX WF NF OF IS KT.
    assert (LL : length (hp st) <= length hf) by (apply ext_length; auto).
    assert (GC : forall a, chemP (hp st) a -> chemP hf a).
    { intros a (ka & pa & da & Ha). destruct (Nat.eq_dec (imol a) r) as [E|N];
        [unfold chemP; rewrite E, NF; eauto|exists ka, pa, da; rewrite OF; auto; eapply nth_error_some_lt; eauto]. }
    unfold cache_reset. cbn [cmap caches hp ss]. constructor; cbn [cmap caches hp ss]; auto.
    - apply Forall_upd; [eapply Forall_impl; [|exact SF]; intros a; apply swf_ext; auto|].
      split; [left; rewrite IS; eexists; split; [exact NF|reflexivity]|exact KT].
    - apply Forall_upd; [eapply Forall_impl; [|exact CF]; exact GC|unfold chemP; rewrite IS, NF; eauto].
    - split.
      + unfold store_lt. cbn [hp ss]. apply Forall_upd.
        * destruct I as [SL _]. eapply Forall_impl; [|exact SL]. simpl. intros; lia.
        * rewrite IS. eapply nth_error_some_lt; eauto.
      + unfold cmap_lt. cbn [cmap hp]. apply unbind_lt. destruct I as [_ CL]. unfold cmap_lt in CL.
        apply (Forall_mono_lt (fun kc : ref * nat => fst kc) _ (length (hp st)) (length hf)); auto.
    - intros x c0 Lx. apply lookup_unbind_some in Lx. eapply DI. apply Lx.
    - intros x c0 Lx. apply lookup_unbind_some in Lx. destruct Lx as [N Lx]. destruct (KE _ _ Lx) as (k1 & p1 & d1 & Hx).
      exists k1, p1, d1. rewrite OF; auto. eapply lookup_lt; eauto.
    - exists sg. split; auto. intros x c0 k1 p1 d1 Lx Hx. apply lookup_unbind_some in Lx. destruct Lx as [N Lx].
      rewrite OF in Hx; auto; [eapply SG; eauto|eapply lookup_lt; eauto]. }
  cbv zeta in L. fold h2 in L. unfold tc_copy, rdtc in L. rewrite Ht2 in L.
  destruct (tc_valid T P).
  - inversion L; subst st' e; clear L. apply COMMON.
    + eapply ext_trans; [exact E2|apply ext_app].
    + apply hwf_app; auto. intros c [<-|[]]. exact Logic.I.
    + rewrite nth_error_app_l; auto. rewrite L2. apply nth_error_some_lt in Hi. lia.
    + intros x Lx N. rewrite nth_error_app_l by (rewrite L2; lia). auto.
    + reflexivity.
    + simpl. exists (CTC T P). split; [rewrite nth_error_app_new0; reflexivity|reflexivity].
  - inversion L; subst st' e; clear L. apply COMMON; auto. eexists; split; [exact Ht2|reflexivity].
Qed.

(* ================================================================= reduce of a single-phase stream as a heap step *)
Lemma shape7 h k k' p p' v X T P pr c i th : hwf h ->
  let E := [CPhase p; CVec v; CIdxC k (length h) (length h + 1); CTC T P; CPhase p'; CVec X;
            CIdxC k' (length h + 4) (length h + 5)] in
  let n := mkstream (length h + 6) (length h + 3) pr c i th in
  gstep h (h ++ E) /\ swf (h ++ E) n /\ chemP (h ++ E) n.
Proof.
  intros W E n.
  assert (NE : forall j x, nth_error E j = Some x -> nth_error (h ++ E) (length h + j) = Some x)
    by (intros j x H; rewrite nth_error_app_new; exact H).
  assert (N0 : nth_error (h ++ E) (length h) = Some (CPhase p)) by (rewrite nth_error_app_new0; reflexivity).
  split; [|split].
  - apply gstep_app; auto. intros x [<-|[<-|[<-|[<-|[<-|[<-|[<-|[]]]]]]]]; simpl; auto.
    + split; [eexists; split; [exact N0|reflexivity]|eexists; split; [apply (NE 1); reflexivity|reflexivity]].
    + split; [eexists; split; [apply (NE 4); reflexivity|reflexivity]|eexists; split; [apply (NE 5); reflexivity|reflexivity]].
  - split; simpl; [left|]; eexists; (split; [apply NE; reflexivity|reflexivity]).
  - exists k', (length h + 4), (length h + 5). simpl. apply (NE 6). reflexivity.
Qed.

Section ReduceStep.
Variable pk : list (list nat).

Lemma reduce_chem_step h s h' n : hwf h -> swf h s -> chemP h s -> reduce pk h s = Ok (h', n) ->
  gstep h h' /\ swf h' n /\ chemP h' n.
Proof.
  intros W SWs (k & pb & d & Hi) R.
  destruct (footprint_chem _ _ _ _ _ W Hi) as [(cp & Hp & Kp) (cd & Hd & Kd)].
  destruct cp; simpl in Kp; try discriminate. destruct cd; simpl in Kd; try discriminate.
  destruct (swf_cases _ _ SWs) as [_ (T & P & Ht)].
  unfold reduce in R. unfold imol_copy in R. rewrite Hi in R. unfold chem_new in R. cbn [bind] in R.
  unfold rdtc in R. rewrite Ht in R. unfold is_multi in R. rewrite Hi in R.
  unfold rdphase in R at 1 2. rewrite Hp in R. unfold rdvec in R at 1. rewrite Hd in R.
  unfold new_single in R.
  assert (TV : tc_valid T0 P0 = true) by (vm_compute; reflexivity). rewrite TV in R.
  unfold chem_new in R. cbn [bind] in R.
  repeat rewrite app_length in R. simpl length in R.
  rewrite <- !app_assoc in R. simpl app in R.
  replace (S (S (length h + 3 + 1))) with (length h + 6) in R by lia.
  replace (S (length h + 3 + 1)) with (length h + 5) in R by lia.
  replace (length h + 3 + 1) with (length h + 4) in R by lia.
  replace (S (S (length h))) with (length h + 2) in R by lia.
  replace (S (length h)) with (length h + 1) in R by lia.
  unfold set_phases in R. cbn [imol] in R. rewrite rd_app_new in R. cbn [nth_error] in R.
  cbn [sort_set fold_right insert_set] in R.
  destruct (valid_phase p) eqn:VP; [|discriminate].
  rewrite wr_app_new in R. cbn [upd] in R.
  unfold imol_copy_like in R. cbn [imol] in R. rewrite rd_app_new in R. cbn [nth_error] in R.
  unfold src_of in R. rewrite rd_app_new in R. cbn [nth_error] in R.
  unfold rdphase in R at 1. rewrite nth_error_app_new0 in R. cbn [nth_error] in R.
  unfold chem_copy_like in R. rewrite rd_app_new in R. cbn [nth_error c_self c_pkg c_phase c_data opt_eqb] in R.
  assert (Q1 : Nat.eqb (length h + 2) (length h + 6) = false) by (apply Nat.eqb_neq; lia).
  assert (Q2 : Nat.eqb (length h + 5) (length h + 1) = false) by (apply Nat.eqb_neq; lia).
  rewrite Q1 in R.
  destruct (Nat.eqb (thermo s) k).
  - rewrite Q2, VP in R. unfold rdvec in R at 1. rewrite rd_app_new in R. cbn [nth_error] in R.
    rewrite !wr_app_new in R. cbn [upd tc] in R. rewrite wr_app_new in R. cbn [upd] in R.
    inversion R; subst h' n; clear R. apply shape7. exact W.
  - rewrite wr_app_new in R. cbn [upd] in R.
    unfold rdvec in R at 2. rewrite rd_app_new in R. cbn [nth_error] in R.
    destruct (missing _ _ _); [discriminate|]. rewrite VP in R.
    rewrite !wr_app_new in R. cbn [upd tc] in R. rewrite wr_app_new in R. cbn [upd] in R.
    inversion R; subst h' n; clear R. apply shape7. exact W.
Qed.
End ReduceStep.

(* ================================================================= every operation of the single-phase fragment *)
Definition sop (o : op) : bool :=
  match o with
  | ONewM _ _ _ _ _ _ _ _ | OSetPhases _ _ => false
  | _ => true
  end.

Section StepAll.
Variables (pk : list (list nat)) (mw : list Q).

Lemma SW_on1_mut st i m st' e :
  SW st -> on1 st i (fun h s => apply_mut pk h s m) = (st', e) -> SW st'.
Proof.
  intros SWs L. unfold on1 in L. destruct (nth_error (ss st) i) as [s|] eqn:Hs; [|inversion L; subst; exact SWs].
  destruct (SW_in _ _ _ SWs Hs) as [S1 C1].
  destruct (apply_mut pk (hp st) s m) as [[h s'] e0] eqn:A.
  destruct (mut_gstep pk _ _ _ _ _ _ (sw_hwf _ SWs) S1 C1 A) as [G ->]. inversion L; subst. apply SW_on1_same; auto.
Qed.

Lemma SW_on2_mut st i j (mk : stream -> mut) st' e :
  SW st -> on2 st i j (fun h s o => apply_mut pk h s (mk o)) = (st', e) -> SW st'.
Proof.
  intros SWs L. unfold on2 in L. destruct (nth_error (ss st) i) as [s|] eqn:Hs; [|inversion L; subst; exact SWs].
  destruct (nth_error (ss st) j) as [o|] eqn:Ho; [|inversion L; subst; exact SWs].
  destruct (SW_in _ _ _ SWs Hs) as [S1 C1].
  destruct (apply_mut pk (hp st) s (mk o)) as [[h s'] e0] eqn:A.
  destruct (mut_gstep pk _ _ _ _ _ _ (sw_hwf _ SWs) S1 C1 A) as [G ->]. inversion L; subst. apply SW_on1_same; auto.
Qed.

Theorem SW_step st o st' e : SW st -> sop o = true -> step pk mw st o = (st', e) -> SW st'.
Proof.
  intros SWs SO L. pose proof (sw_hwf _ SWs) as W. destruct o; simpl in SO; try discriminate; simpl in L.
  - (* Stream(...) *)
    unfold creator in L. destruct (new_single _ _ _ _ _ _ _ _ _) as [[h n]|] eqn:N; inversion L; subst; auto.
    destruct (new_single_step _ _ _ _ _ _ _ _ _ _ _ W N) as (G & S1 & C1). apply SW_new; auto.
  - (* copy *)
    unfold new1 in L. destruct (nth_error (ss st) i) as [s|] eqn:Hs; [|inversion L; subst; exact SWs].
    destruct (SW_in _ _ _ SWs Hs) as [S1 C1]. unfold creator in L.
    destruct (copy (hp st) s) as [[h2 c]|] eqn:CP; inversion L; subst; auto.
    destruct (copy_lemma _ _ _ _ W S1 CP) as ((e1 & ->) & W2 & S2 & O2 & _).
    destruct (obs_chem _ _ C1) as (ph & rows & T & P & OS). rewrite OS in O2.
    apply SW_new; auto; [apply gstep_of_ext; auto|eapply chem_of_obs; eauto].
  - (* copy_like *)
    unfold copy_like_step in L. destruct (nth_error (ss st) i) as [s|] eqn:Hs; [|inversion L; subst; exact SWs].
    destruct (SW_in _ _ _ SWs Hs) as [S1 C1]. pose proof C1 as (k & pb & d & Hi).
    assert (PA : phs_at (hp st) (imol s) = None) by (unfold phs_at; rewrite Hi; reflexivity). rewrite PA in L.
    unfold on2 in L. rewrite Hs in L. destruct (nth_error (ss st) j) as [o|] eqn:Ho; [|inversion L; subst; exact SWs].
    destruct (SW_in _ _ _ SWs Ho) as [_ CO].
    destruct (copy_like pk (hp st) s o) as [[h s'] e0] eqn:CL.
    destruct (copy_like_chem_gstep pk _ _ _ _ _ _ W S1 C1 CO CL) as [G ->]. inversion L; subst. apply SW_on1_same; auto.
  - exact (SW_on2_mut st i j MCopyTC st' e SWs L).
  - exact (SW_on2_mut st i j MCopyPhase st' e SWs L).
  - (* flow_proxy *)
    unfold new1 in L. destruct (nth_error (ss st) i) as [s|] eqn:Hs; [|inversion L; subst; exact SWs].
    destruct (SW_in _ _ _ SWs Hs) as [S1 C1]. unfold creator in L.
    destruct (flow_proxy (hp st) s) as [[h2 c]|] eqn:FP; inversion L; subst; auto.
    destruct (flow_proxy_lemma _ _ _ _ W S1 FP) as (_ & O2 & _ & W2 & S2 & _).
    destruct (flow_proxy_ext _ _ _ _ FP) as (e1 & ->).
    destruct (obs_chem _ _ C1) as (ph & rows & T & P & OS). rewrite OS in O2.
    apply SW_new; auto; [apply gstep_of_ext; auto|eapply chem_of_obs; eauto].
  - (* proxy *)
    unfold new1 in L. destruct (nth_error (ss st) i) as [s|] eqn:Hs; [|inversion L; subst; exact SWs].
    destruct (SW_in _ _ _ SWs Hs) as [S1 C1]. unfold creator, proxy in L. inversion L; subst.
    apply SW_new; auto; try (apply gstep_refl; auto); try exact S1; try exact C1.
  - eapply SW_link; eauto.
  - eapply (SW_unlink pk mw); eauto.
  - exact (SW_on1_mut st i (MSetFlow r c v) st' e SWs L).
  - exact (SW_on1_mut st i (MSetT v) st' e SWs L).
  - exact (SW_on1_mut st i (MSetP v) st' e SWs L).
  - exact (SW_on1_mut st i (MSetPhase p) st' e SWs L).
  - exact (SW_on1_mut st i (MScale k) st' e SWs L).
  - exact (SW_on1_mut st i MEmpty st' e SWs L).
  - (* reduce *)
    unfold new1 in L. destruct (nth_error (ss st) i) as [s|] eqn:Hs; [|inversion L; subst; exact SWs].
    destruct (SW_in _ _ _ SWs Hs) as [S1 C1]. unfold creator in L.
    destruct (reduce pk (hp st) s) as [[h2 c]|] eqn:RD; inversion L; subst; auto.
    destruct (reduce_chem_step pk _ _ _ _ W S1 C1 RD) as (G & S2 & C2). apply SW_new; auto.
  - (* read_mass *)
    unfold read_mass_step in L. destruct (nth_error (ss st) i) as [s|] eqn:Hs; inversion L; subst; auto.
    apply (SW_by_mass st i s SWs Hs).
  - eapply SW_set_mass; eauto.
  - destruct (nth_error (ss st) i); inversion L; subst; auto.
  - inversion L; subst; auto.
Qed.

(* whole histories of the fragment *)
Theorem SW_run ops : forall st, SW st -> forallb sop ops = true -> SW (fst (run pk mw st ops)).
Proof.
  induction ops as [|o ops IH]; intros st SWs F; simpl; auto.
  simpl in F. apply andb_prop in F. destruct F as [SO F].
  destruct (step pk mw st o) as [st1 e] eqn:E. pose proof (SW_step _ _ _ _ SWs SO E) as S1.
  specialize (IH st1 S1 F). destruct (run pk mw st1 ops) as [st2 es]. exact IH.
Qed.
End StepAll.

Lemma SW_init : SW init.
Proof.
  constructor; simpl; try constructor.
  - intros r c H. destruct r; discriminate.
  - constructor.
  - constructor.
  - intros r c H. discriminate.
  - intros r c H. discriminate.
  - exists (fun _ => (0, 0)). split; [intros r c k pb d H; discriminate|intros c v L; simpl in L; lia].
Qed.

(* the invariant over whole histories: in every state reached from the empty store by operations on single-phase Streams
   (constructor, copy, copy_like, copy_thermal_condition, copy_phase, flow_proxy, proxy, link_with with every flag subset,
   unlink, the mutators, reduce, imass reads and writes, H reads), a cached mass view wraps exactly the data vector and the
   Phase object of every indexer that holds its dict *)
Theorem view_bound_over_histories pk mw ops st r c v k pb d :
  forallb sop ops = true -> st = fst (run pk mw init ops) ->
  lookup r (cmap st) = Some c -> nth c (caches st) None = Some v -> nth_error (hp st) r = Some (CIdxC k pb d) ->
  v = mkview [d] (Some pb) [].
Proof.
  intros F -> L Hv Hc. eapply SW_view; eauto. apply SW_run; auto. apply SW_init.
Qed.

(* ... so that in every such state s.imass, cached or not, wraps the stream's own current data vector *)
Theorem imass_wraps_own_rows pk mw ops st i s :
  forallb sop ops = true -> st = fst (run pk mw init ops) -> nth_error (ss st) i = Some s ->
  snd (by_mass st s) = data_rows (hp st) s.
Proof.
  intros F -> Hs. assert (SWs : SW (fst (run pk mw init ops))) by (apply SW_run; auto; apply SW_init).
  destruct (SW_by_mass _ i s SWs Hs) as [_ (k & pb & d & Hi & R)]. rewrite R. unfold data_rows. rewrite Hi. reflexivity.
Qed.

