(* C13 — copy_like for the remaining kind combinations (MultiStream source and/or target, phase expansion,
   same and other property package). *)
From V Require Import Common.NumFacts C13.Model C13.Proofs.
From Coq Require Import Lia.
Local Open Scope nat_scope.

(* ================================================================= sorted phase tuples *)
Fixpoint sinc (l : list nat) : Prop :=
  match l with
  | [] => True
  | x :: t => (forall y, In y t -> x < y) /\ sinc t
  end.
Definition plainp (p : nat) : Prop := p = 2 \/ p = 3 \/ p = 4.
(* a phase tuple as phase_tuple builds it, over the lower-case phases *)
Definition good (l : list nat) : Prop := sinc l /\ Forall plainp l.

Lemma in_insert_set p l q : In q (insert_set p l) <-> q = p \/ In q l.
Proof.
  induction l as [|x l IH]; simpl; [intuition|].
  destruct (Nat.ltb p x) eqn:E; [simpl; intuition|].
  destruct (Nat.eqb p x) eqn:E2; [apply Nat.eqb_eq in E2; subst; simpl; intuition|].
  simpl. rewrite IH. intuition.
Qed.
Lemma insert_set_sinc p l : sinc l -> sinc (insert_set p l).
Proof.
  induction l as [|x l IH]; simpl; [intros _; split; [intros y []|exact I]|].
  intros [A B]. destruct (Nat.ltb p x) eqn:E.
  - apply Nat.ltb_lt in E. simpl. split; [|split; auto]. intros y [<- | Hy]; auto. specialize (A _ Hy). lia.
  - destruct (Nat.eqb p x) eqn:E2; [simpl; auto|]. apply Nat.ltb_ge in E. apply Nat.eqb_neq in E2.
    simpl. split; auto. intros y Hy. apply in_insert_set in Hy. destruct Hy as [-> | Hy]; [lia|auto].
Qed.
Lemma in_sort_set l q : In q (sort_set l) <-> In q l.
Proof.
  induction l as [|x l IH]; simpl; [tauto|]. rewrite in_insert_set, IH. intuition.
Qed.
Lemma sort_set_sinc l : sinc (sort_set l).
Proof. induction l as [|x l IH]; simpl; auto. apply insert_set_sinc; auto. Qed.
Lemma insert_set_id p l : sinc (p :: l) -> insert_set p l = p :: l.
Proof.
  destruct l as [|x l]; simpl; auto. intros [A _]. assert (p < x) by (apply A; simpl; auto).
  apply Nat.ltb_lt in H. rewrite H. reflexivity.
Qed.
Lemma sort_set_id l : sinc l -> sort_set l = l.
Proof.
  induction l as [|x l IH]; simpl; auto. intros [A B]. rewrite IH by auto. apply insert_set_id. simpl; auto.
Qed.
Lemma sinc_nodup l : sinc l -> NoDup l.
Proof.
  induction l as [|x l IH]; simpl; [constructor|]. intros [A B]. constructor; auto.
  intros H. specialize (A _ H). lia.
Qed.

Lemma plain_valid p : plainp p -> valid_phase p = true.
Proof. intros [-> | [-> | ->]]; reflexivity. Qed.
Lemma phase_tuple_good l : Forall plainp l -> phase_tuple l = Ok (sort_set l) /\ good (sort_set l).
Proof.
  intros F. unfold phase_tuple.
  assert (forallb valid_phase l = true).
  { apply forallb_forall. intros x Hx. rewrite Forall_forall in F. apply plain_valid; auto. }
  rewrite H. split; auto. split; [apply sort_set_sinc|].
  apply Forall_forall. intros x Hx. apply (proj1 (in_sort_set l x)) in Hx. rewrite Forall_forall in F. apply F. exact Hx.
Qed.

Lemma find_pos_in p l : In p l -> exists i, find_pos p l = Some i /\ i < length l.
Proof.
  induction l as [|x l IH]; simpl; [tauto|]. destruct (Nat.eqb p x) eqn:E.
  - intros _. exists 0. split; auto. lia.
  - intros [-> | H]; [rewrite Nat.eqb_refl in E; discriminate|]. destruct (IH H) as (i & Hi & L).
    rewrite Hi. exists (S i). split; auto. lia.
Qed.
Lemma find_pos_notin p l : ~ In p l -> find_pos p l = None.
Proof.
  induction l as [|x l IH]; simpl; auto. intros H. destruct (Nat.eqb p x) eqn:E.
  - apply Nat.eqb_eq in E. subst. tauto.
  - rewrite IH; auto.
Qed.
Lemma find_pos_lt p l i : find_pos p l = Some i -> i < length l.
Proof. intros H. apply find_pos_nth in H. eapply nth_error_some_lt; eauto. Qed.
Lemma find_pos_some_in p l i : find_pos p l = Some i -> In p l.
Proof. intros H. apply find_pos_nth in H. eapply nth_error_In; eauto. Qed.

(* on lower-case phases the aliases of PhaseIndexer never fire *)
Lemma pidx_plain phs p : Forall plainp phs -> plainp p -> pidx phs p = find_pos p phs.
Proof.
  intros F P. unfold pidx. destruct (find_pos p phs) eqn:E; auto.
  apply find_pos_notin. intros H. rewrite Forall_forall in F. apply F in H.
  destruct P as [-> | [-> | ->]]; simpl in H; destruct H as [H|[H|H]]; discriminate.
Qed.
Lemma map_lower_plain l : Forall plainp l -> map lower l = l.
Proof.
  induction 1 as [|x l P F IH]; simpl; auto. rewrite IH. f_equal. destruct P as [-> | [-> | ->]]; reflexivity.
Qed.
Lemma list_eqb_nat a b : list_eqb Nat.eqb a b = true <-> a = b.
Proof.
  revert b; induction a as [|x a IH]; intros [|y b]; simpl; split; try discriminate; auto.
  - intros H. apply andb_prop in H. destruct H as [A B]. apply Nat.eqb_eq in A. apply IH in B. congruence.
  - intros H. inversion H; subst. rewrite Nat.eqb_refl. apply IH. reflexivity.
Qed.
Lemma compatible_plain a b : Forall plainp a -> Forall plainp b -> compatible a b = same_phases a b.
Proof. intros A B. unfold compatible, same_phases. rewrite !map_lower_plain; auto. Qed.

(* ================================================================= row writes *)
Lemma rdvec_of h x v : nth_error h x = Some (CVec v) -> rdvec h x = v.
Proof. intros H. unfold rdvec. rewrite H. reflexivity. Qed.
Lemma rdvec_wr_same h r v : r < length h -> rdvec (wr h r (CVec v)) r = v.
Proof. intros L. unfold rdvec. rewrite wr_same; auto. Qed.
Lemma rdvec_wr_other h r c x : r <> x -> rdvec (wr h r c) x = rdvec h x.
Proof. intros N. unfold rdvec. rewrite wr_other; auto. Qed.

Lemma wrvecs_spec f : forall rs h, NoDup rs -> (forall r, In r rs -> r < length h) ->
  (forall r, In r rs -> nth_error (wrvecs h rs f) r = Some (CVec (f (rdvec h r)))) /\
  (forall x, ~ In x rs -> nth_error (wrvecs h rs f) x = nth_error h x).
Proof.
  induction rs as [|r rs IH]; intros h ND LT; simpl.
  - split; [intros r []|auto].
  - inversion ND as [|? ? NI ND']; subst.
    set (h1 := wr h r (CVec (f (rdvec h r)))).
    assert (LT1 : forall x, In x rs -> x < length h1) by (intros x Hx; unfold h1; rewrite wr_length; apply LT; simpl; auto).
    destruct (IH h1 ND' LT1) as [A B]. unfold wrvecs in *. simpl. fold h1. split.
    + intros x [<-|Hx].
      * rewrite B by auto. unfold h1. apply wr_same. apply LT; simpl; auto.
      * rewrite A by auto. unfold h1. rewrite rdvec_wr_other; auto. intros ->. contradiction.
    + intros x Hx. rewrite B by (intros H; apply Hx; simpl; auto). unfold h1. apply wr_other. intros ->. apply Hx; simpl; auto.
Qed.

Local Open Scope Q_scope.
Lemma nthq_zero_like v i : nthq (zero_like v) i = 0.
Proof.
  unfold nthq, zero_like. revert i; induction v as [|x v IH]; intros [|i]; simpl; auto.
Qed.
Lemma flow_of_zero_like cs v c : flow_of cs (zero_like v) c = 0.
Proof. unfold flow_of. destruct (find_pos c cs); auto. apply nthq_zero_like. Qed.
Lemma nthq_remap_zero tgt src v i : (forall j, nthq v j == 0) -> nthq (remap tgt src v) i == 0.
Proof.
  intros Z. unfold remap, nthq. destruct (nth_error (map (flow_of src v) tgt) i) as [x|] eqn:E.
  - rewrite (nth_error_nth _ _ 0 E). rewrite nth_error_map in E. destruct (nth_error tgt i); inversion E; subst.
    unfold flow_of. destruct (find_pos n src); [apply Z|reflexivity].
  - rewrite nth_overflow; [reflexivity|]. apply nth_error_None. exact E.
Qed.
Local Close Scope Q_scope.

(* index_overlap over the union of the non-zero columns: if no row has a non-zero entry for a missing chemical,
   neither has the union *)
Lemma missing_false_iff tgt src v : missing tgt src v = false <->
  (forall c x, In (c, x) (combine src v) -> qzerob x = false -> memb c tgt = true).
Proof.
  unfold missing. split.
  - intros M c x Hin Z. destruct (memb c tgt) eqn:E; auto. exfalso.
    rewrite <- not_true_iff_false in M. apply M. apply existsb_exists. exists (c, x). split; auto. simpl. rewrite Z, E. reflexivity.
  - intros H. rewrite <- not_true_iff_false. intros E. apply existsb_exists in E. destruct E as ([c x] & Hin & E). simpl in E.
    apply andb_prop in E. destruct E as [E1 E2]. apply negb_true_iff in E1. apply negb_true_iff in E2.
    rewrite (H _ _ Hin E1) in E2. discriminate.
Qed.

Lemma in_combine_nth {A} (src : list A) (v : vec) c x : In (c, x) (combine src v) ->
  exists i, nth_error src i = Some c /\ nth_error v i = Some x.
Proof.
  revert v; induction src as [|s src IH]; intros [|y v]; simpl; try tauto.
  intros [E|H]; [inversion E; subst; exists 0; auto|]. destruct (IH _ H) as (i & Ha & Hb). exists (S i); auto.
Qed.
Lemma nth_in_combine {A} (src : list A) (v : vec) i c x : nth_error src i = Some c -> nth_error v i = Some x ->
  In (c, x) (combine src v).
Proof.
  revert v i; induction src as [|s src IH]; intros [|y v] [|i]; simpl; try discriminate.
  - intros Ha Hb; inversion Ha; inversion Hb; subst; auto.
  - intros Ha Hb. right. eapply IH; eauto.
Qed.

Lemma missing_union tgt src h rs : (forall r, In r rs -> missing tgt src (rdvec h r) = false) ->
  missing tgt src (nz_union h rs (length src)) = false.
Proof.
  intros H. apply missing_false_iff. intros c x Hin Z.
  apply in_combine_nth in Hin. destruct Hin as (i & Hc & Hx).
  unfold nz_union in Hx. rewrite nth_error_map in Hx.
  destruct (nth_error (seq 0 (length src)) i) as [i'|] eqn:Hs; [|discriminate].
  assert (i' = i).
  { pose proof (nth_error_some_lt _ _ _ Hs) as L. pose proof L as L2. rewrite seq_length in L2.
    rewrite (nth_error_nth' (seq 0 (length src)) 0 L) in Hs. rewrite seq_nth in Hs by auto. inversion Hs; lia. }
  subst i'. simpl in Hx. inversion Hx; subst x; clear Hx.
  destruct (existsb _ rs) eqn:EX; [|discriminate].
  apply existsb_exists in EX. destruct EX as (r & Hr & NZ). apply negb_true_iff in NZ.
  specialize (H r Hr). rewrite missing_false_iff in H.
  unfold nthq in NZ. destruct (nth_error (rdvec h r) i) as [y|] eqn:Hy.
  - rewrite (nth_error_nth _ _ _ Hy) in NZ. apply (H c y); [eapply nth_in_combine; eauto|exact NZ].
  - rewrite nth_overflow in NZ by (apply nth_error_None; auto). discriminate.
Qed.

(* ================================================================= for i, j in other: rows[phase_indexer(i)] = f(j) *)
Lemma assign_rows_spec phs rows f : forall ophs orows h,
  length ophs = length orows -> NoDup ophs ->
  (forall p, In p ophs -> pidx phs p = find_pos p phs /\ In p phs) ->
  length rows = length phs -> NoDup rows -> (forall x, In x rows -> x < length h) ->
  (forall o, In o orows -> ~ In o rows) ->
  snd (assign_rows h phs rows ophs orows f) = None /\
  (forall x, ~ In x rows -> nth_error (fst (assign_rows h phs rows ophs orows f)) x = nth_error h x) /\
  (forall k p o i, nth_error ophs k = Some p -> nth_error orows k = Some o -> find_pos p phs = Some i ->
     nth_error (fst (assign_rows h phs rows ophs orows f)) (nth i rows 0) = Some (CVec (f (rdvec h o)))) /\
  (forall i, i < length rows -> (forall p, In p ophs -> find_pos p phs <> Some i) ->
     nth_error (fst (assign_rows h phs rows ophs orows f)) (nth i rows 0) = nth_error h (nth i rows 0)).
Proof.
  induction ophs as [|p ophs IH]; intros [|o orows] h LEN ND PI LR NDR LT DJ; simpl in LEN; try discriminate.
  - simpl. repeat split; auto. intros k p o i Hk. destruct k; discriminate.
  - inversion ND as [|? ? NIp ND']; subst.
    destruct (PI p (or_introl eq_refl)) as [Pp Ip]. destruct (find_pos_in _ _ Ip) as (i0 & Fi & Li).
    simpl. rewrite Pp, Fi.
    pose (x0 := nth i0 rows 0). assert (Ix0 : In x0 rows) by (apply nth_In; lia).
    set (h1 := wr h (nth i0 rows 0) (CVec (f (rdvec h o)))).
    assert (LT1 : forall x, In x rows -> x < length h1) by (intros x Hx; unfold h1; rewrite wr_length; auto).
    specialize (IH orows h1 ltac:(lia) ND' (fun q Hq => PI q (or_intror Hq)) LR NDR LT1 (fun q Hq => DJ q (or_intror Hq))).
    destruct IH as (E & OUT & HIT & MISS).
    assert (RO : forall q, In q orows -> rdvec h1 q = rdvec h q).
    { intros q Hq. unfold h1. apply rdvec_wr_other. intros Eq. apply (DJ q (or_intror Hq)). rewrite <- Eq. exact Ix0. }
    split; [exact E|]. split; [|split].
    + intros x Hx. rewrite OUT by auto. unfold h1. apply wr_other. intros Eq. apply Hx. rewrite <- Eq. exact Ix0.
    + intros k q oq i Hk Ho Hi. destruct k as [|k]; simpl in Hk, Ho.
      * inversion Hk; inversion Ho; subst q oq. rewrite Fi in Hi. inversion Hi; subst i.
        rewrite MISS.
        -- unfold h1. apply wr_same. apply LT. exact Ix0.
        -- lia.
        -- intros q Hq Fq. apply find_pos_nth in Fq. apply find_pos_nth in Fi. rewrite Fi in Fq. inversion Fq; subst. contradiction.
      * pose proof (HIT k q oq i Hk Ho Hi) as HH. rewrite RO in HH by (eapply nth_error_In; eauto). exact HH.
    + intros i Li' NH. rewrite MISS; [|auto|intros q Hq; apply NH; simpl; auto].
      unfold h1. apply wr_other. intros Eq.
      assert (i0 = i). { apply (NoDup_nth rows 0); auto; lia. }
      subst i. apply (NH p); simpl; auto.
Qed.

(* ================================================================= SparseArray.copy_like: rows pairwise *)
Lemma zip_rows_spec f : forall rows orows h,
  length rows = length orows -> NoDup rows -> (forall x, In x rows -> x < length h) ->
  (forall o, In o orows -> ~ In o rows) ->
  (forall x, ~ In x rows -> nth_error (zip_rows h rows orows f) x = nth_error h x) /\
  (forall k a o, nth_error rows k = Some a -> nth_error orows k = Some o ->
     nth_error (zip_rows h rows orows f) a = Some (CVec (f (rdvec h o)))).
Proof.
  induction rows as [|a rows IH]; intros [|o orows] h LEN ND LT DJ; simpl in LEN; try discriminate.
  - simpl. split; auto. intros k a o Hk. destruct k; discriminate.
  - inversion ND as [|? ? NI ND']; subst. simpl.
    assert (Q : Nat.eqb a o = false).
    { apply Nat.eqb_neq. intros ->. apply (DJ o); simpl; auto. }
    rewrite Q. set (h1 := wr h a (CVec (f (rdvec h o)))).
    assert (LT1 : forall x, In x rows -> x < length h1) by (intros x Hx; unfold h1; rewrite wr_length; apply LT; simpl; auto).
    assert (DJ1 : forall q, In q orows -> ~ In q rows) by (intros q Hq H; apply (DJ q); simpl; auto).
    destruct (IH orows h1 ltac:(lia) ND' LT1 DJ1) as [OUT HIT]. split.
    + intros x Hx. rewrite OUT by (intros H; apply Hx; simpl; auto). unfold h1. apply wr_other. intros ->. apply Hx; simpl; auto.
    + intros k b ob Hk Ho. destruct k as [|k]; simpl in Hk, Ho.
      * inversion Hk; inversion Ho; subst. rewrite OUT by auto. unfold h1. apply wr_same. apply LT; simpl; auto.
      * pose proof (HIT k b ob Hk Ho) as HH. unfold h1 in HH. rewrite rdvec_wr_other in HH; auto.
        intros ->. apply (DJ ob); simpl; auto. right. eapply nth_error_In; eauto.
Qed.

(* ================================================================= _expand_phases *)
Lemma find_combine_hit (phs : list nat) (rows : list ref) X p i :
  find_pos p phs = Some i -> i < length rows ->
  find (fun pr : nat * ref => Nat.eqb (fst pr) p) (combine phs rows ++ X) = Some (p, nth i rows 0).
Proof.
  revert rows i; induction phs as [|x phs IH]; intros rows i; simpl; [discriminate|].
  destruct rows as [|r rows]; simpl; [intros _ L; lia|].
  rewrite (Nat.eqb_sym x p). destruct (Nat.eqb p x) eqn:E.
  - intros H _. inversion H; subst. apply Nat.eqb_eq in E. subst. reflexivity.
  - destruct (find_pos p phs) as [j|] eqn:F; simpl; [|discriminate]. intros H L. inversion H; subst. simpl. apply IH; auto. lia.
Qed.
Lemma find_combine_miss (phs : list nat) (rows : list ref) X p :
  ~ In p phs -> find (fun pr : nat * ref => Nat.eqb (fst pr) p) (combine phs rows ++ X)
                = find (fun pr : nat * ref => Nat.eqb (fst pr) p) X.
Proof.
  revert rows; induction phs as [|x phs IH]; intros rows N; simpl; auto.
  destruct rows as [|r rows]; simpl; auto.
  destruct (Nat.eqb x p) eqn:E; [apply Nat.eqb_eq in E; subst; exfalso; apply N; simpl; auto|].
  apply IH. intros H; apply N; simpl; auto.
Qed.

Lemma NoDup_map_local {A B} (g : A -> B) l :
  (forall x y, In x l -> In y l -> g x = g y -> x = y) -> NoDup l -> NoDup (map g l).
Proof.
  induction l as [|a l IH]; intros INJ ND; simpl; [constructor|]. inversion ND; subst. constructor.
  - intros H. apply in_map_iff in H. destruct H as (y & E & Hy).
    assert (y = a) by (apply INJ; simpl; auto). subst. contradiction.
  - apply IH; auto. intros x y Hx Hy. apply INJ; simpl; auto.
Qed.

Section Expand.
Variable pk : list (list nat).

Record mat_ok (h : heap) (r : ref) (k : nat) (phs : list nat) (d : ref) (rows : list ref) : Prop := {
  m_idx : nth_error h r = Some (CIdxM k phs d);
  m_arr : nth_error h d = Some (CArr rows);
  m_good : good phs;
  m_len : length rows = length phs;
  m_nodup : NoDup rows;
  m_vec : forall x, In x rows -> exists v, nth_error h x = Some (CVec v) }.

Lemma mat_ok_lt h r k phs d rows x : mat_ok h r k phs d rows -> In x rows -> x < length h.
Proof. intros M Hx. destruct (m_vec _ _ _ _ _ _ M x Hx) as (v & Hv). eapply nth_error_some_lt; eauto. Qed.

Lemma expand_spec h r k phs d rows other : mat_ok h r k phs d rows -> Forall plainp other ->
  exists all rows',
    snd (expand_phases pk h r other) = None /\
    mat_ok (fst (expand_phases pk h r other)) r k all d rows' /\
    (forall p, In p all <-> In p phs \/ In p other) /\
    (forall x, In x rows' -> In x rows \/
                 (length h <= x /\ nth_error (fst (expand_phases pk h r other)) x = Some (CVec (zeros pk k)))) /\
    (forall x, x < length h -> x <> r -> x <> d -> nth_error (fst (expand_phases pk h r other)) x = nth_error h x) /\
    length h <= length (fst (expand_phases pk h r other)).
Proof.
  intros M PO. destruct M as [Hr Hd [SI PL] LEN ND VEC].
  assert (NRD : r <> d) by (intros ->; rewrite Hr in Hd; discriminate).
  unfold expand_phases. rewrite Hr.
  remember (filter (fun p => negb (memb p phs)) (sort_set other)) as new eqn:NEWDEF.
  assert (NEWP : forall p, In p new <-> In p other /\ ~ In p phs).
  { intros p. rewrite NEWDEF. rewrite filter_In, in_sort_set. split; intros [A B]; split; auto.
    - apply negb_true_iff in B. intros H. assert (memb p phs = true); [|congruence].
      apply existsb_exists. exists p. split; auto. apply Nat.eqb_refl.
    - apply negb_true_iff. destruct (memb p phs) eqn:E; auto. apply existsb_exists in E. destruct E as (q & Hq & E).
      apply Nat.eqb_eq in E. subst. contradiction. }
  clear NEWDEF. destruct new as [|n0 new'].
  - exists phs, rows. simpl. split; auto. split; [constructor; auto; split; auto|]. split; [|split; [auto|split; auto]].
    intros p. split; [auto|]. intros [H|H]; auto. destruct (in_dec Nat.eq_dec p phs) as [I|NI]; auto.
    exfalso. apply (proj2 (NEWP p) (conj H NI)).
  - cbv iota. remember (n0 :: new') as new eqn:NEQ.
    assert (PN : Forall plainp (new ++ phs)).
    { apply Forall_app. split; auto. apply Forall_forall. intros p Hp. apply NEWP in Hp. rewrite Forall_forall in PO. apply PO; tauto. }
    destruct (phase_tuple_good _ PN) as [PT GA]. rewrite PT.
    set (all := sort_set (new ++ phs)) in *.
    set (h1 := wr h r (CIdxM k all d)).
    assert (R1 : rdrows h1 d = rows) by (unfold rdrows, h1; rewrite wr_other by auto; rewrite Hd; reflexivity).
    rewrite R1. unfold alloc_vecs.
    set (h2 := h1 ++ map CVec (map (fun _ => zeros pk k) new)).
    assert (L1 : length h1 = length h) by (unfold h1; apply wr_length).
    set (fresh := seq (length h1) (length (map (fun _ : nat => zeros pk k) new))).
    set (g := fun p => match find (fun pr : nat * ref => Nat.eqb (fst pr) p) (combine phs rows ++ combine new fresh) with
                       | Some pr => snd pr | None => 0 end).
    set (rows' := map g all).
    assert (LD : d < length h) by (eapply nth_error_some_lt; eauto).
    assert (LR : r < length h) by (eapply nth_error_some_lt; eauto).
    assert (GOLD : forall p i, find_pos p phs = Some i -> g p = nth i rows 0).
    { intros p i F. unfold g. assert (LI : i < length rows) by (rewrite LEN; eapply find_pos_lt; eauto).
      pose proof (find_combine_hit phs rows (combine new fresh) p i F LI) as FH.
      match goal with |- match ?X with _ => _ end = _ => replace X with (Some (p, nth i rows 0)) by (symmetry; exact FH) end.
      reflexivity. }
    assert (LF : length fresh = length new) by (unfold fresh; rewrite seq_length, map_length; reflexivity).
    assert (GNEW : forall p j, ~ In p phs -> find_pos p new = Some j -> g p = length h + j).
    { intros p j NI F. unfold g. rewrite find_combine_miss by auto.
      assert (LJ : j < length fresh) by (rewrite LF; eapply find_pos_lt; eauto).
      pose proof (find_combine_hit new fresh [] p j F LJ) as FH. rewrite app_nil_r in FH. match goal with |- match ?X with _ => _ end = _ => replace X with (Some (p, nth j fresh 0)) by (symmetry; exact FH) end.
      simpl. unfold fresh. rewrite seq_nth; [lia|]. rewrite map_length. eapply find_pos_lt; eauto. }
    assert (INALL : forall p, In p all <-> In p phs \/ In p other).
    { intros p. unfold all. rewrite in_sort_set, in_app_iff, NEWP. split; [tauto|].
      intros [H|H]; auto. destruct (in_dec Nat.eq_dec p phs); auto. }
    assert (GCASES : forall p, In p all -> (exists i, find_pos p phs = Some i /\ g p = nth i rows 0 /\ In (g p) rows) \/
                                            (~ In p phs /\ exists j, find_pos p new = Some j /\ g p = length h + j /\ j < length new)).
    { intros p Hp. destruct (in_dec Nat.eq_dec p phs) as [I|NI].
      - left. destruct (find_pos_in _ _ I) as (i & F & L). exists i. split; auto. rewrite (GOLD _ _ F). split; auto.
        apply nth_In. lia.
      - right. split; auto. assert (In p new). { apply NEWP. apply INALL in Hp. tauto. }
        destruct (find_pos_in _ _ H) as (j & F & L). exists j. split; auto. }
    exists all, rows'. simpl.
    assert (N3r : nth_error (wr h2 d (CArr rows')) r = Some (CIdxM k all d)).
    { rewrite wr_other by auto. unfold h2. rewrite nth_error_app_l by lia. unfold h1. apply wr_same; auto. }
    assert (N3d : nth_error (wr h2 d (CArr rows')) d = Some (CArr rows')).
    { apply wr_same. unfold h2. rewrite app_length. lia. }
    assert (LROWS : forall x, In x rows -> x < length h).
    { intros x Hx. destruct (VEC x Hx) as (v & Hv). eapply nth_error_some_lt; eauto. }
    split; auto. split; [|split; [exact INALL|split; [|split]]].
    + constructor; auto.
      * unfold rows'. rewrite map_length. reflexivity.
      * unfold rows'. apply NoDup_map_local; [|apply sinc_nodup; apply GA].
        intros p q Hp Hq E.
        destruct (GCASES p Hp) as [(i & Fi & Gi & Ii)|(NIp & j & Fj & Gj & Lj)];
        destruct (GCASES q Hq) as [(i2 & Fi2 & Gi2 & Ii2)|(NIq & j2 & Fj2 & Gj2 & Lj2)].
        -- rewrite Gi, Gi2 in E. assert (i = i2).
           { apply (NoDup_nth rows 0); auto; rewrite LEN; eapply find_pos_lt; eauto. }
           subst. apply find_pos_nth in Fi. apply find_pos_nth in Fi2. congruence.
        -- rewrite Gj2 in E. rewrite E in Ii. apply LROWS in Ii. lia.
        -- rewrite Gj in E. rewrite <- E in Ii2. apply LROWS in Ii2. lia.
        -- rewrite Gj, Gj2 in E. assert (j = j2) by lia. subst. apply find_pos_nth in Fj. apply find_pos_nth in Fj2. congruence.
      * intros x Hx. unfold rows' in Hx. apply in_map_iff in Hx. destruct Hx as (p & <- & Hp).
        destruct (GCASES p Hp) as [(i & Fi & Gi & Ii)|(NIp & j & Fj & Gj & Lj)].
        -- destruct (VEC _ Ii) as (v & Hv). exists v. pose proof (LROWS _ Ii).
           assert (g p <> d). { intros E. rewrite E in Hv. rewrite Hd in Hv. discriminate. }
           assert (g p <> r). { intros E. rewrite E in Hv. rewrite Hr in Hv. discriminate. }
           rewrite wr_other by auto. unfold h2. rewrite nth_error_app_l by lia. unfold h1. rewrite wr_other by auto. exact Hv.
        -- exists (zeros pk k). rewrite wr_other by lia. unfold h2. rewrite Gj. rewrite <- L1. rewrite nth_error_app_new.
           rewrite map_map. rewrite nth_error_map. destruct (nth_error new j) eqn:EN; [reflexivity|].
           apply nth_error_None in EN. lia.
    + intros x Hx. unfold rows' in Hx. apply in_map_iff in Hx. destruct Hx as (p & <- & Hp).
      destruct (GCASES p Hp) as [(i & Fi & Gi & Ii)|(NIp & j & Fj & Gj & Lj)]; [left; auto|right; split; [lia|]].
      rewrite wr_other by lia. unfold h2. rewrite Gj. rewrite <- L1. rewrite nth_error_app_new.
      rewrite map_map. rewrite nth_error_map. destruct (nth_error new j) eqn:EN; [reflexivity|].
      apply nth_error_None in EN. lia.
    + intros x Lx Nr Nd. rewrite wr_other by auto. unfold h2. rewrite nth_error_app_l by lia. unfold h1. apply wr_other; auto.
    + rewrite wr_length. unfold h2. rewrite app_length. lia.
Qed.
End Expand.

(* ================================================================= MaterialIndexer.copy_like(MaterialIndexer) *)
Section MatMat.
Variable pk : list (list nat).

(* flow of chemical c in phase p of a material indexer with phases phs and rows rows *)
Definition mflow (h : heap) (k : nat) (phs : list nat) (rows : list ref) (p c : nat) : Q :=
  match find_pos p phs with
  | Some i => flow_of (chems pk k) (rdvec h (nth i rows O)) c
  | None => 0%Q
  end.

Lemma In_nth_error_ex {A} (l : list A) x : In x l -> exists i, nth_error l i = Some x.
Proof. apply In_nth_error. Qed.

(* self.empty(); for i, j in other: rows[phase_indexer(i)] = f(j) *)
Lemma tail_spec h1 r k all d rows1 ko ophs od orows f :
  mat_ok h1 r k all d rows1 -> nth_error h1 od = Some (CArr orows) -> good ophs ->
  length orows = length ophs -> (forall p, In p ophs -> In p all) ->
  (forall x, In x orows -> ~ In x rows1) -> ~ In od rows1 -> od <> d -> od <> r ->
  (forall x, In x orows -> forall c, (flow_of (chems pk k) (f (rdvec h1 x)) c == flow_of (chems pk ko) (rdvec h1 x) c)%Q) ->
  let h2 := mat_empty h1 d in
  let res := assign_rows h2 all (rdrows h2 d) ophs (rdrows h2 od) f in
  snd res = None /\ mat_ok (fst res) r k all d rows1 /\
  (forall p c, (mflow (fst res) k all rows1 p c == mflow h1 ko ophs orows p c)%Q) /\
  (forall x, ~ In x rows1 -> nth_error (fst res) x = nth_error h1 x).
Proof.
  intros M Hod GO LO SUB DJ NOD NOd NOr FL h2 res.
  destruct M as [Hr Hd [SI PL] LEN ND VEC].
  assert (LT : forall x, In x rows1 -> x < length h1).
  { intros x Hx. destruct (VEC x Hx) as (v & Hv). eapply nth_error_some_lt; eauto. }
  assert (ND1 : ~ In d rows1). { intros H. destruct (VEC d H) as (v & Hv). rewrite Hd in Hv. discriminate. }
  assert (NR1 : ~ In r rows1). { intros H. destruct (VEC r H) as (v & Hv). rewrite Hr in Hv. discriminate. }
  assert (R1 : rdrows h1 d = rows1) by (unfold rdrows; rewrite Hd; reflexivity).
  destruct (wrvecs_spec zero_like rows1 h1 ND LT) as [EIN EOUT].
  assert (H2 : h2 = wrvecs h1 rows1 zero_like) by (unfold h2, mat_empty; rewrite R1; reflexivity).
  assert (R2 : rdrows h2 d = rows1). { unfold rdrows. rewrite H2, EOUT by auto. rewrite Hd. reflexivity. }
  assert (R2o : rdrows h2 od = orows). { unfold rdrows. rewrite H2, EOUT by auto. rewrite Hod. reflexivity. }
  assert (L2 : length h2 = length h1). { rewrite H2. clear. revert h1. induction rows1 as [|x l IH]; intros h1; simpl; auto.
    unfold wrvecs in *. simpl. rewrite IH. apply wr_length. }
  assert (RO2 : forall x, In x orows -> rdvec h2 x = rdvec h1 x).
  { intros x Hx. unfold rdvec. rewrite H2, EOUT; auto. }
  destruct GO as [SIo PLo].
  assert (PI : forall p, In p ophs -> pidx all p = find_pos p all /\ In p all).
  { intros p Hp. split; auto. apply pidx_plain; auto. rewrite Forall_forall in PLo. auto. }
  assert (LT2 : forall x, In x rows1 -> x < length h2) by (intros x Hx; rewrite L2; auto).
  unfold res. rewrite R2, R2o.
  destruct (assign_rows_spec all rows1 f ophs orows h2 (eq_sym LO) (sinc_nodup _ SIo) PI LEN ND LT2 DJ)
    as (E & OUT & HIT & MISS).
  set (h3 := fst (assign_rows h2 all rows1 ophs orows f)) in *.
  split; [exact E|]. split; [|split].
  - constructor; auto.
    + rewrite OUT by auto. rewrite H2, EOUT by auto. exact Hr.
    + rewrite OUT by auto. rewrite H2, EOUT by auto. exact Hd.
    + split; auto.
    + intros x Hx. destruct (In_nth_error_ex _ _ Hx) as (i & Hi).
      assert (Li : i < length rows1) by (eapply nth_error_some_lt; eauto).
      assert (Ex : nth i rows1 O = x) by (apply nth_error_nth; auto).
      destruct (nth_error all i) as [p|] eqn:Hp; [|apply nth_error_None in Hp; lia].
      destruct (in_dec Nat.eq_dec p ophs) as [I|NI].
      * destruct (In_nth_error_ex _ _ I) as (j & Hj).
        destruct (nth_error orows j) as [oj|] eqn:Hoj; [|apply nth_error_None in Hoj; apply nth_error_some_lt in Hj; lia].
        assert (F : find_pos p all = Some i).
        { destruct (find_pos_in p all (nth_error_In _ _ Hp)) as (i' & F & _). rewrite F. f_equal.
          apply find_pos_nth in F. apply (NoDup_nth_error all); [apply sinc_nodup; auto|eapply nth_error_some_lt; eauto|congruence]. }
        eexists. rewrite <- Ex. eapply HIT; eauto.
      * eexists. rewrite <- Ex. rewrite MISS; auto.
        -- rewrite H2. apply EIN. apply nth_In. exact Li.
        -- intros q Hq Fq. apply find_pos_nth in Fq. rewrite Hp in Fq. inversion Fq; subst. contradiction.
  - intros p c. unfold mflow.
    destruct (find_pos p ophs) as [j|] eqn:Fo.
    + pose proof (find_pos_nth _ _ _ Fo) as Hj. pose proof (nth_error_In _ _ Hj) as Ip.
      destruct (find_pos_in p all (SUB p Ip)) as (i & Fi & Li). rewrite Fi.
      destruct (nth_error orows j) as [oj|] eqn:Hoj; [|apply nth_error_None in Hoj; apply nth_error_some_lt in Hj; lia].
      pose proof (HIT j p oj i Hj Hoj Fi) as HH.
      assert (RV : rdvec h3 (nth i rows1 O) = f (rdvec h2 oj)) by (apply rdvec_of; exact HH). rewrite RV.
      rewrite RO2 by (eapply nth_error_In; eauto).
      assert (EO : nth j orows O = oj) by (apply nth_error_nth; exact Hoj). rewrite EO. apply FL. eapply nth_error_In; eauto.
    + destruct (find_pos p all) as [i|] eqn:Fi; [|reflexivity].
      pose proof (find_pos_lt _ _ _ Fi) as Li. rewrite <- LEN in Li.
      assert (MM : nth_error h3 (nth i rows1 O) = nth_error h2 (nth i rows1 O)).
      { apply MISS; auto. intros q Hq Fq. apply find_pos_nth in Fq. apply find_pos_nth in Fi. rewrite Fi in Fq. inversion Fq; subst.
        destruct (find_pos_in _ _ Hq) as (? & F' & _). congruence. }
      assert (RV : rdvec h3 (nth i rows1 O) = zero_like (rdvec h1 (nth i rows1 O))).
      { apply rdvec_of. etransitivity; [exact MM|]. rewrite H2. apply EIN. apply nth_In; auto. }
      rewrite RV. rewrite flow_of_zero_like. reflexivity.
  - intros x Hx. fold h3. rewrite OUT by auto. rewrite H2. apply EOUT. auto.
Qed.
End MatMat.

Lemma mat_empty_len_local h d : length (mat_empty h d) = length h.
Proof.
  unfold mat_empty. generalize (rdrows h d). intros rs. revert h. induction rs as [|x l IH]; intros h; simpl; auto.
  unfold wrvecs in *. simpl. rewrite IH. apply wr_length.
Qed.
Lemma assign_rows_len phs rows f : forall ophs orows h, length (fst (assign_rows h phs rows ophs orows f)) = length h.
Proof.
  induction ophs as [|p ophs IH]; intros [|o orows] h; simpl; auto.
  destruct (pidx phs p); simpl; auto. rewrite IH. apply wr_length.
Qed.
Lemma zip_rows_len_local f : forall rows orows h, length (zip_rows h rows orows f) = length h.
Proof.
  induction rows as [|a rows IH]; intros [|o orows] h; simpl; auto.
  rewrite IH. destruct (Nat.eqb a o); auto. apply wr_length.
Qed.

Section MatMat2.
Variable pk : list (list nat).

Lemma mflow_ext h h' k phs rows : (forall x, In x rows -> rdvec h' x = rdvec h x) -> length rows = length phs ->
  forall p c, mflow pk h' k phs rows p c = mflow pk h k phs rows p c.
Proof.
  intros E L p c. unfold mflow. destruct (find_pos p phs) as [i|] eqn:F; auto. rewrite E; auto.
  apply nth_In. rewrite L. eapply find_pos_lt; eauto.
Qed.

Lemma mat_mat_spec h r k phs d rows o ko ophs od orows :
  mat_ok h r k phs d rows -> mat_ok h o ko ophs od orows ->
  (forall x, In x (r :: d :: rows) -> ~ In x (o :: od :: orows)) ->
  (k <> ko -> forall x, In x orows -> missing (chems pk k) (chems pk ko) (rdvec h x) = false) ->
  exists all rows',
    snd (mat_copy_like_m pk h r o) = None /\
    mat_ok (fst (mat_copy_like_m pk h r o)) r k all d rows' /\
    (forall p, In p all <-> In p phs \/ In p ophs) /\
    (forall p c, (mflow pk (fst (mat_copy_like_m pk h r o)) k all rows' p c == mflow pk h ko ophs orows p c)%Q) /\
    (forall x, x < length h -> ~ In x (r :: d :: rows) -> nth_error (fst (mat_copy_like_m pk h r o)) x = nth_error h x) /\
    length h <= length (fst (mat_copy_like_m pk h r o)) /\
    (forall x, In x rows' -> In x rows \/ length h <= x).
Proof.
  intros MA MB SEP MISS.
  pose proof MA as [Hr Hd GA LEN ND VEC]. pose proof MB as [Ho Hod GB LENo NDo VECo].
  assert (Nro : r <> o). { intros E. apply (SEP r); simpl; auto. }
  assert (LTo : forall x, In x orows -> x < length h) by (intros x Hx; exact (mat_ok_lt _ _ _ _ _ _ x MB Hx)).
  assert (LTr : forall x, In x rows -> x < length h) by (intros x Hx; exact (mat_ok_lt _ _ _ _ _ _ x MA Hx)).
  assert (Lod : od < length h) by (eapply nth_error_some_lt; eauto).
  assert (DJ0 : forall x, In x orows -> ~ In x rows).
  { intros x Hx Hr'. apply (SEP x); simpl; auto. }
  assert (Nodr : od <> r). { intros E. apply (SEP r); simpl; auto. }
  assert (Nodd : od <> d). { intros E. apply (SEP d); simpl; auto. }
  assert (Nod0 : ~ In od rows). { intros H. apply (SEP od); simpl; auto. }
  assert (Rd : rdrows h d = rows) by (unfold rdrows; rewrite Hd; reflexivity).
  assert (Rod : rdrows h od = orows) by (unfold rdrows; rewrite Hod; reflexivity).
  assert (CP : compatible phs ophs = same_phases phs ophs) by (apply compatible_plain; [apply GA|apply GB]).
  (* the common tail after a possible expansion *)
  assert (TAIL : forall f h1 all rows1,
    mat_ok h1 r k all d rows1 -> (forall p, In p all <-> In p phs \/ In p ophs) ->
    (forall x, In x rows1 -> In x rows \/ length h <= x) ->
    (forall x, x < length h -> x <> r -> x <> d -> nth_error h1 x = nth_error h x) -> length h <= length h1 ->
    (forall x, In x orows -> forall c, (flow_of (chems pk k) (f (rdvec h x)) c == flow_of (chems pk ko) (rdvec h x) c)%Q) ->
    let res := assign_rows (mat_empty h1 d) all (rdrows (mat_empty h1 d) d) ophs (rdrows (mat_empty h1 d) od) f in
    snd res = None /\ mat_ok (fst res) r k all d rows1 /\
    (forall p c, (mflow pk (fst res) k all rows1 p c == mflow pk h ko ophs orows p c)%Q) /\
    (forall x, x < length h -> ~ In x (r :: d :: rows) -> nth_error (fst res) x = nth_error h x) /\
    length h <= length (fst res)).
  { intros f h1 all rows1 M1 INA SUBR FR LE FL res.
    assert (Hod1 : nth_error h1 od = Some (CArr orows)) by (rewrite FR; auto).
    assert (RO1 : forall x, In x orows -> rdvec h1 x = rdvec h x).
    { intros x Hx. unfold rdvec. rewrite FR; auto.
      - intros E. apply (SEP r); simpl; auto. rewrite <- E. auto.
      - intros E. apply (SEP d); simpl; auto. rewrite <- E. auto. }
    assert (DJ1 : forall x, In x orows -> ~ In x rows1).
    { intros x Hx H1. destruct (SUBR _ H1) as [A|A]; [exact (DJ0 x Hx A)|]. specialize (LTo x Hx). lia. }
    assert (NOD1 : ~ In od rows1). { intros H1. destruct (SUBR _ H1) as [A|A]; [contradiction|lia]. }
    assert (FL1 : forall x, In x orows -> forall c, (flow_of (chems pk k) (f (rdvec h1 x)) c == flow_of (chems pk ko) (rdvec h1 x) c)%Q).
    { intros x Hx c. rewrite RO1 by auto. apply FL; auto. }
    destruct (tail_spec pk h1 r k all d rows1 ko ophs od orows f M1 Hod1 GB LENo
                (fun p Hp => proj2 (INA p) (or_intror Hp)) DJ1 NOD1 Nodd Nodr FL1) as (E & M3 & FLW & OUT).
    fold res in E, M3, FLW, OUT. split; [exact E|]. split; [exact M3|]. split; [|split].
    - intros p c. rewrite FLW. rewrite (mflow_ext h h1 ko ophs orows RO1 LENo). reflexivity.
    - intros x Lx NX. rewrite OUT.
      + apply FR; auto; intros ->; apply NX; simpl; auto.
      + intros H1. destruct (SUBR _ H1) as [A|A]; [apply NX; simpl; auto|lia].
    - assert (length (fst res) = length h1); [|lia]. unfold res. rewrite assign_rows_len. apply mat_empty_len_local. }
  unfold mat_copy_like_m. assert (Q : Nat.eqb r o = false) by (apply Nat.eqb_neq; auto). rewrite Q, Hr, Ho.
  destruct (Nat.eqb k ko) eqn:KK.
  - apply Nat.eqb_eq in KK. subst ko.
    destruct (same_phases phs ophs) eqn:SP.
    + apply list_eqb_nat in SP. subst ophs. rewrite Rd, Rod. simpl fst; simpl snd.
      assert (LL0 : length rows = length orows) by (rewrite LEN, LENo; reflexivity).
      destruct (zip_rows_spec (fun v => v) rows orows h LL0 ND LTr DJ0) as [OUT HIT].
      exists phs, rows. split; auto.
      assert (NDr : ~ In d rows). { intros H. destruct (VEC d H) as (v & Hv). rewrite Hd in Hv. discriminate. }
      assert (NRr : ~ In r rows). { intros H. destruct (VEC r H) as (v & Hv). rewrite Hr in Hv. discriminate. }
      split; [|split; [tauto|split; [|split; [|split]]]].
      * constructor; auto; [rewrite OUT; auto|rewrite OUT; auto|].
        intros x Hx. destruct (In_nth_error _ _ Hx) as (i & Hi).
        destruct (nth_error orows i) as [oi|] eqn:Hoi; [|apply nth_error_None in Hoi; apply nth_error_some_lt in Hi; lia].
        eexists. eapply HIT; eauto.
      * intros p c. unfold mflow. destruct (find_pos p phs) as [i|] eqn:F; [|reflexivity].
        pose proof (find_pos_lt _ _ _ F) as Li.
        destruct (nth_error rows i) as [a|] eqn:Ha; [|apply nth_error_None in Ha; lia].
        destruct (nth_error orows i) as [oi|] eqn:Hoi; [|apply nth_error_None in Hoi; lia].
        assert (Ea : nth i rows O = a) by (apply nth_error_nth; exact Ha).
        assert (Eo : nth i orows O = oi) by (apply nth_error_nth; exact Hoi). rewrite Ea, Eo.
        rewrite (rdvec_of _ _ _ (HIT i a oi Ha Hoi)). reflexivity.
      * intros x Lx NX. apply OUT. intros H. apply NX; simpl; auto.
      * rewrite zip_rows_len_local. lia.
      * auto.
    + rewrite CP.
      destruct (expand_spec pk h r k phs d rows ophs MA (proj2 GB)) as (all & rows1 & E1 & M1 & INA & SUBR0 & FR & LE).
      assert (SUBR : forall x, In x rows1 -> In x rows \/ length h <= x) by (intros x Hx; destruct (SUBR0 x Hx) as [A|[A _]]; auto).
      destruct (expand_phases pk h r ophs) as [h1 e1]. simpl in E1, M1, FR, LE. subst e1.
      rewrite (m_idx _ _ _ _ _ _ M1).
      destruct (TAIL (fun v => v) h1 all rows1 M1 INA SUBR FR LE (fun x Hx c => Qeq_refl _)) as (E & M3 & FLW & OUT & LL).
      exists all, rows1. split; [exact E|]. split; [exact M3|]. split; [exact INA|]. split; [exact FLW|].
      split; [exact OUT|]. split; [exact LL|exact SUBR].
  - apply Nat.eqb_neq in KK. specialize (MISS KK).
    rewrite Rod. rewrite (missing_union _ _ h orows MISS).
    assert (FL : forall x, In x orows -> forall c,
              (flow_of (chems pk k) (remap (chems pk k) (chems pk ko) (rdvec h x)) c == flow_of (chems pk ko) (rdvec h x) c)%Q).
    { intros x Hx c. apply flow_of_remap. auto. }
    rewrite CP, orb_diag.
    destruct (same_phases phs ophs) eqn:SP.
    + apply list_eqb_nat in SP. subst ophs. rewrite Hr.
      destruct (TAIL (remap (chems pk k) (chems pk ko)) h phs rows MA ltac:(tauto) ltac:(auto) ltac:(auto) ltac:(lia) FL)
        as (E & M3 & FLW & OUT & LL).
      exists phs, rows. split; [exact E|]. split; [exact M3|]. split; [tauto|]. split; [exact FLW|].
      split; [exact OUT|]. split; [exact LL|auto].
    + destruct (expand_spec pk h r k phs d rows ophs MA (proj2 GB)) as (all & rows1 & E1 & M1 & INA & SUBR0 & FR & LE).
      assert (SUBR : forall x, In x rows1 -> In x rows \/ length h <= x) by (intros x Hx; destruct (SUBR0 x Hx) as [A|[A _]]; auto).
      destruct (expand_phases pk h r ophs) as [h1 e1]. simpl in E1, M1, FR, LE. subst e1.
      rewrite (m_idx _ _ _ _ _ _ M1).
      destruct (TAIL (remap (chems pk k) (chems pk ko)) h1 all rows1 M1 INA SUBR FR LE FL) as (E & M3 & FLW & OUT & LL).
      exists all, rows1. split; [exact E|]. split; [exact M3|]. split; [exact INA|]. split; [exact FLW|].
      split; [exact OUT|]. split; [exact LL|exact SUBR].
Qed.
End MatMat2.


(* ================================================================= MaterialIndexer.copy_like(ChemicalIndexer) *)
Section MatChem.
Variable pk : list (list nat).

Lemma flow_of_zeros cs n c : flow_of cs (vzero n) c = 0%Q.
Proof.
  unfold flow_of. destruct (find_pos c cs) as [i|]; auto. unfold nthq, vzero.
  revert i; induction n as [|n IH]; intros [|i]; simpl; auto.
Qed.

Lemma mat_empty_spec h r k phs d rows : mat_ok h r k phs d rows ->
  mat_ok (mat_empty h d) r k phs d rows /\
  (forall x, In x rows -> nth_error (mat_empty h d) x = Some (CVec (zero_like (rdvec h x)))) /\
  (forall x, ~ In x rows -> nth_error (mat_empty h d) x = nth_error h x) /\
  length (mat_empty h d) = length h.
Proof.
  intros M. pose proof M as [Hr Hd G LEN ND VEC].
  assert (LT : forall x, In x rows -> x < length h) by (intros x Hx; exact (mat_ok_lt _ _ _ _ _ _ x M Hx)).
  assert (R : rdrows h d = rows) by (unfold rdrows; rewrite Hd; reflexivity).
  destruct (wrvecs_spec zero_like rows h ND LT) as [EIN EOUT].
  assert (NDr : ~ In d rows). { intros H. destruct (VEC d H) as (v & Hv). rewrite Hd in Hv. discriminate. }
  assert (NRr : ~ In r rows). { intros H. destruct (VEC r H) as (v & Hv). rewrite Hr in Hv. discriminate. }
  pose proof (mat_empty_len_local h d) as LL. unfold mat_empty in *. rewrite R in *.
  split; [|split; [exact EIN|split; [exact EOUT|exact LL]]].
  constructor; auto; [rewrite EOUT; auto|rewrite EOUT; auto|]. intros x Hx. eexists. apply EIN. exact Hx.
Qed.

Lemma mat_chem_spec h r k phs d rows ko p dv v self :
  mat_ok h r k phs d rows -> plainp p -> nth_error h dv = Some (CVec v) ->
  ~ In dv (r :: d :: rows) ->
  (k <> ko -> missing (chems pk k) (chems pk ko) v = false) ->
  exists all rows',
    snd (mat_copy_like_c pk h r (mkcsrc ko p dv self)) = None /\
    mat_ok (fst (mat_copy_like_c pk h r (mkcsrc ko p dv self))) r k all d rows' /\
    (forall q, In q all <-> In q phs \/ q = p) /\
    (forall q c, (mflow pk (fst (mat_copy_like_c pk h r (mkcsrc ko p dv self))) k all rows' q c
                  == if Nat.eqb q p then flow_of (chems pk ko) v c else 0)%Q) /\
    (forall x, x < length h -> ~ In x (r :: d :: rows) ->
       nth_error (fst (mat_copy_like_c pk h r (mkcsrc ko p dv self))) x = nth_error h x) /\
    length h <= length (fst (mat_copy_like_c pk h r (mkcsrc ko p dv self))) /\
    (forall x, In x rows' -> In x rows \/ length h <= x).
Proof.
  intros MA PP Hv NDV MISS.
  pose proof MA as [Hr Hd GA LEN ND VEC].
  destruct (mat_empty_spec h r k phs d rows MA) as (M1 & Z1 & O1 & L1).
  set (h1 := mat_empty h d) in *.
  assert (Ldv : dv < length h) by (eapply nth_error_some_lt; eauto).
  assert (Ndr : dv <> r) by (intros E; apply NDV; simpl; auto).
  assert (Ndd : dv <> d) by (intros E; apply NDV; simpl; auto).
  assert (Ndrows : ~ In dv rows) by (intros H; apply NDV; simpl; auto).
  assert (NRr : forall x, In x rows -> x <> r). { intros x Hx ->. destruct (VEC r Hx) as (w & Hw). rewrite Hr in Hw. discriminate. }
  assert (NDr : forall x, In x rows -> x <> d). { intros x Hx ->. destruct (VEC d Hx) as (w & Hw). rewrite Hd in Hw. discriminate. }
  assert (STEP : exists h2 all rows2,
     (match pidx phs p with Some _ => (h1, None) | None => expand_phases pk h1 r [p] end) = (h2, None) /\
     mat_ok h2 r k all d rows2 /\ (forall q, In q all <-> In q phs \/ q = p) /\
     (forall x, In x rows2 -> In x rows \/ length h <= x) /\
     (forall x, In x rows2 -> exists w, nth_error h2 x = Some (CVec w) /\ forall c, flow_of (chems pk k) w c = 0%Q) /\
     (forall x, x < length h -> ~ In x (r :: d :: rows) -> nth_error h2 x = nth_error h x) /\ length h <= length h2).
  { rewrite (pidx_plain phs p (proj2 GA) PP).
    destruct (find_pos p phs) as [i|] eqn:F.
    - exists h1, phs, rows. split; auto. split; auto. split.
      + intros q. split; [auto|]. intros [H| ->]; auto. eapply find_pos_some_in; eauto.
      + split; [auto|]. split; [|split; [|lia]].
        * intros x Hx. eexists. split; [apply Z1; auto|]. intros c. apply flow_of_zero_like.
        * intros x Lx NX. apply O1. intros H. apply NX; simpl; auto.
    - assert (PO : Forall plainp [p]) by (constructor; auto).
      destruct (expand_spec pk h1 r k phs d rows [p] M1 PO) as (all & rows2 & E2 & M2 & INA & SUBR & FR & LE).
      destruct (expand_phases pk h1 r [p]) as [h2 e2]. simpl in E2, M2, FR, LE, SUBR. subst e2.
      exists h2, all, rows2. split; auto. split; auto. split.
      + intros q. rewrite INA. simpl. intuition.
      + split; [intros x Hx; destruct (SUBR x Hx) as [A|[A _]]; [auto|right; lia]|]. split; [|split; [|lia]].
        * intros x Hx. destruct (SUBR x Hx) as [A|[A B]].
          -- eexists. split.
             ++ rewrite FR; [apply Z1; auto|rewrite L1; exact (mat_ok_lt _ _ _ _ _ _ x MA A)|auto|auto].
             ++ intros c. apply flow_of_zero_like.
          -- exists (zeros pk k). split; auto. intros c. apply flow_of_zeros.
        * intros x Lx NX. rewrite FR; [apply O1; intros H; apply NX; simpl; auto|lia| |]; intros ->; apply NX; simpl; auto. }
  destruct STEP as (h2 & all & rows2 & ST & M2 & INA & SUBR & ZERO & FR & LE).
  unfold mat_copy_like_c. rewrite Hr. fold h1. cbn [c_phase c_pkg c_data]. rewrite ST.
  pose proof M2 as [Hr2 Hd2 GA2 LEN2 ND2 VEC2]. rewrite Hr2.
  assert (Ip : In p all) by (apply INA; auto).
  destruct (find_pos_in p all Ip) as (i & Fi & Li).
  rewrite (pidx_plain all p (proj2 GA2) PP), Fi.
  assert (R2 : rdrows h2 d = rows2) by (unfold rdrows; rewrite Hd2; reflexivity). rewrite R2.
  set (row := nth i rows2 0).
  assert (Irow : In row rows2) by (apply nth_In; lia).
  assert (Vdv : rdvec h2 dv = v). { unfold rdvec. rewrite FR by auto. rewrite Hv. reflexivity. }
  rewrite Vdv.
  assert (Nrow : row <> dv). { intros E. destruct (SUBR _ Irow) as [A|A]; [rewrite E in A; contradiction|lia]. }
  assert (Lrow : row < length h2) by (exact (mat_ok_lt _ _ _ _ _ _ row M2 Irow)).
  assert (Nrr : row <> r). { intros E. destruct (VEC2 _ Irow) as (w & Hw). rewrite E, Hr2 in Hw. discriminate. }
  assert (Nrd : row <> d). { intros E. destruct (VEC2 _ Irow) as (w & Hw). rewrite E, Hd2 in Hw. discriminate. }
  (* both packages: the row of phase p receives w' with the flows of v *)
  assert (FIN : forall w', (forall c, (flow_of (chems pk k) w' c == flow_of (chems pk ko) v c)%Q) ->
    mat_ok (wr h2 row (CVec w')) r k all d rows2 /\
    (forall q c, (mflow pk (wr h2 row (CVec w')) k all rows2 q c == if Nat.eqb q p then flow_of (chems pk ko) v c else 0)%Q) /\
    (forall x, x < length h -> ~ In x (r :: d :: rows) -> nth_error (wr h2 row (CVec w')) x = nth_error h x) /\
    length h <= length (wr h2 row (CVec w'))).
  { intros w' FW. split; [|split; [|split]].
    - constructor; auto; [rewrite wr_other; auto|rewrite wr_other; auto|].
      intros x Hx. destruct (Nat.eq_dec row x) as [<-|N]; [eexists; apply wr_same; auto|].
      rewrite wr_other by auto. apply VEC2; auto.
    - intros q c. unfold mflow. destruct (Nat.eqb q p) eqn:Q.
      + apply Nat.eqb_eq in Q. subst q. rewrite Fi. fold row. rewrite rdvec_wr_same by auto. apply FW.
      + apply Nat.eqb_neq in Q. destruct (find_pos q all) as [j|] eqn:Fj; [|reflexivity].
        assert (Nj : nth j rows2 0 <> row).
        { unfold row. intros E. assert (j = i).
          { apply (NoDup_nth rows2 0); auto; try lia. rewrite LEN2. eapply find_pos_lt; eauto. }
          subst j. apply find_pos_nth in Fj. apply find_pos_nth in Fi. congruence. }
        rewrite rdvec_wr_other by auto.
        assert (Ij : In (nth j rows2 0) rows2) by (apply nth_In; rewrite LEN2; eapply find_pos_lt; eauto).
        destruct (ZERO _ Ij) as (w & Hw & Zw). rewrite (rdvec_of _ _ _ Hw). rewrite Zw. reflexivity.
    - intros x Lx NX. rewrite wr_other; [apply FR; auto|]. intros E. destruct (SUBR _ Irow) as [A|A]; [apply NX; rewrite <- E; simpl; auto|lia].
    - rewrite wr_length. lia. }
  exists all, rows2.
  destruct (Nat.eqb k ko) eqn:KK.
  - apply Nat.eqb_eq in KK. subst ko.
    assert (Q : Nat.eqb row dv = false) by (apply Nat.eqb_neq; auto). rewrite Q. simpl fst; simpl snd.
    destruct (FIN v (fun c => Qeq_refl _)) as (A & B & C & D). split; [reflexivity|]. split; [exact A|]. split; [exact INA|]. split; [exact B|]. split; [exact C|]. split; [exact D|exact SUBR].
  - apply Nat.eqb_neq in KK. rewrite (MISS KK). simpl fst; simpl snd.
    destruct (FIN (remap (chems pk k) (chems pk ko) v) (fun c => flow_of_remap _ _ _ c (MISS KK))) as (A & B & C & D).
    split; [reflexivity|]. split; [exact A|]. split; [exact INA|]. split; [exact B|]. split; [exact C|]. split; [exact D|exact SUBR].
Qed.
End MatChem.

(* ================================================================= stream level *)
Lemma any_nz_zero_like v : any_nz (zero_like v) = false.
Proof. unfold any_nz, zero_like. induction v as [|x v IH]; simpl; auto. Qed.

Lemma mat_ok_transfer h h' r k phs d rows : mat_ok h r k phs d rows ->
  (forall x, In x (r :: d :: rows) -> nth_error h' x = nth_error h x) -> mat_ok h' r k phs d rows.
Proof.
  intros [Hr Hd G LEN ND VEC] E. constructor; auto.
  - rewrite E; simpl; auto.
  - rewrite E; simpl; auto.
  - intros x Hx. destruct (VEC x Hx) as (v & Hv). exists v. rewrite E; simpl; auto.
Qed.

Section Blank.
Variable pk : list (list nat).
Lemma mat_blank_ok h k phs h' m : good phs -> mat_blank pk h k phs = (h', m) ->
  mat_ok h' m k phs (length h + length phs) (seq (length h) (length phs)) /\
  (exists e, h' = h ++ e) /\ m = S (length h + length phs) /\ length h' = S (S (length h + length phs)) /\
  (forall x, In x (seq (length h) (length phs)) -> nth_error h' x = Some (CVec (zeros pk k))).
Proof.
  intros G. unfold mat_blank, alloc_vecs. intros E. inversion E; subst h' m; clear E.
  set (vs := map (fun _ : nat => zeros pk k) phs).
  assert (LV : length vs = length phs) by (unfold vs; apply map_length). rewrite LV.
  set (n := length h). set (q := length phs).
  assert (LA : length (h ++ map CVec vs) = n + q) by (rewrite app_length, map_length, LV; reflexivity).
  rewrite LA.
  set (e := map CVec vs ++ [CArr (seq n q); CIdxM k phs (n + q)]).
  assert (HE : ((h ++ map CVec vs) ++ [CArr (seq n q)]) ++ [CIdxM k phs (n + q)] = h ++ e).
  { unfold e. rewrite <- !app_assoc. reflexivity. }
  assert (LB : length ((h ++ map CVec vs) ++ [CArr (seq n q)]) = S (n + q)) by (rewrite app_length, LA; simpl; lia).
  rewrite LB, HE.
  assert (NEW : forall j c, nth_error [CArr (seq n q); CIdxM k phs (n + q)] j = Some c -> nth_error (h ++ e) (n + q + j) = Some c).
  { intros j c Hj. unfold e. rewrite app_assoc. replace (n + q + j) with (length (h ++ map CVec vs) + j) by (rewrite LA; lia).
    rewrite nth_error_app_new. exact Hj. }
  assert (N1 : nth_error (h ++ e) (n + q) = Some (CArr (seq n q))).
  { replace (n + q) with (n + q + 0) by lia. apply NEW. reflexivity. }
  assert (N2 : nth_error (h ++ e) (S (n + q)) = Some (CIdxM k phs (n + q))).
  { replace (S (n + q)) with (n + q + 1) by lia. apply NEW. reflexivity. }
  assert (VV : forall x, In x (seq n q) -> nth_error (h ++ e) x = Some (CVec (zeros pk k))).
  { intros x Hx. apply in_seq in Hx. replace x with (n + (x - n)) by lia. unfold n. rewrite nth_error_app_new.
    unfold e. rewrite nth_error_app_l by (rewrite map_length, LV; lia). unfold vs. rewrite map_map, nth_error_map.
    destruct (nth_error phs (x - length h)) eqn:EN; [reflexivity|]. apply nth_error_None in EN. fold q in EN. fold n in EN. lia. }
  split; [|split; [eauto|split; [reflexivity|split; [|exact VV]]]].
  - constructor; auto.
    + apply seq_length.
    + apply seq_NoDup.
    + intros x Hx. eexists. apply VV. exact Hx.
  - rewrite app_length. unfold e. rewrite app_length, map_length, LV. simpl. lia.
Qed.
End Blank.

Lemma stream_same h h' b : hwf h -> swf h b ->
  (forall x, In x (footprint h b) -> nth_error h' x = nth_error h x) -> obs h' b = obs h b.
Proof.
  intros W SB E.
  set (F := filter (fun x => negb (memb x (footprint h b))) (seq 0 (length h))).
  assert (FR : frame h h' F).
  { intros x Lx NF. apply E. destruct (memb x (footprint h b)) eqn:M.
    - apply existsb_exists in M. destruct M as (y & Hy & Ey). apply Nat.eqb_eq in Ey. subst. auto.
    - exfalso. apply NF. unfold F. apply filter_In. split; [apply in_seq; lia|]. rewrite M. reflexivity. }
  destruct (stream_stable h h' F b [] W SB FR) as [_ O].
  - intros x Hx HF. unfold F in HF. apply filter_In in HF. destruct HF as [_ HF]. apply negb_true_iff in HF.
    assert (memb x (footprint h b) = true); [|congruence]. apply existsb_exists. exists x. split; auto. apply Nat.eqb_refl.
  - apply obs_of_observe. exact O.
Qed.

Section StreamLevel.
Variable pk : list (list nat).

Definition stream_ok (h : heap) (s : stream) : Prop :=
  (exists T P, nth_error h (tc s) = Some (CTC T P)) /\
  match nth_error h (imol s) with
  | Some (CIdxC k pb d) => (exists p, nth_error h pb = Some (CPhase p) /\ plainp p) /\ (exists v, nth_error h d = Some (CVec v))
  | Some (CIdxM k phs d) => mat_ok h (imol s) k phs d (rdrows h d) /\ phs <> []
  | _ => False
  end.

Lemma phase_flow_multi h s k phs d rows : nth_error h (imol s) = Some (CIdxM k phs d) -> rdrows h d = rows ->
  forall p c, phase_flow pk h s p c = mflow pk h k phs rows p c.
Proof. intros H R p c. unfold phase_flow, mflow. rewrite H, R. reflexivity. Qed.

(* the tail shared by every path that ends in a material target: T, P are copied and nothing of b moved *)
Lemma finish_multi h h1 a1 b r1 k all d1 rows1 tca :
  hwf h -> swf h b -> imol a1 = r1 -> tc a1 = tca ->
  mat_ok h1 r1 k all d1 rows1 -> (exists T P, nth_error h1 tca = Some (CTC T P)) ->
  (forall x, In x (footprint h b) -> nth_error h1 x = nth_error h x) -> ~ In tca (footprint h b) ->
  (forall p c, (mflow pk h1 k all rows1 p c == phase_flow pk h b p c)%Q) ->
  (forall p c, (phase_flow pk (tc_copy_like h1 tca (tc b)) a1 p c == phase_flow pk h b p c)%Q) /\
  rdtc (tc_copy_like h1 tca (tc b)) tca = rdtc h (tc b) /\ obs (tc_copy_like h1 tca (tc b)) b = obs h b.
Proof.
  intros W SB Ei Et M1 (Ta & Pa & Htc) FRB NTB FLOW.
  pose proof M1 as [Hr Hd G LEN ND VEC].
  assert (TB : rdtc h1 (tc b) = rdtc h (tc b)). { unfold rdtc. rewrite FRB; auto. apply tc_in_fp. }
  unfold tc_copy_like. rewrite TB. destruct (rdtc h (tc b)) as [Tb Pb] eqn:RB.
  set (h' := wr h1 tca (CTC Tb Pb)).
  assert (Ltc : tca < length h1) by (eapply nth_error_some_lt; eauto).
  assert (N1 : tca <> r1) by (intros E; rewrite E, Hr in Htc; discriminate).
  assert (N2 : tca <> d1) by (intros E; rewrite E, Hd in Htc; discriminate).
  assert (N3 : forall x, In x rows1 -> tca <> x).
  { intros x Hx E. destruct (VEC x Hx) as (v & Hv). rewrite <- E, Htc in Hv. discriminate. }
  split; [|split].
  - intros p c. rewrite <- FLOW. rewrite (phase_flow_multi h' a1 k all d1 rows1).
    + rewrite (mflow_ext pk h1 h' k all rows1); [reflexivity| |exact LEN].
      intros x Hx. unfold h'. apply rdvec_wr_other. auto.
    + rewrite Ei. unfold h'. rewrite wr_other by auto. exact Hr.
    + unfold rdrows, h'. rewrite wr_other by auto. rewrite Hd. reflexivity.
  - unfold rdtc. unfold h'. rewrite wr_same by auto. reflexivity.
  - apply stream_same; auto. intros x Hx. unfold h'. rewrite wr_other; [apply FRB; auto|]. intros E. subst. contradiction.
Qed.

(* MultiStream.copy_like(Stream) and MultiStream.copy_like(MultiStream): every phase set, same and other package *)
Lemma copy_like_to_multi h a b ka phs d h' a' e :
  hwf h -> swf h a -> swf h b -> stream_ok h a -> stream_ok h b -> disjoint (footprint h a) (footprint h b) ->
  nth_error h (imol a) = Some (CIdxM ka phs d) ->
  (ka <> stream_pkg h b -> forall x, In x (data_rows h b) ->
     missing (chems pk ka) (chems pk (stream_pkg h b)) (rdvec h x) = false) ->
  copy_like pk h a b = (h', a', e) ->
  e = None /\ (forall p c, (phase_flow pk h' a' p c == phase_flow pk h b p c)%Q) /\
  rdtc h' (tc a') = rdtc h (tc b) /\ obs h' b = obs h b.
Proof.
  intros W SA SB OA OB D Ha MISS CL.
  destruct OA as [(Ta & Pa & Hta) OA]. rewrite Ha in OA. destruct OA as [MA _].
  set (rows := rdrows h d) in *.
  pose proof MA as [_ Hd GA LEN ND VEC].
  assert (FPA : footprint h a = imol a :: d :: rows ++ [tc a]) by (unfold footprint; rewrite Ha; reflexivity).
  assert (NTA : ~ In (tc a) (imol a :: d :: rows)).
  { intros [E|[E|H]].
    - rewrite <- E, Ha in Hta. discriminate.
    - rewrite <- E, Hd in Hta. discriminate.
    - destruct (VEC _ H) as (v & Hv). rewrite Hta in Hv. discriminate. }
  assert (INA : forall x, In x (imol a :: d :: rows) -> In x (footprint h a)).
  { intros x Hx. rewrite FPA. simpl in *. destruct Hx as [E|[E|H]]; auto. right; right. apply in_or_app; auto. }
  assert (NB : forall x, In x (footprint h b) -> x < length h /\ ~ In x (imol a :: d :: rows)).
  { intros x Hx. split; [eapply footprint_lt; eauto|]. intros H. apply (D x); auto. }
  assert (NTB : ~ In (tc a) (footprint h b)). { apply D. apply tc_in_fp. }
  assert (LTA : tc a < length h) by (eapply nth_error_some_lt; eauto).
  unfold copy_like in CL. rewrite Ha in CL. unfold imol_copy_like in CL. rewrite Ha in CL.
  destruct OB as [(Tb & Pb & Htb) OB].
  destruct (nth_error h (imol b)) as [[| | | |kb pbb db|kb ophs od]|] eqn:Hb; try contradiction.
  - (* single-phase source *)
    destruct OB as [(p & Hp & PP) (v & Hv)].
    assert (FPB : footprint h b = [imol b; db; pbb; tc b]) by (unfold footprint; rewrite Hb; reflexivity).
    assert (RP : rdphase h pbb = p) by (unfold rdphase; rewrite Hp; reflexivity). rewrite RP in CL.
    assert (NDV : ~ In db (imol a :: d :: rows)). { apply NB. rewrite FPB. simpl; auto. }
    assert (PKB : stream_pkg h b = kb) by (unfold stream_pkg; rewrite Hb; reflexivity).
    assert (MS : ka <> kb -> missing (chems pk ka) (chems pk kb) v = false).
    { intros N. rewrite PKB in MISS. rewrite <- (rdvec_of _ _ _ Hv). apply MISS; auto. unfold data_rows. rewrite Hb. simpl; auto. }
    destruct (mat_chem_spec pk h (imol a) ka phs d rows kb p db v (Some (imol b)) MA PP Hv NDV MS)
      as (all & rows1 & E1 & M1 & _ & FLOW & FR & LE & _).
    destruct (mat_copy_like_c pk h (imol a) _) as [h1 e1]. simpl in E1, M1, FLOW, FR, LE. subst e1.
    inversion CL; subst h' a' e; clear CL. split; auto.
    eapply (finish_multi h h1 a b (imol a) ka all d rows1 (tc a)); eauto.
    + exists Ta, Pa. rewrite FR; auto.
    + intros x Hx. destruct (NB x Hx). apply FR; auto.
    + intros q c. rewrite FLOW. unfold phase_flow. rewrite Hb, RP. rewrite (rdvec_of _ _ _ Hv). rewrite (Nat.eqb_sym p q). reflexivity.
  - (* multi-phase source *)
    destruct OB as [MB _]. set (orows := rdrows h od) in *.
    assert (FPB : footprint h b = imol b :: od :: orows ++ [tc b]) by (unfold footprint; rewrite Hb; reflexivity).
    assert (SEP : forall x, In x (imol a :: d :: rows) -> ~ In x (imol b :: od :: orows)).
    { intros x Hx H. apply (D x); auto. rewrite FPB. simpl in *. destruct H as [E|[E|H]]; auto. right; right. apply in_or_app; auto. }
    assert (PKB : stream_pkg h b = kb) by (unfold stream_pkg; rewrite Hb; reflexivity).
    assert (MS : ka <> kb -> forall x, In x orows -> missing (chems pk ka) (chems pk kb) (rdvec h x) = false).
    { intros N x Hx. rewrite PKB in MISS. apply MISS; auto. unfold data_rows. rewrite Hb. exact Hx. }
    destruct (mat_mat_spec pk h (imol a) ka phs d rows (imol b) kb ophs od orows MA MB SEP MS)
      as (all & rows1 & E1 & M1 & _ & FLOW & FR & LE & _).
    destruct (mat_copy_like_m pk h (imol a) (imol b)) as [h1 e1]. simpl in E1, M1, FLOW, FR, LE. subst e1.
    inversion CL; subst h' a' e; clear CL. split; auto.
    eapply (finish_multi h h1 a b (imol a) ka all d rows1 (tc a)); eauto.
    + exists Ta, Pa. rewrite FR; auto.
    + intros x Hx. destruct (NB x Hx). apply FR; auto.
    + intros q c. rewrite FLOW. rewrite (phase_flow_multi h b kb ophs od orows Hb eq_refl). reflexivity.
Qed.

(* Stream.copy_like(MultiStream with two or more phases): the stream becomes a MultiStream with those phases *)
Lemma copy_like_s_m2 h a b ka pba da kb ophs od h' a' e :
  hwf h -> swf h a -> swf h b -> stream_ok h a -> stream_ok h b -> disjoint (footprint h a) (footprint h b) ->
  nth_error h (imol a) = Some (CIdxC ka pba da) -> nth_error h (imol b) = Some (CIdxM kb ophs od) -> 2 <= length ophs ->
  (ka <> kb -> forall x, In x (rdrows h od) -> missing (chems pk ka) (chems pk kb) (rdvec h x) = false) ->
  copy_like pk h a b = (h', a', e) ->
  e = None /\ (forall p c, (phase_flow pk h' a' p c == phase_flow pk h b p c)%Q) /\
  rdtc h' (tc a') = rdtc h (tc b) /\ obs h' b = obs h b.
Proof.
  intros W SA SB OA OB D Ha Hb L2 MISS CL.
  destruct OA as [(Ta & Pa & Hta) OA]. rewrite Ha in OA. destruct OA as [(pa & Hpa & _) (va & Hva)].
  destruct OB as [(Tb & Pb & Htb) OB]. rewrite Hb in OB. destruct OB as [MB _].
  set (orows := rdrows h od) in *. pose proof MB as [_ Hod GB LENo NDo VECo].
  assert (FPA : footprint h a = [imol a; da; pba; tc a]) by (unfold footprint; rewrite Ha; reflexivity).
  assert (FPB : footprint h b = imol b :: od :: orows ++ [tc b]) by (unfold footprint; rewrite Hb; reflexivity).
  assert (LB : forall x, In x (footprint h b) -> x < length h) by (intros x Hx; eapply footprint_lt; eauto).
  assert (NDA : ~ In da (footprint h b)). { apply D. rewrite FPA. simpl; auto. }
  assert (NTB : ~ In (tc a) (footprint h b)). { apply D. apply tc_in_fp. }
  unfold copy_like in CL. rewrite Ha, Hb in CL.
  destruct ophs as [|p1 [|p2 l]]; simpl in L2; try lia. cbv beta iota in CL.
  remember (p1 :: p2 :: l) as ophs eqn:EO.
  (* self.empty() *)
  assert (EM : empty h a = (wr h da (CVec (zero_like va)), a, None)).
  { unfold empty, data_rows. rewrite Ha. unfold wrvecs. simpl. rewrite (rdvec_of _ _ _ Hva). reflexivity. }
  rewrite EM in CL. set (h1 := wr h da (CVec (zero_like va))) in *.
  assert (Lda : da < length h) by (eapply nth_error_some_lt; eauto).
  assert (Nia : da <> imol a) by (intros E; rewrite E, Ha in Hva; discriminate).
  assert (Nta : da <> tc a) by (intros E; rewrite E, Hta in Hva; discriminate).
  assert (L1 : length h1 = length h) by (unfold h1; apply wr_length).
  (* self.phases = phases *)
  assert (SP : exists e0, set_phases pk h1 a ophs =
               (fst (mat_blank pk h1 ka ophs), set_imol a (snd (mat_blank pk h1 ka ophs)), None) /\ e0 = tt).
  { exists tt. split; auto. subst ophs. unfold set_phases. unfold h1 at 1. rewrite wr_other by auto. rewrite Ha.
    rewrite (sort_set_id _ (proj1 GB)). cbv beta iota.
    unfold chem_to_material. unfold h1 at 1. rewrite wr_other by auto. rewrite Ha.
    destruct (phase_tuple_good _ (proj2 GB)) as [PT _]. rewrite PT. rewrite (sort_set_id _ (proj1 GB)). cbn [bind].
    assert (RZ : rdvec h1 da = zero_like va) by (unfold h1; apply rdvec_wr_same; auto).
    rewrite RZ, any_nz_zero_like. destruct (mat_blank pk h1 ka (p1 :: p2 :: l)); reflexivity. }
  destruct SP as (_ & SP & _). rewrite SP in CL.
  destruct (mat_blank pk h1 ka ophs) as [h2 m] eqn:BL. simpl fst in CL; simpl snd in CL.
  destruct (mat_blank_ok pk h1 ka ophs h2 m GB BL) as (MA2 & (ex & HX) & Em & Lh2 & _).
  rewrite L1 in MA2, Em, Lh2.
  set (n := length h) in *. set (q := length ophs) in *.
  cbn [imol set_imol] in CL.
  assert (OLD : forall x, x < n -> x <> da -> nth_error h2 x = nth_error h x).
  { intros x Lx N. rewrite HX. rewrite nth_error_app_l by (rewrite L1; exact Lx). unfold h1. apply wr_other. auto. }
  assert (OLDB : forall x, In x (footprint h b) -> nth_error h2 x = nth_error h x).
  { intros x Hx. apply OLD; [apply LB; auto|]. intros E. subst. contradiction. }
  assert (INB : forall x, In x (imol b :: od :: orows) -> In x (footprint h b)).
  { intros x Hx. rewrite FPB. simpl in *. destruct Hx as [E|[E|H]]; auto. right; right. apply in_or_app; auto. }
  assert (MB2 : mat_ok h2 (imol b) kb ophs od orows).
  { apply (mat_ok_transfer h h2); auto. }
  assert (SEP : forall x, In x (m :: (n + q) :: seq n q) -> ~ In x (imol b :: od :: orows)).
  { intros x Hx H. apply INB in H. apply LB in H. fold n in H.
    destruct Hx as [E|Hx]; [lia|]. destruct Hx as [E|Hx]; [lia|]. apply in_seq in Hx. lia. }
  assert (MS2 : ka <> kb -> forall x, In x orows -> missing (chems pk ka) (chems pk kb) (rdvec h2 x) = false).
  { intros N x Hx. unfold rdvec. rewrite OLDB by (apply INB; simpl; auto). apply MISS; auto. }
  destruct (mat_mat_spec pk h2 m ka ophs (n + q) (seq n q) (imol b) kb ophs od orows MA2 MB2 SEP MS2)
    as (all & rows1 & E1 & M1 & _ & FLOW & FR & LE & _).
  destruct (mat_copy_like_m pk h2 m (imol b)) as [h3 e3]. simpl in E1, M1, FLOW, FR, LE. subst e3.
  cbn [tc set_imol] in CL. inversion CL; subst h' a' e; clear CL. split; auto.
  assert (KEEP : forall x, x < n -> x <> da -> nth_error h3 x = nth_error h x).
  { intros x Lx N. rewrite FR; [apply OLD; auto|rewrite Lh2; lia|].
    intros Hx. destruct Hx as [E|Hx]; [lia|]. destruct Hx as [E|Hx]; [lia|]. apply in_seq in Hx. lia. }
  eapply (finish_multi h h3 (set_imol a m) b m ka all (n + q) rows1 (tc a)); eauto.
  - exists Ta, Pa. rewrite KEEP; auto. eapply nth_error_some_lt; eauto.
  - intros x Hx. apply KEEP; [apply LB; auto|]. intros E. subst. contradiction.
  - intros p c. rewrite FLOW. rewrite (phase_flow_multi h b kb ophs od orows Hb eq_refl).
    rewrite (mflow_ext pk h h2 kb ophs orows); [reflexivity| |exact LENo].
    intros x Hx. unfold rdvec. rewrite OLDB; auto. apply INB. simpl; auto.
Qed.

(* copy_like for every kind x kind x package combination *)
Theorem copy_like_all h a b h' a' e :
  hwf h -> swf h a -> swf h b -> stream_ok h a -> stream_ok h b -> disjoint (footprint h a) (footprint h b) ->
  (stream_pkg h a <> stream_pkg h b -> forall x, In x (data_rows h b) ->
     missing (chems pk (stream_pkg h a)) (chems pk (stream_pkg h b)) (rdvec h x) = false) ->
  copy_like pk h a b = (h', a', e) ->
  e = None /\ (forall p c, (phase_flow pk h' a' p c == phase_flow pk h b p c)%Q) /\
  rdtc h' (tc a') = rdtc h (tc b) /\ obs h' b = obs h b.
Proof.
  intros W SA SB OA OB D MISS CL.
  pose proof OA as [_ OA']. pose proof OB as [_ OB'].
  destruct (nth_error h (imol a)) as [[| | | |ka pba da|ka phs d]|] eqn:Ha; try contradiction.
  - (* single-phase target *)
    assert (PKA : stream_pkg h a = ka) by (unfold stream_pkg; rewrite Ha; reflexivity). rewrite PKA in MISS.
    destruct (nth_error h (imol b)) as [[| | | |kb pbb db|kb ophs od]|] eqn:Hb; try contradiction.
    + destruct OB' as [(p & Hp & PP) (v & Hv)].
      assert (PKB : stream_pkg h b = kb) by (unfold stream_pkg; rewrite Hb; reflexivity). rewrite PKB in MISS.
      assert (RP : rdphase h pbb = p) by (unfold rdphase; rewrite Hp; reflexivity).
      assert (VP : valid_phase (rdphase h pbb) = true) by (rewrite RP; apply plain_valid; auto).
      assert (MS : ka <> kb -> missing (chems pk ka) (chems pk kb) (rdvec h db) = false).
      { intros N. apply MISS; auto. unfold data_rows. rewrite Hb. simpl; auto. }
      destruct (copy_like_ss pk h a b ka pba da kb pbb db h' a' e W SA SB D Ha Hb VP MS CL)
        as (E & Ea & PH & TC & FL & OBS & CELL).
      subst a'. split; auto. split; [|split; auto].
      intros q c. unfold phase_flow. rewrite CELL, Hb, PH. destruct (Nat.eqb (rdphase h pbb) q); [apply FL|reflexivity].
    + destruct OB' as [MB NE]. pose proof MB as [_ Hod GB LENo NDo VECo].
      assert (PKB : stream_pkg h b = kb) by (unfold stream_pkg; rewrite Hb; reflexivity). rewrite PKB in MISS.
      destruct ophs as [|p [|p2 l]]; [congruence| |].
      * destruct (rdrows h od) as [|rb [|rb2 lr]] eqn:RB; simpl in LENo; try discriminate.
        assert (PP : plainp p). { destruct GB as [_ PL]. inversion PL; auto. }
        assert (MS : ka <> kb -> missing (chems pk ka) (chems pk kb) (rdvec h rb) = false).
        { intros N. apply MISS; auto. unfold data_rows. rewrite Hb, RB. simpl; auto. }
        destruct (copy_like_s_m1 pk h a b ka pba da kb p od rb h' a' e W SA SB D Ha Hb RB (plain_valid _ PP) MS CL)
          as (E & Ea & PH & TC & FL & OBS & CELL).
        subst a'. split; auto. split; [|split; auto].
        intros q c. unfold phase_flow. rewrite CELL, Hb, PH, RB. simpl. rewrite (Nat.eqb_sym p q).
        destruct (Nat.eqb q p); [apply FL|reflexivity].
      * assert (L2 : 2 <= length (p :: p2 :: l)) by (simpl; lia).
        assert (MS : ka <> kb -> forall x, In x (rdrows h od) -> missing (chems pk ka) (chems pk kb) (rdvec h x) = false).
        { intros N x Hx. apply MISS; auto. unfold data_rows. rewrite Hb. exact Hx. }
        exact (copy_like_s_m2 h a b ka pba da kb (p :: p2 :: l) od h' a' e W SA SB OA OB D Ha Hb L2 MS CL).
  - assert (PKA : stream_pkg h a = ka) by (unfold stream_pkg; rewrite Ha; reflexivity). rewrite PKA in MISS.
    exact (copy_like_to_multi h a b ka phs d h' a' e W SA SB OA OB D Ha MISS CL).
Qed.
End StreamLevel.
