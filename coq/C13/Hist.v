(* C13 — invariants of whole histories for the view-dict layer:
   cells are never deallocated, every stream of the store points to an allocated indexer, and every binding of
   [cmap] is about an allocated indexer; hence an indexer allocated by a later operation has no binding: its view
   dict is private and empty. *)
From V Require Import Common.NumFacts C13.Model C13.Proofs.
From Coq Require Import Lia.
Local Open Scope nat_scope.

Ltac len := repeat (rewrite ?wr_length, ?app_length, ?map_length, ?seq_length in * ); simpl in *; try lia.

Lemma wrvecs_len rs f : forall h, length (wrvecs h rs f) = length h.
Proof. induction rs as [|r rs IH]; intros h; simpl; auto. unfold wrvecs in *. simpl. rewrite IH. apply wr_length. Qed.

Lemma tc_copy_like_len h r o : length (tc_copy_like h r o) = length h.
Proof. unfold tc_copy_like. destruct (rdtc h o). apply wr_length. Qed.

Lemma tc_copy_grow h r h' t : tc_copy h r = Ok (h', t) -> length h' = S (length h) /\ t = length h.
Proof. unfold tc_copy. destruct (rdtc h r). destruct (tc_valid q q0); intros H; inversion H; subst. len. Qed.

Lemma arr_copy_grow h d h' d' : arr_copy h d = (h', d') -> length h < length h' /\ d' < length h'.
Proof. unfold arr_copy, alloc_vecs. intros H; inversion H; subst. len. Qed.

Lemma mat_blank_grow pk h k phs h' m : mat_blank pk h k phs = (h', m) -> length h < length h' /\ m < length h'.
Proof. unfold mat_blank, alloc_vecs. intros H; inversion H; subst. len. Qed.

Lemma chem_new_grow h k p v h' m : chem_new h k p v = (h', m) -> length h < length h' /\ m < length h'.
Proof. unfold chem_new. intros H; inversion H; subst. len. Qed.

Lemma imol_copy_grow h r h' r' : imol_copy h r = Ok (h', r') -> length h <= length h' /\ r' < length h'.
Proof.
  unfold imol_copy. destruct (nth_error h r) as [[| | | |k pb d|k phs d]|]; try discriminate.
  - destruct (chem_new h k (rdphase h pb) (rdvec h d)) as [h1 m] eqn:C. apply chem_new_grow in C. intros H; inversion H; subst. lia.
  - destruct (arr_copy h d) as [h1 d'] eqn:A. apply arr_copy_grow in A. intros H; inversion H; subst. len.
Qed.

Lemma chem_copy_like_len pk h r o : length (fst (chem_copy_like pk h r o)) = length h.
Proof.
  unfold chem_copy_like. destruct (nth_error h r) as [[| | | |k pb d|]|]; simpl; auto.
  destruct (opt_eqb Nat.eqb (c_self o) (Some r)); simpl; auto.
  destruct (Nat.eqb k (c_pkg o)).
  - destruct (valid_phase (c_phase o)); simpl; destruct (Nat.eqb d (c_data o)); len.
  - destruct (missing _ _ _); simpl; [len|]. destruct (valid_phase (c_phase o)); simpl; len.
Qed.

Lemma expand_phases_grow pk h r other : length h <= length (fst (expand_phases pk h r other)).
Proof.
  unfold expand_phases. destruct (nth_error h r) as [[| | | | |k phs d]|]; simpl; auto.
  destruct (filter _ _) as [|n0 new]; simpl; auto.
  destruct (phase_tuple _); simpl; auto. unfold alloc_vecs. len.
Qed.

Lemma mat_empty_len h d : length (mat_empty h d) = length h.
Proof. apply wrvecs_len. Qed.

Lemma assign_rows_len phs rows f : forall ophs orows h, length (fst (assign_rows h phs rows ophs orows f)) = length h.
Proof.
  induction ophs as [|p ophs IH]; intros [|o orows] h; simpl; auto.
  destruct (pidx phs p); simpl; auto. rewrite IH. apply wr_length.
Qed.

Lemma zip_rows_len f : forall rows orows h, length (zip_rows h rows orows f) = length h.
Proof.
  induction rows as [|a rows IH]; intros [|o orows] h; simpl; auto.
  rewrite IH. destruct (Nat.eqb a o); auto. apply wr_length.
Qed.

Lemma mat_copy_like_c_grow pk h r o : length h <= length (fst (mat_copy_like_c pk h r o)).
Proof.
  unfold mat_copy_like_c. destruct (nth_error h r) as [[| | | | |k phs d]|]; simpl; auto.
  pose proof (mat_empty_len h d) as L0.
  destruct (pidx phs (c_phase o)) as [i0|].
  - destruct (nth_error (mat_empty h d) r) as [[| | | | |k2 phs2 d2]|]; simpl; try lia.
    destruct (pidx phs2 (c_phase o)); simpl; try lia.
    destruct (Nat.eqb k (c_pkg o)); simpl.
    + destruct (Nat.eqb _ (c_data o)); len.
    + destruct (missing _ _ _); simpl; len.
  - pose proof (expand_phases_grow pk (mat_empty h d) r [c_phase o]) as G.
    destruct (expand_phases pk (mat_empty h d) r [c_phase o]) as [h2 e]. simpl in G.
    destruct e; simpl; try lia.
    destruct (nth_error h2 r) as [[| | | | |k2 phs2 d2]|]; simpl; try lia.
    destruct (pidx phs2 (c_phase o)); simpl; try lia.
    destruct (Nat.eqb k (c_pkg o)); simpl.
    + destruct (Nat.eqb _ (c_data o)); len.
    + destruct (missing _ _ _); simpl; len.
Qed.

Lemma mat_copy_like_m_grow pk h r o : length h <= length (fst (mat_copy_like_m pk h r o)).
Proof.
  unfold mat_copy_like_m. destruct (Nat.eqb r o); simpl; auto.
  destruct (nth_error h r) as [[| | | | |k phs d]|]; simpl; auto.
  destruct (nth_error h o) as [[| | | | |ko ophs od]|]; simpl; auto.
  destruct (Nat.eqb k ko).
  - destruct (same_phases phs ophs); simpl; [rewrite zip_rows_len; lia|].
    destruct (compatible phs ophs).
    + rewrite (surjective_pairing (nth_error h r)) || idtac.
      destruct (nth_error h r) as [[| | | | |k1 phs1 d1]|]; simpl; try lia.
      rewrite assign_rows_len, mat_empty_len. lia.
    + pose proof (expand_phases_grow pk h r ophs) as G. destruct (expand_phases pk h r ophs) as [h1 e]. simpl in G.
      destruct e; simpl; try lia.
      destruct (nth_error h1 r) as [[| | | | |k1 phs1 d1]|]; simpl; try lia.
      rewrite assign_rows_len, mat_empty_len. lia.
  - destruct (missing _ _ _); simpl; auto.
    destruct (same_phases phs ophs || compatible phs ophs).
    + destruct (nth_error h r) as [[| | | | |k1 phs1 d1]|]; simpl; try lia.
      rewrite assign_rows_len, mat_empty_len. lia.
    + pose proof (expand_phases_grow pk h r ophs) as G. destruct (expand_phases pk h r ophs) as [h1 e]. simpl in G.
      destruct e; simpl; try lia.
      destruct (nth_error h1 r) as [[| | | | |k1 phs1 d1]|]; simpl; try lia.
      rewrite assign_rows_len, mat_empty_len. lia.
Qed.

Lemma move_rows_len base pt given : forall ophs orows h h', move_rows h base pt given ophs orows = Ok h' -> length h' = length h.
Proof.
  induction ophs as [|p ophs IH]; intros [|o orows] h h'; simpl; try (intros H; inversion H; reflexivity).
  destruct (any_nz (rdvec h o)).
  - destruct (pidx pt _); [|discriminate]. intros H. apply IH in H. rewrite H. apply wr_length.
  - apply IH.
Qed.

Lemma chem_to_material_grow pk h r phs h' m : chem_to_material pk h r phs = Ok (h', m) -> length h <= length h' /\ m < length h'.
Proof.
  unfold chem_to_material. destruct (nth_error h r) as [[| | | |k pb d|]|]; try discriminate.
  destruct (phase_tuple phs) as [pt|]; cbn [bind]; [|discriminate].
  destruct (any_nz (rdvec h d)).
  - destruct (pidx pt _); [|discriminate]. destruct (mat_blank pk h k pt) as [h1 m1] eqn:B. apply mat_blank_grow in B.
    intros H; inversion H; subst. len.
  - destruct (mat_blank pk h k pt) as [h1 m1] eqn:B. apply mat_blank_grow in B. intros H; inversion H; subst. lia.
Qed.

Lemma mat_to_material_grow pk h r pt h' m : mat_to_material pk h r pt = Ok (h', m) -> length h <= length h' /\ m < length h'.
Proof.
  unfold mat_to_material. destruct (nth_error h r) as [[| | | | |k phs d]|]; try discriminate.
  destruct (mat_blank pk h k pt) as [h1 m1] eqn:B. apply mat_blank_grow in B.
  destruct (move_rows _ _ _ _ _ _) as [h2|] eqn:M; cbn [bind]; [|discriminate].
  apply move_rows_len in M. intros H; inversion H; subst. lia.
Qed.

Lemma mat_to_chemical_grow pk h r p h' m : mat_to_chemical pk h r p = Ok (h', m) -> length h <= length h' /\ m < length h'.
Proof.
  unfold mat_to_chemical. destruct (nth_error h r) as [[| | | | |k phs d]|]; try discriminate.
  destruct (chem_new _ _ _ _) as [h1 m1] eqn:B. apply chem_new_grow in B. intros H; inversion H; subst. lia.
Qed.

(* ---------- stream level: the heap only grows and the stream keeps pointing to an allocated indexer ---------- *)
Definition sgrow (h : heap) (s : stream) (h' : heap) (s' : stream) : Prop :=
  length h <= length h' /\ (imol s < length h -> imol s' < length h').

Lemma sgrow_same h s h' : length h <= length h' -> sgrow h s h' s.
Proof. intros L. split; auto. lia. Qed.

Lemma set_phases_grow pk h s phs h' s' e : set_phases pk h s phs = (h', s', e) -> sgrow h s h' s'.
Proof.
  unfold set_phases. destruct (nth_error h (imol s)) as [[| | | |k pb d|k cur d]|]; try (intros H; inversion H; subst; apply sgrow_same; lia).
  - destruct (sort_set phs) as [|p [|p2 l]].
    + destruct (chem_to_material _ _ _ _) as [[h1 m]|] eqn:C; intros H; inversion H; subst; [|apply sgrow_same; lia].
      apply chem_to_material_grow in C. split; simpl; lia.
    + destruct (valid_phase p); intros H; inversion H; subst; apply sgrow_same; len.
    + destruct (chem_to_material _ _ _ _) as [[h1 m]|] eqn:C; intros H; inversion H; subst; [|apply sgrow_same; lia].
      apply chem_to_material_grow in C. split; simpl; lia.
  - destruct (sort_set phs) as [|p [|p2 l]].
    + destruct (phase_tuple phs) as [pt|]; [|intros H; inversion H; subst; apply sgrow_same; lia].
      destruct (same_phases pt cur); [intros H; inversion H; subst; apply sgrow_same; lia|].
      destruct (mat_to_material _ _ _ _) as [[h1 m]|] eqn:C; intros H; inversion H; subst; [|apply sgrow_same; lia].
      apply mat_to_material_grow in C. split; simpl; lia.
    + destruct (mat_to_chemical _ _ _ _) as [[h1 m]|] eqn:C; intros H; inversion H; subst; [|apply sgrow_same; lia].
      apply mat_to_chemical_grow in C. split; simpl; lia.
    + destruct (phase_tuple phs) as [pt|]; [|intros H; inversion H; subst; apply sgrow_same; lia].
      destruct (same_phases pt cur); [intros H; inversion H; subst; apply sgrow_same; lia|].
      destruct (mat_to_material _ _ _ _) as [[h1 m]|] eqn:C; intros H; inversion H; subst; [|apply sgrow_same; lia].
      apply mat_to_material_grow in C. split; simpl; lia.
Qed.

Lemma set_phase_grow pk h s p h' s' e : set_phase pk h s p = (h', s', e) -> sgrow h s h' s'.
Proof.
  unfold set_phase. destruct (nth_error h (imol s)) as [[| | | |k pb d|k cur d]|]; try (intros H; inversion H; subst; apply sgrow_same; lia).
  - destruct (valid_phase p); intros H; inversion H; subst; apply sgrow_same; len.
  - destruct (mat_to_chemical _ _ _ _) as [[h1 m]|] eqn:C; intros H; inversion H; subst; [|apply sgrow_same; lia].
    apply mat_to_chemical_grow in C. split; simpl; lia.
Qed.

Lemma imol_copy_like_grow pk h r o : length h <= length (fst (imol_copy_like pk h r o)).
Proof.
  unfold imol_copy_like. destruct (nth_error h r) as [[| | | |k pb d|k phs d]|]; simpl; auto.
  - destruct (src_of h o); simpl; auto. rewrite chem_copy_like_len. lia.
  - destruct (nth_error h o) as [[| | | |ko pbo od|]|]; try apply mat_copy_like_m_grow. apply mat_copy_like_c_grow.
Qed.

Lemma empty_len h s : length (fst (fst (empty h s))) = length h.
Proof. unfold empty. simpl. apply wrvecs_len. Qed.

Lemma copy_like_grow pk h s o h' s' e : copy_like pk h s o = (h', s', e) -> sgrow h s h' s'.
Proof.
  unfold copy_like. destruct (nth_error h (imol s)) as [[| | | |k pb d|k phs d]|]; try (intros H; inversion H; subst; apply sgrow_same; lia).
  - destruct (nth_error h (imol o)) as [[| | | |ko pbo od|ko ophs od]|]; try (intros H; inversion H; subst; apply sgrow_same; lia).
    + match goal with |- context [chem_copy_like pk h (imol s) ?c] =>
        pose proof (chem_copy_like_len pk h (imol s) c) as L; destruct (chem_copy_like pk h (imol s) c) as [h1 e1] end.
      simpl in L. destruct e1; intros H; inversion H; subst; apply sgrow_same; rewrite ?tc_copy_like_len; lia.
    + destruct ophs as [|p [|p2 l]].
      * pose proof (empty_len h s) as L0. destruct (empty h s) as [[h1 s1] e1]. simpl in L0.
        destruct (set_phases pk h1 s []) as [[h2 s2] e2] eqn:SP. apply set_phases_grow in SP. destruct SP as [G1 G2].
        destruct e2; [intros H; inversion H; subst; split; [lia|intros; apply G2; lia]|].
        pose proof (mat_copy_like_m_grow pk h2 (imol s2) (imol o)) as G3.
        destruct (mat_copy_like_m pk h2 (imol s2) (imol o)) as [h3 e3]. simpl in G3.
        destruct e3; intros H; inversion H; subst; (split; [rewrite ?tc_copy_like_len; lia|intros; rewrite ?tc_copy_like_len; specialize (G2 ltac:(lia)); lia]).
      * match goal with |- context [chem_copy_like pk h (imol s) ?c] =>
          pose proof (chem_copy_like_len pk h (imol s) c) as L; destruct (chem_copy_like pk h (imol s) c) as [h1 e1] end.
        simpl in L. destruct e1; intros H; inversion H; subst; apply sgrow_same; rewrite ?tc_copy_like_len; lia.
      * pose proof (empty_len h s) as L0. destruct (empty h s) as [[h1 s1] e1]. simpl in L0.
        destruct (set_phases pk h1 s (p :: p2 :: l)) as [[h2 s2] e2] eqn:SP. apply set_phases_grow in SP. destruct SP as [G1 G2].
        destruct e2; [intros H; inversion H; subst; split; [lia|intros; apply G2; lia]|].
        pose proof (mat_copy_like_m_grow pk h2 (imol s2) (imol o)) as G3.
        destruct (mat_copy_like_m pk h2 (imol s2) (imol o)) as [h3 e3]. simpl in G3.
        destruct e3; intros H; inversion H; subst; (split; [rewrite ?tc_copy_like_len; lia|intros; rewrite ?tc_copy_like_len; specialize (G2 ltac:(lia)); lia]).
  - pose proof (imol_copy_like_grow pk h (imol s) (imol o)) as G.
    destruct (imol_copy_like pk h (imol s) (imol o)) as [h1 e1]. simpl in G.
    destruct e1; intros H; inversion H; subst; apply sgrow_same; rewrite ?tc_copy_like_len; lia.
Qed.

Lemma link_with_grow h s o fl ph tp h' s' e : link_with h s o fl ph tp = (h', s', e) -> sgrow h s h' s' /\ imol s' = imol s.
Proof.
  unfold link_with.
  destruct (nth_error h (imol s)) as [[| | | |k pb d|k phs d]|]; destruct (nth_error h (imol o)) as [[| | | |ko pbo od|ko pho od]|];
    intros H; inversion H; subst; clear H;
    first [ split; [apply sgrow_same; lia|reflexivity]
          | split; [split; [len|destruct tp; simpl; len]|destruct tp; reflexivity] ].
Qed.

Lemma unlink_grow h s h' s' e : unlink h s = (h', s', e) -> sgrow h s h' s'.
Proof.
  intros U. pose proof (unlink_imol _ _ _ _ _ U) as I. unfold sgrow. rewrite I. revert U. unfold unlink.
  destruct (nth_error h (imol s)) as [[| | | |k pb d|k phs d]|]; try (intros H; inversion H; subst; lia).
  - destruct (tc_copy _ _) as [[h3 t]|] eqn:TC; intros H; inversion H; subst.
    + apply tc_copy_grow in TC. destruct TC as [L _]. rewrite L. len.
    + len.
  - destruct (arr_copy h d) as [h1 d'] eqn:A. apply arr_copy_grow in A.
    destruct (tc_copy _ _) as [[h3 t]|] eqn:TC; intros H; inversion H; subst.
    + apply tc_copy_grow in TC. destruct TC as [L _]. rewrite L. len.
    + len.
Qed.

Lemma simple_ops_grow :
  (forall h s r c v h' s' e, set_flow h s r c v = (h', s', e) -> sgrow h s h' s') /\
  (forall h s v h' s' e, set_T h s v = (h', s', e) -> sgrow h s h' s') /\
  (forall h s v h' s' e, set_P h s v = (h', s', e) -> sgrow h s h' s') /\
  (forall h s k h' s' e, scale h s k = (h', s', e) -> sgrow h s h' s') /\
  (forall h s h' s' e, empty h s = (h', s', e) -> sgrow h s h' s') /\
  (forall h s o h' s' e, copy_tc h s o = (h', s', e) -> sgrow h s h' s') /\
  (forall h s o h' s' e, copy_phase h s o = (h', s', e) -> sgrow h s h' s').
Proof.
  refine (conj _ (conj _ (conj _ (conj _ (conj _ (conj _ _)))))); intros until e.
  - unfold set_flow. destruct (nth_error (data_rows h s) r); intros H; inversion H; subst; apply sgrow_same; len.
  - unfold set_T. intros H; inversion H; subst; apply sgrow_same; len.
  - unfold set_P. intros H; inversion H; subst; apply sgrow_same; len.
  - unfold scale. intros H; inversion H; subst; apply sgrow_same. rewrite wrvecs_len. lia.
  - unfold empty. intros H; inversion H; subst; apply sgrow_same. rewrite wrvecs_len. lia.
  - unfold copy_tc. intros H; inversion H; subst; apply sgrow_same. rewrite tc_copy_like_len. lia.
  - unfold copy_phase. destruct (nth_error h (imol o)) as [[| | | |ko pbo od|]|]; try (intros H; inversion H; subst; apply sgrow_same; lia).
    destruct (nth_error h (imol s)) as [[| | | |k pb d|]|]; intros H; inversion H; subst; apply sgrow_same; len.
Qed.

(* creators: the new stream points to an allocated indexer *)
Definition cgrow (h : heap) (h' : heap) (n : stream) : Prop := length h <= length h' /\ imol n < length h'.

Lemma copy_grow h s h' n : copy h s = Ok (h', n) -> cgrow h h' n.
Proof.
  unfold copy. destruct (imol_copy h (imol s)) as [[h1 i]|] eqn:C; cbn [bind]; [|discriminate].
  apply imol_copy_grow in C. destruct (tc_copy h1 (tc s)) as [[h2 t]|] eqn:T; cbn [bind]; [|discriminate].
  apply tc_copy_grow in T. intros H; inversion H; subst. split; simpl; lia.
Qed.

Lemma flow_proxy_grow h s h' n : flow_proxy h s = Ok (h', n) -> cgrow h h' n.
Proof.
  unfold flow_proxy. destruct (nth_error h (imol s)) as [[| | | |k pb d|k phs d]|]; try discriminate.
  - destruct (tc_copy _ (tc s)) as [[h2 t]|] eqn:T; cbn [bind]; [|discriminate].
    apply tc_copy_grow in T. intros H; inversion H; subst. split; simpl; len.
  - destruct (tc_copy _ (tc s)) as [[h2 t]|] eqn:T; cbn [bind]; [|discriminate].
    apply tc_copy_grow in T. intros H; inversion H; subst. split; simpl; len.
Qed.

Lemma new_single_grow h i k p v T P pr c h' n : new_single h i k p v T P pr c = Ok (h', n) -> cgrow h h' n.
Proof.
  unfold new_single. destruct (tc_valid T P); [|discriminate].
  destruct (chem_new _ _ _ _) as [h2 m] eqn:C. apply chem_new_grow in C. intros H; inversion H; subst. split; simpl; len.
Qed.

Lemma fill_rows_len phs rows : forall fl h h', fill_rows h phs rows fl = Ok h' -> length h' = length h.
Proof.
  induction fl as [|[p v] fl IH]; intros h h'; simpl; [intros H; inversion H; reflexivity|].
  destruct (pidx phs p); [|discriminate]. intros H. apply IH in H. rewrite H. apply wr_length.
Qed.

Lemma new_multi_grow pk h i k phs fl T P pr c h' n : new_multi pk h i k phs fl T P pr c = Ok (h', n) -> cgrow h h' n.
Proof.
  unfold new_multi. destruct (tc_valid T P); [|discriminate].
  destruct (phase_tuple phs) as [pt|]; cbn [bind]; [|discriminate].
  destruct (mat_blank _ _ _ _) as [h2 m] eqn:B. apply mat_blank_grow in B.
  destruct (fill_rows _ _ _ _) as [h3|] eqn:F; cbn [bind]; [|discriminate]. apply fill_rows_len in F.
  intros H; inversion H; subst. split; simpl; len.
Qed.

Lemma reduce_grow pk h s h' n : reduce pk h s = Ok (h', n) -> cgrow h h' n.
Proof.
  unfold reduce. destruct (imol_copy h (imol s)) as [[h1 dimol]|] eqn:C; cbn [bind]; [|discriminate].
  apply imol_copy_grow in C. destruct (rdtc h (tc s)) as [T P].
  match goal with |- context [bind ?x _] => destruct x as [[h2 n0]|] eqn:N end; cbn [bind]; [|discriminate].
  assert (G0 : cgrow h1 h2 n0).
  { destruct (is_multi h s); [eapply new_multi_grow|eapply new_single_grow]; eauto. }
  destruct (set_phases pk h2 n0 _) as [[h3 n1] e] eqn:SP. apply set_phases_grow in SP. destruct SP as [G1 G2].
  destruct e; [discriminate|].
  pose proof (imol_copy_like_grow pk h3 (imol n1) dimol) as G3.
  destruct (imol_copy_like pk h3 (imol n1) dimol) as [h4 e2]. simpl in G3. destruct e2; [discriminate|].
  intros H; inversion H; subst. destruct G0. split; len.
Qed.

(* ================================================================= the invariant over histories *)
Definition store_lt (st : state) : Prop := Forall (fun s => imol s < length (hp st)) (ss st).
Definition cmap_lt (st : state) : Prop := Forall (fun kc => fst kc < length (hp st)) (cmap st).
Definition inv (st : state) : Prop := store_lt st /\ cmap_lt st.

Lemma Forall_upd {A} (P : A -> Prop) l i x : Forall P l -> P x -> Forall P (upd l i x).
Proof.
  revert i; induction l as [|a l IH]; intros i F X; simpl; auto. inversion F; subst.
  destruct i; constructor; auto.
Qed.
Lemma Forall_mono_lt {A} (f : A -> nat) l n m : n <= m -> Forall (fun x => f x < n) l -> Forall (fun x => f x < m) l.
Proof. intros L F. eapply Forall_impl; [|exact F]. simpl. intros; lia. Qed.
Lemma unbind_Forall (P : ref * nat -> Prop) r m : Forall P m -> Forall P (unbind r m).
Proof. intros F. apply Forall_forall. intros x Hx. apply filter_In in Hx. rewrite Forall_forall in F. apply F. tauto. Qed.

Lemma inv_heap st h l : inv st -> length (hp st) <= length h -> Forall (fun s => imol s < length h) l ->
  inv (mkstate h l (cmap st) (caches st)).
Proof.
  intros [S C] L F. split; unfold store_lt, cmap_lt; simpl; auto.
  apply (Forall_mono_lt (fun kc : ref * nat => fst kc) _ (length (hp st)) (length h)); auto.
Qed.

Lemma inv_on1 st i f st' e : inv st ->
  (forall s h' s' e', f (hp st) s = (h', s', e') -> sgrow (hp st) s h' s') ->
  on1 st i f = (st', e) -> inv st' /\ cmap st' = cmap st /\ length (hp st) <= length (hp st').
Proof.
  intros I G. unfold on1. destruct (nth_error (ss st) i) as [s|] eqn:Hs; [|intros H; inversion H; subst; split; [exact I|split; auto]].
  destruct (f (hp st) s) as [[h s'] e'] eqn:F. destruct (G _ _ _ _ F) as [L B]. intros H; inversion H; subst; clear H.
  split; [|split; auto]. apply inv_heap; auto.
  destruct I as [S _]. unfold store_lt in S. apply Forall_upd.
  - apply (Forall_mono_lt imol _ (length (hp st)) (length h)); auto.
  - apply B. rewrite Forall_forall in S. apply S. eapply nth_error_In; eauto.
Qed.

Lemma inv_on2 st i j f st' e : inv st ->
  (forall s o h' s' e', f (hp st) s o = (h', s', e') -> sgrow (hp st) s h' s') ->
  on2 st i j f = (st', e) -> inv st' /\ cmap st' = cmap st /\ length (hp st) <= length (hp st').
Proof.
  intros I G. unfold on2. destruct (nth_error (ss st) i) as [s|] eqn:Hs; [|intros H; inversion H; subst; split; [exact I|split; auto]].
  destruct (nth_error (ss st) j) as [o|]; [|intros H; inversion H; subst; split; [exact I|split; auto]].
  destruct (f (hp st) s o) as [[h s'] e'] eqn:F. destruct (G _ _ _ _ _ F) as [L B]. intros H; inversion H; subst; clear H.
  split; [|split; auto]. apply inv_heap; auto.
  destruct I as [S _]. unfold store_lt in S. apply Forall_upd.
  - apply (Forall_mono_lt imol _ (length (hp st)) (length h)); auto.
  - apply B. rewrite Forall_forall in S. apply S. eapply nth_error_In; eauto.
Qed.

Lemma inv_creator st r st' e : inv st -> (forall h' n, r = Ok (h', n) -> cgrow (hp st) h' n) ->
  creator st r = (st', e) -> inv st'.
Proof.
  intros I G. unfold creator. destruct r as [[h n]|]; intros H; inversion H; subst; auto.
  destruct (G _ _ eq_refl) as [L B]. apply inv_heap; auto. apply Forall_app. split; [|constructor; auto].
  destruct I as [S _]. apply (Forall_mono_lt imol _ (length (hp st)) (length h)); auto.
Qed.

Lemma inv_new1 st i f st' e : inv st ->
  (forall s h' n, imol s < length (hp st) -> f (hp st) s = Ok (h', n) -> cgrow (hp st) h' n) ->
  new1 st i f = (st', e) -> inv st'.
Proof.
  intros I G. unfold new1. destruct (nth_error (ss st) i) as [s|] eqn:Hs; [|intros H; inversion H; subst; auto].
  intros H. eapply inv_creator; eauto. intros h' n E. eapply G; eauto.
  destruct I as [S _]. unfold store_lt in S. rewrite Forall_forall in S. apply S. eapply nth_error_In; eauto.
Qed.

Lemma inv_cache_reset st r : inv st -> inv (cache_reset st r).
Proof. intros [S C]. split; auto. unfold cmap_lt, cache_reset. simpl. apply unbind_Forall. exact C. Qed.

Lemma inv_cache_share st r o : inv st -> r < length (hp st) -> o < length (hp st) -> inv (cache_share st r o).
Proof.
  intros [S C] Lr Lo. unfold cache_share. destruct (Nat.eqb r o); [split; auto|].
  destruct (lookup o (cmap st)); split; auto; unfold cmap_lt; simpl; repeat constructor; auto; apply unbind_Forall; exact C.
Qed.

Lemma inv_cache_clear st r : inv st -> inv (cache_clear st r).
Proof. intros [S C]. unfold cache_clear. destruct (lookup r (cmap st)); split; auto. Qed.

Lemma inv_by_mass st s : inv st -> imol s < length (hp st) -> inv (fst (by_mass st s)).
Proof.
  intros [S C] L. unfold by_mass. destruct (view_of st (imol s)); [split; auto|].
  destruct (lookup (imol s) (cmap st)); split; auto. unfold cmap_lt. simpl. constructor; auto.
Qed.

Lemma hp_by_mass st s : hp (fst (by_mass st s)) = hp st /\ ss (fst (by_mass st s)) = ss st.
Proof.
  unfold by_mass. destruct (view_of st (imol s)); auto. destruct (lookup (imol s) (cmap st)); auto.
Qed.

Section Step.
Variables (pk : list (list nat)) (mw : list Q).

Lemma in_store_lt st i s : inv st -> nth_error (ss st) i = Some s -> imol s < length (hp st).
Proof. intros [S _] H. unfold store_lt in S. rewrite Forall_forall in S. apply S. eapply nth_error_In; eauto. Qed.

Lemma inv_step st o st' e : inv st -> step pk mw st o = (st', e) -> inv st'.
Proof.
  intros I. destruct simple_ops_grow as (G1 & G2 & G3 & G4 & G5 & G6 & G7).
  destruct o; simpl.
  - intros H. eapply inv_creator; eauto. intros h' n E. eapply new_single_grow; eauto.
  - intros H. eapply inv_creator; eauto. intros h' n E. eapply new_multi_grow; eauto.
  - intros H. eapply inv_new1; eauto. intros s h' n _ E. eapply copy_grow; eauto.
  - (* copy_like *)
    unfold copy_like_step. destruct (nth_error (ss st) i) as [s|]; [|intros H; inversion H; subst; auto].
    destruct (on2 st i j (copy_like pk)) as [st1 e1] eqn:O.
    eapply inv_on2 in O; eauto; [|intros; eapply copy_like_grow; eauto]. destruct O as (I1 & _ & _).
    intros H; inversion H; subst; clear H.
    destruct (phs_at (hp st) (imol s)); auto. destruct (phs_at (hp st1) (imol s)); auto.
    destruct (same_phases l l0); auto. apply inv_cache_clear; auto.
  - intros H. apply (inv_on2 st _ _ _ st' e I) in H; [apply H|intros; eapply G6; eauto].
  - intros H. apply (inv_on2 st _ _ _ st' e I) in H; [apply H|intros; eapply G7; eauto].
  - intros H. eapply inv_new1; eauto. intros s h' n _ E. eapply flow_proxy_grow; eauto.
  - intros H. eapply inv_new1; eauto. intros s h' n L E. unfold proxy in E. inversion E; subst. split; simpl; auto.
  - (* link *)
    unfold link_step. destruct (nth_error (ss st) i) as [s|] eqn:Hs; [|intros H; inversion H; subst; auto].
    destruct (nth_error (ss st) j) as [o|] eqn:Ho; [|intros H; inversion H; subst; auto].
    destruct (on2 st i j _) as [st1 e1] eqn:O.
    eapply inv_on2 in O; eauto; [|intros s0 o0 h' s' e' E; apply link_with_grow in E; apply E].
    destruct O as (I1 & _ & L). pose proof (in_store_lt _ _ _ I Hs) as Ls. pose proof (in_store_lt _ _ _ I Ho) as Lo.
    destruct e1; intros H; inversion H; subst; auto.
    destruct (tp && fl && (ph || is_multi (hp st) s)); [apply inv_cache_share; auto; lia|apply inv_cache_reset; auto].
  - (* unlink *)
    unfold unlink_step. destruct (nth_error (ss st) i) as [s|] eqn:Hs; [|intros H; inversion H; subst; auto].
    destruct (on1 st i unlink) as [st1 e1] eqn:O.
    eapply inv_on1 in O; eauto; [|intros; eapply unlink_grow; eauto]. destruct O as (I1 & _ & _).
    intros H; inversion H; subst. destruct e as [[]|]; auto; apply inv_cache_reset; auto.
  - intros H. apply (inv_on1 st _ _ st' e I) in H; [apply H|intros; eapply G1; eauto].
  - intros H. apply (inv_on1 st _ _ st' e I) in H; [apply H|intros; eapply G2; eauto].
  - intros H. apply (inv_on1 st _ _ st' e I) in H; [apply H|intros; eapply G3; eauto].
  - intros H. apply (inv_on1 st _ _ st' e I) in H; [apply H|intros; eapply set_phase_grow; eauto].
  - intros H. apply (inv_on1 st _ _ st' e I) in H; [apply H|intros; eapply set_phases_grow; eauto].
  - intros H. apply (inv_on1 st _ _ st' e I) in H; [apply H|intros; eapply G4; eauto].
  - intros H. apply (inv_on1 st _ _ st' e I) in H; [apply H|intros; eapply G5; eauto].
  - intros H. eapply inv_new1; eauto. intros s h' n _ E. eapply reduce_grow; eauto.
  - (* read_mass *)
    unfold read_mass_step. destruct (nth_error (ss st) i) as [s|] eqn:Hs; intros H; inversion H; subst; auto.
    apply inv_by_mass; auto. eapply in_store_lt; eauto.
  - (* set_mass *)
    unfold set_mass_step. destruct (nth_error (ss st) i) as [s|] eqn:Hs; [|intros H; inversion H; subst; auto].
    pose proof (inv_by_mass st s I (in_store_lt _ _ _ I Hs)) as IB. destruct (hp_by_mass st s) as [HB SB].
    destruct (by_mass st s) as [st1 rows]. simpl in *.
    destruct (nth_error rows r); intros H; inversion H; subst; auto.
    destruct IB as [S C]. split; unfold store_lt, cmap_lt in *; simpl; rewrite wr_length; auto.
  - destruct (nth_error (ss st) i); intros H; inversion H; subst; auto.
  - intros H; inversion H; subst; auto.
Qed.

(* every reachable state satisfies the invariant *)
Lemma inv_run ops : forall st, inv st -> inv (fst (run pk mw st ops)).
Proof.
  induction ops as [|o ops IH]; intros st I; simpl; auto.
  destruct (step pk mw st o) as [st1 e] eqn:E. apply inv_step in E; auto.
  specialize (IH st1 E). destruct (run pk mw st1 ops) as [st2 es]. exact IH.
Qed.
End Step.

Lemma inv_init : inv init.
Proof. split; constructor. Qed.

(* an indexer that is not allocated yet has no binding: once allocated its view dict is its own and empty *)
Lemma fresh_no_view st r : inv st -> length (hp st) <= r -> lookup r (cmap st) = None.
Proof.
  intros [_ C] L. unfold cmap_lt in C. induction (cmap st) as [|[k c] m IH]; simpl; auto.
  inversion C; subst. simpl in H1. destruct (Nat.eqb k r) eqn:E; [apply Nat.eqb_eq in E; lia|auto].
Qed.

Lemma data_rows_in_fp h s r : In r (data_rows h s) -> In r (footprint h s).
Proof.
  unfold data_rows, footprint. destruct (nth_error h (imol s)) as [[| | | |k pb d|k phs d]|]; simpl; try tauto.
  intros H. right; right. apply in_or_app; auto.
Qed.

(* copy in any reachable state: the indexer of the copy is new, so it has no view dict binding; its mass view is built
   over its own rows, which the original does not reach *)
Lemma copy_view pk mw st i st' s : inv st -> hwf (hp st) -> swf (hp st) s -> nth_error (ss st) i = Some s ->
  step pk mw st (OCopy i) = (st', None) ->
  exists c, ss st' = ss st ++ [c] /\ view_of st' (imol c) = None /\
    snd (by_mass st' c) = data_rows (hp st') c /\
    disjoint (footprint (hp st') s) (footprint (hp st') c) /\
    (forall r, In r (snd (by_mass st' c)) -> In r (footprint (hp st') c) /\ ~ In r (footprint (hp st') s)).
Proof.
  intros I W SW Hs E. simpl in E. unfold new1 in E. rewrite Hs in E. unfold creator in E.
  destruct (copy (hp st) s) as [[h2 c]|] eqn:C; [|discriminate]. inversion E; subst st'; clear E.
  destruct (copy_lemma _ _ _ _ W SW C) as ((e & ->) & W2 & S2 & _ & _ & F & G).
  exists c. simpl. split; auto.
  assert (L : lookup (imol c) (cmap st) = None).
  { apply fresh_no_view; auto. apply G. apply imol_in_fp. }
  assert (V : view_of {| hp := hp st ++ e; ss := ss st ++ [c]; cmap := cmap st; caches := caches st |} (imol c) = None).
  { unfold view_of. simpl. rewrite L. reflexivity. }
  assert (D : disjoint (footprint (hp st ++ e) s) (footprint (hp st ++ e) c)).
  { intros r Hr Hc. rewrite F in Hr. pose proof (footprint_lt _ _ _ W SW Hr). pose proof (G _ Hc). lia. }
  assert (B : snd (by_mass {| hp := hp st ++ e; ss := ss st ++ [c]; cmap := cmap st; caches := caches st |} c)
              = data_rows (hp st ++ e) c).
  { unfold by_mass. rewrite V. simpl. rewrite L. simpl. unfold new_view, data_rows.
    destruct (nth_error (hp st ++ e) (imol c)) as [[]|]; reflexivity. }
  split; auto. split; auto. split; auto.
  intros r Hr. rewrite B in Hr. apply data_rows_in_fp in Hr. split; auto. intros Hs'. exact (D r Hs' Hr).
Qed.
