(* C13 — executable model of the per-phase views ms[phase] of a MultiStream, as a layer over the heap model of Model.v.
   Source modelled (as it is at /repo HEAD):
     _multi_stream.py  MultiStream.__getitem__ (:374-388: the dict _streams, Stream.__new__, _imol = get_phase(phase),
                       the SAME thermal condition object), phases setter (:466-479: sub-streams re-attached to the rows
                       of the new indexer or deleted), phase setter (:1011-1020: _streams.clear())
     indexer.py        MaterialIndexer.get_phase (:992-994: a NEW ChemicalIndexer over the row OBJECT of the phase,
                       with the LockedPhase singleton of that phase)
     _phase.py         LockedPhase (:171-189: one object per phase letter, kept in a class-level cache; every assignment
                       of a different value raises AttributeError)
     _stream.py        link_with (:1631-1645) and unlink (:1678-1689) rebind _imol.data / _thermal_condition of the
                       MultiStream and do NOT touch _streams;  unlink of a view raises RuntimeError (locked phase);
                       copy / flow_proxy of a view go through Phase.copy(), which returns an ordinary Phase
   A view is a [stream] record (it IS a Stream object): _imol = a new CIdxC cell whose data reference is the row cell of
   the MultiStream and whose phase box is the LockedPhase cell; tc = the tc reference of the MultiStream at creation.
   The price slot of a view is never set by __getitem__ (reading it raises AttributeError); the record carries 0 and the
   correspondence does not read it.
   [subs]  the dicts _streams of all MultiStream objects: (index of the object in the store, phase key) -> view, in
           insertion order;  [lk] = LockedPhase._cache: phase -> the cell of its singleton.
   No proofs in this file. *)
From V Require Export C13.Model.
Local Open Scope nat_scope.

Record vstate := mkv { base : state; subs : list (nat * nat * stream); lk : list (nat * ref) }.
Definition vinit : vstate := mkv init [] [].

(* LockedPhase(p): the cached singleton, created at first use *)
Definition locked (h : heap) (l : list (nat * ref)) (p : nat) : heap * list (nat * ref) * ref :=
  match lookup p l with
  | Some r => (h, l, r)
  | None => (h ++ [CPhase p], (p, length h) :: l, length h)
  end.

(* MaterialIndexer.get_phase(phase): the row is looked up first (UndefinedPhase), then LockedPhase(phase) *)
Definition get_phase (h : heap) (l : list (nat * ref)) (r : ref) (p : nat) : res (heap * list (nat * ref) * ref) :=
  match nth_error h r with
  | Some (CIdxM k phs d) =>
    match pidx phs p with
    | None => Err EUndefPhase
    | Some i =>
      let '(h1, l1, pb) := locked h l p in
      Ok (h1 ++ [CIdxC k pb (nth i (rdrows h d) O)], l1, length h1)
    end
  | _ => Err EOther
  end.

Fixpoint sub_find (i p : nat) (l : list (nat * nat * stream)) : option stream :=
  match l with
  | [] => None
  | (j, q, v) :: t => if Nat.eqb j i && Nat.eqb q p then Some v else sub_find i p t
  end.

Definition with_heap (st : state) (h : heap) : state := mkstate h (ss st) (cmap st) (caches st).

(* MultiStream.__getitem__(phase) of the object at store index i *)
Definition getitem (vs : vstate) (i p : nat) : vstate * res stream :=
  match nth_error (ss (base vs)) i with
  | None => (vs, Err EIndex)
  | Some s =>
    match sub_find i p (subs vs) with
    | Some v => (vs, Ok v)
    | None =>
      match get_phase (hp (base vs)) (lk vs) (imol s) p with
      | Err e => (vs, Err e)
      | Ok (h1, l1, m) =>
        let v := mkstream m (tc s) 0 [] IdNone (thermo s) in
        (mkv (with_heap (base vs) h1) (subs vs ++ [(i, p, v)]) l1, Ok v)
      end
    end
  end.

(* the loop of the phases setter over tuple(_streams): re-attach (stream._imol = imol.get_phase(phase)) or delete *)
Fixpoint rebind (h : heap) (l : list (nat * ref)) (i : nat) (m : ref) (sb : list (nat * nat * stream))
  : heap * list (nat * ref) * list (nat * nat * stream) :=
  match sb with
  | [] => (h, l, [])
  | (j, p, v) :: t =>
    if Nat.eqb j i then
      match get_phase h l m p with
      | Ok (h1, l1, r) => let '(h2, l2, t') := rebind h1 l1 i m t in (h2, l2, (j, p, set_imol v r) :: t')
      | Err _ => rebind h l i m t
      end
    else let '(h2, l2, t') := rebind h l i m t in (h2, l2, (j, p, v) :: t')
  end.

Definition drop_subs (i : nat) (sb : list (nat * nat * stream)) : list (nat * nat * stream) :=
  filter (fun e => negb (Nat.eqb (fst (fst e)) i)) sb.

Inductive vop :=
| VBase (o : op)
| VGet (i p : nat)
| VSetFlow (i p c : nat) (x : Q)
| VSetT (i p : nat) (x : Q)
| VSetPhase (i p q : nat)
| VCopy (i p : nat)
| VFlowProxy (i p : nat)
| VUnlink (i p : nat).

Section WithPackages.
Variable pk : list (list nat).
Variable mws : list Q.

(* an operation of Model.v on the store, followed by what the code does to _streams of the object:
   phase / phases setters of a MultiStream whose indexer was replaced: cleared when it became a Stream, re-attached or
   deleted when it stayed a MultiStream; every other operation (link_with and unlink included) leaves _streams alone *)
Definition vbase (vs : vstate) (o : op) : vstate * option err :=
  let '(b1, e) := step pk mws (base vs) o in
  let keep := (mkv b1 (subs vs) (lk vs), e) in
  let target := match o with OSetPhase i _ => Some i | OSetPhases i _ => Some i | _ => None end in
  match target with
  | None => keep
  | Some i =>
    match nth_error (ss (base vs)) i, nth_error (ss b1) i with
    | Some s, Some s' =>
      if is_multi (hp (base vs)) s && negb (Nat.eqb (imol s) (imol s')) then
        match nth_error (hp b1) (imol s') with
        | Some (CIdxM _ _ _) =>
          let '(h2, l2, sb) := rebind (hp b1) (lk vs) i (imol s') (subs vs) in
          (mkv (with_heap b1 h2) sb l2, e)
        | _ => (mkv b1 (drop_subs i (subs vs)) (lk vs), e)
        end
      else keep
    | _, _ => keep
    end
  end.

(* an operation applied to the object ms[p] (created when the dict has no such key) *)
Definition on_view (vs : vstate) (i p : nat) (f : vstate -> stream -> vstate * option err) : vstate * option err :=
  match getitem vs i p with
  | (vs1, Ok v) => f vs1 v
  | (vs1, Err e) => (vs1, Some e)
  end.
Definition view_heap (vs : vstate) (v : stream) (f : heap -> stream -> oret) : vstate * option err :=
  let '(h, _, e) := f (hp (base vs)) v in (mkv (with_heap (base vs) h) (subs vs) (lk vs), e).
Definition view_new (vs : vstate) (v : stream) (f : heap -> stream -> res (heap * stream)) : vstate * option err :=
  let '(b1, e) := creator (base vs) (f (hp (base vs)) v) in (mkv b1 (subs vs) (lk vs), e).

Definition vstep (vs : vstate) (o : vop) : vstate * option err :=
  match o with
  | VBase o => vbase vs o
  | VGet i p => on_view vs i p (fun vs1 _ => (vs1, None))
  | VSetFlow i p c x => on_view vs i p (fun vs1 v => view_heap vs1 v (fun h s => set_flow h s O c x))
  | VSetT i p x => on_view vs i p (fun vs1 v => view_heap vs1 v (fun h s => set_T h s x))
  (* LockedPhase.__setattr__: AttributeError unless the value is the phase it holds (read through the cell) *)
  | VSetPhase i p q => on_view vs i p (fun vs1 v =>
      match nth_error (hp (base vs1)) (imol v) with
      | Some (CIdxC _ pb _) => (vs1, if Nat.eqb (rdphase (hp (base vs1)) pb) q then None else Some EOther)
      | _ => (vs1, Some EOther)
      end)
  | VCopy i p => on_view vs i p (fun vs1 v => view_new vs1 v copy)
  | VFlowProxy i p => on_view vs i p (fun vs1 v => view_new vs1 v flow_proxy)
  | VUnlink i p => on_view vs i p (fun vs1 _ => (vs1, Some ERuntime))
  end.

Fixpoint vrun (vs : vstate) (ops : list vop) : vstate * list (option err) :=
  match ops with
  | [] => (vs, [])
  | o :: t => let (vs1, e) := vstep vs o in let (vs2, es) := vrun vs1 t in (vs2, e :: es)
  end.

End WithPackages.

(* ---------- observation: the store streams followed by the views, object by object in dict order ---------- *)
Definition views_in_order (vs : vstate) : list (nat * nat * stream) :=
  concat (map (fun i => filter (fun e => Nat.eqb (fst (fst e)) i) (subs vs)) (seq O (length (ss (base vs))))).

Definition vsnapshot (vs : vstate) : list sobs :=
  let b := base vs in
  snapshot (mkstate (hp b) (ss b ++ map snd (views_in_order vs)) (cmap b) (caches b)).

Definition vrun_eqb (ops : list vop) (res : list (option err)) (final : list sobs) (keys : list (nat * nat)) : bool :=
  let (vs, es) := vrun PK MWS vinit ops in
  list_eqb oerr_eqb es res && list_eqb sobs_eqb (vsnapshot vs) final
  && list_eqb (fun a b => Nat.eqb (fst a) (fst b) && Nat.eqb (snd a) (snd b)) (map fst (views_in_order vs)) keys.
Definition vrun_show (ops : list vop) :=
  let (vs, es) := vrun PK MWS vinit ops in (es, vsnapshot vs, map fst (views_in_order vs), hp (base vs), subs vs, lk vs).
