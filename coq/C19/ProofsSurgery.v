(* C19 — lemmas about the path surgery model (Model.v part 5).
   Invariant proved for every modelled method, every stream graph and every recycle_sink oracle:
   if `units` equals the set of units of the path at every level of the receiver and of the
   argument, the same holds for the result, and the units of the result are exactly the units of
   the receiver together with those of the argument (nothing lost, nothing invented). *)
From Coq Require Import Permutation.
From V Require Import C19.Model C19.Proofs.
Local Open Scope nat_scope.

Definition seteq (a b : list nat) : Prop := forall x, In x a <-> In x b.

Section NetInd.
Variable P : net -> Prop.
Hypothesis HU : forall u, P (NU u).
Hypothesis HN : forall p r U, Forall P p -> P (NN p r U).
Fixpoint net_ind' (x : net) : P x :=
  match x with
  | NU u => HU u
  | NN p r U =>
      HN p r U ((fix go (l : list net) : Forall P l :=
                   match l with
                   | [] => Forall_nil P
                   | y :: t => Forall_cons y (net_ind' y) (go t)
                   end) p)
  end.
End NetInd.

(* units = units of the path, at every level *)
Fixpoint uok (x : net) : Prop :=
  match x with
  | NU _ => True
  | NN p _ U =>
      seteq U (flat_map flatn p) /\
      (fix go (l : list net) : Prop := match l with [] => True | y :: t => uok y /\ go t end) p
  end.

Lemma uok_NN : forall p r U, uok (NN p r U) <-> seteq U (flat_map flatn p) /\ Forall uok p.
Proof.
  intros p r U. cbn [uok].
  assert (E : (fix go (l : list net) : Prop := match l with [] => True | y :: t => uok y /\ go t end) p
              <-> Forall uok p).
  { induction p as [|y t IH]; split; intros H.
    - constructor.
    - exact I.
    - destruct H as (A & B). constructor; [exact A|apply IH; exact B].
    - inversion H; subst. split; [assumption|apply IH; assumption]. }
  rewrite E. reflexivity.
Qed.

Lemma units_flat : forall x, uok x -> seteq (n_units x) (flatn x).
Proof.
  intros [u|p r U] H; [intros z; reflexivity|].
  apply uok_NN in H. destruct H as (H & _). exact H.
Qed.

Lemma uok_set_rc : forall x r, is_net x = true -> uok x -> uok (set_rc x r).
Proof. intros [u|p r0 U] r N H; [discriminate|]. apply uok_NN in H. apply uok_NN. exact H. Qed.

Lemma in_flat_app : forall (a b : list net) z,
  In z (flat_map flatn (a ++ b)) <-> In z (flat_map flatn a) \/ In z (flat_map flatn b).
Proof. intros a b z. rewrite flat_map_app, in_app_iff. reflexivity. Qed.

(* ---- list.remove(unit) and _remove_overlap *)
Lemma ru_sub : forall u p z, In z (flat_map flatn (remove_unit u p)) -> In z (flat_map flatn p).
Proof.
  intros u p z. induction p as [|[v|q r U] t IH]; cbn [remove_unit]; [auto| |].
  - destruct (v =? u); cbn [flat_map flatn]; rewrite ?in_app_iff; cbn [In]; tauto.
  - cbn [flat_map]. rewrite !in_app_iff. tauto.
Qed.

Lemma ru_sup : forall u p z, In z (flat_map flatn p) -> z = u \/ In z (flat_map flatn (remove_unit u p)).
Proof.
  intros u p z. induction p as [|[v|q r U] t IH]; cbn [remove_unit]; [auto| |].
  - destruct (v =? u) eqn:E; cbn [flat_map flatn]; rewrite ?in_app_iff; cbn [In].
    + apply Nat.eqb_eq in E. subst. intros [[H|[]]|H]; [left; auto|right; exact H].
    + intros [[H|[]]|H]; [right; left; left; exact H|]. destruct (IH H); [left|right; right]; assumption.
  - cbn [flat_map]. rewrite !in_app_iff. intros [H|H]; [right; left; exact H|].
    destruct (IH H); [left|right; right]; assumption.
Qed.

Lemma ru_Forall : forall (Q : net -> Prop) u p, Forall Q p -> Forall Q (remove_unit u p).
Proof.
  intros Q u p F. induction F as [|[v|q r U] t Hx F IH]; cbn [remove_unit]; [constructor| |].
  - destruct (v =? u); [exact F|constructor; assumption].
  - constructor; assumption.
Qed.

Lemma ru_net : forall u p x, In x p -> is_net x = true -> In x (remove_unit u p).
Proof.
  intros u p x. induction p as [|[v|q r U] t IH]; cbn [remove_unit]; intros I N; [exact I| |].
  - destruct I as [I|I]; [subst; discriminate|]. destruct (v =? u); [exact I|right; auto].
  - destruct I as [I|I]; [left; exact I|right; auto].
Qed.

Lemma ro_sub : forall U pt p z, In z (flat_map flatn (remove_overlap p U pt)) -> In z (flat_map flatn p).
Proof.
  intros U pt. unfold remove_overlap. induction pt as [|[u|q r V] t IH]; intros p z H; cbn [fold_left] in H; auto.
  destruct (memb u U); [|auto]. apply IH in H. eapply ru_sub; eauto.
Qed.

Lemma ro_sup : forall U pt p z, In z (flat_map flatn p) ->
  In z U \/ In z (flat_map flatn (remove_overlap p U pt)).
Proof.
  intros U pt. unfold remove_overlap. induction pt as [|[u|q r V] t IH]; intros p z H; cbn [fold_left]; auto.
  destruct (memb u U) eqn:M; [|auto].
  destruct (ru_sup u p z H) as [E|H']; [subst; left; apply memb_In; exact M|auto].
Qed.

Lemma ro_Forall : forall (Q : net -> Prop) U pt p, Forall Q p -> Forall Q (remove_overlap p U pt).
Proof.
  intros Q U pt. unfold remove_overlap. induction pt as [|[u|q r V] t IH]; intros p F; cbn [fold_left]; auto.
  destruct (memb u U); [|auto]. apply IH. apply ru_Forall. exact F.
Qed.

Lemma ro_net : forall U pt p x, In x p -> is_net x = true -> In x (remove_overlap p U pt).
Proof.
  intros U pt. unfold remove_overlap. induction pt as [|[u|q r V] t IH]; intros p x I N; cbn [fold_left]; auto.
  destruct (memb u U); [|auto]. apply IH; [apply ru_net|]; assumption.
Qed.

Lemma in_flat_of : forall (p : list net) x z, In x p -> In z (flatn x) -> In z (flat_map flatn p).
Proof. intros p x z I H. apply in_flat_map. exists x. auto. Qed.

(* ---- the three ways a network ends up in the receiver *)
Definition good (x : net) : Prop := is_net x = true /\ uok x.

Lemma append_linear_ok : forall p r U n, Forall uok p -> seteq U (flat_map flatn p) ->
  good n ->
  forall p1, (forall z, In z (flat_map flatn p1) -> In z (flat_map flatn p)) ->
             (forall z, In z (flat_map flatn p) -> In z (n_units n) \/ In z (flat_map flatn p1)) ->
             Forall uok p1 ->
  good (append_linear (NN p1 r U) n) /\
  seteq (n_units (append_linear (NN p1 r U) n)) (U ++ n_units n).
Proof.
  intros p r U n Fp SU (Nn & On) p1 Sub Sup F1.
  destruct n as [u|q rn Un]; [discriminate|]. apply uok_NN in On. destruct On as (SUn & Fq).
  unfold append_linear. cbn [n_path n_rc n_units]. split; [split; [reflexivity|]|].
  - apply uok_NN. split; [|apply Forall_app; split; assumption].
    intros z. rewrite add_all_In, in_flat_app. rewrite (SU z), (SUn z). cbn [n_units] in Sup. split.
    + intros [H|H]; [|right; exact H]. destruct (Sup z H) as [H'|H']; [right; apply SUn; exact H'|left; exact H'].
    + intros [H|H]; [left; apply Sub; exact H|right; exact H].
  - intros z. rewrite add_all_In, in_app_iff. reflexivity.
Qed.

Lemma insert_at_flat : forall (i : nat) (x l : list net) z,
  In z (flat_map flatn (insert_at i x l)) <-> In z (flat_map flatn l) \/ In z (flat_map flatn x).
Proof.
  intros i x l z. unfold insert_at. rewrite !in_flat_app.
  rewrite <- (firstn_skipn i l) at 3. rewrite in_flat_app. tauto.
Qed.

Lemma insert_at_Forall : forall (Q : net -> Prop) i x l, Forall Q x -> Forall Q l -> Forall Q (insert_at i x l).
Proof.
  intros Q i x l Fx Fl. unfold insert_at. rewrite <- (firstn_skipn i l) in Fl.
  apply Forall_app in Fl. destruct Fl as (A & B). apply Forall_app. split; [exact A|].
  apply Forall_app. split; assumption.
Qed.

Lemma insert_linear_ok : forall p r U n index, Forall uok p -> seteq U (flat_map flatn p) ->
  good n ->
  forall p1, (forall z, In z (flat_map flatn p1) -> In z (flat_map flatn p)) ->
             (forall z, In z (flat_map flatn p) -> In z (n_units n) \/ In z (flat_map flatn p1)) ->
             Forall uok p1 ->
  good (insert_linear (NN p1 r U) index n) /\
  seteq (n_units (insert_linear (NN p1 r U) index n)) (U ++ n_units n).
Proof.
  intros p r U n index Fp SU (Nn & On) p1 Sub Sup F1.
  destruct n as [u|q rn Un]; [discriminate|]. apply uok_NN in On. destruct On as (SUn & Fq).
  unfold insert_linear. cbn [n_path n_rc n_units]. split; [split; [reflexivity|]|].
  - apply uok_NN. split; [|apply insert_at_Forall; assumption].
    intros z. rewrite add_all_In, insert_at_flat. rewrite (SU z), (SUn z). cbn [n_units] in Sup. split.
    + intros [H|H]; [|right; exact H]. destruct (Sup z H) as [H'|H']; [right; apply SUn; exact H'|left; exact H'].
    + intros [H|H]; [left; apply Sub; exact H|right; exact H].
  - intros z. rewrite add_all_In, in_app_iff. reflexivity.
Qed.

(* a child x of the receiver is replaced by y = (x joined with n), then the overlap is removed *)
Lemma delegate_ok : forall l1 x l2 y r U Un pt,
  Forall uok (l1 ++ x :: l2) -> seteq U (flat_map flatn (l1 ++ x :: l2)) ->
  good y -> seteq (n_units y) (n_units x ++ Un) -> is_net x = true ->
  good (NN (remove_overlap (l1 ++ y :: l2) Un pt) r (add_all U Un)) /\
  seteq (n_units (NN (remove_overlap (l1 ++ y :: l2) Un pt) r (add_all U Un))) (U ++ Un).
Proof.
  intros l1 x l2 y r U Un pt Fp SU (Ny & Oy) Sy Nx.
  assert (Fx : uok x) by (rewrite Forall_forall in Fp; apply Fp; apply in_or_app; right; left; reflexivity).
  assert (Fp' : Forall uok (l1 ++ y :: l2)).
  { apply Forall_app in Fp. destruct Fp as (A & B). inversion B; subst.
    apply Forall_app. split; [exact A|constructor; assumption]. }
  pose proof (units_flat y Oy) as UFy. pose proof (units_flat x Fx) as UFx.
  split; [split; [reflexivity|]|].
  - apply uok_NN. split; [|apply ro_Forall; exact Fp'].
    intros z. rewrite add_all_In. split.
    + intros H.
      assert (Hy : In z (flat_map flatn (l1 ++ y :: l2))).
      { destruct H as [H|H].
        - apply SU in H. rewrite in_flat_app in *. cbn [flat_map] in *. rewrite in_app_iff in *.
          destruct H as [H|[H|H]]; [tauto| |tauto].
          right. left. apply UFy, Sy, in_or_app. left. apply UFx. exact H.
        - rewrite in_flat_app. cbn [flat_map]. rewrite in_app_iff. right. left.
          apply UFy, Sy, in_or_app. right. exact H. }
      destruct (ro_sup Un pt _ z Hy) as [HU|HR]; [|exact HR].
      (* z in Un: it is in y, and y survives the removal *)
      apply in_flat_of with (x := y).
      * apply ro_net; [apply in_or_app; right; left; reflexivity|exact Ny].
      * apply UFy, Sy, in_or_app. right. exact HU.
    + intros H. apply ro_sub in H. rewrite in_flat_app in H. cbn [flat_map] in H. rewrite in_app_iff in H.
      assert (HinU : forall w, In w (flat_map flatn l1) \/ In w (flatn x) \/ In w (flat_map flatn l2) -> In w U).
      { intros w Hw. apply SU. rewrite in_flat_app. cbn [flat_map]. rewrite in_app_iff. exact Hw. }
      destruct H as [H|[H|H]]; [left; apply HinU; tauto| |left; apply HinU; tauto].
      apply UFy, Sy, in_app_or in H. destruct H as [H|H]; [left; apply HinU; right; left; apply UFx; exact H|right; exact H].
  - cbn [n_units]. intros z. rewrite add_all_In, in_app_iff. reflexivity.
Qed.

(* ---- _add_linear_network *)
Definition al_go (n : net) : list net -> option (list net) :=
  fix go (l : list net) : option (list net) :=
    match l with
    | [] => None
    | x :: t =>
        if is_net x && overlaps n x then Some (add_linear x n :: t)
        else option_map (cons x) (go t)
    end.

Lemma add_linear_NN : forall p r U n,
  add_linear (NN p r U) n =
  match al_go n p with
  | Some p' => NN (remove_overlap p' (n_units n) p) r (add_all U (n_units n))
  | None =>
      match find_index (unit_in (n_units n)) p with
      | Some index => insert_linear (NN (remove_overlap p (n_units n) p) r U) index n
      | None => append_linear (NN (remove_overlap p (n_units n) p) r U) n
      end
  end.
Proof. reflexivity. Qed.

Lemma al_go_some : forall n l p', al_go n l = Some p' ->
  exists l1 x l2, l = l1 ++ x :: l2 /\ p' = l1 ++ add_linear x n :: l2 /\ is_net x = true.
Proof.
  intros n l. induction l as [|x t IH]; intros p' H; cbn [al_go] in H; [discriminate|].
  destruct (is_net x && overlaps n x) eqn:E.
  - inversion H; subst. apply andb_true_iff in E. destruct E as (E & _).
    exists [], x, t. auto.
  - fold (al_go n) in H. destruct (al_go n t) as [t'|] eqn:G; [|discriminate]. cbn in H. inversion H; subst.
    destruct (IH _ eq_refl) as (l1 & y & l2 & A & B & C). subst.
    exists (x :: l1), y, l2. auto.
Qed.

Lemma add_linear_ok : forall s n, good s -> good n ->
  good (add_linear s n) /\ seteq (n_units (add_linear s n)) (n_units s ++ n_units n).
Proof.
  intros s. induction s as [u|p r U IH] using net_ind'; intros n (Ns & Os) Gn; [discriminate|].
  apply uok_NN in Os. destruct Os as (SU & Fp).
  rewrite add_linear_NN. cbn [n_units].
  destruct (al_go n p) as [p'|] eqn:G.
  - destruct (al_go_some _ _ _ G) as (l1 & x & l2 & A & B & Nx). subst p p'.
    assert (Gx : good x).
    { split; [exact Nx|]. rewrite Forall_forall in Fp. apply Fp. apply in_or_app. right. left. reflexivity. }
    assert (IHx : forall n0, good x -> good n0 ->
                    good (add_linear x n0) /\ seteq (n_units (add_linear x n0)) (n_units x ++ n_units n0)).
    { rewrite Forall_forall in IH. apply IH. apply in_or_app. right. left. reflexivity. }
    destruct (IHx n Gx Gn) as (Gy & Sy).
    exact (delegate_ok l1 x l2 _ r U (n_units n) _ Fp SU Gy Sy Nx).
  - destruct (find_index (unit_in (n_units n)) p) as [index|].
    + apply (insert_linear_ok p r U n index Fp SU Gn).
      * intros z. apply ro_sub.
      * intros z. apply ro_sup.
      * apply ro_Forall. exact Fp.
    + apply (append_linear_ok p r U n Fp SU Gn).
      * intros z. apply ro_sub.
      * intros z. apply ro_sup.
      * apply ro_Forall. exact Fp.
Qed.

(* ---- join_linear_network.  Between `_remove_overlap` and the final insert the receiver's path
   misses units that are still listed in `units`; [uokm M] allows exactly the units of M to be missing. *)
Definition uokm (M : list nat) (x : net) : Prop :=
  match x with
  | NU _ => False
  | NN p _ U =>
      Forall uok p /\ (forall z, In z (flat_map flatn p) -> In z U) /\
      (forall z, In z U -> In z M \/ In z (flat_map flatn p))
  end.

Lemma good_uokm : forall x, good x <-> uokm [] x.
Proof.
  intros [u|p r U]; split.
  - intros (N & _). discriminate.
  - intros [].
  - intros (_ & O). apply uok_NN in O. destruct O as (S & F). cbn. repeat split; auto.
    + intros z H. apply S. exact H.
    + intros z H. right. apply S. exact H.
  - intros (F & A & B). split; [reflexivity|]. apply uok_NN. split; [|exact F].
    intros z. split; [intros H; destruct (B z H) as [[]|H']; exact H'|apply A].
Qed.

Lemma uokm_weaken : forall M M' x, (forall z, In z M -> In z M') -> uokm M x -> uokm M' x.
Proof.
  intros M M' [u|p r U] I H; [exact H|]. destruct H as (F & A & B). repeat split; auto.
  intros z Hz. destruct (B z Hz); [left; auto|right; assumption].
Qed.

Lemma append_linear_m : forall M p r U n, uokm (M ++ n_units n) (NN p r U) -> good n ->
  uokm M (append_linear (NN p r U) n) /\
  seteq (n_units (append_linear (NN p r U) n)) (U ++ n_units n).
Proof.
  intros M p r U n (F & A & B) (Nn & On).
  destruct n as [u|q rn Un]; [discriminate|]. apply uok_NN in On. destruct On as (SUn & Fq).
  unfold append_linear. cbn [n_path n_rc n_units] in *. split.
  - split; [apply Forall_app; split; assumption|]. split.
    + intros z. rewrite in_flat_app, add_all_In. intros [H|H]; [left; apply A; exact H|right; apply SUn; exact H].
    + intros z. rewrite in_flat_app, add_all_In. intros [H|H].
      * destruct (B z H) as [H'|H']; [|tauto]. apply in_app_or in H'. destruct H' as [H'|H']; [tauto|].
        right. right. apply SUn. exact H'.
      * right. right. apply SUn. exact H.
  - intros z. rewrite add_all_In, in_app_iff. reflexivity.
Qed.

Lemma insert_linear_m : forall M p r U n index, uokm (M ++ n_units n) (NN p r U) -> good n ->
  uokm M (insert_linear (NN p r U) index n) /\
  seteq (n_units (insert_linear (NN p r U) index n)) (U ++ n_units n).
Proof.
  intros M p r U n index (F & A & B) (Nn & On).
  destruct n as [u|q rn Un]; [discriminate|]. apply uok_NN in On. destruct On as (SUn & Fq).
  unfold insert_linear. cbn [n_path n_rc n_units] in *. split.
  - split; [apply insert_at_Forall; assumption|]. split.
    + intros z. rewrite insert_at_flat, add_all_In. intros [H|H]; [left; apply A; exact H|right; apply SUn; exact H].
    + intros z. rewrite insert_at_flat, add_all_In. intros [H|H].
      * destruct (B z H) as [H'|H']; [|tauto]. apply in_app_or in H'. destruct H' as [H'|H']; [tauto|].
        right. right. apply SUn. exact H'.
      * right. right. apply SUn. exact H.
  - intros z. rewrite add_all_In, in_app_iff. reflexivity.
Qed.

Definition jl_loop (f : nat) (n : net) : list net -> nat -> net -> net :=
  fix loop (l : list net) (index : nat) (cur : net) : net :=
    match l with
    | [] => append_linear cur n
    | NN _ _ Ux as x :: t =>
        if negb (disjointb Ux (n_units n)) then loop t (S index) (join_linear f cur x)
        else loop t (S index) cur
    | NU u :: t =>
        if memb u (n_units n) then insert_linear cur index n else loop t (S index) cur
    end.

Lemma join_linear_S : forall f s n,
  join_linear (S f) s n =
  jl_loop f n (n_path s) 0 (set_path s (remove_overlap (n_path s) (n_units n) (n_path s))).
Proof. reflexivity. Qed.

Definition jl_spec (f : nat) : Prop :=
  forall M s n, uokm M s -> good n ->
    uokm M (join_linear f s n) /\
    (forall z, In z (n_units s) -> In z (n_units (join_linear f s n))) /\
    (forall z, In z (n_units (join_linear f s n)) -> In z (n_units s) \/ In z (n_units n)).

Lemma jl_loop_ok : forall f n, jl_spec f -> good n ->
  forall M U0 l index cur,
    uokm (M ++ n_units n) cur -> seteq (n_units cur) U0 ->
    (forall x, In x l -> is_net x = true -> good x /\ (forall z, In z (n_units x) -> In z U0)) ->
    uokm M (jl_loop f n l index cur) /\ seteq (n_units (jl_loop f n l index cur)) (U0 ++ n_units n).
Proof.
  intros f n HJ Gn M U0 l. induction l as [|x t IH]; intros index cur Hc Su Hl.
  - cbn [jl_loop]. destruct cur as [u|pc rc Uc]; [destruct Hc|].
    destruct (append_linear_m M pc rc Uc n Hc Gn) as (A & B). split; [exact A|].
    intros z. rewrite (B z), !in_app_iff. cbn [n_units] in Su. rewrite (Su z). reflexivity.
  - assert (Ht : forall y, In y t -> is_net y = true -> good y /\ (forall z, In z (n_units y) -> In z U0))
      by (intros y Hy; apply Hl; right; exact Hy).
    destruct x as [u|px rx Ux]; cbn [jl_loop].
    + destruct (memb u (n_units n)); [|apply IH; assumption].
      destruct cur as [u'|pc rc Uc]; [destruct Hc|].
      destruct (insert_linear_m M pc rc Uc n index Hc Gn) as (A & B). split; [exact A|].
      intros z. rewrite (B z), !in_app_iff. cbn [n_units] in Su. rewrite (Su z). reflexivity.
    + destruct (negb (disjointb Ux (n_units n))); [|apply IH; assumption].
      destruct (Hl (NN px rx Ux) (or_introl eq_refl) eq_refl) as (Gx & Ix).
      destruct (HJ (M ++ n_units n) cur (NN px rx Ux) Hc Gx) as (A & B & C).
      apply IH; [exact A| |exact Ht].
      intros z. split.
      * intros H. destruct (C z H) as [H'|H']; [apply Su; exact H'|apply Ix; exact H'].
      * intros H. apply B, Su. exact H.
Qed.

Lemma join_linear_spec : forall f, jl_spec f.
Proof.
  induction f as [|f IH]; intros M s n Hs Gn.
  - cbn [join_linear]. repeat split; auto.
  - rewrite join_linear_S. destruct s as [u|p r U]; [destruct Hs|]. cbn [n_path n_units set_path n_rc].
    destruct Hs as (F & A & B).
    assert (Hc : uokm (M ++ n_units n) (NN (remove_overlap p (n_units n) p) r U)).
    { split; [apply ro_Forall; exact F|]. split.
      - intros z H. apply A. eapply ro_sub; eauto.
      - intros z H. rewrite in_app_iff. destruct (B z H) as [H'|H']; [tauto|].
        destruct (ro_sup (n_units n) p p z H'); tauto. }
    assert (Hl : forall x, In x p -> is_net x = true -> good x /\ (forall z, In z (n_units x) -> In z U)).
    { intros x Hx Nx. rewrite Forall_forall in F. split; [split; [exact Nx|apply F; exact Hx]|].
      intros z Hz. apply A. apply in_flat_of with (x := x); [exact Hx|].
      apply (units_flat x (F x Hx)). exact Hz. }
    destruct (jl_loop_ok f n IH Gn M U p 0 _ Hc (fun z => iff_refl _) Hl) as (R1 & R2).
    split; [exact R1|]. split.
    + intros z Hz. apply R2, in_or_app. left. exact Hz.
    + intros z Hz. apply R2, in_app_or in Hz. exact Hz.
Qed.

Lemma join_linear_ok : forall f s n, good s -> good n ->
  good (join_linear (S f) s n) /\ seteq (n_units (join_linear (S f) s n)) (n_units s ++ n_units n).
Proof.
  intros f s n Gs Gn. apply good_uokm in Gs.
  destruct (join_linear_spec (S f) [] s n Gs Gn) as (A & B & C).
  split; [apply good_uokm; exact A|].
  (* exactness needs the final insert, which always happens when fuel is left *)
  rewrite join_linear_S in *. destruct s as [u|p r U]; [destruct Gs|].
  cbn [n_path n_units set_path n_rc] in *. destruct Gs as (F & A0 & B0).
  assert (Hc : uokm ([] ++ n_units n) (NN (remove_overlap p (n_units n) p) r U)).
  { split; [apply ro_Forall; exact F|]. split.
    - intros z H. apply A0. eapply ro_sub; eauto.
    - intros z H. rewrite in_app_iff. destruct (B0 z H) as [[]|H'].
      destruct (ro_sup (n_units n) p p z H'); tauto. }
  assert (Hl : forall x, In x p -> is_net x = true -> good x /\ (forall z, In z (n_units x) -> In z U)).
  { intros x Hx Nx. rewrite Forall_forall in F. split; [split; [exact Nx|apply F; exact Hx]|].
    intros z Hz. apply A0. apply in_flat_of with (x := x); [exact Hx|].
    apply (units_flat x (F x Hx)). exact Hz. }
  exact (proj2 (jl_loop_ok f n (join_linear_spec f) Gn [] U p 0 _ Hc (fun z => iff_refl _) Hl)).
Qed.

(* ---- join_recycle_network / _insert_recycle_network, for every graph and recycle_sink oracle *)
Section Recycle.
Variables (es all : list edge) (tbl : list (list nat * nat)).
Notation join_recycle := (join_recycle es all tbl).
Notation insert_recycle := (insert_recycle es all tbl).

Definition merged (RU : list nat) (x : net) : bool := is_net x && negb (disjointb (n_units x) RU).

Lemma join_recycle_S : forall f s n,
  join_recycle (S f) s n =
  (let feed_forward := Some (add_linear (set_rc s (add_all (n_rc s) (n_rc n))) (set_rc n [])) in
   if rsink all tbl (n_rc s) =? rsink all tbl (n_rc n) then feed_forward
   else match update_first (fun x => is_net x && overlaps n x) (fun x => join_recycle f x n) (n_path s) with
        | None => None
        | Some (Some p') => Some (NN (remove_overlap p' (n_units n) (n_path s)) (n_rc s) (add_all (n_units s) (n_units n)))
        | Some None =>
            if negb (is_nil (n_rc s)) then feed_forward
            else match find_index (unit_in (n_units n)) (n_path s) with
                 | Some index => insert_recycle f s index n (n_path s)
                 | None => None
                 end
        end).
Proof. reflexivity. Qed.

Lemma insert_recycle_S : forall f s index n pt,
  insert_recycle (S f) s index n pt =
  (let p := n_path s in
   let RU := recycle_units es (n_units n) in
   let tail := skipn index p in
   obind (fold_left (fun acc x => obind acc (fun nc => if merged RU x then join_recycle f nc x else Some nc))
                    tail (Some n))
     (fun n1 =>
        let seg := filter (unit_in RU) tail in
        let segU := add_all [] (flat_map flatn seg) in
        let n2 := if negb (subsetb segU (n_units n1))
                  then add_linear n1 (NN (pop_if_closed seg) [] segU) else n1 in
        let p1 := firstn index p ++ filter (fun x => negb (merged RU x)) tail in
        let p2 := remove_overlap p1 (n_units n2) pt in
        Some (NN (insert_at index [n2] p2) (n_rc s) (add_all (n_units s) (n_units n2))))).
Proof. reflexivity. Qed.

Lemma update_first_spec : forall (f : net -> bool) (g : net -> option net) l l',
  update_first f g l = Some (Some l') ->
  exists l1 x l2 y, l = l1 ++ x :: l2 /\ l' = l1 ++ y :: l2 /\ f x = true /\ g x = Some y.
Proof.
  intros f g l. induction l as [|x t IH]; intros l' H; cbn [update_first] in H; [discriminate|].
  destruct (f x) eqn:Fx.
  - destruct (g x) as [y|] eqn:G; [|discriminate]. inversion H; subst. exists [], x, t, y. auto.
  - destruct (update_first f g t) as [[t'|]|] eqn:E; try discriminate. inversion H; subst.
    destruct (IH _ eq_refl) as (l1 & a & l2 & y & A & B & C & D). subst.
    exists (x :: l1), a, l2, y. auto.
Qed.

Definition jr_spec (f : nat) : Prop :=
  forall s n r, good s -> good n -> join_recycle f s n = Some r ->
    good r /\ seteq (n_units r) (n_units s ++ n_units n).
Definition ir_spec (f : nat) : Prop :=
  forall s index n pt r, good s -> good n -> insert_recycle f s index n pt = Some r ->
    good r /\ seteq (n_units r) (n_units s ++ n_units n).

Lemma good_set_rc : forall x r, good x -> good (set_rc x r) /\ n_units (set_rc x r) = n_units x.
Proof.
  intros x r (N & O). destruct x as [u|p r0 U]; [discriminate|].
  split; [split; [reflexivity|apply uok_set_rc; auto]|reflexivity].
Qed.

Lemma feed_forward_ok : forall s n, good s -> good n ->
  good (add_linear (set_rc s (add_all (n_rc s) (n_rc n))) (set_rc n [])) /\
  seteq (n_units (add_linear (set_rc s (add_all (n_rc s) (n_rc n))) (set_rc n []))) (n_units s ++ n_units n).
Proof.
  intros s n Gs Gn.
  destruct (good_set_rc s (add_all (n_rc s) (n_rc n)) Gs) as (G1 & E1).
  destruct (good_set_rc n [] Gn) as (G2 & E2).
  destruct (add_linear_ok _ _ G1 G2) as (A & B). rewrite E1, E2 in B. auto.
Qed.

(* the merging loop of _insert_recycle_network *)
Lemma merge_fold_none : forall RU f (tail : list net),
  fold_left (fun acc x => obind acc (fun nc => if merged RU x then join_recycle f nc x else Some nc)) tail None = None.
Proof. intros RU f tail. induction tail as [|x t IH]; [reflexivity|exact IH]. Qed.

Lemma merge_fold_ok : forall RU f, jr_spec f -> forall (tail : list net) nc n1,
  good nc -> (forall x, In x tail -> is_net x = true -> good x) ->
  fold_left (fun acc x => obind acc (fun nc => if merged RU x then join_recycle f nc x else Some nc))
            tail (Some nc) = Some n1 ->
  good n1 /\ (forall z, In z (n_units nc) -> In z (n_units n1)) /\
  (forall z, In z (n_units n1) -> In z (n_units nc) \/ exists x, In x tail /\ In z (n_units x)) /\
  (forall x, In x tail -> merged RU x = true -> forall z, In z (n_units x) -> In z (n_units n1)).
Proof.
  intros RU f HJ tail. induction tail as [|x t IH]; intros nc n1 Gc Ht H.
  - cbn in H. inversion H; subst. split; [exact Gc|]. split; [auto|]. split; [auto|]. intros x [].
  - cbn [fold_left obind] in H. destruct (merged RU x) eqn:Mx.
    + destruct (join_recycle f nc x) as [nc'|] eqn:J; [|rewrite merge_fold_none in H; discriminate].
      assert (Gx : good x) by (apply Ht; [left; reflexivity|unfold merged in Mx; apply andb_true_iff in Mx; tauto]).
      destruct (HJ _ _ _ Gc Gx J) as (G' & S').
      destruct (IH nc' n1 G' (fun y Hy => Ht y (or_intror Hy)) H) as (A & B & C & D).
      split; [exact A|]. split; [|split].
      * intros z Hz. apply B, S', in_or_app. left. exact Hz.
      * intros z Hz. destruct (C z Hz) as [H1|(y & Hy & Hz')].
        -- apply S', in_app_or in H1. destruct H1 as [H1|H1]; [left; exact H1|].
           right. exists x. split; [left; reflexivity|exact H1].
        -- right. exists y. split; [right; exact Hy|exact Hz'].
      * intros y [Ey|Hy] My z Hz.
        -- subst y. apply B, S', in_or_app. right. exact Hz.
        -- exact (D y Hy My z Hz).
    + destruct (IH nc n1 Gc (fun y Hy => Ht y (or_intror Hy)) H) as (A & B & C & D).
      split; [exact A|]. split; [exact B|]. split.
      * intros z Hz. destruct (C z Hz) as [H1|(y & Hy & Hz')]; [left; exact H1|].
        right. exists y. split; [right; exact Hy|exact Hz'].
      * intros y [Ey|Hy] My z Hz; [subst y; rewrite Mx in My; discriminate|exact (D y Hy My z Hz)].
Qed.

Lemma removelast_flat : forall (l : list net) a t, l = NU a :: t -> t <> [] ->
  last l (NU a) = NU a -> seteq (flat_map flatn (removelast l)) (flat_map flatn l).
Proof.
  intros l a t E Nt La z.
  assert (Nl : l <> []) by (subst; discriminate).
  pose proof (app_removelast_last (NU a) Nl) as D. rewrite La in D.
  assert (Hd : exists t', removelast l = NU a :: t').
  { subst l. destruct t as [|y t']; [contradiction|]. exists (removelast (y :: t')). reflexivity. }
  destruct Hd as (t' & Et'). split.
  - intros H. rewrite D, in_flat_app. left. exact H.
  - intros H. rewrite D, in_flat_app in H. destruct H as [H|H]; [exact H|].
    cbn in H. destruct H as [H|[]]. subst z. rewrite Et'. cbn. left. reflexivity.
Qed.

Lemma pop_flat : forall seg, seteq (flat_map flatn (pop_if_closed seg)) (flat_map flatn seg).
Proof.
  intros seg. unfold pop_if_closed.
  destruct seg as [|[a|pa ra Ua] [|y t]]; try (intros z; reflexivity).
  destruct (rev (NU a :: y :: t)) as [|[b|pb rb Ub] rt] eqn:R; try (intros z; reflexivity).
  destruct (a =? b) eqn:E; [|intros z; reflexivity].
  apply Nat.eqb_eq in E. subst b.
  apply (removelast_flat _ a (y :: t) eq_refl); [discriminate|].
  assert (RR : NU a :: y :: t = rev rt ++ [NU a]).
  { rewrite <- (rev_involutive (NU a :: y :: t)), R. reflexivity. }
  rewrite RR. apply last_last.
Qed.

Lemma filter_unit_Forall : forall RU (l : list net), Forall uok (filter (unit_in RU) l).
Proof.
  intros RU l. apply Forall_forall. intros x Hx. apply filter_In in Hx. destruct Hx as (_ & Hx).
  destruct x; [exact I|discriminate].
Qed.

Lemma pop_Forall : forall seg, Forall uok seg -> Forall uok (pop_if_closed seg).
Proof.
  intros seg F. unfold pop_if_closed.
  destruct seg as [|[a|pa ra Ua] [|y t]]; auto.
  destruct (rev (NU a :: y :: t)) as [|[b|pb rb Ub] rt]; auto.
  destruct (a =? b); auto.
  apply Forall_forall. intros x Hx. rewrite Forall_forall in F. apply F.
  revert Hx. generalize (NU a :: y :: t). intros l. induction l as [|h l' IH]; cbn; [tauto|].
  destruct l'; [cbn; tauto|]. intros [H|H]; [left; exact H|right; apply IH; exact H].
Qed.

Lemma sub_firstn_filter : forall (g : net -> bool) index (p : list net) x,
  In x (firstn index p ++ filter g (skipn index p)) -> In x p.
Proof.
  intros g index p x H. rewrite <- (firstn_skipn index p). apply in_app_or in H. apply in_or_app.
  destruct H as [H|H]; [left; exact H|right]. apply filter_In in H. tauto.
Qed.

Lemma some_inj : forall (A : Type) (a b : A), Some a = Some b -> a = b.
Proof. intros A a b H. inversion H. reflexivity. Qed.

Lemma recycle_spec : forall f, jr_spec f /\ ir_spec f.
Proof.
  induction f as [|f (IHj & IHi)]; [split; intros ? **; discriminate|]. split.
  - (* join_recycle *)
    intros s n r Gs Gn H. rewrite join_recycle_S in H. cbv zeta in H.
    destruct (rsink all tbl (n_rc s) =? rsink all tbl (n_rc n)).
    { apply some_inj in H. subst r. apply feed_forward_ok; assumption. }
    destruct s as [u|p rs U]; [destruct Gs; discriminate|]. cbn [n_path n_rc n_units] in H.
    pose proof Gs as (_ & Os). apply uok_NN in Os. destruct Os as (SU & Fp).
    destruct (update_first (fun x => is_net x && overlaps n x) (fun x => join_recycle f x n) p)
      as [[p'|]|] eqn:Up; [| |discriminate].
    + apply some_inj in H. subst r. destruct (update_first_spec _ _ _ _ Up) as (l1 & x & l2 & y & A & B & C & D).
      subst p p'. apply andb_true_iff in C. destruct C as (Nx & _).
      assert (Gx : good x).
      { split; [exact Nx|]. rewrite Forall_forall in Fp. apply Fp. apply in_or_app. right. left. reflexivity. }
      destruct (IHj _ _ _ Gx Gn D) as (Gy & Sy).
      exact (delegate_ok l1 x l2 y rs U (n_units n) _ Fp SU Gy Sy Nx).
    + destruct (negb (is_nil rs)).
      { apply some_inj in H. subst r.
        apply (feed_forward_ok (NN p rs U) n); assumption. }
      destruct (find_index (unit_in (n_units n)) p) as [index|]; [|discriminate].
      exact (IHi _ _ _ _ _ Gs Gn H).
  - (* insert_recycle *)
    intros s index n pt r Gs Gn H. rewrite insert_recycle_S in H. cbv zeta in H.
    destruct s as [u|p rs U]; [destruct Gs; discriminate|]. cbn [n_path n_rc n_units] in H.
    pose proof Gs as (_ & Os). apply uok_NN in Os. destruct Os as (SU & Fp).
    set (RU := recycle_units es (n_units n)) in *.
    set (tail := skipn index p) in *.
    destruct (fold_left (fun acc x => obind acc (fun nc => if merged RU x then join_recycle f nc x else Some nc))
                        tail (Some n)) as [n1|] eqn:Fo; [|discriminate].
    cbn [obind] in H. apply some_inj in H. subst r.
    assert (Ttail : forall x, In x tail -> In x p).
    { intros x Hx. rewrite <- (firstn_skipn index p). apply in_or_app. right. exact Hx. }
    assert (Gt : forall x, In x tail -> is_net x = true -> good x).
    { intros x Hx Nx. split; [exact Nx|]. rewrite Forall_forall in Fp. apply Fp, Ttail, Hx. }
    destruct (merge_fold_ok RU f IHj tail n n1 Gn Gt Fo) as (G1 & I1 & I2 & I3).
    set (seg := filter (unit_in RU) tail) in *.
    set (segU := add_all [] (flat_map flatn seg)) in *.
    assert (SegIn : forall z, In z segU -> In z U).
    { intros z Hz. unfold segU in Hz. apply add_all_In in Hz. destruct Hz as [[]|Hz].
      apply SU. apply in_flat_map in Hz. destruct Hz as (x & Hx & Hz).
      apply in_flat_of with (x := x); [|exact Hz]. apply Ttail. unfold seg in Hx. apply filter_In in Hx. tauto. }
    assert (Glin : good (NN (pop_if_closed seg) [] segU)).
    { split; [reflexivity|]. apply uok_NN. split; [|apply pop_Forall, filter_unit_Forall].
      intros z. rewrite (pop_flat seg z). unfold segU. rewrite add_all_In. cbn [In]. tauto. }
    set (n2 := if negb (subsetb segU (n_units n1))
               then add_linear n1 (NN (pop_if_closed seg) [] segU) else n1) in *.
    assert (G2 : good n2 /\ (forall z, In z (n_units n1) -> In z (n_units n2)) /\
                 (forall z, In z (n_units n2) -> In z (n_units n1) \/ In z segU)).
    { unfold n2. destruct (negb (subsetb segU (n_units n1))).
      - destruct (add_linear_ok _ _ G1 Glin) as (A & B). cbn [n_units] in B. split; [exact A|]. split.
        + intros z Hz. apply B, in_or_app. left. exact Hz.
        + intros z Hz. apply B, in_app_or in Hz. exact Hz.
      - split; [exact G1|]. split; auto. }
    destruct G2 as (G2 & J1 & J2).
    set (p1 := firstn index p ++ filter (fun x => negb (merged RU x)) tail) in *.
    assert (P1sub : forall x, In x p1 -> In x p) by (intros x Hx; eapply sub_firstn_filter; exact Hx).
    assert (UF2 : seteq (n_units n2) (flatn n2)) by (apply units_flat; apply G2).
    assert (ChildU : forall x, In x p -> forall z, In z (n_units x) -> In z U).
    { intros x Hx z Hz. apply SU. apply in_flat_of with (x := x); [exact Hx|].
      rewrite Forall_forall in Fp. apply (units_flat x (Fp x Hx)). exact Hz. }
    split; [split; [reflexivity|]|].
    + apply uok_NN. split.
      * intros z. rewrite add_all_In, insert_at_flat. cbn [flat_map]. rewrite app_nil_r. split.
        -- intros [Hz|Hz]; [|right; apply UF2; exact Hz].
           apply SU in Hz. apply in_flat_map in Hz. destruct Hz as (x & Hx & Hz).
           rewrite <- (firstn_skipn index p) in Hx. apply in_app_or in Hx.
           assert (Hp1 : In x p1 -> In z (flat_map flatn (remove_overlap p1 (n_units n2) pt)) \/ In z (flatn n2)).
           { intros Hx1. destruct (ro_sup (n_units n2) pt p1 z (in_flat_of p1 x z Hx1 Hz)) as [Q|Q];
               [right; apply UF2; exact Q|left; exact Q]. }
           destruct Hx as [Hx|Hx]; [apply Hp1; unfold p1; apply in_or_app; left; exact Hx|].
           destruct (merged RU x) eqn:Mx.
           ++ right. apply UF2, J1. apply (I3 x Hx Mx).
              rewrite Forall_forall in Fp. apply (units_flat x (Fp x (Ttail x Hx))). exact Hz.
           ++ apply Hp1. unfold p1. apply in_or_app. right. apply filter_In. split; [exact Hx|].
              rewrite Mx. reflexivity.
        -- intros [Hz|Hz]; [|right; apply UF2; exact Hz].
           left. apply SU. apply ro_sub in Hz. apply in_flat_map in Hz. destruct Hz as (x & Hx & Hz).
           apply in_flat_of with (x := x); [apply P1sub; exact Hx|exact Hz].
      * apply insert_at_Forall; [constructor; [apply G2|constructor]|].
        apply ro_Forall. apply Forall_forall. intros x Hx. rewrite Forall_forall in Fp. apply Fp, P1sub, Hx.
    + cbn [n_units]. intros z. rewrite add_all_In, in_app_iff. split.
      * intros [Hz|Hz]; [left; exact Hz|].
        destruct (J2 z Hz) as [Hz'|Hz']; [|left; apply SegIn; exact Hz'].
        destruct (I2 z Hz') as [Hn|(x & Hx & Hzx)]; [right; exact Hn|].
        left. apply (ChildU x (Ttail x Hx) z Hzx).
      * intros [Hz|Hz]; [left; exact Hz|right; apply J1, I1; exact Hz].
Qed.

Theorem join_recycle_ok : forall f s n r, good s -> good n -> join_recycle f s n = Some r ->
  good r /\ seteq (n_units r) (n_units s ++ n_units n).
Proof. intros f. exact (proj1 (recycle_spec f)). Qed.

Theorem insert_recycle_ok : forall f s index n pt r, good s -> good n ->
  insert_recycle f s index n pt = Some r -> good r /\ seteq (n_units r) (n_units s ++ n_units n).
Proof. intros f. exact (proj2 (recycle_spec f)). Qed.
End Recycle.
