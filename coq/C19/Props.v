From V Require Import C19.Model C19.Proofs.
