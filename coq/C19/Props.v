(* C19 — property theorems only.  Each is closed by [exact <lemma>] (or a two-line combination)
   and followed by Print Assumptions.

   Part 1 (Network.sort, network.py:2419-2455, on paths without sub-networks), for any item type U,
   any `reach` (reach a b = "b is downstream of a", what PathSource computes) and any `direct`
   (streams joining two items); `dom` is any set containing the items of the path on which reach
   is a strict partial order — e.g. all units of an acyclic flowsheet, or just the path itself.

   Part 2: soundness of the certificate checker that is evaluated on every observed
   Network.from_units result. *)
From Coq Require Import Permutation Relations.
From V Require Import C19.Model C19.Proofs C19.ProofsSurgery C19.ProofsPaths C19.ProofsDeep C19.ProofsWhole.
Local Open Scope nat_scope.

(* the sorted path is a permutation of the input path (no hypothesis on reach: also on cyclic paths) *)
Theorem C19_sort_perm : forall (U St : Type) (reach : U -> U -> bool) (direct : U -> U -> list St) l,
  Permutation (sorted_path reach direct l) l.
Proof. exact sort_perm_lemma. Qed.
Print Assumptions C19_sort_perm.

(* every item comes after all items that feed it: no later item is upstream of an earlier one *)
Theorem C19_sort_topo : forall (U St : Type) (reach : U -> U -> bool) (direct : U -> U -> list St)
  (dom : U -> Prop),
  (forall a b c, dom a -> dom b -> dom c -> reach a b = true -> reach b c = true -> reach a c = true) ->
  (forall a, dom a -> reach a a = false) ->
  forall l, (forall x, In x l -> dom x) ->
  forall d i j, i < j -> j < length l ->
  reach (nth j (sorted_path reach direct l) d) (nth i (sorted_path reach direct l) d) = false.
Proof. exact sort_topo_lemma. Qed.
Print Assumptions C19_sort_topo.

(* hence every stream between two items of the path runs forward in the sorted path *)
Theorem C19_sort_streams_forward : forall (U St : Type) (reach : U -> U -> bool) (direct : U -> U -> list St)
  (dom : U -> Prop),
  (forall a b c, dom a -> dom b -> dom c -> reach a b = true -> reach b c = true -> reach a c = true) ->
  (forall a, dom a -> reach a a = false) ->
  forall l, (forall x, In x l -> dom x) ->
  forall u v i j, reach u v = true ->
  nth_error (sorted_path reach direct l) i = Some u ->
  nth_error (sorted_path reach direct l) j = Some v -> i < j.
Proof. exact sort_forward_lemma. Qed.
Print Assumptions C19_sort_streams_forward.

(* no recycle is added and `stop` ends True within the N*N sweeps: no 'could not be determined' warning *)
Theorem C19_sort_quiet : forall (U St : Type) (reach : U -> U -> bool) (direct : U -> U -> list St)
  (dom : U -> Prop),
  (forall a b c, dom a -> dom b -> dom c -> reach a b = true -> reach b c = true -> reach a c = true) ->
  (forall a, dom a -> reach a a = false) ->
  forall l, (forall x, In x l -> dom x) ->
  sort_stop reach direct l = true /\ sort_recycles reach direct l = [].
Proof. exact sort_quiet_lemma. Qed.
Print Assumptions C19_sort_quiet.

(* whatever the order in which the items were supplied: same items, same order constraints, quiet *)
Theorem C19_sort_input_order_independent :
  forall (U St : Type) (reach : U -> U -> bool) (direct : U -> U -> list St) (dom : U -> Prop),
  (forall a b c, dom a -> dom b -> dom c -> reach a b = true -> reach b c = true -> reach a c = true) ->
  (forall a, dom a -> reach a a = false) ->
  forall l1 l2, Permutation l1 l2 -> (forall x, In x l1 -> dom x) ->
  Permutation (sorted_path reach direct l1) (sorted_path reach direct l2) /\
  (forall u v i j, reach u v = true ->
     nth_error (sorted_path reach direct l2) i = Some u ->
     nth_error (sorted_path reach direct l2) j = Some v -> i < j) /\
  sort_stop reach direct l2 = true /\ sort_recycles reach direct l2 = [].
Proof.
  intros U St reach direct dom T I l1 l2 P D.
  assert (D2 : forall x, In x l2 -> dom x)
    by (intros x Hx; apply D; eapply Permutation_in; [apply Permutation_sym; exact P|exact Hx]).
  split; [apply sort_order_independent_lemma; exact P|].
  split; [exact (sort_forward_lemma U St reach direct dom T I l2 D2)|].
  exact (sort_quiet_lemma U St reach direct dom T I l2 D2).
Qed.
Print Assumptions C19_sort_input_order_independent.

(* the hypotheses are decidable on a concrete path: the harness evaluates strict_onb on every case *)
Theorem C19_sort_checked_order : forall (U St : Type) (reach : U -> U -> bool) (direct : U -> U -> list St) l,
  strict_onb reach l = true ->
  Permutation (sorted_path reach direct l) l /\
  (forall u v i j, reach u v = true ->
     nth_error (sorted_path reach direct l) i = Some u ->
     nth_error (sorted_path reach direct l) j = Some v -> i < j) /\
  sort_stop reach direct l = true /\ sort_recycles reach direct l = [].
Proof.
  intros U St reach direct l H.
  destruct (strict_onb_sound U reach l H) as (T & I).
  split; [apply sort_perm_lemma|].
  split; [exact (sort_forward_lemma U St reach direct (fun x => In x l) T I l (fun x Hx => Hx))|].
  exact (sort_quiet_lemma U St reach direct (fun x => In x l) T I l (fun x Hx => Hx)).
Qed.
Print Assumptions C19_sort_checked_order.

(* ---- part 2: the checker.  [step es u v]: a stream goes from u to v; [has_cycle es]: some unit
   is downstream of itself.  acyclic_clause / cyclic_clause are the two clauses of C19 (Proofs.v). *)
Theorem C19_check_acyclic_sound : forall units es net,
  check_acyclic units es net = true -> acyclic_clause units es net /\ ~ has_cycle es.
Proof. exact check_acyclic_sound. Qed.
Print Assumptions C19_check_acyclic_sound.

Theorem C19_check_cyclic_sound : forall units es net cyc,
  check_cyclic units es net cyc = true -> cyclic_clause units es net /\ has_cycle es.
Proof. exact check_cyclic_sound. Qed.
Print Assumptions C19_check_cyclic_sound.

(* an accepted result satisfies whichever clause of C19 applies to the flowsheet *)
Theorem C19_check_sound : forall units es net cyc, check units es net cyc = true ->
  (~ has_cycle es -> acyclic_clause units es net) /\
  (has_cycle es -> cyclic_clause units es net).
Proof. exact check_sound_lemma. Qed.
Print Assumptions C19_check_sound.

(* a path that holds some unit twice is never accepted *)
Theorem C19_check_rejects_duplicates : forall units es net cyc,
  ~ NoDup (flat net) -> check units es net cyc = false.
Proof. exact check_rejects_duplicates. Qed.
Print Assumptions C19_check_rejects_duplicates.

(* The full statement about Network.from_units (any function producing the network from the unit
   list and the streams).  It is NOT proved for all flowsheets: the path-finding and joining phase
   (fill_path and the join methods) has no model.  What is proved is the per-instance form: whenever the verified
   checker accepts the observed result, that instance of the statement holds. *)
Definition C19_from_units_statement (from_units : list nat -> list edge -> item) : Prop :=
  forall units es,
    (~ has_cycle es -> acyclic_clause units es (from_units units es)) /\
    (has_cycle es -> cyclic_clause units es (from_units units es)).

Theorem C19_from_units_partial : forall (from_units : list nat -> list edge -> item) units es cyc,
  check units es (from_units units es) cyc = true ->
  (~ has_cycle es -> acyclic_clause units es (from_units units es)) /\
  (has_cycle es -> cyclic_clause units es (from_units units es)).
Proof. intros f units es cyc. exact (check_sound_lemma units es (f units es) cyc). Qed.
Print Assumptions C19_from_units_partial.

(* ---- non-vacuity *)
(* a concrete acyclic flowsheet: 0 -> 1 -> 3, 0 -> 2 -> 3 (streams 0..3), nothing cut.  reach_of is a
   strict partial order on all of nat, the sort hypotheses hold with dom = everything, and the sort
   really moves items. *)
Definition ex_es : list edge := [(0, 0, 1); (1, 0, 2); (2, 1, 3); (3, 2, 3)].

Example C19_sort_nonvacuous :
  (forall a b c, reach_of ex_es [] a b = true -> reach_of ex_es [] b c = true -> reach_of ex_es [] a c = true) /\
  (forall a, reach_of ex_es [] a a = false) /\
  strict_onb (reach_of ex_es []) [3; 2; 1; 0] = true /\
  sort_graph ex_es [] [3; 2; 1; 0] = ([0; 2; 1; 3], true, []).
Proof.
  split; [|split; [|split; vm_compute; reflexivity]].
  - intros a b c.
    destruct a as [|[|[|[|a]]]]; destruct b as [|[|[|[|b]]]]; destruct c as [|[|[|[|c]]]];
      vm_compute; intros; congruence.
  - intros a. destruct a as [|[|[|[|a]]]]; vm_compute; reflexivity.
Qed.

(* the checker accepts a correct acyclic result and a correct nested cyclic result, and the clauses hold *)
Example C19_check_nonvacuous_acyclic :
  check [3; 2; 1; 0] ex_es (INet [IUnit 0; IUnit 2; IUnit 1; IUnit 3] []) [] = true /\
  acyclic_clause [3; 2; 1; 0] ex_es (INet [IUnit 0; IUnit 2; IUnit 1; IUnit 3] []).
Proof.
  split; [vm_compute; reflexivity|].
  apply (check_acyclic_sound [3; 2; 1; 0] ex_es). vm_compute. reflexivity.
Qed.

(* 0 -> 1 -> 2 -> 3 with the stream 2 -> 1 (stream 4) closing a loop *)
Definition ex_cyc : list edge := [(0, 0, 1); (1, 1, 2); (2, 2, 3); (4, 2, 1)].
Example C19_check_nonvacuous_cyclic :
  check [2; 0; 3; 1] ex_cyc (INet [IUnit 0; INet [IUnit 1; IUnit 2] [4]; IUnit 3] []) [1; 2] = true /\
  cyclic_clause [2; 0; 3; 1] ex_cyc (INet [IUnit 0; INet [IUnit 1; IUnit 2] [4]; IUnit 3] []) /\
  check [2; 0; 3; 1] ex_cyc (INet [IUnit 0; IUnit 1; IUnit 2; IUnit 3] []) [1; 2] = false.
Proof.
  split; [vm_compute; reflexivity|]. split; [|vm_compute; reflexivity].
  apply (check_cyclic_sound [2; 0; 3; 1] ex_cyc _ [1; 2]). vm_compute. reflexivity.
Qed.

(* ---- part 3: the order in which from_feedstock joins the recycle loops.  If every loop is connected
   to the linear network through loops that pairwise share units (the loops of a connected flowsheet),
   no join_recycle_network call raises 'networks must have units in common to join' and every loop is
   joined exactly once. *)
Theorem C19_join_order_never_raises : forall N loops,
  (forall L, In L loops -> rch N loops L) ->
  snd (join_order N loops) = true /\
  Permutation (map fst (fst (join_order N loops))) (seq 0 (length loops)).
Proof. exact join_order_ok. Qed.
Print Assumptions C19_join_order_never_raises.

(* the chain u0 -> u1 -> u2 -> u3 with returns u1 -> u0, u2 -> u1, u3 -> u2, feedstock entering at u3:
   linear network [3], loops listed deepest first.  The loops are connected to the network, the
   modelled order joins all of them (2, 1, 0), while ranking the loops once before the first join
   raises at the second call: the two policies are not interchangeable. *)
Example C19_join_order_nonvacuous :
  (forall L, In L [[1; 0]; [2; 1]; [3; 2]] -> rch [3] [[1; 0]; [2; 1]; [3; 2]] L) /\
  join_order [3] [[1; 0]; [2; 1]; [3; 2]] = ([(2, [3]); (1, [3; 2]); (0, [3; 2; 1])], true) /\
  snd (join_ranked_once [3] [[1; 0]; [2; 1]; [3; 2]]) = false.
Proof.
  split; [|split; vm_compute; reflexivity].
  assert (R2 : rch [3] [[1; 0]; [2; 1]; [3; 2]] [3; 2]) by (apply rch_base; [cbn; tauto|reflexivity]).
  assert (R1 : rch [3] [[1; 0]; [2; 1]; [3; 2]] [2; 1]) by (eapply rch_step; [exact R2|cbn; tauto|reflexivity]).
  assert (R0 : rch [3] [[1; 0]; [2; 1]; [3; 2]] [1; 0]) by (eapply rch_step; [exact R1|cbn; tauto|reflexivity]).
  intros L [E|[E|[E|[]]]]; subst; assumption.
Qed.

(* ---- part 4: Network.sort on nested paths (items = units and sub-networks; reach between items is
   PathSource.downstream_from on their unit sets).  The sort never loses, adds or duplicates a unit,
   for every tree, stream graph and `ends`. *)
Theorem C19_sort_tree_units : forall es all ends i,
  Permutation (flat (fst (sort_tree es all ends i))) (flat i).
Proof. exact sort_tree_flat. Qed.
Print Assumptions C19_sort_tree_units.

(* if downstream_from is a strict partial order on the items of every level (decidable: tree_strictb),
   the nested sort raises no warning, adds no recycle anywhere, and at every level no later item is
   upstream of an earlier one *)
Theorem C19_sort_tree_strict : forall es all ends i, tree_strictb es all ends i = true ->
  snd (sort_tree es all ends i) = true /\
  Permutation (all_recycles (fst (sort_tree es all ends i))) (all_recycles i) /\
  tree_sorted es ends (fst (sort_tree es all ends i)).
Proof. exact sort_tree_strict. Qed.
Print Assumptions C19_sort_tree_strict.

(* 0 -> 1 -> 2 -> 3 with the return 2 -> 1 (stream 4) cut: the loop [2; 1] is a sub-network *)
Example C19_sort_tree_nonvacuous :
  let all := ex_cyc ++ [(5, nounit, 0); (6, 3, nounit)] in
  let t := INet [IUnit 3; INet [IUnit 2; IUnit 1] [4]; IUnit 0] [] in
  tree_strictb ex_cyc all [4; 6] t = true /\
  sort_tree ex_cyc all [4; 6] t = (INet [IUnit 0; INet [IUnit 1; IUnit 2] [4]; IUnit 3] [], true).
Proof. split; vm_compute; reflexivity. Qed.

(* ---- part 5: the path surgery (model of _remove_overlap, _append_linear_network,
   _insert_linear_network, _add_linear_network, join_linear_network, join_recycle_network,
   _insert_recycle_network; tied to the code by replaying every recorded call).
   [good x]: x is a network whose `units` equals the set of units of its path, at every level.
   For every stream graph, every recycle_sink oracle and every fuel: a surgery step on good networks
   returns a good network whose units are exactly those of the receiver and of the argument —
   no unit is lost or invented, and `units` stays equal to the units of the path. *)
Theorem C19_add_linear_units : forall s n, good s -> good n ->
  good (add_linear s n) /\ seteq (n_units (add_linear s n)) (n_units s ++ n_units n).
Proof. exact add_linear_ok. Qed.
Print Assumptions C19_add_linear_units.

Theorem C19_join_linear_units : forall f s n, good s -> good n ->
  good (join_linear (S f) s n) /\ seteq (n_units (join_linear (S f) s n)) (n_units s ++ n_units n).
Proof. exact join_linear_ok. Qed.
Print Assumptions C19_join_linear_units.

Theorem C19_join_recycle_units : forall es all tbl f s n r, good s -> good n ->
  join_recycle es all tbl f s n = Some r ->
  good r /\ seteq (n_units r) (n_units s ++ n_units n) /\ seteq (flatn r) (flatn s ++ flatn n).
Proof.
  intros es all tbl f s n r Gs Gn H.
  destruct (join_recycle_ok es all tbl f s n r Gs Gn H) as (Gr & S).
  split; [exact Gr|]. split; [exact S|].
  intros z. rewrite <- (units_flat r (proj2 Gr) z), (S z), !in_app_iff.
  rewrite (units_flat s (proj2 Gs) z), (units_flat n (proj2 Gn) z). reflexivity.
Qed.
Print Assumptions C19_join_recycle_units.

Theorem C19_insert_recycle_units : forall es all tbl f s index n pt r, good s -> good n ->
  insert_recycle es all tbl f s index n pt = Some r ->
  good r /\ seteq (n_units r) (n_units s ++ n_units n).
Proof. exact insert_recycle_ok. Qed.
Print Assumptions C19_insert_recycle_units.

(* "each unit once" is NOT a consequence of the surgery alone: two good, duplicate-free networks whose
   join holds unit 3 twice (the joined network overlaps two different sub-networks of the receiver;
   only the first one is merged).  It needs facts about the paths fill_path produces, which are not
   modelled; the harness therefore evaluates nodup_pathb on the result of every recorded step. *)
Example C19_surgery_once_needs_path_facts :
  let s := NN [NN [NU 1; NU 2] [7] [1; 2]; NN [NU 3; NU 4] [8] [3; 4]] [] [1; 2; 3; 4] in
  let n := NN [NU 2; NU 3] [] [2; 3] in
  units_okb s = true /\ units_okb n = true /\ nodup_pathb s = true /\ nodup_pathb n = true /\
  units_okb (add_linear s n) = true /\ nodup_pathb (add_linear s n) = false.
Proof. repeat split; vm_compute; reflexivity. Qed.

(* non-vacuity: the first minimised defect (a unit fed by two loops): receiver [1; Network([0; 2])],
   joined loop [1; 0] with recycle stream 0 -> 1; the model merges it into the sub-network and
   removes unit 1 from the outer path *)
Example C19_surgery_nonvacuous :
  let es := [(0, 0, 1); (1, 0, 2); (3, 1, 0); (4, 2, 0)] in
  let all := es ++ [(2, 0, nounit); (5, nounit, 1)] in
  let s := NN [NU 1; NN [NU 0; NU 2] [4] [0; 2]] [] [0; 1; 2] in
  let n := NN [NU 1; NU 0] [0] [0; 1] in
  join_recycle es all [] 20 s n = Some (NN [NN [NU 1; NU 0; NU 2] [4; 0] [0; 2; 1]] [] [0; 1; 2]).
Proof. vm_compute. reflexivity. Qed.

(* ---- part 6: path finding (model of fill_path, path_with_recycle_to_cyclic_path_with_recycle and
   simplified_linear_paths; tied to the code by comparing the fragments, loops and `ends` returned by
   every find_linear_and_cyclic_paths_with_recycle call).  For every list of walked paths: *)
(* the linear fragments never share or repeat a unit *)
Theorem C19_linear_fragments_once : forall paths,
  Forall (@NoDup nat) paths -> NoDup (concat (simplified paths)).
Proof. exact simplified_nodup. Qed.
Print Assumptions C19_linear_fragments_once.

(* they hold exactly the units of the walked paths *)
Theorem C19_linear_fragments_units : forall paths u,
  In u (concat (simplified paths)) <-> In u (concat paths).
Proof. exact simplified_units. Qed.
Print Assumptions C19_linear_fragments_units.

(* the first fragment, the base network that from_feedstock extends, is a longest walked path kept whole
   (so it starts at the unit the feedstock enters) *)
Theorem C19_linear_fragments_longest_first : forall paths, paths <> [] ->
  let L := last (sort_len_asc paths) [] in
  L <> [] ->
  hd [] (simplified paths) = L /\ In L paths /\ forall p, In p paths -> length p <= length L.
Proof. exact simplified_head. Qed.
Print Assumptions C19_linear_fragments_longest_first.

(* for every stream graph, feedstock and `ends`: what from_feedstock starts from are linear fragments that
   never share or repeat a unit and loops without a repeated unit *)
Theorem C19_find_paths_once : forall all feed ends lin cyc ends',
  find_paths all feed ends = (lin, cyc, ends') ->
  NoDup (concat lin) /\ Forall (fun pr => NoDup (fst pr)) cyc.
Proof. exact find_paths_once. Qed.
Print Assumptions C19_find_paths_once.

(* a loop 0 -> (1 -> 2 | 3 -> 4 -> 5, 3 -> 5, 4 -> 6 -> product) -> 7 -> 0, feed at 0: three fragments,
   the longest first; the loop path follows the first outlets *)
Example C19_find_paths_nonvacuous :
  let all := [(0, 0, 1); (1, 0, 3); (2, 1, 2); (3, 2, 7); (4, 3, 4); (5, 3, 5); (6, 4, 6); (7, 4, 5); (8, 5, 7);
              (9, 6, nounit); (10, 7, 0); (11, nounit, 0)] in
  find_paths all (11, nounit, 0) [9] = ([[0; 3; 4; 5; 7]; [1; 2]; [6]], [([0; 3; 5; 7], 10)], [9; 10]).
Proof. vm_compute. reflexivity. Qed.


(* ---- part 7 (deepening): "each unit once" is preserved by the path surgery under explicit path facts.
   good x: `units` = units of the path at every level; flatpath n: the joined network is a list of units
   (what fill_path produces); confinedb n s: at every level of s at most one sub-network shares units with
   n; no_child_overlap n s: no sub-network of s shares units with n.  All facts are decidable, and hold on
   every recorded join of the quick tier. *)
Theorem C19_add_linear_once : forall s n, good s -> good n -> NoDup (flatn s) -> NoDup (flatn n) ->
  confinedb n s = true -> NoDup (flatn (add_linear s n)).
Proof. exact add_linear_nodup. Qed.
Print Assumptions C19_add_linear_once.

Theorem C19_join_linear_once : forall f s n, good s -> good n -> NoDup (flatn s) -> NoDup (flatn n) ->
  no_child_overlap n s = true -> NoDup (flatn (join_linear (S f) s n)).
Proof. exact join_linear_nodup. Qed.
Print Assumptions C19_join_linear_once.

Theorem C19_insert_recycle_once : forall es all tbl f s index n r,
  good s -> good n -> NoDup (flatn s) -> NoDup (flatn n) -> flatpath n = true ->
  no_child_overlap n s = true ->
  insert_recycle es all tbl f s index n (n_path s) = Some r -> NoDup (flatn r).
Proof. exact insert_recycle_nodup. Qed.
Print Assumptions C19_insert_recycle_once.

Theorem C19_join_recycle_once : forall es all tbl f s n r,
  good s -> good n -> NoDup (flatn s) -> NoDup (flatn n) -> flatpath n = true -> confinedb n s = true ->
  join_recycle es all tbl f s n = Some r -> NoDup (flatn r).
Proof. exact join_recycle_nodup. Qed.
Print Assumptions C19_join_recycle_once.

(* every history of loop joins: if the path fact holds along the run, the network holds exactly the units of
   the start network and of the loops, each once, with `units` = units of the path *)
Theorem C19_joins_once : forall es all tbl f ns s r,
  good s -> NoDup (flatn s) -> Forall loop_ok ns -> confined_run es all tbl f s ns = true ->
  joins es all tbl f s ns = Some r ->
  good r /\ NoDup (flatn r) /\
  (forall u, In u (flatn r) <-> In u (flatn s) \/ In u (flat_map flatn ns)).
Proof. exact joins_once. Qed.
Print Assumptions C19_joins_once.

(* the linear phase of from_feedstock, for every stream graph, feedstock and `ends`: the network built from
   the fragments of find_paths holds every walked unit exactly once *)
Theorem C19_linear_phase_once : forall f all feed ends lin cyc ends',
  find_paths all feed ends = (lin, cyc, ends') ->
  good (linear_phase f lin) /\ NoDup (flatn (linear_phase f lin)) /\
  (forall u, In u (flatn (linear_phase f lin)) <-> In u (concat lin)).
Proof. exact linear_phase_once. Qed.
Print Assumptions C19_linear_phase_once.

(* and every loop of find_paths satisfies the hypotheses the join theorems put on the joined network *)
Theorem C19_loops_ready : forall all feed ends lin cyc ends',
  find_paths all feed ends = (lin, cyc, ends') ->
  Forall (fun pr => good (unet (fst pr) [snd pr]) /\ NoDup (flatn (unet (fst pr) [snd pr])) /\
                    flatpath (unet (fst pr) [snd pr]) = true) cyc.
Proof. exact loops_ready. Qed.
Print Assumptions C19_loops_ready.

(* the evaluated invariants are the propositional ones *)
Theorem C19_evaluated_invariants : forall x, is_net x = true -> units_okb x = true -> nodup_pathb x = true ->
  good x /\ NoDup (flatn x).
Proof. intros x N U D. split; [apply okb_good; assumption|apply nodup_pathb_NoDup; exact D]. Qed.
Print Assumptions C19_evaluated_invariants.

(* topological order under splicing (join_network_at_unit / _append_network on acyclic networks):
   _insert_linear_network(index, n) keeps every stream forward if no stream goes from the receiver's units at
   or after `index` into n, nor from n to the units before `index`; _append_linear_network if none goes back *)
Theorem C19_insert_linear_forward : forall es p r U index n, is_net n = true ->
  fwd es (flatn (NN p r U)) -> fwd es (flatn n) ->
  (forall s u v, In (s, u, v) es -> In u (flat_map flatn (skipn index p)) -> In v (flatn n) -> False) ->
  (forall s u v, In (s, u, v) es -> In u (flatn n) -> In v (flat_map flatn (firstn index p)) -> False) ->
  fwd es (flatn (insert_linear (NN p r U) index n)).
Proof. exact insert_linear_forward. Qed.
Print Assumptions C19_insert_linear_forward.

Theorem C19_append_linear_forward : forall es p r U n, is_net n = true ->
  fwd es (flatn (NN p r U)) -> fwd es (flatn n) ->
  (forall s u v, In (s, u, v) es -> In u (flatn n) -> In v (flat_map flatn p) -> False) ->
  fwd es (flatn (append_linear (NN p r U) n)).
Proof. exact append_linear_forward. Qed.
Print Assumptions C19_append_linear_forward.

(* ---- non-vacuity of part 7 *)
(* the first minimised defect again (a unit fed by two loops): all hypotheses of the join theorem hold *)
Example C19_join_recycle_once_nonvacuous :
  let es := [(0, 0, 1); (1, 0, 2); (3, 1, 0); (4, 2, 0)] in
  let all := es ++ [(2, 0, nounit); (5, nounit, 1)] in
  let s := NN [NU 1; NN [NU 0; NU 2] [4] [0; 2]] [] [0; 1; 2] in
  let n := NN [NU 1; NU 0] [0] [0; 1] in
  good s /\ good n /\ NoDup (flatn s) /\ NoDup (flatn n) /\ flatpath n = true /\ confinedb n s = true /\
  exists r, join_recycle es all [] 20 s n = Some r /\ NoDup (flatn r).
Proof.
  cbv zeta.
  split; [apply okb_good; vm_compute; reflexivity|]. split; [apply okb_good; vm_compute; reflexivity|].
  split; [apply nodup_pathb_NoDup; vm_compute; reflexivity|]. split; [apply nodup_pathb_NoDup; vm_compute; reflexivity|].
  split; [vm_compute; reflexivity|]. split; [vm_compute; reflexivity|].
  eexists. split; [vm_compute; reflexivity|]. apply nodup_pathb_NoDup. vm_compute. reflexivity.
Qed.

(* a sub-network [0; 2] shares unit 2 with the joined fragment: confined, so add_linear keeps each unit once *)
Example C19_add_linear_once_nonvacuous :
  let s := NN [NU 1; NN [NU 0; NU 2] [4] [0; 2]; NU 3] [] [0; 1; 2; 3] in
  let n := NN [NU 2; NU 3; NU 5] [] [2; 3; 5] in
  good s /\ good n /\ NoDup (flatn s) /\ NoDup (flatn n) /\ confinedb n s = true /\
  flatn (add_linear s n) = [1; 0; 2; 3; 5].
Proof.
  cbv zeta.
  split; [apply okb_good; vm_compute; reflexivity|]. split; [apply okb_good; vm_compute; reflexivity|].
  split; [apply nodup_pathb_NoDup; vm_compute; reflexivity|]. split; [apply nodup_pathb_NoDup; vm_compute; reflexivity|].
  split; vm_compute; reflexivity.
Qed.

(* a flat receiver and a loop inserted at the position of its first common unit *)
Example C19_insert_recycle_once_nonvacuous :
  let es := [(0, 0, 1); (1, 1, 2); (2, 2, 3); (4, 2, 1)] in
  let all := es ++ [(5, nounit, 0); (6, 3, nounit)] in
  let s := unet [0; 1; 2; 3] [] in
  let n := unet [1; 2] [4] in
  good s /\ good n /\ NoDup (flatn s) /\ NoDup (flatn n) /\ flatpath n = true /\ no_child_overlap n s = true /\
  insert_recycle es all [] 20 s 1 n (n_path s) = Some (NN [NU 0; NN [NU 1; NU 2] [4] [1; 2]; NU 3] [] [0; 1; 2; 3]) /\
  join_linear 1 s (unet [3; 7] []) = NN [NU 0; NU 1; NU 2; NU 3; NU 7] [] [0; 1; 2; 3; 7] /\
  no_child_overlap (unet [3; 7] []) s = true.
Proof.
  cbv zeta.
  split; [apply unet_good|]. split; [apply unet_good|].
  split; [rewrite unet_flat; apply nodupb_NoDup; reflexivity|]. split; [rewrite unet_flat; apply nodupb_NoDup; reflexivity|].
  repeat split; vm_compute; reflexivity.
Qed.

(* the flowsheet of C19_find_paths_nonvacuous: three fragments, one loop; two loop joins in a row *)
Example C19_phases_nonvacuous :
  let all := [(0, 0, 1); (1, 0, 3); (2, 1, 2); (3, 2, 7); (4, 3, 4); (5, 3, 5); (6, 4, 6); (7, 4, 5); (8, 5, 7);
              (9, 6, nounit); (10, 7, 0); (11, nounit, 0)] in
  let es := filter (fun e => negb (src e =? nounit) && negb (dst e =? nounit)) all in
  flatn (linear_phase 0 [[0; 3; 4; 5; 7]; [1; 2]; [6]]) = [0; 3; 4; 5; 7; 1; 2; 6] /\
  Forall loop_ok [unet [0; 3; 5; 7] [10]; unet [4; 5] [7]] /\
  confined_run es all [] 20 (linear_phase 0 [[0; 3; 4; 5; 7]; [1; 2]; [6]]) [unet [0; 3; 5; 7] [10]; unet [4; 5] [7]] = true /\
  exists r, joins es all [] 20 (linear_phase 0 [[0; 3; 4; 5; 7]; [1; 2]; [6]]) [unet [0; 3; 5; 7] [10]; unet [4; 5] [7]] = Some r.
Proof.
  cbv zeta. split; [vm_compute; reflexivity|]. split.
  - assert (L : forall p rc, nodupb p = true -> loop_ok (unet p rc)).
    { intros p rc N. split; [apply unet_good|]. split; [rewrite unet_flat; apply nodupb_NoDup; exact N|apply unet_flatpath]. }
    constructor; [apply L; reflexivity|]. constructor; [apply L; reflexivity|constructor].
  - split; [vm_compute; reflexivity|]. eexists. vm_compute. reflexivity.
Qed.

(* splicing the network of a second feed (unit 2, feeding unit 1) before the connecting unit *)
Example C19_insert_linear_forward_nonvacuous :
  let es := [(0, 0, 1); (1, 2, 1)] in
  fwd es (flatn (unet [0; 1] [])) /\ fwd es (flatn (unet [2] [])) /\
  flatn (insert_linear (unet [0; 1] []) 1 (unet [2] [])) = [0; 2; 1] /\
  fwd es [0; 2; 1].
Proof.
  cbv zeta.
  assert (F1 : fwd [(0, 0, 1); (1, 2, 1)] (flatn (unet [0; 1] []))).
  { intros s u v [E|[E|[]]] Hu Hv; inversion E; subst.
    - exists 0, 1. repeat split; lia.
    - cbn in Hu. destruct Hu as [Hu|[Hu|[]]]; discriminate. }
  assert (F2 : fwd [(0, 0, 1); (1, 2, 1)] (flatn (unet [2] []))).
  { intros s u v [E|[E|[]]] Hu Hv; inversion E; subst; cbn in Hu, Hv;
      [destruct Hu as [Hu|[]]; discriminate|destruct Hv as [Hv|[]]; discriminate]. }
  split; [exact F1|]. split; [exact F2|]. split; [reflexivity|].
  change [0; 2; 1] with (flatn (insert_linear (NN (map NU [0; 1]) [] [0; 1]) 1 (unet [2] []))).
  apply insert_linear_forward; auto.
  - intros s u v [E|[E|[]]] Hu Hv; inversion E; subst; cbn in Hu, Hv; [destruct Hv as [Hv|[]]; discriminate|].
    destruct Hu as [Hu|[]]; discriminate.
  - intros s u v [E|[E|[]]] Hu Hv; inversion E; subst; cbn in Hu, Hv; [destruct Hu as [Hu|[]]; discriminate|].
    destruct Hv as [Hv|[]]; discriminate.
Qed.

(* ---- get_downstream_units computes the transitive closure (for every stream graph and cut set), so
   PathSource reachability is transitive and the sort theorems hold for EVERY flowsheet whose uncut streams
   form no cycle, without a hypothesis on `reach` *)
Theorem C19_downstream_is_closure : forall es ends u v,
  In v (downstream es ends u) <-> clos_trans nat (fun a b => In b (nbrs es ends a)) u v.
Proof. exact downstream_spec. Qed.
Print Assumptions C19_downstream_is_closure.

Theorem C19_reach_transitive : forall es ends a b c,
  reach_of es ends a b = true -> reach_of es ends b c = true -> reach_of es ends a c = true.
Proof. exact reach_of_trans. Qed.
Print Assumptions C19_reach_transitive.

Theorem C19_sort_graph_acyclic : forall es ends path, cut_acyclic es ends ->
  Permutation (sorted_path (reach_of es ends) (direct_of es ends) path) path /\
  sort_stop (reach_of es ends) (direct_of es ends) path = true /\
  sort_recycles (reach_of es ends) (direct_of es ends) path = [] /\
  (forall e i j, In e es -> memb (sid e) ends = false ->
     nth_error (sorted_path (reach_of es ends) (direct_of es ends) path) i = Some (src e) ->
     nth_error (sorted_path (reach_of es ends) (direct_of es ends) path) j = Some (dst e) -> i < j).
Proof. exact sort_graph_acyclic. Qed.
Print Assumptions C19_sort_graph_acyclic.

Example C19_sort_graph_acyclic_nonvacuous : cut_acyclic ex_es [] /\ reach_of ex_es [] 0 3 = true.
Proof.
  split; [|vm_compute; reflexivity]. intros a R. apply reach_of_spec in R.
  rewrite (proj1 (proj2 C19_sort_nonvacuous) a) in R. discriminate.
Qed.

(* for every stream graph, feedstock and `ends`: after the linear phase and the first loop join every walked
   unit is in the network exactly once (a flat receiver meets the path fact trivially) *)
Theorem C19_first_loop_once : forall es all' tbl f f0 all feed ends lin cyc ends' pr r,
  find_paths all feed ends = (lin, cyc, ends') -> In pr cyc ->
  join_recycle es all' tbl f (linear_phase f0 lin) (unet (fst pr) [snd pr]) = Some r ->
  good r /\ NoDup (flatn r) /\
  (forall u, In u (flatn r) <-> In u (concat lin) \/ In u (fst pr)).
Proof. exact first_loop_once. Qed.
Print Assumptions C19_first_loop_once.

Example C19_first_loop_once_nonvacuous :
  let all := [(0, 0, 1); (1, 0, 3); (2, 1, 2); (3, 2, 7); (4, 3, 4); (5, 3, 5); (6, 4, 6); (7, 4, 5); (8, 5, 7);
              (9, 6, nounit); (10, 7, 0); (11, nounit, 0)] in
  let es := filter (fun e => negb (src e =? nounit) && negb (dst e =? nounit)) all in
  find_paths all (11, nounit, 0) [9] = ([[0; 3; 4; 5; 7]; [1; 2]; [6]], [([0; 3; 5; 7], 10)], [9; 10]) /\
  exists r, join_recycle es all [] 20 (linear_phase 0 [[0; 3; 4; 5; 7]; [1; 2]; [6]]) (unet [0; 3; 5; 7] [10]) = Some r
            /\ flatn r = [0; 3; 4; 5; 7; 1; 2; 6].
Proof. cbv zeta. split; [vm_compute; reflexivity|]. eexists. split; vm_compute; reflexivity. Qed.

(* ---- part 8: the whole methods of the multi-feed phase of from_feedstock (Model.v part 7: _append_network,
   join_network_at_unit, reduce_recycles; tied to the code by replaying every recorded call, and by direct calls of the
   real methods on pairs of from_units results) *)
(* _append_network: every unit of the receiver in order, then every unit of the argument in order, in all four
   branches (receiver / argument with or without a recycle) *)
Theorem C19_append_network_order : forall s n, is_net s = true -> is_net n = true ->
  flatn (append_network s n) = flatn s ++ flatn n.
Proof. exact append_network_flat. Qed.
Print Assumptions C19_append_network_order.

Theorem C19_append_network_units : forall s n, good s -> good n ->
  good (append_network s n) /\ seteq (n_units (append_network s n)) (n_units s ++ n_units n).
Proof. exact append_network_ok. Qed.
Print Assumptions C19_append_network_units.

Theorem C19_append_network_once : forall s n, is_net s = true -> is_net n = true ->
  NoDup (flatn s) -> NoDup (flatn n) -> (forall z, In z (flatn s) -> ~ In z (flatn n)) ->
  NoDup (flatn (append_network s n)).
Proof. exact append_network_once. Qed.
Print Assumptions C19_append_network_once.

(* reduce_recycles, for every tree and stream table: the units of the path and their order, `units`, and
   `units` = units of the path at every level are unchanged *)
Theorem C19_reduce_keeps_path : forall all x r, reduce all x = Some r ->
  flatn r = flatn x /\ n_units r = n_units x /\ is_net r = is_net x /\ (uok x -> uok r).
Proof. exact reduce_keeps. Qed.
Print Assumptions C19_reduce_keeps_path.

(* a recycle set is kept or replaced by one stream: a network that carried a recycle still carries one *)
Theorem C19_reduce_recycle_kept : forall all r r', reduce_rc all r = Some r' ->
  (r' = r \/ exists o, r' = [o] /\ 2 <= length r) /\ (r' = [] <-> r = []).
Proof. intros all r r' H. split; [exact (reduce_rc_shape all r r' H)|exact (reduce_rc_nonempty all r r' H)]. Qed.
Print Assumptions C19_reduce_recycle_kept.

(* join_network_at_unit with an argument that carries no recycle (the top-level recycle of a network under
   construction is None, so this is the call from_feedstock makes), for every stream graph, receiver and unit: the
   argument is unchanged; if receiver and argument hold each unit once and share none, the result holds exactly
   their units, each once, with `units` = units of the path *)
Theorem C19_join_at_unit_once : forall es all tbl f s n unit r n',
  good s -> good n -> NoDup (flatn s) -> NoDup (flatn n) ->
  (forall z, In z (flatn n) -> ~ In z (flatn s)) -> n_rc n = [] ->
  join_at es all tbl (S f) s n unit = Some (r, n') ->
  n' = n /\ good r /\ seteq (n_units r) (n_units s ++ n_units n) /\
  NoDup (flatn r) /\ Permutation (flatn r) (flatn s ++ flatn n).
Proof. exact join_at_linear_once. Qed.
Print Assumptions C19_join_at_unit_once.

(* and the argument's units are spliced in as one block, in their order, the receiver's units keeping theirs *)
Theorem C19_join_at_unit_order : forall es all tbl f s n unit r n', is_net s = true -> is_net n = true -> n_rc n = [] ->
  join_at es all tbl (S f) s n unit = Some (r, n') ->
  (exists a b, flatn s = a ++ b /\ flatn r = a ++ flatn n ++ b) \/ r = join_linear (S f) s n.
Proof. exact join_at_linear_order. Qed.
Print Assumptions C19_join_at_unit_order.

(* non-vacuity: a second feed's network [4; 5] joined at unit 2, which sits inside the loop [1; 2] *)
Example C19_join_at_unit_nonvacuous :
  let s := NN [NU 0; NN [NU 1; NU 2] [7] [1; 2]; NU 3] [] [0; 1; 2; 3] in
  let n := unet [4; 5] [] in
  good s /\ good n /\ NoDup (flatn s) /\ NoDup (flatn n) /\ (forall z, In z (flatn n) -> ~ In z (flatn s)) /\
  join_at [] [] [] 20 s n 2 = Some (NN [NU 0; NU 4; NU 5; NN [NU 1; NU 2] [7] [1; 2]; NU 3] [] [0; 1; 2; 3; 4; 5], n) /\
  append_network (set_rc s [9]) n = NN [set_rc s [9]; NU 4; NU 5] [] [0; 1; 2; 3; 4; 5].
Proof.
  cbv zeta.
  split; [apply okb_good; vm_compute; reflexivity|]. split; [apply unet_good|].
  split; [apply nodup_pathb_NoDup; vm_compute; reflexivity|]. split; [apply nodup_pathb_NoDup; vm_compute; reflexivity|].
  split; [|split; vm_compute; reflexivity].
  intros z Hn Hs. cbn in Hn, Hs. lia.
Qed.

(* the loop {1, 2} with two return streams 2 -> 1 (streams 4 and 5), unit 1 having a single outlet (stream 1): the only
   child is lifted and the recycle set is replaced by the single outlet of the common sink *)
Example C19_reduce_nonvacuous :
  let all := [(0, nounit, 1); (1, 1, 2); (4, 2, 1); (5, 2, 1); (6, 2, nounit)] in
  reduce all (NN [NN [NU 1; NU 2] [4; 5] [1; 2]] [] [1; 2]) = Some (NN [NU 1; NU 2] [1] [1; 2]).
Proof. vm_compute. reflexivity. Qed.
