(* C19 — executable definitions only (no lemmas).

   Part 1: model of thermosteam.network.Network.sort (network.py:2419-2455) on a path of
   items, transcribed loop for loop:

       for _ in range(N * N):                       sort_loop (N*N)
           stop = True
           for i in range(N - 1):                   sweep
               upstream = path_sources[i]
               for j in range(i + 1, N):            split_first  (first j > i with
                   downstream = path_sources[j]                    path[i] downstream of path[j])
                   if upstream.downstream_from(downstream):
                       if downstream.downstream_from(upstream):    mutual: recycles, no move
                           ... recycles = streams from path[i] to path[j] not in ends
                           if recycles: self.add_recycle(set(recycles)); stop = False
                       else:                                       move path[j] to position i
                           path_sources.remove(downstream)
                           path_sources.insert(i, downstream); stop = False
                       break
           if stop: break
       if not stop: warn('network path could not be determined')

   plus PathSource / AbstractUnit.get_downstream_units (network.py:2100-2117, 1740-1766) on a
   unit/stream graph given as an edge list.

   Part 2: certificate checker for complete Network.from_units results (nested path with
   recycles), see [check].
   Part 3: order in which from_feedstock joins the recycle loops.
   Part 4: Network.sort on nested paths (items = units and sub-networks).
   Part 5: the path surgery (_remove_overlap ... _insert_recycle_network) on trees that keep `units`.
   Part 6: path finding (fill_path, simplified_linear_paths). *)
From V Require Export Common.Num.
Local Open Scope nat_scope.

(* ------------------------------------------------------------------ part 1: Network.sort *)
Section Sort.
Variables (U St : Type).
(* reach a b: b is in PathSource(a).units, i.e. b.downstream_from(a) *)
Variable reach : U -> U -> bool.
(* direct a b: the streams [i for i in a.outs if i in b.ins] that are not in ends *)
Variable direct : U -> U -> list St.

(* the inner `for j` loop: first x in l with u downstream of x, as (before, x, after) *)
Fixpoint split_first (u : U) (l : list U) : option (list U * U * list U) :=
  match l with
  | [] => None
  | x :: t =>
      if reach x u then Some ([], x, t)
      else match split_first u t with
           | Some (b, y, a) => Some (x :: b, y, a)
           | None => None
           end
  end.

(* one pass of `for i`; result: (path, stop = False was assigned, recycles passed to add_recycle) *)
Fixpoint sweep (fuel : nat) (l : list U) : list U * bool * list St :=
  match fuel, l with
  | S f, u :: t =>
      match split_first u t with
      | Some (b, y, a) =>
          if reach u y then
            (* mutually downstream: path unchanged, recycle added when there is a direct stream *)
            let rc := direct u y in
            let '(r, m, rs) := sweep f t in
            (u :: r, (match rc with [] => false | _ => true end) || m, rc ++ rs)
          else
            (* y moves to position i; position i+1 now holds u *)
            let '(r, _, rs) := sweep f (u :: b ++ a) in
            (y :: r, true, rs)
      | None => let '(r, m, rs) := sweep f t in (u :: r, m, rs)
      end
  | _, _ => (l, false, [])
  end.

(* the outer `for _ in range(N*N)` loop; second component = final value of `stop` *)
Fixpoint sort_loop (n : nat) (l : list U) : list U * bool * list St :=
  match n with
  | O => (l, false, [])
  | S k =>
      let '(r, changed, rs) := sweep (length l) l in
      if changed then let '(r', stop, rs') := sort_loop k r in (r', stop, rs ++ rs')
      else (r, true, rs)
  end.

(* Network.sort on a path without sub-networks: (new path, stop (= no warning), recycles added) *)
Definition sort (l : list U) : list U * bool * list St :=
  match l with
  | [] => (l, true, [])                     (* `if not N: return` *)
  | _ => sort_loop (length l * length l) l
  end.

Definition sorted_path (l : list U) : list U := fst (fst (sort l)).
Definition sort_stop (l : list U) : bool := snd (fst (sort l)).
Definition sort_recycles (l : list U) : list St := snd (sort l).
End Sort.

Arguments split_first {U} reach u l.
Arguments sweep {U St} reach direct fuel l.
Arguments sort_loop {U St} reach direct n l.
Arguments sort {U St} reach direct l.
Arguments sorted_path {U St} reach direct l.
Arguments sort_stop {U St} reach direct l.
Arguments sort_recycles {U St} reach direct l.

(* decidable: reach is a strict partial order on the items of l (irreflexive, transitive) *)
Definition strict_onb {U} (reach : U -> U -> bool) (l : list U) : bool :=
  forallb (fun a => negb (reach a a)) l &&
  forallb (fun a => forallb (fun b => forallb (fun c =>
     implb (reach a b && reach b c) (reach a c)) l) l) l.

(* ---- the unit/stream graph: (stream id, source unit, sink unit) for every process stream *)
Definition edge := (nat * nat * nat)%type.
Definition sid (e : edge) : nat := fst (fst e).
Definition src (e : edge) : nat := snd (fst e).
Definition dst (e : edge) : nat := snd e.

Definition memb (x : nat) (l : list nat) : bool := existsb (Nat.eqb x) l.

(* AbstractUnit._add_downstream_neighbors_to_set(ends, universal=False); no unit is universal *)
Definition nbrs (es : list edge) (ends : list nat) (u : nat) : list nat :=
  map dst (filter (fun e => (src e =? u) && negb (memb (sid e) ends)) es).

(* set.update, sets as duplicate-free lists *)
Definition add_all (s l : list nat) : list nat :=
  fold_left (fun s x => if memb x s then s else s ++ [x]) l s.

(* the `while new_length != old_length` loop of get_downstream_units *)
Fixpoint dloop (fuel : nat) (es : list edge) (ends : list nat) (s outer : list nat) : list nat :=
  match fuel with
  | O => s
  | S f =>
      let s' := add_all s outer in
      let outer' := flat_map (nbrs es ends) outer in
      if length s' =? length s then s' else dloop f es ends s' outer'
  end.

(* PathSource(u, ends).units *)
Definition downstream (es : list edge) (ends : list nat) (u : nat) : list nat :=
  dloop (S (length es)) es ends [] (nbrs es ends u).

Definition reach_of (es : list edge) (ends : list nat) (a b : nat) : bool :=
  memb b (downstream es ends a).

Definition direct_of (es : list edge) (ends : list nat) (a b : nat) : list nat :=
  map sid (filter (fun e => (src e =? a) && (dst e =? b) && negb (memb (sid e) ends)) es).

Definition sort_graph (es : list edge) (ends : list nat) (path : list nat) :=
  sort (reach_of es ends) (direct_of es ends) path.

(* ---- comparison with the observed run *)
Definition subsetb (a b : list nat) : bool := forallb (fun x => memb x b) a.
Definition set_eqb (a b : list nat) : bool := subsetb a b && subsetb b a.

Definition sort_case (es : list edge) (ends path : list nat)
           (exp_path : list nat) (exp_stop : bool) (exp_recycles : list nat)
           (exp_down : list (list nat)) (exp_strict : bool) : bool :=
  let '(r, stop, rs) := sort_graph es ends path in
  list_eqb Nat.eqb r exp_path && Bool.eqb stop exp_stop && set_eqb rs exp_recycles
  && list_eqb set_eqb (map (downstream es ends) path) exp_down
  && Bool.eqb exp_strict (strict_onb (reach_of es ends) path).

(* ------------------------------------------------------------------ part 2: certificate checker *)
(* a Network: path of units and sub-networks, with the recycle streams it carries *)
Inductive item : Type :=
| IUnit (u : nat)
| INet (p : list item) (r : list nat).

(* units in path order, sub-networks expanded in place *)
Fixpoint flat (i : item) : list nat :=
  match i with
  | IUnit u => [u]
  | INet p _ => flat_map flat p
  end.

(* every (sub-)network as (its units, its recycle streams), the network itself first *)
Fixpoint subnets (i : item) : list (list nat * list nat) :=
  match i with
  | IUnit _ => []
  | INet p r => (flat_map flat p, r) :: flat_map subnets p
  end.

(* Network.get_all_recycles *)
Fixpoint all_recycles (i : item) : list nat :=
  match i with
  | IUnit _ => []
  | INet p r => r ++ flat_map all_recycles p
  end.

Fixpoint index (x : nat) (l : list nat) : option nat :=
  match l with
  | [] => None
  | y :: t => if x =? y then Some 0 else option_map S (index x t)
  end.

Definition count (x : nat) (l : list nat) : nat := length (filter (Nat.eqb x) l).

Fixpoint nodupb (l : list nat) : bool :=
  match l with
  | [] => true
  | x :: t => negb (memb x t) && nodupb t
  end.

Definition is_nil {A} (l : list A) : bool := match l with [] => true | _ => false end.

(* the path holds every given unit exactly once and nothing else *)
Definition perm_check (units path : list nat) : bool :=
  nodupb units && forallb (fun u => count u path =? 1) units && forallb (fun u => memb u units) path.

(* stream e goes forward in the path *)
Definition forward (path : list nat) (e : edge) : bool :=
  match index (src e) path, index (dst e) path with
  | Some i, Some j => i <? j
  | _, _ => false
  end.

Definition in_path (path : list nat) (e : edge) : bool :=
  memb (src e) path && memb (dst e) path.

(* both ends inside one (sub-)network that carries a recycle *)
Definition covered (subs : list (list nat * list nat)) (u v : nat) : bool :=
  existsb (fun mr => negb (is_nil (snd mr)) && memb u (fst mr) && memb v (fst mr)) subs.

Definition has_edge (es : list edge) (u v : nat) : bool :=
  existsb (fun e => (src e =? u) && (dst e =? v)) es.

(* cyc = u0 :: u1 :: ... is a closed walk: u0->u1->...->uk->u0 *)
Fixpoint walk_check (es : list edge) (first : nat) (c : list nat) : bool :=
  match c with
  | [] => false
  | [u] => has_edge es u first
  | u :: ((v :: _) as t) => has_edge es u v && walk_check es first t
  end.
Definition cycle_check (es : list edge) (c : list nat) : bool :=
  match c with [] => false | u :: _ => walk_check es u c end.

Definition check_acyclic (units : list nat) (es : list edge) (net : item) : bool :=
  perm_check units (flat net) && forallb (forward (flat net)) es && is_nil (all_recycles net).

Definition check_cyclic (units : list nat) (es : list edge) (net : item) (cyc : list nat) : bool :=
  perm_check units (flat net) && negb (is_nil (all_recycles net)) && cycle_check es cyc
  && forallb (fun e => in_path (flat net) e
                       && (forward (flat net) e || covered (subnets net) (src e) (dst e))) es.

(* cyc = [] claims "the flowsheet has no cycle"; otherwise cyc is a cycle of the flowsheet *)
Definition check (units : list nat) (es : list edge) (net : item) (cyc : list nat) : bool :=
  if is_nil cyc then check_acyclic units es net else check_cyclic units es net cyc.

(* ------------------------------------------------------------------ part 3: order in which
   Network.from_feedstock joins the recycle loops found by fill_path (network.py, the
   `while recycle_networks:` block):

       while recycle_networks:
           for recycle_network in recycle_networks:                      pick
               if not network.isdisjoint(recycle_network): break
           else:
               recycle_network = recycle_networks[0]
           recycle_networks = [i for i in recycle_networks if i is not recycle_network]
           network.join_recycle_network(recycle_network)

   Abstraction of join_recycle_network on the top-level network (whose own recycle is None at
   this stage): it raises ValueError('networks must have units in common to join') when the loop
   shares no unit with the network, otherwise network.units becomes the union.  Loops carry their
   position in the list returned by find_linear_and_cyclic_paths_with_recycle. *)
Definition disjointb (a b : list nat) : bool := forallb (fun x => negb (memb x b)) a.

Definition loop := (nat * list nat)%type.

Fixpoint pick (N : list nat) (ls : list loop) : option (list loop * loop * list loop) :=
  match ls with
  | [] => None
  | L :: t =>
      if disjointb (snd L) N then
        match pick N t with
        | Some (b, x, a) => Some (L :: b, x, a)
        | None => None
        end
      else Some ([], L, t)
  end.

(* result: the calls network.join_recycle_network(loop) made, as (loop position, network.units
   before the call), and whether all of them returned (false = the last one raised) *)
Fixpoint join_loops (fuel : nat) (N : list nat) (ls : list loop) : list (nat * list nat) * bool :=
  match fuel with
  | O => ([], true)
  | S f =>
      match ls with
      | [] => ([], true)
      | first :: rest =>
          let '(b, L, a) := match pick N ls with Some x => x | None => ([], first, rest) end in
          if disjointb (snd L) N then ([(fst L, N)], false)
          else let '(js, ok) := join_loops f (add_all N (snd L)) (b ++ a) in ((fst L, N) :: js, ok)
      end
  end.

Definition number {A} (l : list A) : list (nat * A) := combine (seq 0 (length l)) l.

Definition join_order (N : list nat) (loops : list (list nat)) :=
  join_loops (length loops) N (number loops).

(* the variant that ranks the loops once, before the first join (stable sort on `isdisjoint`),
   and then joins them in that order: kept only to show that it is NOT equivalent *)
Fixpoint join_in_order (N : list nat) (ls : list loop) : list (nat * list nat) * bool :=
  match ls with
  | [] => ([], true)
  | L :: t =>
      if disjointb (snd L) N then ([(fst L, N)], false)
      else let '(js, ok) := join_in_order (add_all N (snd L)) t in ((fst L, N) :: js, ok)
  end.
Definition join_ranked_once (N : list nat) (loops : list (list nat)) :=
  let ls := number loops in
  join_in_order N (filter (fun L => negb (disjointb (snd L) N)) ls ++ filter (fun L => disjointb (snd L) N) ls).

Definition join_case (N : list nat) (loops : list (list nat))
           (exp_calls : list (nat * list nat)) (exp_ok : bool) : bool :=
  let '(js, ok) := join_order N loops in
  Bool.eqb ok exp_ok
  && list_eqb (fun a b => Nat.eqb (fst a) (fst b) && set_eqb (snd a) (snd b)) js exp_calls.

(* ------------------------------------------------------------------ part 4: Network.sort on nested paths
   Items are units or sub-networks.  PathSource(Network) (network.py:2104-2117):
     units           = union over the units of the sub-network of their downstream units (one shared set,
                       get_downstream_units called with downstream_units=units for each of them)
     downstream_from = self is not other and any([i in other.units for i in source.units])
   Items carry their position in the path as a tag, which plays the role of object identity
   (`self is not other`).  Network.units of a sub-network is taken to be the units of its path
   (the harness asserts this on every observed network; part 5 is about that invariant).
   [all] lists every stream, feeds and products included, with [nounit] for a missing end. *)
Definition nounit : nat := 99.

Definition down_item (es : list edge) (ends : list nat) (x : item) : list nat :=
  match x with
  | IUnit u => downstream es ends u
  | INet _ _ => fold_left (fun s u => dloop (S (length es)) es ends s (nbrs es ends u)) (flat x) []
  end.

Definition titem := (nat * item)%type.

(* item_reach x u = u.downstream_from(x) *)
Definition item_reach (es : list edge) (ends : list nat) (x u : titem) : bool :=
  match snd u with
  | IUnit v => memb v (down_item es ends (snd x))
  | INet _ _ => negb (fst x =? fst u)
                && existsb (fun a => memb a (down_item es ends (snd x))) (flat (snd u))
  end.

(* tmo.utils.streams_from_units(network.units), unit.outs, unit.ins as stream ids *)
Definition streams_of (all : list edge) (X : list nat) : list nat :=
  map sid (filter (fun e => memb (src e) X || memb (dst e) X) all).
Definition outs_of (all : list edge) (u : nat) : list nat := map sid (filter (fun e => src e =? u) all).
Definition ins_of (all : list edge) (u : nat) : list nat := map sid (filter (fun e => dst e =? u) all).
Definition inter (a b : list nat) : list nat := filter (fun x => memb x b) a.

(* the `recycles` of the mutual-reachability branch; u = upstream = path[i], y = downstream = path[j] *)
Definition item_direct (all : list edge) (ends : list nat) (u y : titem) : list nat :=
  let cand :=
    match snd y, snd u with
    | INet _ _, INet _ _ => inter (streams_of all (flat (snd y))) (streams_of all (flat (snd u)))
    | INet _ _, IUnit a => inter (streams_of all (flat (snd y))) (outs_of all a)
    | IUnit b, INet _ _ => inter (streams_of all (flat (snd u))) (outs_of all b)
    | IUnit b, IUnit a => filter (fun s => memb s (ins_of all b)) (outs_of all a)
    end in
  filter (fun s => negb (memb s ends)) cand.

(* Network.sort(ends): sub-networks first, then this level; add_recycle(set(recycles)) merges into
   the network's own recycle; second component = no 'path could not be determined' warning at any level *)
Fixpoint sort_tree (es all : list edge) (ends : list nat) (i : item) : item * bool :=
  match i with
  | IUnit u => (IUnit u, true)
  | INet p r =>
      let ps := map (sort_tree es all ends) p in
      let '(p2, stop, rs) := sort (item_reach es ends) (item_direct all ends) (number (map fst ps)) in
      (INet (map snd p2) (add_all r rs), forallb snd ps && stop)
  end.

Fixpoint item_eqb (a b : item) : bool :=
  match a, b with
  | IUnit u, IUnit v => u =? v
  | INet p r, INet q s =>
      (fix go (l m : list item) : bool :=
         match l, m with
         | [], [] => true
         | x :: l', y :: m' => item_eqb x y && go l' m'
         | _, _ => false
         end) p q && set_eqb r s
  | _, _ => false
  end.

(* every level of the (recursively sorted) tree is strictly ordered by item_reach: decidable *)
Fixpoint tree_strictb (es all : list edge) (ends : list nat) (i : item) : bool :=
  match i with
  | IUnit _ => true
  | INet p r =>
      forallb (tree_strictb es all ends) p
      && strict_onb (item_reach es ends) (number (map (fun x => fst (sort_tree es all ends x)) p))
  end.

Definition nsort_case (es all : list edge) (ends : list nat) (before after : item) (exp_ok : bool)
           (exp_down : list (list nat)) : bool :=
  let '(t, ok) := sort_tree es all ends before in
  item_eqb t after && Bool.eqb ok exp_ok
  && match before with
     | INet p _ => list_eqb set_eqb (map (down_item es ends) p) exp_down
     | IUnit _ => false
     end.

(* ------------------------------------------------------------------ part 5: path surgery
   Network objects as trees that keep the `units` attribute apart from the path, so that
   "units equals the units of the path" is a statement about the model and not built in.
   Transcribed from network.py: _remove_overlap, _append_linear_network, _insert_linear_network,
   _add_linear_network, join_linear_network, join_recycle_network, _insert_recycle_network,
   add_recycle, recycle_sink, get_recycle_units, isdisjoint.  Mutation in place becomes a returned
   tree; None = ValueError('networks must have units in common to join') or fuel exhausted.
   `recycle_sink` of a recycle *set* is the sink of whichever stream Python iterates first: that
   choice is an oracle [tbl] (observed by the harness) with the first listed stream as default. *)
Inductive net : Type :=
| NU (u : nat)
| NN (path : list net) (rc : list nat) (units : list nat).

Definition is_net (x : net) : bool := match x with NN _ _ _ => true | NU _ => false end.
Definition n_path (x : net) : list net := match x with NN p _ _ => p | NU _ => [] end.
Definition n_rc (x : net) : list nat := match x with NN _ r _ => r | NU _ => [] end.
Definition n_units (x : net) : list nat := match x with NN _ _ U => U | NU u => [u] end.
Definition set_path (x : net) (p : list net) : net := NN p (n_rc x) (n_units x).
Definition set_rc (x : net) (r : list nat) : net := NN (n_path x) r (n_units x).

Fixpoint flatn (x : net) : list nat :=
  match x with
  | NU u => [u]
  | NN p _ _ => flat_map flatn p
  end.

Definition unit_in (U : list nat) (x : net) : bool :=
  match x with NU u => memb u U | NN _ _ _ => false end.

(* list.remove(unit): the first occurrence *)
Fixpoint remove_unit (u : nat) (p : list net) : list net :=
  match p with
  | [] => []
  | NU v :: t => if v =? u then t else NU v :: remove_unit u t
  | x :: t => x :: remove_unit u t
  end.

(* Network._remove_overlap(network, path_tuple) on self.path *)
Definition remove_overlap (path : list net) (U : list nat) (path_tuple : list net) : list net :=
  fold_left (fun p i => match i with
                        | NU u => if memb u U then remove_unit u p else p
                        | NN _ _ _ => p
                        end) path_tuple path.

Definition insert_at {A} (i : nat) (x l : list A) : list A := firstn i l ++ x ++ skipn i l.

Definition append_linear (s n : net) : net :=
  NN (n_path s ++ n_path n) (n_rc s) (add_all (n_units s) (n_units n)).

Definition insert_linear (s : net) (index : nat) (n : net) : net :=
  NN (insert_at index (n_path n) (n_path s)) (n_rc s) (add_all (n_units s) (n_units n)).

Definition overlaps (a b : net) : bool := negb (disjointb (n_units a) (n_units b)).

Fixpoint find_index {A} (f : A -> bool) (l : list A) : option nat :=
  match l with
  | [] => None
  | x :: t => if f x then Some 0 else option_map S (find_index f t)
  end.

(* Network._add_linear_network *)
Fixpoint add_linear (s n : net) : net :=
  match s with
  | NU u => NU u
  | NN p r U =>
      let Un := n_units n in
      match (fix go (l : list net) : option (list net) :=
               match l with
               | [] => None
               | x :: t =>
                   if is_net x && overlaps n x then Some (add_linear x n :: t)
                   else option_map (cons x) (go t)
               end) p with
      | Some p' => NN (remove_overlap p' Un p) r (add_all U Un)
      | None =>
          let s1 := NN (remove_overlap p Un p) r U in
          match find_index (unit_in Un) p with
          | Some index => insert_linear s1 index n
          | None => append_linear s1 n
          end
      end
  end.

(* Network.join_linear_network *)
Fixpoint join_linear (fuel : nat) (s n : net) : net :=
  match fuel with
  | O => s
  | S f =>
      let Un := n_units n in
      let p := n_path s in
      (fix loop (l : list net) (index : nat) (cur : net) : net :=
         match l with
         | [] => append_linear cur n
         | NN _ _ Ux as x :: t =>
             if negb (disjointb Ux Un) then loop t (S index) (join_linear f cur x)
             else loop t (S index) cur
         | NU u :: t =>
             if memb u Un then insert_linear cur index n else loop t (S index) cur
         end) p 0 (set_path s (remove_overlap p Un p))
  end.

Section Surgery.
Variable es : list edge.            (* process streams *)
Variable all : list edge.           (* every stream, [nounit] for a missing end *)
Variable tbl : list (list nat * nat).  (* observed recycle_sink of recycle sets *)

Definition sink_of (s : nat) : nat :=
  match find (fun e => sid e =? s) all with Some e => dst e | None => nounit end.

(* Network.recycle_sink; nounit stands for None *)
Definition rsink (r : list nat) : nat :=
  match r with
  | [] => nounit
  | [s] => sink_of s
  | s :: _ => match find (fun kv => set_eqb (fst kv) r) tbl with
              | Some kv => snd kv
              | None => sink_of s
              end
  end.

(* Network.get_recycle_units: downstream and upstream closures without cut streams *)
Definition closure_all (g : list edge) (U : list nat) : list nat :=
  fold_left (fun s u => dloop (S (length g)) g [] s (nbrs g [] u)) U [].
Definition recycle_units (U : list nat) : list nat :=
  inter (closure_all es U) (closure_all (map (fun e => (sid e, dst e, src e)) es) U).

Definition obind {A B} (o : option A) (f : A -> option B) : option B :=
  match o with Some a => f a | None => None end.

(* rewrite the first element satisfying f with g (which may fail) *)
Fixpoint update_first {A} (f : A -> bool) (g : A -> option A) (l : list A) : option (option (list A)) :=
  match l with
  | [] => Some None
  | x :: t =>
      if f x then match g x with Some y => Some (Some (y :: t)) | None => None end
      else match update_first f g t with
           | Some (Some t') => Some (Some (x :: t'))
           | Some None => Some None
           | None => None
           end
  end.

Definition pop_if_closed (seg : list net) : list net :=
  match seg, rev seg with
  | NU a :: _ :: _, NU b :: _ => if a =? b then removelast seg else seg
  | _, _ => seg
  end.

(* Network.join_recycle_network and Network._insert_recycle_network *)
Fixpoint join_recycle (fuel : nat) (s n : net) : option net :=
  match fuel with
  | O => None
  | S f =>
      let feed_forward := Some (add_linear (set_rc s (add_all (n_rc s) (n_rc n))) (set_rc n [])) in
      if rsink (n_rc s) =? rsink (n_rc n) then feed_forward
      else
        let p := n_path s in
        let Un := n_units n in
        match update_first (fun x => is_net x && overlaps n x) (fun x => join_recycle f x n) p with
        | None => None
        | Some (Some p') => Some (NN (remove_overlap p' Un p) (n_rc s) (add_all (n_units s) Un))
        | Some None =>
            if negb (is_nil (n_rc s)) then feed_forward
            else match find_index (unit_in Un) p with
                 | Some index => insert_recycle f s index n p
                 | None => None
                 end
        end
  end
with insert_recycle (fuel : nat) (s : net) (index : nat) (n : net) (path_tuple : list net) : option net :=
  match fuel with
  | O => None
  | S f =>
      let p := n_path s in
      let RU := recycle_units (n_units n) in
      let tail := skipn index p in
      let merged x := is_net x && negb (disjointb (n_units x) RU) in
      obind (fold_left (fun acc x => obind acc (fun nc => if merged x then join_recycle f nc x else Some nc))
                       tail (Some n))
        (fun n1 =>
           let seg := filter (unit_in RU) tail in
           let segU := add_all [] (flat_map flatn seg) in
           let n2 := if negb (subsetb segU (n_units n1))
                     then add_linear n1 (NN (pop_if_closed seg) [] segU) else n1 in
           let p1 := firstn index p ++ filter (fun x => negb (merged x)) tail in
           let p2 := remove_overlap p1 (n_units n2) path_tuple in
           Some (NN (insert_at index [n2] p2) (n_rc s) (add_all (n_units s) (n_units n2))))
  end.
End Surgery.

Fixpoint net_eqb (a b : net) : bool :=
  match a, b with
  | NU u, NU v => u =? v
  | NN p r U, NN q s V =>
      (fix go (l m : list net) : bool :=
         match l, m with
         | [], [] => true
         | x :: l', y :: m' => net_eqb x y && go l' m'
         | _, _ => false
         end) p q && set_eqb r s && set_eqb U V
  | _, _ => false
  end.

Definition onet_eqb (a : option net) (b : option net) : bool :=
  match a, b with
  | Some x, Some y => net_eqb x y
  | None, None => true
  | _, _ => false
  end.

(* the two invariants: no unit twice in the flattened path; units = units of the path, at every level *)
Fixpoint units_okb (x : net) : bool :=
  match x with
  | NU _ => true
  | NN p _ U => set_eqb U (flat_map flatn p) && forallb units_okb p
  end.
Definition nodup_pathb (x : net) : bool := nodupb (flatn x).

(* one recorded surgery call *)
Inductive step : Type :=
| SRemoveOverlap (s : net) (U : list nat) (path_tuple : list net)
| SAppendLinear (s n : net)
| SInsertLinear (s : net) (index : nat) (n : net)
| SAddLinear (s n : net)
| SJoinLinear (s n : net)
| SJoinRecycle (s n : net)
| SInsertRecycle (s : net) (index : nat) (n : net) (path_tuple : list net).

Definition run_step (es all : list edge) (tbl : list (list nat * nat)) (st : step) : option net :=
  match st with
  | SRemoveOverlap s U pt => Some (set_path s (remove_overlap (n_path s) U pt))
  | SAppendLinear s n => Some (append_linear s n)
  | SInsertLinear s i n => Some (insert_linear s i n)
  | SAddLinear s n => Some (add_linear s n)
  | SJoinLinear s n => Some (join_linear 20 s n)
  | SJoinRecycle s n => join_recycle es all tbl 20 s n
  | SInsertRecycle s i n pt => insert_recycle es all tbl 20 s i n pt
  end.

(* the invariants on the result of a step (the receiver of _remove_overlap is in mid-surgery) *)
Definition step_post (st : step) (r : option net) : bool :=
  match st, r with
  | SRemoveOverlap _ _ _, _ => true
  | _, Some x => units_okb x && nodup_pathb x
  | _, None => true
  end.

Definition step_case (es all : list edge) (tbl : list (list nat * nat)) (st : step)
           (after : option net) : bool :=
  let r := run_step es all tbl st in onet_eqb r after && step_post st r.

(* ------------------------------------------------------------------ part 6: path finding
   find_linear_and_cyclic_paths_with_recycle (network.py): fill_path (depth-first walk that follows
   the outlets other than the first on copies of the path, then the first outlet on the path itself;
   `ends` grows while walking), path_with_recycle_to_cyclic_path_with_recycle, the stable sort of the
   cyclic paths by decreasing length, and simplified_linear_paths (stable sort by length, units
   that occur in a longer path are removed from the shorter one, empty fragments dropped,
   result reversed: longest first).  Streams of [all] are listed in outlet-port order. *)
Definition out_streams (all : list edge) (u : nat) : list edge := filter (fun e => src e =? u) all.

Record pstate : Type := mkp {
  with_rc : list (list nat * nat);    (* paths_with_recycle: (path, recycle stream) *)
  without_rc : list (list nat);       (* paths_without_recycle *)
  pends : list nat                    (* ends *)
}.
Definition add_without (p : list nat) (st : pstate) : pstate :=
  mkp (with_rc st) (without_rc st ++ [p]) (pends st).
Definition add_with (p : list nat) (s : nat) (st : pstate) : pstate :=
  mkp (with_rc st ++ [(p, s)]) (without_rc st) (if memb s (pends st) then pends st else pends st ++ [s]).

Fixpoint fill (fuel : nat) (all : list edge) (feed : edge) (path : list nat) (st : pstate) : pstate :=
  match fuel with
  | O => st
  | S f =>
      let u := dst feed in
      if u =? nounit then add_without path st
      else if memb (sid feed) (pends st) then add_without path st
      else if memb u path then
        match out_streams all u with
        | [o] => if memb (sid o) (pends st) then add_without path st else add_with path (sid feed) st
        | _ => add_with path (sid feed) st
        end
      else
        let path' := path ++ [u] in
        match out_streams all u with
        | [] => st
        | first :: others =>
            fill f all first path' (fold_left (fun st o => fill f all o path' st) others st)
        end
  end.

Fixpoint drop_until (u : nat) (p : list nat) : list nat :=
  match p with
  | [] => []
  | x :: t => if x =? u then p else drop_until u t
  end.

Fixpoint ins_asc (x : list nat) (l : list (list nat)) : list (list nat) :=
  match l with
  | [] => [x]
  | y :: t => if length x <=? length y then x :: y :: t else y :: ins_asc x t
  end.
Definition sort_len_asc (l : list (list nat)) : list (list nat) := fold_right ins_asc [] l.

Fixpoint ins_desc (x : list nat * nat) (l : list (list nat * nat)) : list (list nat * nat) :=
  match l with
  | [] => [x]
  | y :: t => if length (fst y) <=? length (fst x) then x :: y :: t else y :: ins_desc x t
  end.
Definition sort_len_desc (l : list (list nat * nat)) : list (list nat * nat) := fold_right ins_desc [] l.

(* simplify_linear_path over the sorted list: drop the units that occur in a later (longer) path *)
Fixpoint simp (lp : list (list nat)) : list (list nat) :=
  match lp with
  | [] => []
  | p :: rest => filter (fun u => negb (existsb (memb u) rest)) p :: simp rest
  end.

Definition simplified (paths : list (list nat)) : list (list nat) :=
  rev (filter (fun p => negb (is_nil p)) (simp (sort_len_asc paths))).

Definition find_paths (all : list edge) (feed : edge) (ends : list nat)
  : list (list nat) * list (list nat * nat) * list nat :=
  let st := fill (S (length all)) all feed [] (mkp [] [] ends) in
  (simplified (without_rc st),
   sort_len_desc (map (fun pr => (drop_until (sink_of all (snd pr)) (fst pr), snd pr)) (with_rc st)),
   pends st).

Definition paths_case (all : list edge) (feed : nat) (ends : list nat)
           (exp_linear : list (list nat)) (exp_cyclic : list (list nat * nat)) (exp_ends : list nat) : bool :=
  match find (fun e => sid e =? feed) all with
  | None => false
  | Some fe =>
      let '(lin, cyc, ends') := find_paths all fe ends in
      list_eqb (list_eqb Nat.eqb) lin exp_linear
      && list_eqb (fun a b => list_eqb Nat.eqb (fst a) (fst b) && (snd a =? snd b)) cyc exp_cyclic
      && set_eqb ends' exp_ends
  end.

(* ------------------------------------------------------------------ part 7: whole methods of the multi-feed phase
   Network.join_network_at_unit, Network._append_network and Network.reduce_recycles (network.py), on the
   trees of part 5.  join_network_at_unit mutates its argument (`network.recycle = None` in the feed-forward
   branch, the merges of _insert_recycle_network), and its recursive branch reads `network.units` after the
   nested call, so the model returns the pair (receiver, argument) after the call.  None = ValueError. *)
Section Whole.
Variable es : list edge.
Variable all : list edge.
Variable tbl : list (list nat * nat).

(* the `network` argument of _insert_recycle_network after the call (same fuel convention as insert_recycle) *)
Definition ir_arg (fuel : nat) (s : net) (index : nat) (n : net) : option net :=
  match fuel with
  | O => None
  | S f =>
      let p := n_path s in
      let RU := recycle_units es (n_units n) in
      let tail := skipn index p in
      let merged x := is_net x && negb (disjointb (n_units x) RU) in
      obind (fold_left (fun acc x => obind acc (fun nc => if merged x then join_recycle es all tbl f nc x else Some nc))
                       tail (Some n))
        (fun n1 =>
           let seg := filter (unit_in RU) tail in
           let segU := add_all [] (flat_map flatn seg) in
           Some (if negb (subsetb segU (n_units n1))
                 then add_linear n1 (NN (pop_if_closed seg) [] segU) else n1))
  end.

(* Network.join_network_at_unit(network, unit) *)
Fixpoint join_at (fuel : nat) (s n : net) (unit : nat) : option (net * net) :=
  match fuel with
  | O => None
  | S f =>
      let p := n_path s in
      let has_rc := negb (is_nil (n_rc n)) in
      (fix loop (l : list net) (index : nat) : option (net * net) :=
         match l with
         | [] => Some (join_linear (S f) s n, n)
         | NN _ _ Ux as item :: t =>
             if memb unit Ux then
               if has_rc then
                 match join_at f item n unit with
                 | Some (item', n') =>
                     Some (NN (firstn index p ++ item' :: t) (n_rc s) (add_all (n_units s) (n_units n')), n')
                 | None => None
                 end
               else Some (insert_linear s index n, n)
             else loop t (S index)
         | NU u :: t =>
             if u =? unit then
               if has_rc then
                 if negb (is_nil (n_rc s)) then
                   Some (insert_linear (set_rc s (add_all (n_rc s) (n_rc n))) index (set_rc n []), set_rc n [])
                 else match insert_recycle es all tbl (S f) s index n p, ir_arg (S f) s index n with
                      | Some r, Some n' => Some (r, n')
                      | _, _ => None
                      end
               else Some (insert_linear s index n, n)
             else loop t (S index)
         end) p 0
  end.

(* Network._append_network(network) *)
Definition append_network (s n : net) : net :=
  if negb (is_nil (n_rc s)) then
    let new := NN (n_path s) (n_rc s) (n_units s) in
    NN (if negb (is_nil (n_rc n)) then [new; n] else new :: n_path n) [] (add_all (n_units s) (n_units n))
  else if negb (is_nil (n_rc n)) then
    NN (n_path s ++ [n]) (n_rc s) (add_all (n_units s) (n_units n))       (* _append_recycle_network *)
  else append_linear s n.

(* Network.reduce_recycles.  A recycle that `isinstance(recycle, set)` holds at least two streams and a
   recycle that is a single stream is not a set when reduce_recycles runs (sets only arise from add_recycle
   merging two different recycles; the harness asserts this on every recorded call), so the test is on the
   length.  sink.outs[0] / source.ins[0] are only read when they are the only outlet / inlet.
   None = AttributeError on a recycle stream without sink / source. *)
Definition source_of (s : nat) : nat :=
  match find (fun e => sid e =? s) all with Some e => src e | None => nounit end.

Definition reduce_rc (r : list nat) : option (list nat) :=
  if 2 <=? length r then
    match add_all [] (map (sink_of all) r) with
    | [k] => if k =? nounit then None
             else match outs_of all k with [o] => Some [o] | _ => Some r end
    | _ => match add_all [] (map source_of r) with
           | [k] => if k =? nounit then None
                    else match ins_of all k with [i] => Some [i] | _ => Some r end
           | _ => Some r
           end
    end
  else Some r.

Fixpoint sequence {A} (l : list (option A)) : option (list A) :=
  match l with
  | [] => Some []
  | Some x :: t => option_map (cons x) (sequence t)
  | None :: _ => None
  end.

Fixpoint reduce (x : net) : option net :=
  match x with
  | NU u => Some (NU u)
  | NN p r U =>
      obind (sequence (map reduce p))
        (fun p1 =>
           let '(p2, r2) := match p1 with
                            | [NN q rq _] => (q, add_all r rq)
                            | _ => (p1, r)
                            end in
           option_map (fun r3 => NN p2 r3 U) (reduce_rc r2))
  end.
End Whole.

(* post = the call was made by from_feedstock: the invariants are evaluated on the result as for the other steps *)
Definition join_at_case (post : bool) (es all : list edge) (tbl : list (list nat * nat)) (s n : net) (unit : nat)
           (after : option (net * net)) : bool :=
  match join_at es all tbl 20 s n unit, after with
  | Some (a, b), Some (a', b') => net_eqb a a' && net_eqb b b' && implb post (units_okb a && nodup_pathb a)
  | None, None => true
  | _, _ => false
  end.

Definition append_network_case (post : bool) (s n after : net) : bool :=
  let r := append_network s n in net_eqb r after && implb post (units_okb r && nodup_pathb r).

(* reduce_recycles changes neither `units` nor the flattened path *)
Definition reduce_case (all : list edge) (s : net) (after : option net) : bool :=
  let r := reduce all s in
  onet_eqb r after
  && match r with
     | Some x => list_eqb Nat.eqb (flatn x) (flatn s) && set_eqb (n_units x) (n_units s)
     | None => true
     end.
