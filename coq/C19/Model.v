(* C19 — executable definitions only (no lemmas).

   Part 1: model of thermosteam.network.Network.sort (network.py:2419-2455) on a path of
   items, transcribed loop for loop:

       for _ in range(N * N):                       sort_loop (N*N)
           stop = True
           for i in range(N - 1):                   sweep
               upstream = path_sources[i]
               for j in range(i + 1, N):            split_first  (first j > i with
                   downstream = path_sources[j]                    path[i] downstream of path[j])
                   if upstream.downstream_from(downstream):
                       if downstream.downstream_from(upstream):    mutual: recycles, no move
                           ... recycles = streams from path[i] to path[j] not in ends
                           if recycles: self.add_recycle(set(recycles)); stop = False
                       else:                                       move path[j] to position i
                           path_sources.remove(downstream)
                           path_sources.insert(i, downstream); stop = False
                       break
           if stop: break
       if not stop: warn('network path could not be determined')

   plus PathSource / AbstractUnit.get_downstream_units (network.py:2100-2117, 1740-1766) on a
   unit/stream graph given as an edge list.

   Part 2: certificate checker for complete Network.from_units results (nested path with
   recycles), see [check]. *)
From V Require Export Common.Num.
Local Open Scope nat_scope.

(* ------------------------------------------------------------------ part 1: Network.sort *)
Section Sort.
Variables (U St : Type).
(* reach a b: b is in PathSource(a).units, i.e. b.downstream_from(a) *)
Variable reach : U -> U -> bool.
(* direct a b: the streams [i for i in a.outs if i in b.ins] that are not in ends *)
Variable direct : U -> U -> list St.

(* the inner `for j` loop: first x in l with u downstream of x, as (before, x, after) *)
Fixpoint split_first (u : U) (l : list U) : option (list U * U * list U) :=
  match l with
  | [] => None
  | x :: t =>
      if reach x u then Some ([], x, t)
      else match split_first u t with
           | Some (b, y, a) => Some (x :: b, y, a)
           | None => None
           end
  end.

(* one pass of `for i`; result: (path, stop = False was assigned, recycles passed to add_recycle) *)
Fixpoint sweep (fuel : nat) (l : list U) : list U * bool * list St :=
  match fuel, l with
  | S f, u :: t =>
      match split_first u t with
      | Some (b, y, a) =>
          if reach u y then
            (* mutually downstream: path unchanged, recycle added when there is a direct stream *)
            let rc := direct u y in
            let '(r, m, rs) := sweep f t in
            (u :: r, (match rc with [] => false | _ => true end) || m, rc ++ rs)
          else
            (* y moves to position i; position i+1 now holds u *)
            let '(r, _, rs) := sweep f (u :: b ++ a) in
            (y :: r, true, rs)
      | None => let '(r, m, rs) := sweep f t in (u :: r, m, rs)
      end
  | _, _ => (l, false, [])
  end.

(* the outer `for _ in range(N*N)` loop; second component = final value of `stop` *)
Fixpoint sort_loop (n : nat) (l : list U) : list U * bool * list St :=
  match n with
  | O => (l, false, [])
  | S k =>
      let '(r, changed, rs) := sweep (length l) l in
      if changed then let '(r', stop, rs') := sort_loop k r in (r', stop, rs ++ rs')
      else (r, true, rs)
  end.

(* Network.sort on a path without sub-networks: (new path, stop (= no warning), recycles added) *)
Definition sort (l : list U) : list U * bool * list St :=
  match l with
  | [] => (l, true, [])                     (* `if not N: return` *)
  | _ => sort_loop (length l * length l) l
  end.

Definition sorted_path (l : list U) : list U := fst (fst (sort l)).
Definition sort_stop (l : list U) : bool := snd (fst (sort l)).
Definition sort_recycles (l : list U) : list St := snd (sort l).
End Sort.

Arguments split_first {U} reach u l.
Arguments sweep {U St} reach direct fuel l.
Arguments sort_loop {U St} reach direct n l.
Arguments sort {U St} reach direct l.
Arguments sorted_path {U St} reach direct l.
Arguments sort_stop {U St} reach direct l.
Arguments sort_recycles {U St} reach direct l.

(* decidable: reach is a strict partial order on the items of l (irreflexive, transitive) *)
Definition strict_onb {U} (reach : U -> U -> bool) (l : list U) : bool :=
  forallb (fun a => negb (reach a a)) l &&
  forallb (fun a => forallb (fun b => forallb (fun c =>
     implb (reach a b && reach b c) (reach a c)) l) l) l.

(* ---- the unit/stream graph: (stream id, source unit, sink unit) for every process stream *)
Definition edge := (nat * nat * nat)%type.
Definition sid (e : edge) : nat := fst (fst e).
Definition src (e : edge) : nat := snd (fst e).
Definition dst (e : edge) : nat := snd e.

Definition memb (x : nat) (l : list nat) : bool := existsb (Nat.eqb x) l.

(* AbstractUnit._add_downstream_neighbors_to_set(ends, universal=False); no unit is universal *)
Definition nbrs (es : list edge) (ends : list nat) (u : nat) : list nat :=
  map dst (filter (fun e => (src e =? u) && negb (memb (sid e) ends)) es).

(* set.update, sets as duplicate-free lists *)
Definition add_all (s l : list nat) : list nat :=
  fold_left (fun s x => if memb x s then s else s ++ [x]) l s.

(* the `while new_length != old_length` loop of get_downstream_units *)
Fixpoint dloop (fuel : nat) (es : list edge) (ends : list nat) (s outer : list nat) : list nat :=
  match fuel with
  | O => s
  | S f =>
      let s' := add_all s outer in
      let outer' := flat_map (nbrs es ends) outer in
      if length s' =? length s then s' else dloop f es ends s' outer'
  end.

(* PathSource(u, ends).units *)
Definition downstream (es : list edge) (ends : list nat) (u : nat) : list nat :=
  dloop (S (length es)) es ends [] (nbrs es ends u).

Definition reach_of (es : list edge) (ends : list nat) (a b : nat) : bool :=
  memb b (downstream es ends a).

Definition direct_of (es : list edge) (ends : list nat) (a b : nat) : list nat :=
  map sid (filter (fun e => (src e =? a) && (dst e =? b) && negb (memb (sid e) ends)) es).

Definition sort_graph (es : list edge) (ends : list nat) (path : list nat) :=
  sort (reach_of es ends) (direct_of es ends) path.

(* ---- comparison with the observed run *)
Definition subsetb (a b : list nat) : bool := forallb (fun x => memb x b) a.
Definition set_eqb (a b : list nat) : bool := subsetb a b && subsetb b a.

Definition sort_case (es : list edge) (ends path : list nat)
           (exp_path : list nat) (exp_stop : bool) (exp_recycles : list nat)
           (exp_down : list (list nat)) (exp_strict : bool) : bool :=
  let '(r, stop, rs) := sort_graph es ends path in
  list_eqb Nat.eqb r exp_path && Bool.eqb stop exp_stop && set_eqb rs exp_recycles
  && list_eqb set_eqb (map (downstream es ends) path) exp_down
  && Bool.eqb exp_strict (strict_onb (reach_of es ends) path).

(* ------------------------------------------------------------------ part 2: certificate checker *)
(* a Network: path of units and sub-networks, with the recycle streams it carries *)
Inductive item : Type :=
| IUnit (u : nat)
| INet (p : list item) (r : list nat).

(* units in path order, sub-networks expanded in place *)
Fixpoint flat (i : item) : list nat :=
  match i with
  | IUnit u => [u]
  | INet p _ => flat_map flat p
  end.

(* every (sub-)network as (its units, its recycle streams), the network itself first *)
Fixpoint subnets (i : item) : list (list nat * list nat) :=
  match i with
  | IUnit _ => []
  | INet p r => (flat_map flat p, r) :: flat_map subnets p
  end.

(* Network.get_all_recycles *)
Fixpoint all_recycles (i : item) : list nat :=
  match i with
  | IUnit _ => []
  | INet p r => r ++ flat_map all_recycles p
  end.

Fixpoint index (x : nat) (l : list nat) : option nat :=
  match l with
  | [] => None
  | y :: t => if x =? y then Some 0 else option_map S (index x t)
  end.

Definition count (x : nat) (l : list nat) : nat := length (filter (Nat.eqb x) l).

Fixpoint nodupb (l : list nat) : bool :=
  match l with
  | [] => true
  | x :: t => negb (memb x t) && nodupb t
  end.

Definition is_nil {A} (l : list A) : bool := match l with [] => true | _ => false end.

(* the path holds every given unit exactly once and nothing else *)
Definition perm_check (units path : list nat) : bool :=
  nodupb units && forallb (fun u => count u path =? 1) units && forallb (fun u => memb u units) path.

(* stream e goes forward in the path *)
Definition forward (path : list nat) (e : edge) : bool :=
  match index (src e) path, index (dst e) path with
  | Some i, Some j => i <? j
  | _, _ => false
  end.

Definition in_path (path : list nat) (e : edge) : bool :=
  memb (src e) path && memb (dst e) path.

(* both ends inside one (sub-)network that carries a recycle *)
Definition covered (subs : list (list nat * list nat)) (u v : nat) : bool :=
  existsb (fun mr => negb (is_nil (snd mr)) && memb u (fst mr) && memb v (fst mr)) subs.

Definition has_edge (es : list edge) (u v : nat) : bool :=
  existsb (fun e => (src e =? u) && (dst e =? v)) es.

(* cyc = u0 :: u1 :: ... is a closed walk: u0->u1->...->uk->u0 *)
Fixpoint walk_check (es : list edge) (first : nat) (c : list nat) : bool :=
  match c with
  | [] => false
  | [u] => has_edge es u first
  | u :: ((v :: _) as t) => has_edge es u v && walk_check es first t
  end.
Definition cycle_check (es : list edge) (c : list nat) : bool :=
  match c with [] => false | u :: _ => walk_check es u c end.

Definition check_acyclic (units : list nat) (es : list edge) (net : item) : bool :=
  perm_check units (flat net) && forallb (forward (flat net)) es && is_nil (all_recycles net).

Definition check_cyclic (units : list nat) (es : list edge) (net : item) (cyc : list nat) : bool :=
  perm_check units (flat net) && negb (is_nil (all_recycles net)) && cycle_check es cyc
  && forallb (fun e => in_path (flat net) e
                       && (forward (flat net) e || covered (subnets net) (src e) (dst e))) es.

(* cyc = [] claims "the flowsheet has no cycle"; otherwise cyc is a cycle of the flowsheet *)
Definition check (units : list nat) (es : list edge) (net : item) (cyc : list nat) : bool :=
  if is_nil cyc then check_acyclic units es net else check_cyclic units es net cyc.

(* ------------------------------------------------------------------ part 3: order in which
   Network.from_feedstock joins the recycle loops found by fill_path (network.py, the
   `while recycle_networks:` block):

       while recycle_networks:
           for recycle_network in recycle_networks:                      pick
               if not network.isdisjoint(recycle_network): break
           else:
               recycle_network = recycle_networks[0]
           recycle_networks = [i for i in recycle_networks if i is not recycle_network]
           network.join_recycle_network(recycle_network)

   Abstraction of join_recycle_network on the top-level network (whose own recycle is None at
   this stage): it raises ValueError('networks must have units in common to join') when the loop
   shares no unit with the network, otherwise network.units becomes the union.  Loops carry their
   position in the list returned by find_linear_and_cyclic_paths_with_recycle. *)
Definition disjointb (a b : list nat) : bool := forallb (fun x => negb (memb x b)) a.

Definition loop := (nat * list nat)%type.

Fixpoint pick (N : list nat) (ls : list loop) : option (list loop * loop * list loop) :=
  match ls with
  | [] => None
  | L :: t =>
      if disjointb (snd L) N then
        match pick N t with
        | Some (b, x, a) => Some (L :: b, x, a)
        | None => None
        end
      else Some ([], L, t)
  end.

(* result: the calls network.join_recycle_network(loop) made, as (loop position, network.units
   before the call), and whether all of them returned (false = the last one raised) *)
Fixpoint join_loops (fuel : nat) (N : list nat) (ls : list loop) : list (nat * list nat) * bool :=
  match fuel with
  | O => ([], true)
  | S f =>
      match ls with
      | [] => ([], true)
      | first :: rest =>
          let '(b, L, a) := match pick N ls with Some x => x | None => ([], first, rest) end in
          if disjointb (snd L) N then ([(fst L, N)], false)
          else let '(js, ok) := join_loops f (add_all N (snd L)) (b ++ a) in ((fst L, N) :: js, ok)
      end
  end.

Definition number {A} (l : list A) : list (nat * A) := combine (seq 0 (length l)) l.

Definition join_order (N : list nat) (loops : list (list nat)) :=
  join_loops (length loops) N (number loops).

(* the variant that ranks the loops once, before the first join (stable sort on `isdisjoint`),
   and then joins them in that order: kept only to show that it is NOT equivalent *)
Fixpoint join_in_order (N : list nat) (ls : list loop) : list (nat * list nat) * bool :=
  match ls with
  | [] => ([], true)
  | L :: t =>
      if disjointb (snd L) N then ([(fst L, N)], false)
      else let '(js, ok) := join_in_order (add_all N (snd L)) t in ((fst L, N) :: js, ok)
  end.
Definition join_ranked_once (N : list nat) (loops : list (list nat)) :=
  let ls := number loops in
  join_in_order N (filter (fun L => negb (disjointb (snd L) N)) ls ++ filter (fun L => disjointb (snd L) N) ls).

Definition join_case (N : list nat) (loops : list (list nat))
           (exp_calls : list (nat * list nat)) (exp_ok : bool) : bool :=
  let '(js, ok) := join_order N loops in
  Bool.eqb ok exp_ok
  && list_eqb (fun a b => Nat.eqb (fst a) (fst b) && set_eqb (snd a) (snd b)) js exp_calls.
