(* C19 — lemmas about the path-finding model (Model.v part 6): fill_path and simplified_linear_paths. *)
From Coq Require Import Permutation Sorted.
From V Require Import C19.Model C19.Proofs.
Local Open Scope nat_scope.

Lemma nodup_app : forall (a b : list nat), NoDup a -> NoDup b -> (forall x, In x a -> ~ In x b) -> NoDup (a ++ b).
Proof.
  induction a as [|x a IH]; intros b Na Nb D; [exact Nb|]. inversion Na; subst. cbn. constructor.
  - rewrite in_app_iff. intros [H|H]; [contradiction|]. exact (D x (or_introl eq_refl) H).
  - apply IH; auto. intros y Hy. apply D. right. exact Hy.
Qed.

Lemma nodup_filter : forall (f : nat -> bool) l, NoDup l -> NoDup (filter f l).
Proof.
  intros f l N. induction N as [|x l Hx N IH]; cbn; [constructor|].
  destruct (f x); [|exact IH]. constructor; [|exact IH]. intros H. apply filter_In in H. tauto.
Qed.

Lemma existsb_memb : forall u (rest : list (list nat)), existsb (memb u) rest = true <-> In u (concat rest).
Proof.
  intros u rest. rewrite existsb_exists, in_concat. split.
  - intros (p & Hp & M). exists p. split; [exact Hp|apply memb_In; exact M].
  - intros (p & Hp & M). exists p. split; [exact Hp|apply memb_In; exact M].
Qed.

(* ---- simp *)
Lemma simp_incl : forall lp u, In u (concat (simp lp)) -> In u (concat lp).
Proof.
  induction lp as [|p rest IH]; intros u H; [exact H|]. cbn [simp concat] in *.
  rewrite in_app_iff in *. destruct H as [H|H]; [left; apply filter_In in H; tauto|right; auto].
Qed.

Lemma simp_units : forall lp u, In u (concat lp) -> In u (concat (simp lp)).
Proof.
  induction lp as [|p rest IH]; intros u H; [exact H|]. cbn [simp concat] in *. rewrite in_app_iff in *.
  destruct (existsb (memb u) rest) eqn:E.
  - right. apply IH. apply existsb_memb. exact E.
  - destruct H as [H|H]; [left; apply filter_In; rewrite E; auto|].
    apply existsb_memb in H. rewrite H in E. discriminate.
Qed.

Lemma simp_nodup : forall lp, Forall (@NoDup nat) lp -> NoDup (concat (simp lp)).
Proof.
  induction lp as [|p rest IH]; intros F; [constructor|]. inversion F; subst. cbn [simp concat].
  apply nodup_app; [apply nodup_filter; assumption|apply IH; assumption|].
  intros x Hx Hr. apply filter_In in Hx. destruct Hx as (_ & Hx).
  apply simp_incl, existsb_memb in Hr. rewrite Hr in Hx. discriminate.
Qed.

Lemma simp_last : forall lp, lp <> [] -> last (simp lp) [] = last lp [].
Proof.
  induction lp as [|p rest IH]; intros N; [contradiction|]. destruct rest as [|q rest'].
  - cbn. clear. induction p as [|x t IHt]; [reflexivity|]. cbn. f_equal. exact IHt.
  - change (simp (p :: q :: rest')) with (filter (fun u => negb (existsb (memb u) (q :: rest'))) p :: simp (q :: rest')).
    change (last (p :: q :: rest') []) with (last (q :: rest') []).
    rewrite <- IH by discriminate. cbn [simp]. reflexivity.
Qed.

(* ---- the stable sort by length *)
Lemma ins_asc_perm : forall x l, Permutation (ins_asc x l) (x :: l).
Proof.
  intros x l. induction l as [|y t IH]; [reflexivity|]. cbn [ins_asc].
  destruct (length x <=? length y); [reflexivity|].
  eapply Permutation_trans; [apply perm_skip; exact IH|apply perm_swap].
Qed.

Lemma sort_len_asc_perm : forall l, Permutation (sort_len_asc l) l.
Proof.
  induction l as [|x t IH]; [reflexivity|]. cbn [sort_len_asc fold_right].
  eapply Permutation_trans; [apply ins_asc_perm|apply perm_skip; exact IH].
Qed.

Definition le_len (a b : list nat) : Prop := length a <= length b.

Lemma ins_asc_sorted : forall x l, StronglySorted le_len l -> StronglySorted le_len (ins_asc x l).
Proof.
  intros x l S. induction S as [|y t S IH F]; [repeat constructor|]. cbn [ins_asc].
  destruct (length x <=? length y) eqn:E.
  - apply Nat.leb_le in E. constructor; [constructor; assumption|].
    constructor; [exact E|]. eapply Forall_impl; [|exact F]. intros z Hz. unfold le_len in *. lia.
  - apply Nat.leb_gt in E. constructor; [exact IH|].
    eapply Permutation_Forall; [apply Permutation_sym, ins_asc_perm|].
    constructor; [unfold le_len; lia|exact F].
Qed.

Lemma sort_len_asc_sorted : forall l, StronglySorted le_len (sort_len_asc l).
Proof. induction l as [|x t IH]; [constructor|]. apply ins_asc_sorted. exact IH. Qed.

Lemma sorted_last_max : forall l, StronglySorted le_len l -> forall p, In p l -> length p <= length (last l []).
Proof.
  intros l S. induction S as [|y t S IH F]; intros p H; [destruct H|].
  destruct t as [|z t']; [destruct H as [H|[]]; subst; cbn; lia|].
  change (last (y :: z :: t') []) with (last (z :: t') []).
  destruct H as [H|H]; [|apply IH; exact H]. subst p.
  rewrite Forall_forall in F. apply F.
  assert (NE : z :: t' <> []) by discriminate.
  destruct (exists_last NE) as (l' & a & E). rewrite E, last_last.
  apply in_or_app. right. left. reflexivity.
Qed.

(* ---- simplified_linear_paths *)
Lemma concat_filter_nonempty : forall (l : list (list nat)),
  concat (filter (fun p => negb (is_nil p)) l) = concat l.
Proof.
  induction l as [|p t IH]; [reflexivity|]. cbn [filter]. destruct p as [|x p']; cbn [is_nil negb concat].
  - exact IH.
  - rewrite IH. reflexivity.
Qed.

Lemma concat_rev_perm : forall (l : list (list nat)), Permutation (concat (rev l)) (concat l).
Proof.
  induction l as [|a t IH]; [reflexivity|]. cbn [rev concat]. rewrite concat_app. cbn [concat]. rewrite app_nil_r.
  eapply Permutation_trans; [apply Permutation_app_comm|]. apply Permutation_app_head. exact IH.
Qed.

Lemma simplified_perm_simp : forall paths,
  Permutation (concat (simplified paths)) (concat (simp (sort_len_asc paths))).
Proof.
  intros paths. unfold simplified.
  eapply Permutation_trans; [apply concat_rev_perm|]. rewrite concat_filter_nonempty. reflexivity.
Qed.

Lemma in_concat_perm : forall (l l' : list (list nat)) u, Permutation l l' -> In u (concat l) -> In u (concat l').
Proof.
  intros l l' u P H. apply in_concat in H. destruct H as (p & Hp & Hu). apply in_concat.
  exists p. split; [eapply Permutation_in; eauto|exact Hu].
Qed.

(* the fragments never share or repeat a unit *)
Lemma simplified_nodup : forall paths, Forall (@NoDup nat) paths -> NoDup (concat (simplified paths)).
Proof.
  intros paths F. eapply Permutation_NoDup; [apply Permutation_sym, simplified_perm_simp|].
  apply simp_nodup. eapply Permutation_Forall; [apply Permutation_sym, sort_len_asc_perm|exact F].
Qed.

(* they hold exactly the units of the walked paths *)
Lemma simplified_units : forall paths u, In u (concat (simplified paths)) <-> In u (concat paths).
Proof.
  intros paths u. split; intros H.
  - apply (Permutation_in _ (simplified_perm_simp paths)) in H. apply simp_incl in H.
    eapply in_concat_perm; [apply sort_len_asc_perm|exact H].
  - apply (Permutation_in _ (Permutation_sym (simplified_perm_simp paths))).
    apply simp_units. eapply in_concat_perm; [apply Permutation_sym, sort_len_asc_perm|exact H].
Qed.

Lemma last_cons : forall (p d : list nat) (r : list (list nat)), r <> [] -> last (p :: r) d = last r d.
Proof. intros p d r N. destruct r; [contradiction|reflexivity]. Qed.

Lemma last_filter_nonempty : forall (l : list (list nat)), last l [] <> [] ->
  last (filter (fun p => negb (is_nil p)) l) [] = last l [].
Proof.
  induction l as [|p r IH]; intros N; [reflexivity|]. destruct r as [|q t'].
  - cbn in *. destruct p; [contradiction|reflexivity].
  - remember (q :: t') as r eqn:Er. assert (Nr : r <> []) by (subst; discriminate).
    rewrite (last_cons p [] r Nr) in *. specialize (IH N).
    cbn [filter]. destruct (negb (is_nil p)); [|exact IH].
    destruct (filter (fun p0 => negb (is_nil p0)) r) as [|a r'] eqn:E.
    + cbn in IH. rewrite <- IH in N. contradiction.
    + rewrite last_cons by discriminate. exact IH.
Qed.

Lemma hd_rev_last : forall (l : list (list nat)), hd [] (rev l) = last l [].
Proof.
  intros l. destruct l as [|a t] using rev_ind; [reflexivity|]. rewrite rev_app_distr, last_last. reflexivity.
Qed.

(* the first fragment (the base network of from_feedstock) is a longest walked path, kept whole *)
Lemma simplified_head : forall paths, paths <> [] ->
  let L := last (sort_len_asc paths) [] in
  L <> [] ->
  hd [] (simplified paths) = L /\ In L paths /\ forall p, In p paths -> length p <= length L.
Proof.
  intros paths N L NL. unfold simplified.
  assert (NS : sort_len_asc paths <> []).
  { intros E. apply N. apply Permutation_nil. rewrite <- E. apply sort_len_asc_perm. }
  split; [|split].
  - rewrite hd_rev_last, last_filter_nonempty; rewrite simp_last; auto.
  - eapply Permutation_in; [apply sort_len_asc_perm|].
    destruct (exists_last NS) as (l' & a & E). unfold L. rewrite E, last_last.
    apply in_or_app. right. left. reflexivity.
  - intros p Hp. apply sorted_last_max; [apply sort_len_asc_sorted|].
    eapply Permutation_in; [apply Permutation_sym, sort_len_asc_perm|exact Hp].
Qed.

(* ---- fill_path: no walked path repeats a unit *)
Definition paths_ok (st : pstate) : Prop :=
  Forall (@NoDup nat) (without_rc st) /\ Forall (fun pr => NoDup (fst pr)) (with_rc st).

Lemma add_without_ok : forall p st, NoDup p -> paths_ok st -> paths_ok (add_without p st).
Proof.
  intros p st N (A & B). split; [|exact B]. cbn. apply Forall_app. split; [exact A|constructor; [exact N|constructor]].
Qed.

Lemma add_with_ok : forall p s st, NoDup p -> paths_ok st -> paths_ok (add_with p s st).
Proof.
  intros p s st N (A & B). split; [exact A|]. cbn. apply Forall_app. split; [exact B|constructor; [exact N|constructor]].
Qed.

Lemma fill_ok : forall fuel all feed path st, NoDup path -> paths_ok st -> paths_ok (fill fuel all feed path st).
Proof.
  induction fuel as [|f IH]; intros all feed path st N O; [exact O|]. cbn [fill].
  destruct (dst feed =? nounit); [apply add_without_ok; assumption|].
  destruct (memb (sid feed) (pends st)); [apply add_without_ok; assumption|].
  destruct (memb (dst feed) path) eqn:M.
  - destruct (out_streams all (dst feed)) as [|o [|o' t]]; try (apply add_with_ok; assumption).
    destruct (memb (sid o) (pends st)); [apply add_without_ok|apply add_with_ok]; assumption.
  - assert (N' : NoDup (path ++ [dst feed])).
    { apply nodup_app; [exact N|constructor; [intros []|constructor]|].
      intros x Hx [E|[]]. subst x. apply memb_In in Hx. rewrite Hx in M. discriminate. }
    destruct (out_streams all (dst feed)) as [|first others]; [exact O|].
    apply IH; [exact N'|].
    clear first. revert st O. induction others as [|o t IHt]; intros st O; [exact O|].
    cbn [fold_left]. apply IHt. apply IH; assumption.
Qed.

Lemma drop_until_nodup : forall u p, NoDup p -> NoDup (drop_until u p).
Proof.
  intros u p N. induction N as [|x t Hx N IH]; [constructor|]. cbn [drop_until].
  destruct (x =? u); [constructor; assumption|exact IH].
Qed.

Lemma ins_desc_perm : forall x l, Permutation (ins_desc x l) (x :: l).
Proof.
  intros x l. induction l as [|y t IH]; [reflexivity|]. cbn [ins_desc].
  destruct (length (fst y) <=? length (fst x)); [reflexivity|].
  eapply Permutation_trans; [apply perm_skip; exact IH|apply perm_swap].
Qed.

Lemma sort_len_desc_perm : forall l, Permutation (sort_len_desc l) l.
Proof.
  induction l as [|x t IH]; [reflexivity|]. cbn [sort_len_desc fold_right].
  eapply Permutation_trans; [apply ins_desc_perm|apply perm_skip; exact IH].
Qed.

(* what from_feedstock starts from, for every stream graph, feedstock and `ends`:
   linear fragments that never share or repeat a unit, loops without a repeated unit *)
Lemma find_paths_once : forall all feed ends lin cyc ends',
  find_paths all feed ends = (lin, cyc, ends') ->
  NoDup (concat lin) /\ Forall (fun pr => NoDup (fst pr)) cyc.
Proof.
  intros all feed ends lin cyc ends' H. unfold find_paths in H.
  assert (O : paths_ok (fill (S (length all)) all feed [] (mkp [] [] ends))).
  { apply fill_ok; [constructor|split; constructor]. }
  destruct O as (A & B). inversion H; subst. split.
  - apply simplified_nodup. exact A.
  - eapply Permutation_Forall; [apply Permutation_sym, sort_len_desc_perm|].
    apply Forall_forall. intros pr Hpr. apply in_map_iff in Hpr. destruct Hpr as (q & E & Hq). subst pr.
    cbn [fst]. apply drop_until_nodup. rewrite Forall_forall in B. exact (B q Hq).
Qed.
